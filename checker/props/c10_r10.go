package props

// Detection round 9 (seeded changes C10-vm1, C10-vm2, C10-vm3, C17-vm2).
//
//   D4/K1/move-resets-pending-schedule   every re-scheduling path of the move handler assigns BOTH the
//                                         pending entry's circle and diff anew, or tombstones the entry
//                                         (vm2: fast path returning with the old circle/diff in force;
//                                         C17-vm2: diff only assigned when the new remainder is > 0)
//   D4/K8/replacement-starts-unscheduled the entry linked in place of a tombstoned one does not inherit
//                                         circle/diff from the pending entry (vm1: struct copy)
//   D3/K5/due-batch-private-to-tick      the slice of due tasks handed to the asynchronous executor is
//                                         built during that tick, not a buffer kept in wheel state (vm3)

import (
	"fmt"
	"go/token"
	"go/types"
	"strings"

	"godcheck/core"

	"golang.org/x/tools/go/ssa"
)

// c10PendingStore: in stores to field tf ("timingEntry.circle") of an object that is not under
// construction in this function.
func c10PendingStore(in ssa.Instruction, tf string) bool {
	s, ok := in.(*ssa.Store)
	return ok && core.FieldAddrName(s.Addr) == tf && !freshRoot(s.Addr)
}

func c10Tombstones(in ssa.Instruction) bool {
	s, ok := in.(*ssa.Store)
	return ok && core.FieldAddrName(s.Addr) == "timingEntry.removed" && core.Describe(s.Val) == "const:true" && !freshRoot(s.Addr)
}

// c10MustDo: is `does` executed on every path of f from its entry to a return? A call of an
// in-package function that itself must do it counts (two levels).
func c10MustDo(g *pkgGraph, f *ssa.Function, does func(ssa.Instruction) bool, depth int) bool {
	if f == nil || f.Blocks == nil {
		return false
	}
	blk := c10DoesOrCalls(g, does, depth)
	_, escapes := core.Reach(core.Q{From: []core.At{core.Entry(f)}, Target: core.IsReturn, Blocked: blk})
	return !escapes
}

func c10DoesOrCalls(g *pkgGraph, does func(ssa.Instruction) bool, depth int) func(ssa.Instruction) bool {
	memo := map[*ssa.Function]int{}
	return func(in ssa.Instruction) bool {
		if does(in) {
			return true
		}
		if depth <= 0 {
			return false
		}
		c, ok := in.(*ssa.Call)
		if !ok {
			return false
		}
		callee := c.Call.StaticCallee()
		if callee == nil || !g.inPkg[callee] {
			return false
		}
		if v, ok := memo[callee]; ok {
			return v == 1
		}
		memo[callee] = 0
		if c10MustDo(g, callee, does, depth-1) {
			memo[callee] = 1
		}
		return memo[callee] == 1
	}
}

// c10EqPoly is the atom "want == 0" in any spelling: X == Y / X != Y with Norm(X) − Norm(Y) = ±want.
func c10EqPoly(a *core.Alg, want core.Poly) core.Atom {
	return func(v ssa.Value) (bool, bool) {
		b, ok := v.(*ssa.BinOp)
		if !ok || (b.Op != token.EQL && b.Op != token.NEQ) {
			return false, false
		}
		if bt, ok := b.X.Type().Underlying().(*types.Basic); !ok || bt.Info()&types.IsInteger == 0 {
			return false, false
		}
		d := a.Norm(b.X).Sub(a.Norm(b.Y))
		if !d.Equal(want) && !d.Equal(want.Neg()) {
			return false, false
		}
		return true, b.Op == token.EQL
	}
}

// ---------------------------------------------------------------------------
// slices handed to a goroutine: where does the backing array come from?

type c10SliceTrace struct {
	g       *pkgGraph
	seen    map[ssa.Value]bool
	bad     []string // persistent storage the slice may alias
	unknown []string
	steps   int
}

func (t *c10SliceTrace) addBad(s string) {
	for _, x := range t.bad {
		if x == s {
			return
		}
	}
	t.bad = append(t.bad, s)
}

// c10Persists: can an object of struct type name (declared in the wheel's package) outlive a tick —
// is it (or a pointer/slice/map/chan of it) kept in a field of the wheel's own types or in a package variable?
func (t *c10SliceTrace) persists(n *types.Named) bool {
	mentions := func(ty types.Type) bool {
		for i := 0; i < 6; i++ {
			switch x := ty.(type) {
			case *types.Pointer:
				ty = x.Elem()
			case *types.Slice:
				ty = x.Elem()
			case *types.Array:
				ty = x.Elem()
			case *types.Chan:
				ty = x.Elem()
			case *types.Map:
				ty = x.Elem()
			case *types.Named:
				return x.Obj() == n.Obj()
			default:
				return false
			}
		}
		return false
	}
	pkg := n.Obj().Pkg()
	if pkg == nil {
		return true
	}
	sc := pkg.Scope()
	for _, name := range sc.Names() {
		switch ob := sc.Lookup(name).(type) {
		case *types.Var:
			if mentions(ob.Type()) {
				return true
			}
		case *types.TypeName:
			if !wheelTypes[ob.Name()] {
				continue
			}
			if st, ok := ob.Type().Underlying().(*types.Struct); ok {
				for i := 0; i < st.NumFields(); i++ {
					if mentions(st.Field(i).Type()) {
						return true
					}
				}
			}
		}
	}
	return false
}

func (t *c10SliceTrace) trace(v ssa.Value, fn *ssa.Function) {
	if v == nil || t.seen[v] {
		return
	}
	t.seen[v] = true
	t.steps++
	if t.steps > 400 {
		t.unknown = append(t.unknown, "trace too long")
		return
	}
	switch x := v.(type) {
	case *ssa.Const:
		return // nil
	case *ssa.MakeSlice:
		return
	case *ssa.Alloc:
		return // a fresh array (`new [n]T`) sliced
	case *ssa.Slice:
		t.trace(x.X, fn)
	case *ssa.Phi:
		for _, e := range x.Edges {
			t.trace(e, fn)
		}
	case *ssa.ChangeType:
		t.trace(x.X, fn)
	case *ssa.Convert:
		t.trace(x.X, fn)
	case *ssa.TypeAssert:
		t.trace(x.X, fn)
	case *ssa.MakeInterface:
		t.trace(x.X, fn)
	case *ssa.Extract:
		if c, ok := x.Tuple.(*ssa.Call); ok {
			t.call(c, x.Index, fn)
			return
		}
		t.unknown = append(t.unknown, core.Describe(v))
	case *ssa.Call:
		t.call(x, 0, fn)
	case *ssa.Parameter:
		idx := -1
		for i, pa := range x.Parent().Params {
			if pa == x {
				idx = i
			}
		}
		n := 0
		for _, e := range t.g.in[x.Parent()] {
			ci, ok := e.site.(ssa.CallInstruction)
			if !ok || ci.Common().IsInvoke() {
				continue
			}
			if callee := ci.Common().StaticCallee(); callee != x.Parent() {
				// the function is handed over as a value (go/GoSafe of a bound method or literal): its
				// parameters are not supplied at this site
				continue
			}
			if idx >= 0 && idx < len(ci.Common().Args) {
				n++
				t.trace(ci.Common().Args[idx], e.from)
			}
		}
		if n == 0 {
			t.unknown = append(t.unknown, "parameter "+x.Name()+" of "+core.FuncName(x.Parent())+" (no static caller)")
		}
	case *ssa.UnOp:
		if x.Op != token.MUL {
			t.unknown = append(t.unknown, core.Describe(v))
			return
		}
		t.load(x.X, fn)
	default:
		t.unknown = append(t.unknown, core.Describe(v))
	}
}

func (t *c10SliceTrace) call(c *ssa.Call, idx int, fn *ssa.Function) {
	if b, ok := c.Call.Value.(*ssa.Builtin); ok {
		if b.Name() == "append" {
			t.trace(c.Call.Args[0], fn) // the result may share the first operand's array
			return
		}
		t.unknown = append(t.unknown, "builtin "+b.Name())
		return
	}
	name := core.Short(core.CalleeName(c))
	if name == "(*sync.Pool).Get" {
		return // exclusively owned until it is Put back (when it is put back is not decided)
	}
	callee := c.Call.StaticCallee()
	if callee == nil || callee.Blocks == nil {
		t.unknown = append(t.unknown, "result of "+name)
		return
	}
	for _, ret := range core.Returns(callee) {
		if idx < len(ret.Results) {
			t.trace(ret.Results[idx], callee)
		}
	}
}

// load: the slice is read from address a.
func (t *c10SliceTrace) load(a ssa.Value, fn *ssa.Function) {
	if t.seen[a] {
		return
	}
	t.seen[a] = true
	switch x := a.(type) {
	case *ssa.Alloc:
		// a local variable (cell): everything stored into it, here or in the literals that capture it
		if x.Referrers() == nil {
			return
		}
		for _, r := range *x.Referrers() {
			switch y := r.(type) {
			case *ssa.Store:
				if y.Addr == ssa.Value(x) {
					t.trace(y.Val, y.Parent())
				}
			case *ssa.MakeClosure:
				cf := y.Fn.(*ssa.Function)
				for i, b := range y.Bindings {
					if b == ssa.Value(x) && i < len(cf.FreeVars) {
						t.storesThroughFreeVar(cf.FreeVars[i], cf)
					}
				}
			}
		}
	case *ssa.FreeVar:
		// the captured cell: resolve through the sites that create the literal
		par := x.Parent()
		idx := -1
		for i, fv := range par.FreeVars {
			if fv == x {
				idx = i
			}
		}
		n := 0
		if par.Parent() != nil {
			for _, in := range core.Instrs(par.Parent(), func(in ssa.Instruction) bool {
				mc, ok := in.(*ssa.MakeClosure)
				return ok && mc.Fn == ssa.Value(par)
			}) {
				mc := in.(*ssa.MakeClosure)
				if idx >= 0 && idx < len(mc.Bindings) {
					n++
					t.load(mc.Bindings[idx], par.Parent())
				}
			}
		}
		if n == 0 {
			t.unknown = append(t.unknown, "captured variable "+x.Name()+" of "+core.FuncName(par))
		}
	case *ssa.Global:
		t.addBad("the package variable " + x.Name())
	case *ssa.FieldAddr:
		name := core.FieldAddrName(x)
		typ := name
		if i := strings.Index(name, "."); i >= 0 {
			typ = name[:i]
		}
		if wheelTypes[typ] {
			t.addBad("the field " + name)
			return
		}
		// a field of some other struct: an object of a type that cannot outlive the tick (kept in no
		// field of the wheel's types and in no package variable) is a set of locals; what the field
		// holds is then what the package stores into it (a zero field is nil)
		pt, _ := x.X.Type().Underlying().(*types.Pointer)
		var named *types.Named
		if pt != nil {
			named, _ = pt.Elem().(*types.Named)
		}
		if named == nil || named.Obj().Pkg() == nil || named.Obj().Pkg().Path() != core.Mod+"/"+f10CollPkg {
			t.unknown = append(t.unknown, "field "+name)
			return
		}
		if t.persists(named) {
			t.addBad("the field " + name + " of an object kept in wheel state")
			return
		}
		for _, f := range t.g.funcs {
			for _, st := range core.StoresToField(f, name) {
				t.trace(st.Val, f)
			}
			// whole-struct stores of that type
			for _, in := range core.Instrs(f, func(in ssa.Instruction) bool {
				s, ok := in.(*ssa.Store)
				if !ok {
					return false
				}
				n, ok := s.Val.Type().(*types.Named)
				return ok && n.Obj() == named.Obj()
			}) {
				s := in.(*ssa.Store)
				if ld, ok := core.Strip(s.Val).(*ssa.UnOp); ok && ld.Op == token.MUL {
					if _, isAl := ld.X.(*ssa.Alloc); isAl {
						continue // copy of another local of the same type: its field stores are covered above
					}
				}
				if _, isC := s.Val.(*ssa.Const); isC {
					continue
				}
				t.unknown = append(t.unknown, "a "+named.Obj().Name()+" value stored as a whole in "+core.FuncName(f))
			}
		}
	default:
		t.unknown = append(t.unknown, "load from "+core.Describe(a))
	}
}

func (t *c10SliceTrace) storesThroughFreeVar(fv *ssa.FreeVar, f *ssa.Function) {
	if fv.Referrers() == nil {
		return
	}
	for _, r := range *fv.Referrers() {
		switch y := r.(type) {
		case *ssa.Store:
			if y.Addr == ssa.Value(fv) {
				t.trace(y.Val, f)
			}
		case *ssa.MakeClosure:
			cf := y.Fn.(*ssa.Function)
			for i, b := range y.Bindings {
				if b == ssa.Value(fv) && i < len(cf.FreeVars) {
					t.storesThroughFreeVar(cf.FreeVars[i], cf)
				}
			}
		}
	}
}

func c10IsSliceOrCell(ty types.Type) (isSlice, isCell bool) {
	if _, ok := ty.Underlying().(*types.Slice); ok {
		return true, false
	}
	if p, ok := ty.Underlying().(*types.Pointer); ok {
		if _, ok := p.Elem().Underlying().(*types.Slice); ok {
			return false, true
		}
	}
	return false, false
}

// ---------------------------------------------------------------------------

func c10Round10(r *core.Run, pkg string) {
	p := r.P
	r.Explanation += " Round 9: on every path of the move handler with the key pending and delay ≥ interval the pending entry's circle AND diff are both assigned (or the entry is tombstoned and replaced), so nothing of an earlier schedule survives a move/re-set; the replacement entry linked for a move-earlier is a new entry whose circle/diff are 0 (or the placement function's circle), never copied or computed from the old entry; the slice of due tasks handed to the goroutine that calls execute is built during that tick (nil/make/fresh array/append of those, followed through parameters, captured variables, in-package helpers and per-call structs), not kept in a field of the wheel's types or a package variable."
	r.NotDecided += " Round 9: whether a guard `circle == 0`/`diff == 0` that lets a move keep that field is followed by the right value (only that the field is then 0); a replacement entry whose circle/diff is a non-constant other than the placement's circle is reported unresolved; a due-task buffer kept in a local variable of the owner loop itself (alive across ticks without being a field or package variable), slices reached through a pointer to a struct handed to the goroutine, and when a slice taken from a sync.Pool is put back are not decided."
	t, why := resolveTW(p)
	need := func(o *core.O) bool {
		if t == nil {
			o.Unres("timing wheel roles not resolved: %s", why)
			return false
		}
		return true
	}
	isExecute := core.CallOfValue(func(v ssa.Value) bool { return core.IsFieldLoad(core.Forward(v), "TimingWheel.execute") })
	isGet := func(in ssa.Instruction) bool {
		c, ok := in.(*ssa.Call)
		return ok && core.Short(core.CalleeName(c)) == "(*lib/collection.SafeMap).Get" && core.IsFieldLoad(core.Forward(core.Args(c)[0]), "TimingWheel.timers")
	}

	r.Check("D4/K1/move-resets-pending-schedule", "a move or re-set (delay ≥ I) re-schedules the task from the moment of the call alone: on every path of the move handler on which the key is pending and the delay is not below one interval, the pending entry gets BOTH its remaining revolutions (circle) and its slot shift (diff) assigned — or is tombstoned and replaced; a path that leaves one of them as it was (unless just tested to be 0) keeps revolutions or a shift of the original set / an earlier move in force and the task fires that many ticks late", func(o *core.O) {
		if !need(o) {
			return
		}
		mv := t.handler["moveChannel"]
		if !o.Need(mv != nil, "handler of moveChannel") {
			return
		}
		r.Fn(core.FuncName(mv))
		// the paths on which the key is pending: the true edges of Get's ok; failing that, from the point
		// where the position record is taken out of the looked-up value
		found, _ := core.EdgesOf(mv, core.BoolVal(func(v ssa.Value) bool { return core.IsResult(v, 1, isGet) }))
		from := f10Heads(found)
		if len(from) == 0 {
			for _, in := range core.Instrs(mv, func(in ssa.Instruction) bool {
				ta, ok := in.(*ssa.TypeAssert)
				return ok && strings.HasSuffix(ta.AssertedType.String(), ".positionEntry")
			}) {
				from = append(from, core.After(in))
			}
		}
		if len(from) == 0 {
			o.Unres("%s: the branch on which the key is pending (ok of timers.Get, or the *positionEntry taken from it) is not recognised", core.FuncName(mv))
			return
		}
		alg := &core.Alg{Name: func(v ssa.Value) string {
			switch core.FieldAddrNameOfLoad(core.Strip(core.Forward(v))) {
			case "baseEntry.delay":
				return "d"
			case "TimingWheel.interval":
				return "I"
			}
			return ""
		}}
		// delay < interval: not a re-scheduling path (the task is run at once; D5/K7/immediate-arm-strict)
		below, _ := core.EdgesOf(mv, core.CmpPoly(alg, core.ParsePoly("I - d"), false))
		n := 0
		for _, fld := range []string{"circle", "diff"} {
			tf := "timingEntry." + fld
			does := func(in ssa.Instruction) bool { return c10PendingStore(in, tf) || c10Tombstones(in) }
			blk := c10DoesOrCalls(t.g, does, 2)
			n += len(core.Instrs(mv, blk))
			zero, _ := core.EdgesOf(mv, core.Cmp(token.EQL, core.FieldLoad(tf), core.IsConstInt(0)))
			if w, ok := core.Reach(core.Q{From: from, Target: core.IsReturn, Blocked: blk, Cut: core.CutSet(below, zero)}); ok {
				o.Fail(p.InstrPos(w), "%s can return on a path where the key is pending and delay ≥ interval without assigning the pending entry's %s (and without replacing the entry): the %s left by the original SetTimer or an earlier move stays in force, so the moved task fires %s late instead of floor(d/I) ticks after the call", core.FuncName(mv), fld, fld, map[string]string{"circle": "whole revolutions", "diff": "up to numSlots−1 ticks"}[fld])
			}
		}
		o.Site(n, core.FuncName(mv))
		if n == 0 {
			o.Unres("%s: neither a store to the pending entry's circle/diff nor a tombstone found", core.FuncName(mv))
		}
	})

	r.Check("D4/K8/replacement-starts-unscheduled", "the entry the move handler links in place of a tombstoned one is scheduled from the new delay alone: it is a new entry whose circle and diff do not come from the pending entry — no whole-entry copy of a live entry whose circle and diff are not both overwritten afterwards, no circle/diff computed from the old entry's circle/diff (an inherited circle/diff makes the re-scheduled task fire circle·numSlots + diff ticks late)", func(o *core.O) {
		if !need(o) {
			return
		}
		mv := t.handler["moveChannel"]
		if !o.Need(mv != nil, "handler of moveChannel") {
			return
		}
		isPush := core.CallTo("(*container/list.List).PushBack", "(*container/list.List).PushFront")
		oldSched := func(v ssa.Value) bool {
			return core.IsFieldLoad(v, "timingEntry.circle") || core.IsFieldLoad(v, "timingEntry.diff")
		}
		n := 0
		var checkAlloc func(al *ssa.Alloc, at ssa.Instruction, depth int)
		checkAlloc = func(al *ssa.Alloc, at ssa.Instruction, depth int) {
			if al.Referrers() == nil || depth > 2 {
				return
			}
			f := al.Parent()
			fieldStore := func(fld string) func(ssa.Instruction) bool {
				return func(in ssa.Instruction) bool {
					s, ok := in.(*ssa.Store)
					if !ok {
						return false
					}
					fa, ok := s.Addr.(*ssa.FieldAddr)
					return ok && fa.X == ssa.Value(al) && core.FieldAddrName(fa) == "timingEntry."+fld
				}
			}
			for _, rf := range *al.Referrers() {
				switch x := rf.(type) {
				case *ssa.Store:
					if x.Addr != ssa.Value(al) {
						continue
					}
					// the entry as a whole is assigned
					src, isLoad := core.Strip(x.Val).(*ssa.UnOp)
					if !isLoad || src.Op != token.MUL {
						continue
					}
					if sal, ok := src.X.(*ssa.Alloc); ok && freshRoot(sal) {
						checkAlloc(sal, x, depth+1) // a local entry value built here
						continue
					}
					for _, fld := range []string{"circle", "diff"} {
						if w, ok := core.Reach(core.Q{From: []core.At{core.After(x)}, Target: core.IsReturn, Blocked: fieldStore(fld)}); ok {
							_ = w
							o.Fail(p.InstrPos(x), "%s links a replacement entry that is a copy of an existing entry (%s) and does not overwrite the copied %s on every path: a task with revolutions or a slot shift pending that is moved to an earlier moment fires circle·numSlots + diff ticks late", core.FuncName(f), core.Describe(src.X), fld)
						}
					}
				case *ssa.FieldAddr:
					if x.X != ssa.Value(al) || x.Referrers() == nil {
						continue
					}
					nm := core.FieldAddrName(x)
					if nm != "timingEntry.circle" && nm != "timingEntry.diff" {
						continue
					}
					for _, rr := range *x.Referrers() {
						s, ok := rr.(*ssa.Store)
						if !ok || s.Addr != ssa.Value(x) {
							continue
						}
						fld := strings.TrimPrefix(nm, "timingEntry.")
						val := core.Forward(s.Val)
						switch {
						case core.DependsOn(s.Val, oldSched):
							o.Fail(p.InstrPos(s), "%s gives the replacement entry a %s computed from the circle/diff of an existing entry: the re-scheduled task inherits the old schedule instead of being scheduled from the moment of the call", core.FuncName(f), fld)
						case core.Describe(val) == "const:0":
						case fld == "circle" && t.place != nil && core.IsResult(val, 1, func(in ssa.Instruction) bool {
							c, ok := in.(*ssa.Call)
							return ok && c.Call.StaticCallee() == t.place
						}):
							// the revolutions the placement function computes for the new delay, as for a fresh SetTimer
						default:
							if _, isConst := val.(*ssa.Const); isConst {
								o.Fail(p.InstrPos(s), "%s links the replacement entry with %s = %s: an entry linked into the slot of its due tick fires floor(d/I) ticks after the call only with diff 0 and the placement function's circle", core.FuncName(f), fld, core.Describe(val))
							} else {
								o.Unres("%s: %s: the replacement entry's %s is %s — neither 0 nor the placement function's circle; whether the entry then fires at the requested tick is not decided", p.InstrPos(s), core.FuncName(f), fld, core.Describe(val))
							}
						}
					}
				}
			}
		}
		var checkEntry func(v ssa.Value, f *ssa.Function, at ssa.Instruction, depth int)
		checkEntry = func(v ssa.Value, f *ssa.Function, at ssa.Instruction, depth int) {
			v = core.Forward(core.Strip(v))
			if mi, ok := v.(*ssa.MakeInterface); ok {
				v = core.Forward(core.Strip(mi.X))
			}
			switch x := v.(type) {
			case *ssa.Alloc:
				checkAlloc(x, at, 0)
			case *ssa.Phi:
				if depth < 3 {
					for _, e := range x.Edges {
						checkEntry(e, f, at, depth+1)
					}
				}
			case *ssa.Call:
				callee := x.Call.StaticCallee()
				if callee == nil || !t.g.inPkg[callee] || depth >= 3 {
					o.Unres("%s: the entry linked at %s is the result of %s, which is not followed", core.FuncName(f), p.InstrPos(at), core.Short(core.CalleeName(x)))
					return
				}
				for _, ret := range core.Returns(callee) {
					if len(ret.Results) > 0 {
						checkEntry(ret.Results[0], callee, ret, depth+1)
					}
				}
			case *ssa.Parameter:
				if f == mv || depth >= 3 {
					return
				}
				idx := -1
				for i, pa := range f.Params {
					if pa == x {
						idx = i
					}
				}
				for _, e := range t.g.in[f] {
					if c, ok := e.site.(*ssa.Call); ok && c.Call.StaticCallee() == f && idx >= 0 && idx < len(c.Call.Args) {
						checkEntry(c.Call.Args[idx], e.from, c, depth+1)
					}
				}
			default:
				// an entry that exists already (loaded from the index or a list): not a replacement built here
			}
		}
		for _, f := range t.g.reachableSync(mv) {
			if f == t.setIndex {
				continue
			}
			for _, pu := range core.Calls(f, isPush) {
				args := core.Args(pu)
				if len(args) < 2 {
					continue
				}
				n++
				r.Fn(core.FuncName(f))
				checkEntry(args[1], f, pu.(ssa.Instruction), 0)
			}
		}
		o.Site(n, core.FuncName(mv))
		if n == 0 {
			o.Unres("%s: no entry is linked into a slot list under the move handler (the move-earlier replacement is not recognised)", core.FuncName(mv))
		}
	})

	r.Check("D3/K5/due-batch-private-to-tick", "every due task fires exactly once although the callbacks run asynchronously: the slice of due tasks that the owner goroutine hands to the goroutine calling execute is built during that tick (from nil, make, a fresh array, append of those) — it is not a buffer kept in a field of the wheel / an entry or in a package variable, which the next tick refills while the previous tick's goroutine may still be reading it (a task not yet executed is overwritten: it never fires and another fires twice)", func(o *core.O) {
		if !need(o) {
			return
		}
		// the asynchronous hand-overs made by owner-run functions to code that calls execute
		callsExecute := func(f *ssa.Function) bool {
			for _, g := range t.g.reachableSync(f) {
				if len(core.Instrs(g, isExecute)) > 0 {
					return true
				}
			}
			return false
		}
		n := 0
		seenSite := map[ssa.Instruction]bool{}
		for _, f := range t.g.funcs {
			if !t.owned[f] {
				continue
			}
			for _, e := range t.g.out[f] {
				if e.kind != ekAsync || seenSite[e.site] || !callsExecute(e.to) {
					continue
				}
				seenSite[e.site] = true
				n++
				r.Fn(core.FuncName(f))
				ci, ok := e.site.(ssa.CallInstruction)
				if !ok {
					continue
				}
				var handed []ssa.Value
				vals := append([]ssa.Value{ci.Common().Value}, ci.Common().Args...)
				for _, v := range vals {
					if v == nil {
						continue
					}
					if mc, ok := v.(*ssa.MakeClosure); ok {
						handed = append(handed, mc.Bindings...)
						continue
					}
					handed = append(handed, v)
				}
				for _, h := range handed {
					isSlice, isCell := c10IsSliceOrCell(h.Type())
					if !isSlice && !isCell {
						continue
					}
					tr := &c10SliceTrace{g: t.g, seen: map[ssa.Value]bool{}}
					if isCell {
						tr.load(h, f)
					} else {
						tr.trace(h, f)
					}
					if len(tr.bad) > 0 {
						o.Fail(p.InstrPos(e.site), "%s hands the goroutine that executes the due tasks a slice that may share its array with %s: the next tick refills that buffer while this tick's goroutine is still iterating it, so a task that was due is overwritten before it ran (it never fires) and a task of the next tick fires twice", core.FuncName(f), strings.Join(tr.bad, ", "))
					} else if len(tr.unknown) > 0 {
						o.Unres("%s: origin of the slice handed to the executing goroutine at %s not determined: %s", core.FuncName(f), p.InstrPos(e.site), fmt.Sprint(tr.unknown))
					}
				}
			}
		}
		o.Site(n, pkg)
		if n == 0 {
			// synchronous execution inside the owner goroutine would make a shared buffer harmless
			sync := 0
			for _, f := range t.g.funcs {
				if t.owned[f] {
					sync += len(core.Instrs(f, isExecute))
				}
			}
			if sync == 0 {
				o.Unres("no hand-over of due tasks to a goroutine that calls TimingWheel.execute found under the owner loop")
			} else {
				o.Site(sync, pkg)
			}
		}
	})
}
