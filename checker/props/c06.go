package props

import (
	"go/token"
	"math"
	"strings"

	"godcheck/core"

	"golang.org/x/tools/go/ssa"
)

func init() { register("C06", c06) }

const (
	cachePkg = "lib/store/cache"
	sqlcPkg  = "lib/store/sqlc"
)

// unstableNames names the leaves of the jitter formula.
func unstableNames(v ssa.Value) string {
	switch core.FieldAddrNameOfLoad(v) {
	case "Unstable.deviation":
		return "d"
	case "node.notFoundExpire":
		return "nfe"
	case "node.expire":
		return "exp"
	}
	if c, ok := v.(*ssa.Call); ok && core.Short(core.CalleeName(c)) == "(*math/rand.Rand).Float64" {
		return "r"
	}
	return core.ParamIndexName(v)
}

func jitterAlg() *core.Alg {
	return &core.Alg{Name: unstableNames, Inline: map[string]bool{
		"(lib/store/cache.node).aroundDuration":  true,
		"(lib/mathx.Unstable).AroundDuration":    true,
		"(lib/collection.Cache).aroundDuration":  true,
		"(*lib/collection.Cache).aroundDuration": true,
	}}
}

// checkJitterFormula decides that f = (lib/mathx.Unstable).AroundDuration
// returns int((1 + d − 2·d·r)·base) and that the factor ranges over [1−d, 1+d]
// for r ∈ [0,1].
func checkJitterFormula(r *core.Run, o *core.O) {
	p := r.P
	f := p.Func("lib/mathx", "Unstable", "AroundDuration")
	if !o.Need(f != nil, "mathx.Unstable.AroundDuration") {
		return
	}
	r.Fn(core.FuncName(f))
	rets := core.Instrs(f, core.IsReturn)
	o.Site(len(rets), core.FuncName(f))
	a := jitterAlg()
	for _, in := range rets {
		got := a.Norm(in.(*ssa.Return).Results[0])
		want := core.ParsePoly("int((1 + d - 2*d*r)*p1)") // p1 = the base duration
		if !got.Equal(want) {
			o.Fail(p.InstrPos(in), "AroundDuration returns %s, expected %s", got, want)
			continue
		}
	}
	// range of the factor for d in {0, 0.05, 1}
	factor := core.ParsePoly("1 + d - 2*d*r")
	for _, d := range []float64{0, 0.05, 1} {
		iv, ok := factor.Range(map[string]core.Interval{"d": {Lo: d, Hi: d}, "r": {Lo: 0, Hi: 1}})
		if !ok || math.Abs(iv.Lo-(1-d)) > 1e-12 || math.Abs(iv.Hi-(1+d)) > 1e-12 {
			o.Fail(p.Pos(f.Pos()), "jitter factor ranges over [%g,%g] for d=%g, expected [%g,%g]", iv.Lo, iv.Hi, d, 1-d, 1+d)
		}
	}
}

// switchTable extracts, from a function lowered from `switch param { case K: return C, true ... default: return D, false }`,
// the finite map K -> C and the default results.
func switchTable(f *ssa.Function) (table map[int64]int64, def []string, ok bool) {
	table = map[int64]int64{}
	seenRet := map[*ssa.BasicBlock]bool{}
	for _, b := range f.Blocks {
		iff, isIf := b.Instrs[len(b.Instrs)-1].(*ssa.If)
		if !isIf {
			continue
		}
		bo, isB := iff.Cond.(*ssa.BinOp)
		if !isB || bo.Op != token.EQL {
			return nil, nil, false
		}
		var k int64
		var kok bool
		if _, isP := core.Strip(bo.X).(*ssa.Parameter); isP {
			k, kok = core.ConstInt(bo.Y)
		} else if _, isP := core.Strip(bo.Y).(*ssa.Parameter); isP {
			k, kok = core.ConstInt(bo.X)
		}
		if !kok {
			return nil, nil, false
		}
		t := b.Succs[0]
		ret, isR := t.Instrs[len(t.Instrs)-1].(*ssa.Return)
		if !isR || len(t.Instrs) != 1 || len(ret.Results) != 2 {
			return nil, nil, false
		}
		c, cok := core.ConstInt(ret.Results[0])
		if !cok || core.Describe(ret.Results[1]) != "const:true" {
			return nil, nil, false
		}
		if _, dup := table[k]; dup {
			return nil, nil, false
		}
		table[k] = c
		seenRet[t] = true
	}
	for _, b := range f.Blocks {
		if ret, isR := b.Instrs[len(b.Instrs)-1].(*ssa.Return); isR && !seenRet[b] {
			if def != nil {
				return nil, nil, false
			}
			for _, x := range ret.Results {
				def = append(def, core.Describe(x))
			}
		}
	}
	return table, def, def != nil
}

func c06(r *core.Run) {
	defer c06Extra(r)
	p := r.P
	r.Explanation = "Decides on every path: CachedConn.ExecCtx deletes the named keys after a successful exec and before any success return; the cache node's take closure queries the database only when the cache answered exactly the not-found error, returns any other cache error, writes the placeholder on a DB not-found, caches only after a successful query, and runs inside the single-flight barrier under the cache key; TTL formulas (ceil to seconds, jitter factor in [1-d,1+d], d=0.05, +5s index gap); a failed delete schedules a retry, the retry task re-schedules iff the delete failed again and follows the strictly increasing delay chain; cluster methods route by the key they pass on."
	r.NotDecided = "coherence over read/write histories, 'at most one DB query at a time' as a schedule property, retry timing on the wheel, Redis behaviour."

	// ---- D1 ExecCtx: write DB then delete keys ----
	r.Check("D1/K1/exec-then-delete", "in CachedConn.ExecCtx the exec callback precedes DelCacheCtx and every return after a successful exec passes DelCacheCtx", func(o *core.O) {
		f := p.Func(sqlcPkg, "CachedConn", "ExecCtx")
		if !o.Need(f != nil, "sqlc.CachedConn.ExecCtx") {
			return
		}
		r.Fn(core.FuncName(f))
		isExec := core.CallOfValue(core.ParamAt(f, 2))
		if len(core.Instrs(f, isExec)) == 0 {
			// role: the function-typed parameter returning (sql.Result, error)
			isExec = core.CallOfValue(func(v ssa.Value) bool { _, ok := v.(*ssa.Parameter); return ok })
		}
		isDel := core.Or(core.CallMethod("CachedConn", "DelCacheCtx"), core.CallMethod("cache.Cache", "DelCtx"))
		execs := core.Instrs(f, isExec)
		dels := core.Instrs(f, isDel)
		o.Site(len(execs)+len(dels), core.FuncName(f))
		if len(execs) == 0 {
			o.Fail(p.Pos(f.Pos()), "ExecCtx never calls the exec callback")
			return
		}
		if len(dels) == 0 {
			o.Fail(p.Pos(f.Pos()), "ExecCtx never deletes the cache keys")
			return
		}
		if w := core.Precedes(f, isExec, isDel); w != nil {
			o.Fail(p.InstrPos(w), "cache keys can be deleted before the database write ran")
		}
		for _, e := range execs {
			_, errArm := core.EdgesOf(f, core.ErrNil(1, core.Is(e)))
			if w, ok := core.Reach(core.Q{From: []core.At{core.After(e)}, Target: core.IsReturn, Blocked: isDel, Cut: core.CutSet(errArm)}); ok {
				o.Fail(p.InstrPos(w), "a return after a successful exec is reachable without deleting the cache keys")
			}
		}
		// the keys deleted are the keys parameter
		for _, d := range dels {
			args := core.Args(d.(ssa.CallInstruction))
			if !core.DependsOn(args[len(args)-1], core.ParamAt(f, 3)) {
				o.Fail(p.InstrPos(d), "the deleted keys do not derive from the keys argument")
			}
		}
	})

	// ---- D2 doTake ----
	doTake := p.Func(cachePkg, "node", "doTake")
	// The take body is, by role, the function value created by doTake that calls the query
	// callback (a function literal, or a bound method value over a group of former locals);
	// doTake's parameters are recognised inside it through the creation site of the closure.
	tk := newC06Env(doTake)
	var takeBody *ssa.Function
	isQuery := core.CallOfValue(core.Or2(core.CapturedParam(doTake, 4), tk.isParam(4)))
	isCacheVal := core.CallOfValue(core.Or2(core.CapturedParam(doTake, 5), tk.isParam(5)))
	isGetCache := core.CallMethod("cache.node", "doGetCache")
	isDoEx := core.CallMethod("syncx.SingleFlight", "DoEx")
	if doTake != nil {
		handed := map[*ssa.Function]bool{}
		for _, b := range core.Calls(doTake, isDoEx) {
			if args := core.Args(b); len(args) >= 3 {
				handed[tk.funcOf(args[2])] = true
			}
		}
		for _, a := range tk.closures() {
			if len(core.Instrs(a, isQuery)) > 0 && (takeBody == nil || handed[a] || !handed[takeBody]) {
				takeBody = a
			}
		}
	}
	isNotFoundField := func(v ssa.Value) bool { return core.IsFieldLoad(v, "node.errNotFound") }
	r.Check("D2/K2/db-only-on-miss", "the DB query runs only when the cache lookup returned exactly the not-found error; any other cache error is returned as is", func(o *core.O) {
		if !o.Need(doTake != nil && takeBody != nil, "node.doTake and its barrier closure calling query") {
			return
		}
		r.Fn(core.FuncName(doTake), core.FuncName(takeBody))
		qs := core.Instrs(takeBody, isQuery)
		gets := core.Instrs(takeBody, isGetCache)
		o.Site(len(qs), core.FuncName(takeBody))
		if len(gets) != 1 {
			o.Fail(p.Pos(takeBody.Pos()), "expected exactly one cache lookup before the query, found %d", len(gets))
			return
		}
		getErr := func(v ssa.Value) bool { return core.IsResult(v, 0, core.Is(gets[0])) }
		miss := core.Cmp(token.EQL, getErr, isNotFoundField)
		if core.EdgeCount(takeBody, miss) == 0 {
			o.Fail(p.InstrPos(gets[0]), "the cache error is never compared with the not-found error")
		}
		if w := core.Requires(takeBody, isQuery, miss); w != nil {
			o.Fail(p.InstrPos(w), "the DB query is reachable although the cache lookup did not return the not-found error (placeholder, or a cache failure falling through to the database)")
		}
		// a hit (err == nil) must not query
		hit, _ := core.EdgesOf(takeBody, core.Cmp(token.EQL, getErr, core.IsNil))
		if w := core.ReachableFromEdges(hit, isQuery, nil); w != nil {
			o.Fail(p.InstrPos(w), "the DB query is reachable on a cache hit")
		}
		// other errors are returned unchanged
		_, other := core.EdgesOf(takeBody, miss)
		var from []core.At
		for _, e := range other {
			from = append(from, core.Head(e.To))
		}
		n := 0
		core.Reach(core.Q{From: from, Target: func(in ssa.Instruction) bool {
			if ret, ok := in.(*ssa.Return); ok {
				n++
				if !getErr(ret.Results[len(ret.Results)-1]) {
					o.Fail(p.InstrPos(in), "a cache failure is not returned to the caller unchanged")
				}
			}
			return false
		}})
		if n == 0 {
			o.Fail(p.InstrPos(gets[0]), "no return of the cache failure found")
		}
	})
	r.Check("D2/K1/placeholder-and-cache-after-query", "a DB not-found writes the placeholder before returning not-found; the value is cached only after a successful query", func(o *core.O) {
		if !o.Need(takeBody != nil, "barrier closure of node.doTake") {
			return
		}
		qs := core.Instrs(takeBody, isQuery)
		cv := core.Instrs(takeBody, isCacheVal)
		o.Site(len(qs)+len(cv), core.FuncName(takeBody))
		if len(qs) != 1 || len(cv) == 0 {
			o.Fail(p.Pos(takeBody.Pos()), "expected one query call and a cacheVal call (found %d, %d)", len(qs), len(cv))
			return
		}
		qErr := func(v ssa.Value) bool { return core.IsResult(v, 0, core.Is(qs[0])) }
		dbMiss, _ := core.EdgesOf(takeBody, core.Cmp(token.EQL, qErr, isNotFoundField))
		if len(dbMiss) == 0 {
			o.Fail(p.InstrPos(qs[0]), "the query error is never compared with the not-found error")
		}
		isPlaceholder := core.CallMethod("cache.node", "setCacheWithNotFound")
		var from []core.At
		for _, e := range dbMiss {
			from = append(from, core.Head(e.To))
		}
		if w, ok := core.Reach(core.Q{From: from, Target: core.IsReturn, Blocked: isPlaceholder}); ok {
			o.Fail(p.InstrPos(w), "DB not-found returns without writing the placeholder")
		}
		if w, ok := core.Reach(core.Q{From: from, Target: isCacheVal}); ok {
			o.Fail(p.InstrPos(w), "a value is cached although the DB reported not-found")
		}
		if w := core.Requires(takeBody, isCacheVal, core.Cmp(token.EQL, qErr, core.IsNil)); w != nil {
			o.Fail(p.InstrPos(w), "cacheVal reachable although the query failed")
		}
		if w := core.Precedes(takeBody, isQuery, isCacheVal); w != nil {
			o.Fail(p.InstrPos(w), "cacheVal can run before the query")
		}
	})
	r.Check("D2/K8/inside-barrier", "the query and cacheVal callbacks run only inside the closure handed to barrier.DoEx, keyed by the cache key", func(o *core.O) {
		if !o.Need(doTake != nil, "node.doTake") {
			return
		}
		direct := core.Instrs(doTake, core.Or(core.CallOfValue(func(v ssa.Value) bool { _, ok := v.(*ssa.Parameter); return ok }), isQuery, isCacheVal))
		for _, d := range direct {
			o.Site(1, core.FuncName(doTake))
			o.Fail(p.InstrPos(d), "doTake calls a callback outside the single-flight barrier")
		}
		if !o.Need(takeBody != nil, "the closure of node.doTake that runs the query") {
			return
		}
		// nor may any other closure doTake creates (outside the take body) run them
		inside := tk.within(takeBody)
		for _, g := range tk.closures() {
			if inside[g] {
				continue
			}
			for _, d := range core.Instrs(g, core.Or(isQuery, isCacheVal)) {
				o.Fail(p.InstrPos(d), "a callback of doTake runs in a closure that is not the single-flight body")
			}
		}
		bar := core.Calls(doTake, isDoEx)
		o.Site(len(bar), core.FuncName(doTake))
		ok := false
		for _, b := range bar {
			args := core.Args(b)
			if len(args) >= 3 {
				if tk.funcOf(args[2]) == takeBody && core.ParamAt(doTake, 3)(args[1]) {
					ok = true
				}
			}
		}
		if !ok {
			o.Fail(p.Pos(doTake.Pos()), "the take closure is not run through barrier.DoEx(key, …)")
		}
	})

	// ---- D3 TTLs ----
	r.Check("D3/K7/jitter-formula", "Unstable.AroundDuration ≡ int((1 + d − 2·d·r)·base) and the factor ranges over [1−d, 1+d]", func(o *core.O) { checkJitterFormula(r, o) })
	r.Check("D3/K7/ttl-seconds", "TTL seconds handed to Redis are ceil(duration in seconds); the placeholder TTL is the jittered not-found expiry; SetCtx uses the jittered expiry", func(o *core.O) {
		a := jitterAlg()
		isSetEx := core.CallMethod("redis.Redis", "SetExCtx")
		f1 := p.Func(cachePkg, "node", "SetWithExpireCtx")
		f2 := p.Func(cachePkg, "node", "setCacheWithNotFound")
		f3 := p.Func(cachePkg, "node", "SetCtx")
		if !o.Need(f1 != nil && f2 != nil && f3 != nil, "node.SetWithExpireCtx / setCacheWithNotFound / SetCtx") {
			return
		}
		r.Fn(core.FuncName(f1), core.FuncName(f2), core.FuncName(f3))
		chk := func(f *ssa.Function, want string) {
			cs := core.Calls(f, isSetEx)
			o.Site(len(cs), core.FuncName(f))
			if len(cs) == 0 {
				o.Fail(p.Pos(f.Pos()), "no SetExCtx call")
			}
			for _, c := range cs {
				args := core.Args(c)
				got := a.Norm(args[len(args)-1])
				if !got.Equal(core.ParsePoly(want)) {
					o.Fail(p.InstrPos(c), "TTL seconds = %s, expected %s", got, want)
				}
			}
		}
		chk(f1, "int(ceil(p4/1000000000))") // p4 = the expire argument
		chk(f2, "int(ceil(int((1 + d - 2*d*r)*nfe)/1000000000))")
		cs := core.Calls(f3, core.CallMethod("cache.node", "SetWithExpireCtx"))
		o.Site(len(cs), core.FuncName(f3))
		if len(cs) == 0 {
			o.Fail(p.Pos(f3.Pos()), "SetCtx does not delegate to SetWithExpireCtx")
		}
		for _, c := range cs {
			args := core.Args(c)
			got := a.Norm(args[len(args)-1])
			if want := "int((1 + d - 2*d*r)*exp)"; !got.Equal(core.ParsePoly(want)) {
				o.Fail(p.InstrPos(c), "SetCtx expiry = %s, expected %s", got, want)
			}
		}
	})
	r.Check("D3/K6/deviation-constant", "both constructors build their Unstable with deviation 0.05", func(o *core.O) {
		for _, fn := range [][3]string{{cachePkg, "", "NewNode"}, {"lib/collection", "", "NewCache"}} {
			f := p.Func(fn[0], fn[1], fn[2])
			if !o.Need(f != nil, fn[0]+"."+fn[2]) {
				return
			}
			r.Fn(core.FuncName(f))
			cs := core.Calls(f, core.CallTo("lib/mathx.NewUnstable"))
			o.Site(len(cs), core.FuncName(f))
			if len(cs) == 0 {
				o.Fail(p.Pos(f.Pos()), "no mathx.NewUnstable call")
			}
			for _, c := range cs {
				if d, ok := core.ConstFloat(core.Args(c)[0]); !ok || math.Abs(d-0.05) > 1e-15 {
					o.Fail(p.InstrPos(c), "deviation is %s, expected the constant 0.05", core.Describe(core.Args(c)[0]))
				}
			}
		}
		// NewUnstable stores its (clamped) argument
		nu := p.Func("lib/mathx", "", "NewUnstable")
		if o.Need(nu != nil, "mathx.NewUnstable") {
			r.Fn(core.FuncName(nu))
			ok := false
			for _, in := range core.Instrs(nu, func(in ssa.Instruction) bool { return true }) {
				if st, isSt := in.(*ssa.Store); isSt && core.FieldAddrName(st.Addr) == "Unstable.deviation" {
					ok = true
					if !core.DependsOn(st.Val, core.ParamAt(nu, 0)) {
						o.Fail(p.InstrPos(in), "Unstable.deviation is not the constructor argument")
					}
				}
			}
			if !ok {
				o.Fail(p.Pos(nu.Pos()), "NewUnstable does not store the deviation")
			}
		}
	})
	r.Check("D3/K7/index-gap", "the primary-key row is cached for expire + 5s when filled from an index query", func(o *core.O) {
		f := p.Func(sqlcPkg, "CachedConn", "QueryRowIndexCtx")
		if !o.Need(f != nil, "sqlc.CachedConn.QueryRowIndexCtx") {
			return
		}
		a := &core.Alg{Name: core.ParamIndexName}
		n := 0
		// the function literals and bound method values QueryRowIndexCtx creates, by creation site
		for _, g := range c06Union(core.WithAnon(f), newC06Env(f).fns) {
			r.Fn(core.FuncName(g))
			for _, c := range core.Calls(g, core.CallMethod("cache.Cache", "SetWithExpireCtx")) {
				n++
				args := core.Args(c)
				got := a.Norm(args[len(args)-1])
				if !got.Equal(core.ParsePoly("p1 + 5000000000")) { // p1 = the closure's expire argument
					o.Fail(p.InstrPos(c), "primary row TTL = %s, expected expire + 5s", got)
				}
			}
		}
		o.Site(n, core.FuncName(f))
	})

	// ---- D4 delete retry ----
	r.Check("D4/K1/failed-delete-schedules-retry", "in node.DelCtx every failing Redis delete is followed by asyncRetryDelCache before returning", func(o *core.O) {
		f := p.Func(cachePkg, "node", "DelCtx")
		if !o.Need(f != nil, "cache.node.DelCtx") {
			return
		}
		r.Fn(core.FuncName(f))
		// The delete step is DelCtx's own code or a function literal DelCtx creates and applies
		// itself (one visit closure run once per batch): in either, the failing arm of the DEL must
		// pass asyncRetryDelCache before that step ends (return of the step, or the next DEL).
		isDel := core.CallMethod("redis.Redis", "DelCtx")
		isRetry := core.CallMethod("cache.node", "asyncRetryDelCache")
		de := newC06Env(f)
		ndel := 0
		for _, g := range de.fns {
			dels := core.Instrs(g, isDel)
			if len(dels) == 0 || (g != f && !de.calledIn(g)) {
				continue
			}
			ndel += len(dels)
			o.Site(len(dels), core.FuncName(g))
			for _, d := range dels {
				_, failArm := core.EdgesOf(g, core.ErrNil(1, core.Is(d)))
				if len(failArm) == 0 {
					o.Fail(p.InstrPos(d), "the delete error is never tested")
					continue
				}
				var from []core.At
				for _, e := range failArm {
					from = append(from, core.Head(e.To))
				}
				// stop at the next delete (loop iteration) or a return
				if w, ok := core.Reach(core.Q{From: from, Target: core.Or(core.IsReturn, core.Is(d)), Blocked: isRetry}); ok {
					o.Fail(p.InstrPos(w), "a failed delete (%s) is not handed to asyncRetryDelCache", p.InstrPos(d))
				}
			}
		}
		if ndel == 0 {
			o.Site(0, core.FuncName(f))
			o.Fail(p.Pos(f.Pos()), "DelCtx never deletes")
		}
		// asyncRetryDelCache registers a clean task that deletes the same keys
		g := p.Func(cachePkg, "node", "asyncRetryDelCache")
		if !o.Need(g != nil, "cache.node.asyncRetryDelCache") {
			return
		}
		r.Fn(core.FuncName(g))
		adds := core.Calls(g, core.CallTo("lib/store/cache.AddCleanTask"))
		o.Site(len(adds), core.FuncName(g))
		if len(adds) == 0 {
			o.Fail(p.Pos(g.Pos()), "asyncRetryDelCache does not register a clean task")
		}
		for _, an := range g.AnonFuncs {
			ds := core.Calls(an, core.Or(core.CallMethod("redis.Redis", "Del"), core.CallMethod("redis.Redis", "DelCtx")))
			if len(ds) == 0 {
				o.Fail(p.Pos(an.Pos()), "the retry task does not delete")
			}
			for _, d := range ds {
				args := core.Args(d)
				if !c06DerivesFrom(newC06Env(g), args[len(args)-1], core.ParamOrCaptured(g, 1)) { // also through a private copy of the keys (fix 540d4f4)
					o.Fail(p.InstrPos(d), "the retry task does not delete the failed keys")
				}
				// its error is the task's result
				for _, ret := range core.Instrs(an, core.IsReturn) {
					if !core.DependsOn(ret.(*ssa.Return).Results[0], func(v ssa.Value) bool { return core.IsResult(v, 1, core.Is(d)) }) {
						o.Fail(p.InstrPos(ret), "the retry task does not return the delete's error")
					}
				}
			}
		}
	})
	r.Check("D4/K2/retry-iff-failed", "the cleaner re-schedules a task only when it returned an error, and a failing task is re-scheduled or reported", func(o *core.O) {
		// role: the functions of the package that call the `task` field of a delayTask
		isTask := core.CallOfValue(func(v ssa.Value) bool { return core.IsFieldLoad(v, "delayTask.task") })
		isSet := core.CallMethod("collection.TimingWheel", "SetTimer")
		n := 0
		for _, f := range p.PkgFuncs(cachePkg) {
			ts := core.Instrs(f, isTask)
			if len(ts) == 0 {
				continue
			}
			n++
			r.Fn(core.FuncName(f))
			o.Site(len(ts), core.FuncName(f))
			for _, t := range ts {
				okEdge, failEdge := core.EdgesOf(f, core.ErrNil(0, core.Is(t)))
				if len(okEdge) == 0 {
					o.Fail(p.InstrPos(t), "the task's error is never tested")
					continue
				}
				if w := core.ReachableFromEdges(okEdge, isSet, nil); w != nil {
					o.Fail(p.InstrPos(w), "a task that succeeded is scheduled again (delete repeated after success)")
				}
				giveUp := core.Or(isSet, core.CallTo("lib/logx.Error", "lib/stat.Report"))
				var from []core.At
				for _, e := range failEdge {
					from = append(from, core.Head(e.To))
				}
				if w, ok := core.Reach(core.Q{From: from, Target: core.IsReturn, Blocked: giveUp}); ok {
					o.Fail(p.InstrPos(w), "a task that failed is neither re-scheduled nor reported (failed delete never retried)")
				}
				// the next delay comes from nextDelay and is stored back into the task
				for _, s := range core.Calls(f, isSet) {
					args := core.Args(s)
					if !core.DependsOn(args[len(args)-1], func(v ssa.Value) bool {
						return core.IsResult(v, 0, core.CallTo("lib/store/cache.nextDelay"))
					}) {
						o.Fail(p.InstrPos(s), "the retry delay does not come from nextDelay")
					}
					// the task stored back on the wheel must carry the advanced delay, or the chain never progresses
					if !core.DependsOn(args[len(args)-2], func(v ssa.Value) bool {
						return core.IsResult(v, 0, core.CallTo("lib/store/cache.nextDelay"))
					}) {
						o.Fail(p.InstrPos(s), "the re-scheduled task does not carry the advanced delay (the chain would repeat the same step and never give up)")
					}
				}
			}
		}
		if n == 0 {
			o.Unres("no function in %s calls delayTask.task", cachePkg)
		}
	})
	r.Check("D4/K6/delay-chain", "nextDelay is the strictly increasing finite chain 1s→5s→1m→5m→1h→stop", func(o *core.O) {
		f := p.Func(cachePkg, "", "nextDelay")
		if !o.Need(f != nil, "cache.nextDelay") {
			return
		}
		r.Fn(core.FuncName(f))
		// the function is evaluated on the chain's members and on values outside it (a switch, an
		// if-chain and a lookup over a constant ladder all evaluate alike)
		want := []int64{1e9, 5e9, 60e9, 300e9, 3600e9}
		o.Site(len(want), core.FuncName(f))
		for i, d := range want {
			res, ok := p.Eval(f, core.EvalInt(d))
			if !ok || len(res) != 2 {
				o.Unres("nextDelay cannot be evaluated on constants (not a pure function over constant tables)")
				return
			}
			next, _ := core.AsInt(res[0])
			more, _ := core.AsBool(res[1])
			switch {
			case i+1 < len(want) && (!more || next != want[i+1]):
				o.Fail(p.Pos(f.Pos()), "delay chain: nextDelay(%dns) = (%dns, %v), expected (%dns, true)", d, next, more, want[i+1])
			case i+1 == len(want) && more:
				o.Fail(p.Pos(f.Pos()), "delay chain does not stop after %dns: nextDelay = (%dns, true)", d, next)
			}
			if more && next <= d {
				o.Fail(p.Pos(f.Pos()), "delay chain not increasing: %d → %d", d, next)
			}
		}
		for _, d := range []int64{0, 1, -1e9, 2e9, 10e9, 3600e9 + 1, 1 << 62} {
			res, ok := p.Eval(f, core.EvalInt(d))
			if !ok || len(res) != 2 {
				o.Unres("nextDelay cannot be evaluated on constants")
				return
			}
			if more, _ := core.AsBool(res[1]); more {
				next, _ := core.AsInt(res[0])
				o.Fail(p.Pos(f.Pos()), "nextDelay(%dns) = (%dns, true) for a delay outside the chain, expected (_, false)", d, next)
			}
		}
		// first delay is 1s at AddCleanTask
		g := p.Func(cachePkg, "", "AddCleanTask")
		if o.Need(g != nil, "cache.AddCleanTask") {
			r.Fn(core.FuncName(g))
			for _, s := range core.Calls(g, core.CallMethod("collection.TimingWheel", "SetTimer")) {
				o.Site(1)
				args := core.Args(s)
				if d, ok := core.ConstInt(core.ForwardField(args[len(args)-1])); !ok || d != 1e9 {
					o.Fail(p.InstrPos(s), "first retry delay is not 1s")
				}
			}
			for _, st := range core.StoresToField(g, "delayTask.delay") {
				if d, ok := core.ConstInt(st.Val); !ok || d != 1e9 {
					o.Fail(p.InstrPos(st), "initial delayTask.delay is not 1s")
				}
			}
		}
	})

	// ---- D5 cluster routing ----
	r.Check("D5/K8/cluster-routes-by-key", "every cluster method passes to the chosen node the key it dispatched on; multi-key delete groups each key under its own node", func(o *core.O) {
		ms := p.Methods(cachePkg, "cluster")
		if !o.Need(len(ms) > 0, "cache.cluster methods") {
			return
		}
		isGet := core.CallMethod("hash.ConsistentHash", "Get")
		for _, f := range ms {
			gets := core.Calls(f, isGet)
			if len(gets) == 0 {
				continue
			}
			r.Fn(core.FuncName(f))
			o.Site(len(gets), core.FuncName(f))
			for _, g := range gets {
				key := core.Args(g)[1]
				// the key as a value: a parameter captured by a function literal is read through a
				// single-store cell on both sides
				keyRoot := c06Root(key)
				node := func(v ssa.Value) bool { return core.IsResult(v, 0, core.Is(g)) }
				// calls on the node (invoke on cache.Cache whose receiver derives from this Get)
				used := false
				for _, c := range core.Calls(f, func(in ssa.Instruction) bool {
					cc := core.AsCall(in)
					return cc != nil && cc.Common().IsInvoke() && strings.Contains(core.CalleeName(cc), "cache.Cache)")
				}) {
					if !core.DependsOn(c.Common().Value, node) {
						continue
					}
					used = true
					// some argument must be (derived from) the dispatched key
					okKey := false
					for _, a := range c.Common().Args {
						if core.DependsOn(a, func(v ssa.Value) bool { return c06Root(v) == keyRoot }) {
							okKey = true
						}
					}
					if !okKey {
						o.Fail(p.InstrPos(c), "%s: the node chosen for one key is called with a different key", core.FuncName(f))
					}
				}
				if !used {
					// multi-key delete: the node indexes a map whose appended value must be the key
					mu := core.Instrs(f, func(in ssa.Instruction) bool {
						m, ok := in.(*ssa.MapUpdate)
						return ok && core.DependsOn(m.Key, node)
					})
					if len(mu) == 0 {
						o.Fail(p.InstrPos(g), "%s: the node returned by dispatcher.Get is never used", core.FuncName(f))
					}
					for _, m := range mu {
						if !core.DependsOn(m.(*ssa.MapUpdate).Value, func(v ssa.Value) bool { return c06Root(v) == keyRoot }) {
							o.Fail(p.InstrPos(m), "%s: a key is grouped under a node it was not dispatched to", core.FuncName(f))
						}
					}
				}
			}
		}
	})

	// ---- D6 read-path plumbing ----
	isPlaceholderErr := core.IsGlobal(cachePkg, "errPlaceholder")
	r.Check("D6/K2/placeholder-detected", "doGetCache reports the placeholder error exactly when the stored value is the placeholder, never decodes it, maps an empty value to not-found and returns Redis errors", func(o *core.O) {
		f := p.Func(cachePkg, "node", "doGetCache")
		if !o.Need(f != nil, "cache.node.doGetCache") {
			return
		}
		r.Fn(core.FuncName(f))
		gets := core.Instrs(f, core.CallMethod("redis.Redis", "GetCtx"))
		if len(gets) != 1 {
			o.Fail(p.Pos(f.Pos()), "expected one Redis GetCtx, found %d", len(gets))
			return
		}
		data := func(v ssa.Value) bool { return core.IsResult(v, 0, core.Is(gets[0])) }
		isPH := core.Cmp(token.EQL, data, func(v ssa.Value) bool { s, ok := core.ConstString(v); return ok && s == "*" })
		retPH := func(in ssa.Instruction) bool {
			ret, ok := in.(*ssa.Return)
			return ok && isPlaceholderErr(core.Result(ret, 0))
		}
		rs := core.Instrs(f, retPH)
		o.Site(len(rs)+core.EdgeCount(f, isPH), core.FuncName(f))
		if len(rs) == 0 || core.EdgeCount(f, isPH) == 0 {
			o.Fail(p.Pos(f.Pos()), "the placeholder value is not recognised (not-found results would be decoded, deleted and re-queried)")
			return
		}
		if w := core.Requires(f, retPH, isPH); w != nil {
			o.Fail(p.InstrPos(w), "placeholder error returned for a real value")
		}
		ph, _ := core.EdgesOf(f, isPH)
		isDecode := core.CallMethod("cache.node", "processCache")
		if w := core.ReachableFromEdges(ph, isDecode, nil); w != nil {
			o.Fail(p.InstrPos(w), "the placeholder is handed to the decoder")
		}
		if len(core.Instrs(f, isDecode)) == 0 {
			o.Fail(p.Pos(f.Pos()), "cached values are never decoded")
		}
		// Redis error is returned unchanged
		_, errArm := core.EdgesOf(f, core.ErrNil(1, core.Is(gets[0])))
		if len(errArm) == 0 {
			o.Fail(p.InstrPos(gets[0]), "the Redis error is not tested")
		}
		var from []core.At
		for _, e := range errArm {
			from = append(from, core.Head(e.To))
		}
		core.Reach(core.Q{From: from, Target: func(in ssa.Instruction) bool {
			if ret, ok := in.(*ssa.Return); ok && !core.IsResult(core.Result(ret, 0), 1, core.Is(gets[0])) {
				o.Fail(p.InstrPos(in), "a Redis failure is replaced by %s", core.Describe(core.Result(ret, 0)))
			}
			return false
		}})
		// empty value → not found
		empty, _ := core.EdgesOf(f, core.Cmp(token.EQL, core.IsLenOf(data), core.IsConstInt(0)))
		if len(empty) == 0 {
			o.Fail(p.Pos(f.Pos()), "an absent key (empty value) is not mapped to not-found")
		}
		for _, e := range empty {
			core.Reach(core.Q{From: []core.At{core.Head(e.To)}, Target: func(in ssa.Instruction) bool {
				if ret, ok := in.(*ssa.Return); ok && !isNotFoundField(core.Result(ret, 0)) {
					o.Fail(p.InstrPos(in), "an absent key returns %s instead of the not-found error", core.Describe(core.Result(ret, 0)))
				}
				return false
			}})
		}
	})
	r.Check("D6/K2/get-maps-placeholder", "node.GetCtx turns the placeholder error into the not-found error and returns every other result unchanged", func(o *core.O) {
		f := p.Func(cachePkg, "node", "GetCtx")
		if !o.Need(f != nil, "cache.node.GetCtx") {
			return
		}
		r.Fn(core.FuncName(f))
		gets := core.Instrs(f, isGetCache)
		o.Site(len(gets), core.FuncName(f))
		if len(gets) != 1 {
			o.Fail(p.Pos(f.Pos()), "expected one doGetCache call")
			return
		}
		gerr := func(v ssa.Value) bool { return core.IsResult(v, 0, core.Is(gets[0])) }
		ph, other := core.EdgesOf(f, core.Cmp(token.EQL, gerr, isPlaceholderErr))
		if len(ph) == 0 {
			o.Fail(p.InstrPos(gets[0]), "the placeholder error is not translated (callers would see an internal error for a remembered not-found)")
			return
		}
		chk := func(es []core.Edge, want func(ssa.Value) bool, what string) {
			for _, e := range es {
				core.Reach(core.Q{From: []core.At{core.Head(e.To)}, Target: func(in ssa.Instruction) bool {
					if ret, ok := in.(*ssa.Return); ok && !want(core.Result(ret, 0)) {
						o.Fail(p.InstrPos(in), "%s", what)
					}
					return false
				}})
			}
		}
		chk(ph, isNotFoundField, "placeholder hit does not return the not-found error")
		chk(other, gerr, "a non-placeholder result is not returned unchanged")
	})
	r.Check("D6/K1/shared-result-decoded", "doTake returns the barrier's error; a caller that shared another caller's flight decodes the shared bytes into its own destination; the flight itself returns the marshalled value", func(o *core.O) {
		if !o.Need(doTake != nil && takeBody != nil, "node.doTake") {
			return
		}
		bar := core.Instrs(doTake, core.CallMethod("syncx.SingleFlight", "DoEx"))
		if len(bar) != 1 {
			o.Fail(p.Pos(doTake.Pos()), "expected one DoEx call")
			return
		}
		o.Site(1, core.FuncName(doTake))
		berr := func(v ssa.Value) bool { return core.IsResult(v, 2, core.Is(bar[0])) }
		fresh := core.BoolVal(func(v ssa.Value) bool { return core.IsResult(v, 1, core.Is(bar[0])) })
		_, errArm := core.EdgesOf(doTake, core.Cmp(token.EQL, berr, core.IsNil))
		if len(errArm) == 0 {
			o.Fail(p.InstrPos(bar[0]), "the barrier's error is not tested")
		}
		for _, e := range errArm {
			core.Reach(core.Q{From: []core.At{core.Head(e.To)}, Target: func(in ssa.Instruction) bool {
				if ret, ok := in.(*ssa.Return); ok && !berr(core.Result(ret, 0)) {
					o.Fail(p.InstrPos(in), "the flight's error is not returned")
				}
				return false
			}})
		}
		_, shared := core.EdgesOf(doTake, fresh)
		isUnm := core.CallTo("lib/jsonx.Unmarshal")
		// every return not guarded by fresh/err must pass the decode
		okEdges, _ := core.EdgesOf(doTake, core.Cmp(token.EQL, berr, core.IsNil))
		_ = okEdges
		freshE, _ := core.EdgesOf(doTake, fresh)
		if w, ok := core.Reach(core.Q{From: []core.At{core.After(bar[0])}, Target: core.IsReturn, Blocked: isUnm, Cut: core.CutSet(errArm, freshE)}); ok {
			o.Fail(p.InstrPos(w), "a caller that shared a flight returns without decoding the shared result into its destination")
		}
		_ = shared
		for _, u := range core.Calls(doTake, isUnm) {
			a := core.Args(u)
			if !core.DependsOn(a[0], func(v ssa.Value) bool { return core.IsResult(v, 0, core.Is(bar[0])) }) {
				o.Fail(p.InstrPos(u), "the decoded bytes are not the flight's result")
			}
			if !core.ParamAt(doTake, 2)(a[1]) {
				o.Fail(p.InstrPos(u), "the shared result is not decoded into the caller's destination")
			}
		}
		// the flight returns Marshal(val) on success
		n := 0
		for _, ret := range core.Returns(takeBody) {
			v := core.Strip(core.Result(ret, 0))
			if c, i := core.ResultOf(v); c != nil && i == 0 && core.Short(core.CalleeName(c)) == "lib/jsonx.Marshal" {
				n++
				if a0 := core.Args(c)[0]; !core.CapturedParam(doTake, 2)(a0) && !tk.isParam(2)(a0) {
					o.Fail(p.InstrPos(ret), "the flight marshals something other than the destination value")
				}
			} else if !core.IsNil(v) {
				o.Fail(p.InstrPos(ret), "the flight returns %s as shared data", core.Describe(v))
			}
		}
		if n == 0 {
			o.Fail(p.Pos(takeBody.Pos()), "the flight never returns the marshalled value (sharing callers would get nothing)")
		}
	})
	isJittered := core.CapturedLocal(func(v ssa.Value) bool {
		return core.IsResult(v, 0, core.CallMethod("cache.node", "aroundDuration"))
	})
	r.Check("D6/K8/take-plumbing", "TakeCtx/TakeWithExpireCtx cache under the key they looked up, and TakeWithExpireCtx uses one jittered expiry for both the query and the cache write", func(o *core.O) {
		for _, name := range []string{"TakeCtx", "TakeWithExpireCtx"} {
			f := p.Func(cachePkg, "node", name)
			if !o.Need(f != nil, "cache.node."+name) {
				return
			}
			r.Fn(core.FuncName(f))
			dts := core.Calls(f, core.CallMethod("cache.node", "doTake"))
			o.Site(len(dts), core.FuncName(f))
			if len(dts) != 1 {
				o.Fail(p.Pos(f.Pos()), "%s does not call doTake exactly once", name)
				continue
			}
			a := core.Args(dts[0]) // n, ctx, val, key, query, cacheVal
			if !core.ParamAt(f, 2)(a[2]) || !core.ParamAt(f, 3)(a[3]) {
				o.Fail(p.InstrPos(dts[0]), "%s does not pass its destination and key to doTake in order", name)
			}
			cv, ok := core.Strip(a[5]).(*ssa.MakeClosure)
			if !ok {
				o.Fail(p.InstrPos(dts[0]), "cacheVal is not a closure")
				continue
			}
			sets := core.Calls(cv.Fn.(*ssa.Function), core.Or(core.CallMethod("cache.node", "SetCtx"), core.CallMethod("cache.node", "SetWithExpireCtx")))
			if len(sets) != 1 {
				o.Fail(p.Pos(cv.Fn.Pos()), "the cacheVal closure does not write the cache exactly once")
				continue
			}
			sa := core.Args(sets[0]) // n, ctx, key, val, [expire]
			if !core.CapturedParam(f, 3)(sa[2]) {
				o.Fail(p.InstrPos(sets[0]), "%s caches the value under a different key than it looked up", name)
			}
			if name == "TakeWithExpireCtx" {
				if !isJittered(sa[4]) {
					o.Fail(p.InstrPos(sets[0]), "the cache write does not use the jittered expiry computed for this take")
				}
				q, ok := core.Strip(a[4]).(*ssa.MakeClosure)
				if !ok {
					o.Fail(p.InstrPos(dts[0]), "query adapter is not a closure")
					continue
				}
				qc := core.Calls(q.Fn.(*ssa.Function), core.CallOfValue(core.CapturedParam(f, 4)))
				if len(qc) != 1 || !isJittered(core.Args(qc[0])[1]) {
					o.Fail(p.Pos(q.Fn.Pos()), "the query callback does not receive the same expiry as the cache write")
				}
			} else {
				if !core.ParamAt(f, 4)(a[4]) {
					o.Fail(p.InstrPos(dts[0]), "TakeCtx does not pass the caller's query through")
				}
			}
		}
	})
	r.Check("D6/K9/cluster-delegates", "every cluster method forwards to the same-named method of the chosen node with its own arguments in order, and reports not-found when no node is available", func(o *core.O) {
		n := 0
		for _, f := range p.Methods(cachePkg, "cluster") {
			gets := core.Calls(f, core.CallMethod("hash.ConsistentHash", "Get"))
			if len(gets) != 1 || f.Name() == "DelCtx" {
				continue
			}
			n++
			r.Fn(core.FuncName(f))
			var fw []ssa.CallInstruction
			for _, c := range core.Calls(f, func(in ssa.Instruction) bool {
				cc := core.AsCall(in)
				return cc != nil && cc.Common().IsInvoke() && strings.Contains(core.CalleeName(cc), "cache.Cache)")
			}) {
				fw = append(fw, c)
			}
			if len(fw) != 1 {
				o.Fail(p.Pos(f.Pos()), "%s does not forward to exactly one node call", core.FuncName(f))
				continue
			}
			c := fw[0]
			if c.Common().Method.Name() != f.Name() {
				o.Fail(p.InstrPos(c), "%s forwards to %s", core.FuncName(f), c.Common().Method.Name())
			}
			args := c.Common().Args
			if len(args) != len(f.Params)-1 {
				o.Fail(p.InstrPos(c), "%s forwards %d arguments, has %d parameters", core.FuncName(f), len(args), len(f.Params)-1)
				continue
			}
			for i, a := range args {
				if pa, ok := core.Strip(core.Forward(a)).(*ssa.Parameter); !ok || pa != f.Params[i+1] {
					o.Fail(p.InstrPos(c), "%s passes %s where parameter %s belongs", core.FuncName(f), core.Describe(a), f.Params[i+1].Name())
				}
			}
			found := core.BoolVal(func(v ssa.Value) bool { return core.IsResult(v, 1, core.Is(gets[0])) })
			if w := core.Requires(f, core.Is(c), found); w != nil {
				o.Fail(p.InstrPos(w), "%s uses the dispatcher's node although none was found", core.FuncName(f))
			}
			_, none := core.EdgesOf(f, found)
			for _, e := range none {
				core.Reach(core.Q{From: []core.At{core.Head(e.To)}, Target: func(in ssa.Instruction) bool {
					if ret, ok := in.(*ssa.Return); ok && !core.IsFieldLoad(core.Result(ret, 0), "cluster.errNotFound") {
						o.Fail(p.InstrPos(in), "%s: no node available but the result is %s", core.FuncName(f), core.Describe(core.Result(ret, 0)))
					}
					return false
				}})
			}
			for _, ret := range core.Returns(f) {
				v := core.Result(ret, 0)
				if cc, _ := core.ResultOf(v); cc != nil && ssa.Instruction(cc) != c.(ssa.Instruction) {
					o.Fail(p.InstrPos(ret), "%s returns the result of another call", core.FuncName(f))
				}
			}
		}
		o.Site(n)
		if n < 5 {
			o.Fail(cachePkg, "only %d forwarding cluster methods found (5 confirmed)", n)
		}
	})
	r.Check("D6/K8/sqlc-read-plumbing", "CachedConn.QueryRowCtx takes under its key with a query on the connection's db; QueryRowIndexCtx writes and reads the primary row under keyer(primaryKey)", func(o *core.O) {
		f := p.Func(sqlcPkg, "CachedConn", "QueryRowCtx")
		g := p.Func(sqlcPkg, "CachedConn", "QueryRowIndexCtx")
		if !o.Need(f != nil && g != nil, "sqlc.CachedConn.QueryRowCtx / QueryRowIndexCtx") {
			return
		}
		r.Fn(core.FuncName(f), core.FuncName(g))
		isTake := core.CallMethod("cache.Cache", "TakeCtx")
		ts := core.Calls(f, isTake)
		o.Site(len(ts), core.FuncName(f))
		if len(ts) != 1 {
			o.Fail(p.Pos(f.Pos()), "QueryRowCtx does not take from the cache exactly once")
		} else {
			a := core.Args(ts[0]) // cache, ctx, v, key, closure
			if !core.ParamAt(f, 2)(a[2]) || !core.ParamAt(f, 3)(a[3]) {
				o.Fail(p.InstrPos(ts[0]), "QueryRowCtx does not take (v, key) in order")
			}
			if mc, ok := core.Strip(a[4]).(*ssa.MakeClosure); ok {
				qs := core.Calls(mc.Fn.(*ssa.Function), core.CallOfValue(core.CapturedParam(f, 4)))
				if len(qs) != 1 {
					o.Fail(p.Pos(mc.Fn.Pos()), "the take closure does not run the caller's query exactly once")
				} else {
					qa := core.Args(qs[0])
					if !core.DependsOn(qa[1], core.FieldLoad("CachedConn.db")) {
						o.Fail(p.InstrPos(qs[0]), "the query does not run on the connection's db")
					}
					if _, ok := core.Strip(qa[2]).(*ssa.Parameter); !ok {
						o.Fail(p.InstrPos(qs[0]), "the query does not fill the destination handed by the cache")
					}
				}
			} else {
				o.Fail(p.InstrPos(ts[0]), "query adapter is not a closure")
			}
		}
		// index: both the write and the final read are keyed by keyer(primaryKey)
		ge := newC06Env(g)
		isKeyer := func(v ssa.Value) bool {
			c, ok := v.(*ssa.Call)
			if !ok {
				return false
			}
			return core.CallOfValue(core.Or2(core.ParamOrCaptured(g, 4), ge.isParam(4)))(c)
		}
		n, writes := 0, 0
		for _, h := range c06Union(core.WithAnon(g), ge.fns) {
			for _, c := range core.Calls(h, core.Or(core.CallMethod("cache.Cache", "SetWithExpireCtx"), isTake)) {
				n++
				a := core.Args(c)
				keyArg := a[2]
				if core.CallMethod("cache.Cache", "TakeCtx")(c.(ssa.Instruction)) {
					keyArg = a[3]
				} else {
					writes++
				}
				if !isKeyer(core.Forward(keyArg)) {
					o.Fail(p.InstrPos(c), "the primary row is not keyed by keyer(primaryKey)")
				}
			}
		}
		o.Site(n, core.FuncName(g))
		if writes == 0 || writes == n {
			o.Unres("the write and the read of the primary row were not both found in QueryRowIndexCtx and the function values it creates (%d writes, %d reads)", writes, n-writes)
		}
		tw := core.Calls(g, core.CallMethod("cache.Cache", "TakeWithExpireCtx"))
		if len(tw) != 1 || !core.ParamAt(g, 3)(core.Args(tw[0])[3]) {
			o.Fail(p.Pos(g.Pos()), "the index lookup is not taken under the index key")
		}
	})

	r.Check("D3/K9/options-forwarded-to-every-node", "cache.New builds every node with the caller's options (expiry, not-found expiry): each NewNode call receives the same barrier, stat, not-found error and the opts parameter", func(o *core.O) {
		f := p.Func(cachePkg, "", "New")
		if !o.Need(f != nil, "cache.New") {
			return
		}
		r.Fn(core.FuncName(f))
		cs := core.Calls(f, core.CallTo("lib/store/cache.NewNode"))
		o.Site(len(cs), core.FuncName(f))
		if len(cs) == 0 {
			o.Fail(p.Pos(f.Pos()), "cache.New builds no node")
		}
		np := len(f.Params)
		for _, c := range cs {
			args := core.Args(c)
			// NewNode(rds, barrier, st, errNotFound, opts...): the last four mirror New's last four parameters
			for k := 1; k <= 4; k++ {
				if len(args) < 5 || !core.ParamAt(f, np-k)(args[len(args)-k]) {
					o.Fail(p.InstrPos(c), "a node is built without New's parameter #%d (%s): it runs with defaults instead of the configured value", np-k, f.Params[np-k].Name())
				}
			}
		}
	})

}
