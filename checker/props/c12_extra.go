package props

import (
	"go/types"
	"strings"

	"godcheck/core"

	"golang.org/x/tools/go/ssa"
)

// c12Extra: rules added after the third independent seeding round.
func c12Extra(r *core.Run) {
	p := r.P
	defer c12R11(r) // round 11: the reply comparison of the liveness probe
	defer c12R10(r) // round 10: command-error identity, client built from the Redis' configuration
	// go-redis takes a non-nil error returned by a hook as the command's (or, for a
	// pipeline, every command's) error: an instrumentation hook has to return nil.
	r.Check("D4/K8/hooks-are-observers", "the go-redis hooks installed by the wrapper never return an error of their own (go-redis would stamp it on the command, for a pipeline on every command): every return is nil, or – for the single-command hook only – the command's own error", func(o *core.O) {
		n := 0
		for _, f := range p.PkgFuncs(c12redisPkg) {
			if f.Signature.Recv() == nil || f.Parent() != nil {
				continue
			}
			nm := f.Name()
			if nm != "BeforeProcess" && nm != "AfterProcess" && nm != "BeforeProcessPipeline" && nm != "AfterProcessPipeline" {
				continue
			}
			res := f.Signature.Results()
			if res.Len() == 0 || res.At(res.Len()-1).Type().String() != "error" {
				continue
			}
			r.Fn(core.FuncName(f))
			ei := res.Len() - 1
			for _, ret := range core.Returns(f) {
				n++
				v := core.Result(ret, ei)
				ok := true
				for _, l := range gxPhiLeaves(v) {
					l = core.Forward(l)
					if core.IsNil(l) {
						continue
					}
					// the single command's own error is harmless (SetErr with the same value)
					if nm == "AfterProcess" {
						if c, idx := core.ResultOf(l); c != nil && idx == 0 && strings.HasSuffix(core.CalleeName(c), ".Err") && len(core.Args(c)) == 1 && core.ParamAt(f, 2)(core.Args(c)[0]) {
							continue
						}
					}
					ok = false
				}
				if !ok {
					o.Fail(p.InstrPos(ret), "%s can return a non-nil error (%s): go-redis replaces the result of the command – for a pipeline of every command, also the successful ones – by it, and the caller no longer sees what the server answered (redis.Nil becomes a breaker-tripping error)", core.FuncName(f), core.Describe(v))
				}
			}
		}
		o.Site(n, c12redisPkg)
	})

	// Config.NewRedis: the options are independent of each other.
	r.Check("D4/K2/config-options-independent", "Config.NewRedis applies cluster type, password and TLS independently: for every two of WithCluster/WithPass/WithTLS some path applies both", func(o *core.O) {
		f := p.Func(c12redisPkg, "Config", "NewRedis")
		if !o.Need(f != nil, "(Config).NewRedis") {
			return
		}
		r.Fn(core.FuncName(f))
		names := []string{"WithCluster", "WithPass", "WithTLS"}
		calls := map[string][]ssa.Instruction{}
		n := 0
		for _, nm := range names {
			calls[nm] = core.Instrs(f, core.CallTo(c12redisPkg+"."+nm))
			n += len(calls[nm])
			if len(calls[nm]) == 0 {
				o.Fail(p.Pos(f.Pos()), "NewRedis never applies %s: the configured setting does not reach the client", nm)
			}
		}
		o.Site(n, core.FuncName(f))
		for i, a := range names {
			for _, b := range names[i+1:] {
				if len(calls[a]) == 0 || len(calls[b]) == 0 {
					continue
				}
				both := false
				for _, ca := range calls[a] {
					if _, ok := core.Reach(core.Q{From: []core.At{core.After(ca)}, Target: core.Is(calls[b]...)}); ok {
						both = true
					}
				}
				for _, cb := range calls[b] {
					if _, ok := core.Reach(core.Q{From: []core.At{core.After(cb)}, Target: core.Is(calls[a]...)}); ok {
						both = true
					}
				}
				if !both {
					o.Fail(p.InstrPos(calls[b][0]), "no path of NewRedis applies both %s and %s: a configuration that sets both loses one of them (NOAUTH / plaintext / single-node client where go-redis with the same settings works)", a, b)
				}
			}
		}
		// the options collected are the ones handed to the constructor
		for _, c := range core.Calls(f, core.CallTo(c12redisPkg+".New")) {
			args := c.Common().Args
			if len(args) < 2 {
				continue
			}
			if _, ok := args[len(args)-1].Type().Underlying().(*types.Slice); !ok {
				continue
			}
			for _, nm := range names {
				for _, oc := range calls[nm] {
					ov := oc.(ssa.Value)
					if !core.DependsOn(args[len(args)-1], func(v ssa.Value) bool { return v == ov }) {
						o.Fail(p.InstrPos(c), "the %s option is built but not passed to New", nm)
					}
				}
			}
		}
	})
}
