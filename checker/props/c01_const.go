package props

import (
	"go/constant"
	"go/token"
	"go/types"

	"godcheck/core"

	"golang.org/x/tools/go/ssa"
)

// ---- constant lookup tables in package-level arrays / slices ----
//
// constTable returns the element values of a package-level variable of array or
// slice type that is provably constant: stored exactly once, in the package
// initialiser, from a composite literal whose elements are constants, and in no
// function of its package (hidden helpers included) written, written through an
// element address, sliced, copied into something writable or handed to a call.
// nil when any of this cannot be shown. (The array case is what core.Eval's
// constGlobal lacks: an array literal is built in a local and stored as a whole.)
func constTable(g *ssa.Global) []constant.Value {
	if g == nil || g.Pkg == nil {
		return nil
	}
	initFn := g.Pkg.Func("init")
	if initFn == nil {
		return nil
	}
	var val []constant.Value              // from the one store of a whole literal
	inPlace := map[int64]constant.Value{} // or: elements of an array variable stored in place by the initialiser
	stores := 0
	for _, f := range core.SSAPkgFuncs(g.Pkg.Prog, g.Pkg) {
		for _, b := range f.Blocks {
			for _, in := range b.Instrs {
				for _, op := range in.Operands(nil) {
					if *op != ssa.Value(g) {
						continue
					}
					switch x := in.(type) {
					case *ssa.Store:
						if x.Addr != ssa.Value(g) || f != initFn {
							return nil
						}
						stores++
						val = literalElems(x.Val)
					case *ssa.UnOp: // the whole array / the slice header is loaded
						if x.Op != token.MUL || !readOnlyTableUses(x) {
							return nil
						}
					case *ssa.IndexAddr: // array variable indexed in place
						if elemOnlyLoaded(x) {
							continue
						}
						// the initialiser's own `table[i] = constant`, once per element
						i, isC := core.ConstInt(x.Index)
						c := onlyConstStore(x)
						if f != initFn || !isC || c == nil || inPlace[i] != nil {
							return nil
						}
						inPlace[i] = c
					case *ssa.DebugRef:
					default:
						return nil
					}
				}
			}
		}
	}
	switch {
	case stores == 1 && len(inPlace) == 0:
		return val
	case stores == 0 && len(inPlace) > 0:
		pt, ok := g.Type().Underlying().(*types.Pointer)
		if !ok {
			return nil
		}
		arr, ok := pt.Elem().Underlying().(*types.Array)
		if !ok || arr.Len() > 4096 {
			return nil
		}
		zero := zeroConst(arr.Elem())
		if zero == nil {
			return nil
		}
		out := make([]constant.Value, arr.Len())
		for i := range out {
			out[i] = zero
		}
		for i, c := range inPlace {
			if i < 0 || i >= arr.Len() {
				return nil
			}
			out[i] = c
		}
		return out
	}
	return nil
}

// onlyConstStore: the element address is used for exactly one store of a constant.
func onlyConstStore(ia *ssa.IndexAddr) constant.Value {
	if ia.Referrers() == nil {
		return nil
	}
	var out constant.Value
	for _, r := range *ia.Referrers() {
		if _, isDbg := r.(*ssa.DebugRef); isDbg {
			continue
		}
		st, ok := r.(*ssa.Store)
		if !ok || st.Addr != ssa.Value(ia) || out != nil {
			return nil
		}
		c, ok := st.Val.(*ssa.Const)
		if !ok || c.Value == nil {
			return nil
		}
		out = c.Value
	}
	return out
}

func zeroConst(t types.Type) constant.Value {
	elem, ok := t.Underlying().(*types.Basic)
	if !ok {
		return nil
	}
	switch {
	case elem.Info()&types.IsInteger != 0:
		return constant.MakeInt64(0)
	case elem.Info()&types.IsFloat != 0:
		return constant.MakeFloat64(0)
	case elem.Info()&types.IsBoolean != 0:
		return constant.MakeBool(false)
	case elem.Info()&types.IsString != 0:
		return constant.MakeString("")
	}
	return nil
}

func readOnlyTableUses(v ssa.Value) bool {
	if v.Referrers() == nil {
		return false
	}
	for _, r := range *v.Referrers() {
		switch x := r.(type) {
		case *ssa.IndexAddr:
			if !elemOnlyLoaded(x) {
				return false
			}
		case *ssa.Index, *ssa.DebugRef:
		case *ssa.Call:
			if bi, ok := x.Call.Value.(*ssa.Builtin); !ok || (bi.Name() != "len" && bi.Name() != "cap") {
				return false
			}
		default:
			return false
		}
	}
	return true
}

func elemOnlyLoaded(ia *ssa.IndexAddr) bool {
	if ia.Referrers() == nil {
		return false
	}
	for _, r := range *ia.Referrers() {
		if u, ok := r.(*ssa.UnOp); ok && u.Op == token.MUL {
			continue
		}
		if _, ok := r.(*ssa.DebugRef); ok {
			continue
		}
		return false
	}
	return true
}

// literalElems reads a composite literal of constants as lowered by the builder:
// `[N]T{…}` is a load of a fresh local array, `[]T{…}` a slice of one; every element
// is stored at most once, with a constant; elements not mentioned are zero.
func literalElems(v ssa.Value) []constant.Value {
	var al *ssa.Alloc
	var whole ssa.Instruction
	switch x := v.(type) {
	case *ssa.UnOp:
		if x.Op != token.MUL {
			return nil
		}
		al, _ = x.X.(*ssa.Alloc)
		whole = x
	case *ssa.Slice:
		if x.Low != nil || x.High != nil || x.Max != nil {
			return nil
		}
		al, _ = x.X.(*ssa.Alloc)
		whole = x
	}
	if al == nil {
		return nil
	}
	pt, ok := al.Type().Underlying().(*types.Pointer)
	if !ok {
		return nil
	}
	arr, ok := pt.Elem().Underlying().(*types.Array)
	if !ok || arr.Len() > 4096 {
		return nil
	}
	zero := zeroConst(arr.Elem())
	if zero == nil {
		return nil
	}
	out := make([]constant.Value, arr.Len())
	for _, r := range *al.Referrers() {
		switch x := r.(type) {
		case *ssa.IndexAddr:
			i, ok := core.ConstInt(x.Index)
			if !ok || i < 0 || i >= arr.Len() || x.Referrers() == nil {
				return nil
			}
			for _, rr := range *x.Referrers() {
				if _, isDbg := rr.(*ssa.DebugRef); isDbg {
					continue
				}
				st, ok := rr.(*ssa.Store)
				if !ok || st.Addr != ssa.Value(x) || out[i] != nil {
					return nil
				}
				c, ok := st.Val.(*ssa.Const)
				if !ok || c.Value == nil {
					return nil
				}
				out[i] = c.Value
			}
		case *ssa.DebugRef:
		default:
			if r != whole {
				return nil
			}
		}
	}
	for i := range out {
		if out[i] == nil {
			out[i] = zero
		}
	}
	return out
}

// ---- finite case split of a value into constants ----

// constCase is one alternative of a value: its constant (nil: not a constant the
// evaluation understands) and the φ-edges through which this alternative is chosen.
type constCase struct {
	val constant.Value
	via []core.Edge
}

// constCases evaluates v to the finite set of constants it can hold: constants,
// φ-nodes of such (one case per incoming edge), numeric conversions, and lookups
// `table[i]` in a provably constant package-level array/slice (constTable) for
// each case of the index.
func constCases(v ssa.Value) []constCase {
	return constCasesN(v, 0)
}

func constCasesN(v ssa.Value, depth int) []constCase {
	unknown := []constCase{{}}
	if depth > 6 {
		return unknown
	}
	v = core.Forward(v)
	switch x := v.(type) {
	case *ssa.Const:
		if x.Value == nil {
			return unknown
		}
		return []constCase{{val: x.Value}}
	case *ssa.Phi:
		var out []constCase
		for i, e := range x.Edges {
			ed := core.Edge{From: x.Block().Preds[i], To: x.Block()}
			for _, cs := range constCasesN(e, depth+1) {
				out = append(out, constCase{cs.val, append([]core.Edge{ed}, cs.via...)})
			}
			if len(out) > 32 {
				return unknown
			}
		}
		return out
	case *ssa.ChangeType:
		return constCasesN(x.X, depth+1)
	case *ssa.Convert:
		bt, ok := x.Type().Underlying().(*types.Basic)
		if !ok {
			return unknown
		}
		in := constCasesN(x.X, depth+1)
		out := make([]constCase, len(in))
		for i, cs := range in {
			out[i] = constCase{via: cs.via}
			if cs.val == nil {
				continue
			}
			switch {
			case bt.Info()&types.IsFloat != 0 && (cs.val.Kind() == constant.Int || cs.val.Kind() == constant.Float):
				out[i].val = constant.ToFloat(cs.val)
			case bt.Info()&types.IsInteger != 0 && cs.val.Kind() == constant.Int:
				// 0 … 127 is representable in every integer type: the conversion is the identity
				if n, exact := constant.Int64Val(cs.val); exact && n >= 0 && n <= 127 {
					out[i].val = cs.val
				}
			}
		}
		return out
	case *ssa.UnOp:
		if x.Op != token.MUL {
			return unknown
		}
		ia, ok := x.X.(*ssa.IndexAddr)
		if !ok {
			return unknown
		}
		return lookupCases(tableOf(ia.X), ia.Index, depth)
	case *ssa.Index:
		return lookupCases(tableOf(x.X), x.Index, depth)
	}
	return unknown
}

// tableOf resolves the indexed operand to a constant table: the array variable
// itself (&table[i]) or a load of the array / slice variable.
func tableOf(v ssa.Value) []constant.Value {
	switch x := v.(type) {
	case *ssa.Global:
		return constTable(x)
	case *ssa.UnOp:
		if g, ok := x.X.(*ssa.Global); ok && x.Op == token.MUL {
			return constTable(g)
		}
	}
	return nil
}

func lookupCases(tab []constant.Value, idx ssa.Value, depth int) []constCase {
	in := constCasesN(idx, depth+1)
	out := make([]constCase, len(in))
	for i, cs := range in {
		out[i] = constCase{via: cs.via}
		if tab == nil || cs.val == nil || cs.val.Kind() != constant.Int {
			continue
		}
		if n, exact := constant.Int64Val(cs.val); exact && n >= 0 && n < int64(len(tab)) {
			out[i].val = tab[n]
		}
	}
	return out
}

// edgeGuarded: the CFG edge e is taken only when the atom holds — it is one of the
// edges that establish the atom, or its source block is reachable only through them.
func edgeGuarded(f *ssa.Function, e core.Edge, at core.Atom) bool {
	holds, _ := core.EdgesOf(f, at)
	for _, h := range holds {
		if h.From == e.From && h.To == e.To {
			return true
		}
	}
	return core.Requires(f, func(in ssa.Instruction) bool { return in.Block() == e.From }, at) == nil
}
