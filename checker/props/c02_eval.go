package props

import (
	"go/constant"
	"go/token"
	"go/types"

	"godcheck/core"

	"golang.org/x/tools/go/ssa"
)

// A small abstract evaluator for the status-mapping clauses of C02 (D4, D8/K6):
// "which status does this code produce when the context error is
// context.Canceled / context.DeadlineExceeded / something else?" is decided by
// *evaluating* the code on these three representatives instead of matching how
// the mapping is spelled (if-chain, switch, helper, lookup loop over a
// never-written package-level table of (sentinel error, code) pairs, …).
//
// The domain: integer/boolean/string constants; error identities (the value of a
// package-level error variable such as context.Canceled, one "outsider" error,
// nil, a grpc status error with its code); structs and arrays of those held in
// local variables or in provably constant package-level tables; pointers to
// such cells; closures. Everything else is opaque; a branch on an opaque value,
// a defer, a send, a store to a global … make the evaluation fail, and the rule
// then falls back to (or stays with) its path-based form. Nothing of the
// analysed program is executed; core.Eval does not cover error values and local
// aggregates, which is why this lives here.

type c02Nil struct{}
type c02Opq struct{}
type c02Sent struct{ g *ssa.Global } // the value of the package-level error variable g
type c02Other struct{}               // an error that is none of the sentinels
type c02Stat struct{ code any }      // status.Error(code, …) / status.Errorf(code, …)
type c02Agg struct{ e []any }        // struct or array value (never mutated in place)
type c02Cell struct{ v any }
type c02Ptr struct {
	c    *c02Cell
	path []int
}
type c02SliceV struct{ arr c02Ptr } // arr[:] of an array cell
type c02Clo struct {
	fn    *ssa.Function
	binds []any
}

// c02Event is an interface method call made by the evaluated code.
type c02Event struct {
	In     ssa.Instruction
	Method string
	Args   []any
}

type c02Ev struct {
	p      *core.Prog
	root   *ssa.Package
	steps  int
	depth  int
	hook   func(v ssa.Value) (any, bool) // overrides the value of v (a call, a parameter …)
	notify func(in ssa.Instruction) bool // invocations the rule wants to see as events
	events []c02Event
	globs  map[*ssa.Global]*c02Cell
	noCall bool // do not descend into callees (reading a literal in the package initialiser)
}

type c02EvalFail struct{ why string }

func (e *c02Ev) fail(why string) { panic(c02EvalFail{why}) }

func c02NewEv(p *core.Prog, root *ssa.Package) *c02Ev {
	return &c02Ev{p: p, root: root, steps: 20000, globs: map[*ssa.Global]*c02Cell{}}
}

// try runs f and reports whether the evaluation went through.
func (e *c02Ev) try(f func()) (ok bool) {
	defer func() {
		if r := recover(); r != nil {
			if _, mine := r.(c02EvalFail); !mine {
				panic(r)
			}
			ok = false
		}
	}()
	f()
	return true
}

func c02Zero(t types.Type) any {
	switch u := t.Underlying().(type) {
	case *types.Basic:
		switch {
		case u.Info()&types.IsBoolean != 0:
			return constant.MakeBool(false)
		case u.Info()&types.IsInteger != 0:
			return constant.MakeInt64(0)
		case u.Info()&types.IsFloat != 0:
			return constant.MakeFloat64(0)
		case u.Info()&types.IsString != 0:
			return constant.MakeString("")
		}
		return c02Opq{}
	case *types.Struct:
		a := &c02Agg{e: make([]any, u.NumFields())}
		for i := range a.e {
			a.e[i] = c02Zero(u.Field(i).Type())
		}
		return a
	case *types.Array:
		if u.Len() > 4096 {
			return c02Opq{}
		}
		a := &c02Agg{e: make([]any, u.Len())}
		for i := range a.e {
			a.e[i] = c02Zero(u.Elem())
		}
		return a
	case *types.Pointer, *types.Interface, *types.Slice, *types.Map, *types.Chan, *types.Signature:
		return c02Nil{}
	}
	return c02Opq{}
}

func c02Get(v any, path []int) any {
	for _, i := range path {
		a, ok := v.(*c02Agg)
		if !ok || i < 0 || i >= len(a.e) {
			return c02Opq{}
		}
		v = a.e[i]
	}
	return v
}

func c02Set(v any, path []int, nv any) (any, bool) {
	if len(path) == 0 {
		return nv, true
	}
	a, ok := v.(*c02Agg)
	if !ok || path[0] < 0 || path[0] >= len(a.e) {
		return nil, false
	}
	sub, ok := c02Set(a.e[path[0]], path[1:], nv)
	if !ok {
		return nil, false
	}
	cp := &c02Agg{e: append([]any(nil), a.e...)}
	cp.e[path[0]] = sub
	return cp, true
}

func (pt c02Ptr) at(i int) c02Ptr {
	return c02Ptr{pt.c, append(append([]int(nil), pt.path...), i)}
}

// isIdent: values compared by identity (errors and nil).
func c02IsIdent(v any) bool {
	switch v.(type) {
	case c02Nil, c02Sent, c02Other:
		return true
	}
	return false
}

func c02SameIdent(a, b any) bool {
	switch x := a.(type) {
	case c02Nil:
		_, ok := b.(c02Nil)
		return ok
	case c02Other:
		_, ok := b.(c02Other)
		return ok
	case c02Sent:
		y, ok := b.(c02Sent)
		return ok && x.g == y.g
	}
	return false
}

// global returns the cell of a package-level variable: its provably constant
// table value, the identity of an error variable, or an opaque content.
func (e *c02Ev) global(g *ssa.Global) *c02Cell {
	if c, ok := e.globs[g]; ok {
		return c
	}
	c := &c02Cell{v: c02Opq{}}
	e.globs[g] = c
	elem := g.Type().Underlying().(*types.Pointer).Elem()
	if elem.String() == "error" {
		c.v = c02Sent{g}
		return c
	}
	if v, ok := c02ConstTable(e.p, g); ok {
		c.v = v
	}
	return c
}

// call evaluates fn on the given arguments and closure bindings.
func (e *c02Ev) call(fn *ssa.Function, args []any, binds []any) []any {
	if fn == nil || len(fn.Blocks) == 0 || len(args) != len(fn.Params) || e.depth > 6 {
		e.fail("callee not evaluable")
	}
	e.depth++
	defer func() { e.depth-- }()
	env := map[ssa.Value]any{}
	for i, pa := range fn.Params {
		env[pa] = args[i]
	}
	for i, fv := range fn.FreeVars {
		if i < len(binds) {
			env[fv] = binds[i]
		}
	}
	_, res := e.run(fn.Blocks[0], nil, env)
	return res
}

// run interprets from the head of block b until a return (or a panic instruction: ret == nil).
func (e *c02Ev) run(b, prev *ssa.BasicBlock, env map[ssa.Value]any) (*ssa.Return, []any) {
	for {
		newPhi := map[ssa.Value]any{}
		for _, in := range b.Instrs {
			phi, ok := in.(*ssa.Phi)
			if !ok {
				break
			}
			idx := -1
			for i, pr := range b.Preds {
				if pr == prev {
					idx = i
				}
			}
			if idx < 0 {
				newPhi[phi] = c02Opq{}
				continue
			}
			newPhi[phi] = e.val(env, phi.Edges[idx])
		}
		for k, v := range newPhi {
			env[k] = v
		}
		next := (*ssa.BasicBlock)(nil)
		for _, in := range b.Instrs {
			e.steps--
			if e.steps <= 0 {
				e.fail("step bound")
			}
			switch x := in.(type) {
			case *ssa.Phi, *ssa.DebugRef, *ssa.RunDefers:
			case *ssa.Return:
				var out []any
				for _, r := range x.Results {
					out = append(out, e.val(env, r))
				}
				return x, out
			case *ssa.Panic:
				return nil, nil
			case *ssa.Jump:
				next = b.Succs[0]
			case *ssa.If:
				c, ok := core.AsBool(e.val(env, x.Cond))
				if !ok {
					e.fail("branch on a value that is not decided by the inputs")
				}
				if c {
					next = b.Succs[0]
				} else {
					next = b.Succs[1]
				}
			case *ssa.Store:
				pt, ok := e.val(env, x.Addr).(c02Ptr)
				if !ok {
					continue // a store through a pointer the evaluator does not model cannot reach its cells
				}
				for _, gc := range e.globs {
					if gc == pt.c {
						e.fail("store to a package-level variable")
					}
				}
				nv, ok := c02Set(pt.c.v, pt.path, e.val(env, x.Val))
				if !ok {
					pt.c.v = c02Opq{}
					continue
				}
				pt.c.v = nv
			case ssa.Value:
				env[x] = e.instr(env, x)
			default:
				e.fail("instruction outside the evaluated fragment") // defer, go, send, map update
			}
		}
		if next == nil {
			e.fail("block without terminator")
		}
		prev, b = b, next
	}
}

func (e *c02Ev) val(env map[ssa.Value]any, v ssa.Value) any {
	if e.hook != nil {
		if r, ok := e.hook(v); ok {
			return r
		}
	}
	switch x := v.(type) {
	case *ssa.Const:
		if x.Value == nil {
			return c02Zero(x.Type())
		}
		return x.Value
	case *ssa.Global:
		return c02Ptr{c: e.global(x)}
	case *ssa.Function:
		return &c02Clo{fn: x}
	}
	if r, ok := env[v]; ok {
		return r
	}
	if al, ok := v.(*ssa.Alloc); ok {
		// a variable declared outside the evaluated region: unknown content until the region stores into it
		pt := c02Ptr{c: &c02Cell{v: c02Opq{}}}
		env[al] = pt
		return pt
	}
	return c02Opq{} // defined outside the evaluated region
}

func (e *c02Ev) instr(env map[ssa.Value]any, v ssa.Value) any {
	switch x := v.(type) {
	case *ssa.Alloc:
		return c02Ptr{c: &c02Cell{v: c02Zero(x.Type().Underlying().(*types.Pointer).Elem())}}
	case *ssa.FieldAddr:
		if pt, ok := e.val(env, x.X).(c02Ptr); ok {
			return pt.at(x.Field)
		}
		return c02Opq{}
	case *ssa.Field:
		if a, ok := e.val(env, x.X).(*c02Agg); ok && x.Field < len(a.e) {
			return a.e[x.Field]
		}
		return c02Opq{}
	case *ssa.IndexAddr:
		i, iok := core.AsInt(e.val(env, x.Index))
		switch pt := e.val(env, x.X).(type) {
		case c02Ptr:
			a, ok := c02Get(pt.c.v, pt.path).(*c02Agg)
			if !ok {
				return c02Opq{}
			}
			if !iok || i < 0 || int(i) >= len(a.e) {
				e.fail("index not decided or out of range")
			}
			return pt.at(int(i))
		case c02SliceV:
			a, ok := c02Get(pt.arr.c.v, pt.arr.path).(*c02Agg)
			if !ok {
				return c02Opq{}
			}
			if !iok || i < 0 || int(i) >= len(a.e) {
				e.fail("index not decided or out of range")
			}
			return pt.arr.at(int(i))
		}
		return c02Opq{}
	case *ssa.Index:
		a, ok := e.val(env, x.X).(*c02Agg)
		if !ok {
			return c02Opq{}
		}
		i, iok := core.AsInt(e.val(env, x.Index))
		if !iok || i < 0 || int(i) >= len(a.e) {
			e.fail("index not decided or out of range")
		}
		return a.e[i]
	case *ssa.Slice:
		if pt, ok := e.val(env, x.X).(c02Ptr); ok && x.Low == nil && x.High == nil && x.Max == nil {
			if _, isArr := c02Get(pt.c.v, pt.path).(*c02Agg); isArr {
				return c02SliceV{pt}
			}
		}
		return c02Opq{}
	case *ssa.UnOp:
		a := e.val(env, x.X)
		switch x.Op {
		case token.MUL:
			if pt, ok := a.(c02Ptr); ok {
				return c02Get(pt.c.v, pt.path)
			}
			return c02Opq{}
		case token.NOT:
			if b, ok := core.AsBool(a); ok {
				return constant.MakeBool(!b)
			}
			return c02Opq{}
		case token.SUB:
			if c, ok := a.(constant.Value); ok {
				return constant.UnaryOp(token.SUB, c, 0)
			}
		}
		return c02Opq{}
	case *ssa.BinOp:
		a, b := e.val(env, x.X), e.val(env, x.Y)
		ca, aok := a.(constant.Value)
		cb, bok := b.(constant.Value)
		if aok && bok {
			switch x.Op {
			case token.EQL, token.NEQ, token.LSS, token.LEQ, token.GTR, token.GEQ:
				return constant.MakeBool(constant.Compare(ca, x.Op, cb))
			case token.ADD, token.SUB, token.MUL, token.AND, token.OR, token.XOR:
				return constant.BinaryOp(ca, x.Op, cb)
			case token.QUO, token.REM:
				if constant.Sign(cb) == 0 || ca.Kind() != constant.Int {
					e.fail("division")
				}
				if x.Op == token.QUO {
					return constant.BinaryOp(ca, token.QUO_ASSIGN, cb)
				}
				return constant.BinaryOp(ca, token.REM, cb)
			}
			return c02Opq{}
		}
		if (x.Op == token.EQL || x.Op == token.NEQ) && c02IsIdent(a) && c02IsIdent(b) {
			return constant.MakeBool(c02SameIdent(a, b) == (x.Op == token.EQL))
		}
		if _, isStat := a.(c02Stat); isStat && (x.Op == token.EQL || x.Op == token.NEQ) {
			if _, isNil := b.(c02Nil); isNil {
				return constant.MakeBool(x.Op == token.NEQ)
			}
		}
		return c02Opq{}
	case *ssa.Convert:
		a := e.val(env, x.X)
		if c, ok := a.(constant.Value); ok {
			if bt, isB := x.Type().Underlying().(*types.Basic); isB && bt.Info()&types.IsInteger != 0 && c.Kind() == constant.Int {
				return c
			}
			return c02Opq{}
		}
		return a
	case *ssa.ChangeType:
		return e.val(env, x.X)
	case *ssa.ChangeInterface:
		return e.val(env, x.X)
	case *ssa.MakeInterface:
		return e.val(env, x.X)
	case *ssa.MakeClosure:
		fn, ok := x.Fn.(*ssa.Function)
		if !ok {
			return c02Opq{}
		}
		c := &c02Clo{fn: fn}
		for _, b := range x.Bindings {
			c.binds = append(c.binds, e.val(env, b))
		}
		return c
	case *ssa.Extract:
		if t, ok := e.val(env, x.Tuple).([]any); ok && x.Index < len(t) {
			return t[x.Index]
		}
		return c02Opq{}
	case *ssa.Call:
		return e.callInstr(env, x)
	}
	return c02Opq{}
}

func (e *c02Ev) callInstr(env map[ssa.Value]any, x *ssa.Call) any {
	cc := x.Common()
	var args []any
	for _, a := range cc.Args {
		args = append(args, e.val(env, a))
	}
	if cc.IsInvoke() {
		if e.notify != nil && e.notify(x) {
			e.events = append(e.events, c02Event{In: x, Method: cc.Method.Name(), Args: args})
		}
		return c02Opq{}
	}
	if bi, ok := cc.Value.(*ssa.Builtin); ok {
		if (bi.Name() == "len" || bi.Name() == "cap") && len(args) == 1 {
			switch a := args[0].(type) {
			case *c02Agg:
				return constant.MakeInt64(int64(len(a.e)))
			case c02SliceV:
				if arr, ok := c02Get(a.arr.c.v, a.arr.path).(*c02Agg); ok {
					return constant.MakeInt64(int64(len(arr.e)))
				}
			case constant.Value:
				if a.Kind() == constant.String && bi.Name() == "len" {
					return constant.MakeInt64(int64(len(constant.StringVal(a))))
				}
			}
		}
		return c02Opq{}
	}
	var callee *ssa.Function
	var binds []any
	if f := cc.StaticCallee(); f != nil {
		callee = f
		if mc, ok := cc.Value.(*ssa.MakeClosure); ok {
			if c, ok := e.val(env, mc).(*c02Clo); ok {
				binds = c.binds
			}
		}
	} else if c, ok := e.val(env, cc.Value).(*c02Clo); ok {
		callee, binds = c.fn, c.binds
	}
	if callee == nil {
		return c02Opq{}
	}
	switch core.Short(callee.String()) {
	case "errors.Is":
		if len(args) == 2 {
			_, s0 := args[0].(c02Stat)
			if (c02IsIdent(args[0]) || s0) && c02IsIdent(args[1]) {
				if _, isNil := args[0].(c02Nil); isNil {
					_, n1 := args[1].(c02Nil)
					return constant.MakeBool(n1)
				}
				return constant.MakeBool(!s0 && c02SameIdent(args[0], args[1]))
			}
		}
		return c02Opq{}
	case "google.golang.org/grpc/status.Error", "google.golang.org/grpc/status.Errorf":
		if len(args) >= 1 {
			return c02Stat{code: args[0]}
		}
		return c02Opq{}
	}
	if e.noCall || callee.Blocks == nil || callee.Pkg == nil || callee.Pkg != e.root {
		return c02Opq{}
	}
	// an in-package callee: evaluate it; when that is not possible its result is opaque, unless it
	// (or what it calls) does something the rule wants to see
	saved := len(e.events)
	var res []any
	if e.try(func() { res = e.call(callee, args, binds) }) {
		switch len(res) {
		case 0:
			return c02Opq{}
		case 1:
			return res[0]
		}
		return res
	}
	e.events = e.events[:saved]
	if e.steps <= 0 || c02Interesting(callee, e.notify, 0, map[*ssa.Function]bool{}) {
		e.fail("callee not evaluable")
	}
	return c02Opq{}
}

// c02Interesting: fn, its closures or its in-package static callees contain a call the rule wants to see
// (or produce a grpc status).
func c02Interesting(fn *ssa.Function, notify func(ssa.Instruction) bool, d int, seen map[*ssa.Function]bool) bool {
	if fn == nil || seen[fn] || fn.Blocks == nil {
		return false
	}
	seen[fn] = true
	for _, b := range fn.Blocks {
		for _, in := range b.Instrs {
			if mc, ok := in.(*ssa.MakeClosure); ok {
				if g, ok := mc.Fn.(*ssa.Function); ok && c02Interesting(g, notify, d, seen) {
					return true
				}
			}
			c := core.AsCall(in)
			if c == nil {
				continue
			}
			if notify != nil && notify(in) {
				return true
			}
			if cal := c.Common().StaticCallee(); cal != nil {
				switch core.Short(cal.String()) {
				case "google.golang.org/grpc/status.Error", "google.golang.org/grpc/status.Errorf":
					return true
				}
				if cal.Pkg == fn.Pkg && d < 3 && c02Interesting(cal, notify, d+1, seen) {
					return true
				}
			}
		}
	}
	return false
}

// ---- provably constant package-level tables (arrays / slices of constants, error identities and structs of those)

var c02TableCache = map[*ssa.Global]any{}

// c02ConstTable returns the value of a package-level array or slice variable that is written only by
// its initialiser in the package's init function (one store of a literal, or element stores in place)
// and is otherwise only read element by element (never sliced into something that escapes, never passed
// on, no element address kept); ok=false otherwise.
func c02ConstTable(p *core.Prog, g *ssa.Global) (any, bool) {
	if v, ok := c02TableCache[g]; ok {
		return v, v != nil
	}
	c02TableCache[g] = nil
	if g.Pkg == nil {
		return nil, false
	}
	elem := g.Type().Underlying().(*types.Pointer).Elem()
	isSlice := false
	switch elem.Underlying().(type) {
	case *types.Array:
	case *types.Slice:
		isSlice = true
	default:
		return nil, false
	}
	initFn := g.Pkg.Func("init")
	if initFn == nil {
		return nil, false
	}
	pkgs := []*ssa.Package{g.Pkg}
	if g.Object() == nil || g.Object().Exported() {
		pkgs = g.Pkg.Prog.AllPackages()
	}
	var readOnlyAddr func(v ssa.Value) bool
	readOnlyAddr = func(v ssa.Value) bool {
		if v.Referrers() == nil {
			return false
		}
		for _, r := range *v.Referrers() {
			switch x := r.(type) {
			case *ssa.DebugRef:
			case *ssa.UnOp:
				if x.Op != token.MUL {
					return false
				}
			case *ssa.FieldAddr:
				if !readOnlyAddr(x) {
					return false
				}
			case *ssa.IndexAddr:
				if x.X != v || !readOnlyAddr(x) {
					return false
				}
			default:
				return false
			}
		}
		return true
	}
	var readOnlySlice func(v ssa.Value, d int) bool
	readOnlySlice = func(v ssa.Value, d int) bool {
		if v.Referrers() == nil || d > 4 {
			return false
		}
		for _, r := range *v.Referrers() {
			switch x := r.(type) {
			case *ssa.DebugRef:
			case *ssa.IndexAddr:
				if x.X != v || !readOnlyAddr(x) {
					return false
				}
			case *ssa.Index:
				if x.X != v {
					return false
				}
			case *ssa.Call:
				bi, ok := x.Call.Value.(*ssa.Builtin)
				if !ok || (bi.Name() != "len" && bi.Name() != "cap") {
					return false
				}
			case *ssa.Phi:
				if !readOnlySlice(x, d+1) {
					return false
				}
			default:
				return false
			}
		}
		return true
	}
	var initBlock *ssa.BasicBlock
	writes := 0
	noteWrite := func(in ssa.Instruction) bool {
		if in.Parent() != initFn || (initBlock != nil && initBlock != in.Block()) {
			return false
		}
		initBlock = in.Block()
		writes++
		return true
	}
	for _, sp := range pkgs {
		for _, f := range core.SSAPkgFuncs(g.Pkg.Prog, sp) {
			for _, b := range f.Blocks {
				for _, in := range b.Instrs {
					uses := false
					for _, op := range in.Operands(nil) {
						if *op == ssa.Value(g) {
							uses = true
						}
					}
					if !uses {
						continue
					}
					switch x := in.(type) {
					case *ssa.DebugRef:
					case *ssa.Store:
						if x.Addr != ssa.Value(g) || !noteWrite(x) {
							return nil, false
						}
					case *ssa.UnOp:
						if x.Op != token.MUL {
							return nil, false
						}
						if isSlice && !readOnlySlice(x, 0) {
							return nil, false
						}
					case *ssa.IndexAddr:
						if isSlice || x.X != ssa.Value(g) {
							return nil, false
						}
						if f == initFn && !readOnlyAddr(x) {
							// element initialised in place: every write below it happens in the init block
							ok := true
							var walk func(v ssa.Value)
							walk = func(v ssa.Value) {
								for _, r := range *v.Referrers() {
									switch y := r.(type) {
									case *ssa.DebugRef:
									case *ssa.UnOp:
										if y.Op != token.MUL {
											ok = false
										}
									case *ssa.FieldAddr:
										walk(y)
									case *ssa.Store:
										if y.Addr != v || !noteWrite(y) {
											ok = false
										}
									default:
										ok = false
									}
								}
							}
							walk(x)
							if !ok {
								return nil, false
							}
						} else if !readOnlyAddr(x) {
							return nil, false
						}
					case *ssa.Slice:
						if isSlice || x.X != ssa.Value(g) || !readOnlySlice(x, 0) {
							return nil, false
						}
					default:
						return nil, false
					}
				}
			}
		}
	}
	if writes == 0 || initBlock == nil {
		return nil, false
	}
	// read the literal: interpret the (straight-line) block of the initialiser that writes g
	e := c02NewEv(p, g.Pkg)
	e.noCall = true
	cell := &c02Cell{v: c02Zero(elem)}
	e.globs[g] = cell
	env := map[ssa.Value]any{}
	ok := e.try(func() {
		for _, in := range initBlock.Instrs {
			switch x := in.(type) {
			case *ssa.Store:
				pt, isPtr := e.val(env, x.Addr).(c02Ptr)
				if !isPtr {
					continue
				}
				nv, okSet := c02Set(pt.c.v, pt.path, e.val(env, x.Val))
				if !okSet {
					nv = c02Opq{}
					if pt.c == cell {
						e.fail("table written in a way the evaluator does not model")
					}
				}
				pt.c.v = nv
			case ssa.Value:
				env[x] = e.instr(env, x)
			}
		}
	})
	if !ok {
		return nil, false
	}
	switch cell.v.(type) {
	case *c02Agg, c02SliceV:
		c02TableCache[g] = cell.v
		return cell.v, true
	}
	return nil, false
}

// c02ErrGlobal returns the package-level variable pkg.name of the loaded program.
func c02ErrGlobal(p *core.Prog, pkg, name string) *ssa.Global {
	sp := p.SSA.ImportedPackage(pkg)
	if sp == nil {
		return nil
	}
	return sp.Var(name)
}

// c02Inputs are the three representatives of a context error: context.Canceled,
// context.DeadlineExceeded and an error that is neither.
func c02Inputs(p *core.Prog) (canc, dl *ssa.Global, ok bool) {
	canc, dl = c02ErrGlobal(p, "context", "Canceled"), c02ErrGlobal(p, "context", "DeadlineExceeded")
	return canc, dl, canc != nil && dl != nil
}

// c02EvalRestStatus decides D4 by evaluation: every function among cands that is handed the context
// error as a parameter and (itself or through in-package callees) sends a status on a ResponseWriter is
// evaluated on the three representatives; it must send 499 for context.Canceled and 503 otherwise, and
// nothing else. ok=false when there is no such function or one of them cannot be evaluated.
func c02EvalRestStatus(p *core.Prog, run *c02Runner, serve *ssa.Function, cands []*ssa.Function) (sites int, why string) {
	canc, dl, ok := c02Inputs(p)
	if !ok {
		return 0, "context.Canceled not found"
	}
	isWH := func(in ssa.Instruction) bool {
		c := core.AsCall(in)
		return c != nil && c.Common().IsInvoke() && c.Common().Method.Name() == "WriteHeader" && isRWType(c.Common().Value.Type())
	}
	// the error handed on is Err() of the deadline context
	okProv := false
	for _, in := range core.Instrs(serve, func(in ssa.Instruction) bool { _, ok := in.(*ssa.Call); return ok }) {
		for _, a := range in.(*ssa.Call).Call.Args {
			if c02IsCtxErr(a, run) {
				okProv = true
			}
		}
	}
	if !okProv {
		return 0, "no call in the runner passes Err() of the deadline context"
	}
	n := 0
	seen := map[*ssa.Function]bool{}
	for _, f := range cands {
		if seen[f] || run.inBody(f) || f == serve {
			continue
		}
		seen[f] = true
		var ep *ssa.Parameter
		nErr, hasW := 0, false
		for _, pa := range f.Params {
			if pa.Type().String() == "error" {
				ep, nErr = pa, nErr+1
			}
			if isRWType(pa.Type()) {
				hasW = true
			}
		}
		if nErr != 1 || !hasW || !c02Interesting(f, isWH, 0, map[*ssa.Function]bool{}) {
			continue
		}
		for i, in := range []any{c02Sent{canc}, c02Sent{dl}, c02Other{}} {
			want := int64(503)
			if i == 0 {
				want = 499
			}
			ev := c02NewEv(p, f.Pkg)
			ev.notify = isWH
			args := make([]any, len(f.Params))
			for j, pa := range f.Params {
				args[j] = c02Opq{}
				if pa == ep {
					args[j] = in
				}
			}
			if !ev.try(func() { ev.call(f, args, nil) }) {
				return 0, core.FuncName(f) + " cannot be evaluated"
			}
			if len(ev.events) == 0 {
				return 0, core.FuncName(f) + " sends no status for one of the context errors"
			}
			for _, evn := range ev.events {
				if c, ok := core.AsInt(evn.Args[0]); !ok || c != want {
					return 0, core.FuncName(f) + " sends another status than 499 for context.Canceled / 503 otherwise"
				}
			}
		}
		n++
	}
	if n == 0 {
		return 0, "no function handed the context error sends a status"
	}
	return n, ""
}

// c02EvalRpcArm decides D8/K6 by evaluation: the deadline arm of fn, run on the three representatives of
// ctx.Err() (the Err() call on the deadline context), returns a nil response and codes.Canceled for
// context.Canceled, codes.DeadlineExceeded for context.DeadlineExceeded, the error itself otherwise.
func c02EvalRpcArm(p *core.Prog, run *c02Runner, fn *ssa.Function) bool {
	canc, dl, ok := c02Inputs(p)
	if !ok {
		return false
	}
	for i, in := range []any{c02Sent{canc}, c02Sent{dl}, c02Other{}} {
		in := in
		ev := c02NewEv(p, fn.Pkg)
		used := false
		ev.hook = func(v ssa.Value) (any, bool) {
			if c, ok := v.(*ssa.Call); ok && c.Call.IsInvoke() && c02IsCtxErr(c, run) {
				used = true
				return in, true
			}
			return nil, false
		}
		var ret *ssa.Return
		var res []any
		if !ev.try(func() { ret, res = ev.run(run.ctxArm.Edge.To, run.ctxArm.Edge.From, map[ssa.Value]any{}) }) {
			return false
		}
		if ret == nil || len(res) != 2 || !used {
			return false
		}
		if _, isNil := res[0].(c02Nil); !isNil {
			return false
		}
		switch i {
		case 0, 1:
			st, ok := res[1].(c02Stat)
			code, cok := core.AsInt(st.code)
			if !ok || !cok || code != map[int]int64{0: 1, 1: 4}[i] {
				return false
			}
		default:
			if _, same := res[1].(c02Other); !same {
				return false
			}
		}
	}
	return true
}
