package props

import (
	"fmt"
	"sort"
	"strings"
)

// K12: a small tokenizer, recursive-descent parser and symbolic evaluator for
// the Lua subset used by the two limiter scripts. Anything outside the subset
// yields an error starting with "UNSUPPORTED" (the obligation is then
// unresolved, never passed). Locals are substituted by their symbolic values,
// so renaming locals or reformatting the script does not change the result.

type luaTok struct {
	kind string // name, num, str, sym, kw, eof
	s    string
}

var luaKeywords = map[string]bool{"local": true, "if": true, "then": true, "elseif": true, "else": true, "end": true,
	"return": true, "and": true, "or": true, "not": true, "nil": true, "true": true, "false": true,
	"while": true, "for": true, "do": true, "function": true, "repeat": true, "until": true, "break": true, "in": true, "goto": true}

func luaLex(src string) ([]luaTok, error) {
	var out []luaTok
	i := 0
	isAlpha := func(c byte) bool { return c == '_' || (c >= 'a' && c <= 'z') || (c >= 'A' && c <= 'Z') }
	isDigit := func(c byte) bool { return c >= '0' && c <= '9' }
	for i < len(src) {
		c := src[i]
		switch {
		case c == ' ' || c == '\t' || c == '\n' || c == '\r' || c == ';':
			i++
		case c == '-' && i+1 < len(src) && src[i+1] == '-':
			if strings.HasPrefix(src[i:], "--[[") || strings.HasPrefix(src[i:], "--[=") {
				return nil, fmt.Errorf("UNSUPPORTED: long comment")
			}
			for i < len(src) && src[i] != '\n' {
				i++
			}
		case isAlpha(c):
			j := i
			for j < len(src) && (isAlpha(src[j]) || isDigit(src[j])) {
				j++
			}
			w := src[i:j]
			if luaKeywords[w] {
				out = append(out, luaTok{"kw", w})
			} else {
				out = append(out, luaTok{"name", w})
			}
			i = j
		case isDigit(c):
			j := i
			for j < len(src) && (isDigit(src[j]) || src[j] == '.') {
				j++
			}
			if j < len(src) && (isAlpha(src[j])) {
				return nil, fmt.Errorf("UNSUPPORTED: number syntax near %q", src[i:j+1])
			}
			out = append(out, luaTok{"num", src[i:j]})
			i = j
		case c == '"' || c == '\'':
			j := i + 1
			for j < len(src) && src[j] != c {
				if src[j] == '\\' || src[j] == '\n' {
					return nil, fmt.Errorf("UNSUPPORTED: string escape")
				}
				j++
			}
			if j >= len(src) {
				return nil, fmt.Errorf("UNSUPPORTED: unterminated string")
			}
			out = append(out, luaTok{"str", src[i+1 : j]})
			i = j + 1
		default:
			two := ""
			if i+1 < len(src) {
				two = src[i : i+2]
			}
			switch two {
			case "==", "~=", "<=", ">=", "..":
				out = append(out, luaTok{"sym", two})
				i += 2
				continue
			}
			if strings.ContainsRune("=<>()[],.+-*/%", rune(c)) {
				out = append(out, luaTok{"sym", string(c)})
				i++
				continue
			}
			return nil, fmt.Errorf("UNSUPPORTED: character %q", string(c))
		}
	}
	return append(out, luaTok{"eof", ""}), nil
}

// lsym is a symbolic value.
type lsym struct {
	op   string // leaf: num str nil true false argv keys name ; else operator / function symbol
	s    string
	args []*lsym
}

func (x *lsym) String() string {
	switch x.op {
	case "num", "true", "false", "name":
		return x.s
	case "nil":
		return "nil"
	case "str":
		return `"` + x.s + `"`
	case "argv":
		return "ARGV[" + x.s + "]"
	case "keys":
		return "KEYS[" + x.s + "]"
	}
	var as []string
	for _, a := range x.args {
		as = append(as, a.String())
	}
	switch x.op {
	case "+", "*", "==", "~=", "max", "min", "and", "or":
		sort.Strings(as)
	}
	switch x.op {
	case "+", "-", "*", "/", "%", "<", "<=", "==", "~=", "and", "or", "..":
		if len(as) == 2 {
			return "(" + as[0] + x.op + as[1] + ")"
		}
	}
	return x.op + "(" + strings.Join(as, ",") + ")"
}

func lleaf(op, s string) *lsym          { return &lsym{op: op, s: s} }
func lnode(op string, a ...*lsym) *lsym { return &lsym{op: op, args: a} }

// luaLit is one literal of a path condition.
type luaLit struct {
	neg bool
	c   *lsym
}

func (l luaLit) String() string {
	if l.neg {
		return "!" + l.c.String()
	}
	return l.c.String()
}

// lite builds if-then-else values; the clamp idioms `if a < b then x = a else x = b`
// are normalised to min / max so that an explicit clamp and math.min/max agree.
func lite(c, a, b *lsym) *lsym {
	if (c.op == "<" || c.op == "<=") && len(c.args) == 2 {
		x, y := c.args[0].String(), c.args[1].String()
		switch {
		case a.String() == x && b.String() == y:
			return lnode("min", c.args[0], c.args[1])
		case a.String() == y && b.String() == x:
			return lnode("max", c.args[0], c.args[1])
		}
	}
	return lnode("ite", c, a, b)
}

// lnot pushes a negation into a comparison.
func lnot(x *lsym) *lsym {
	if len(x.args) == 2 {
		switch x.op {
		case "<":
			return lnode("<=", x.args[1], x.args[0])
		case "<=":
			return lnode("<", x.args[1], x.args[0])
		case "==":
			return lnode("~=", x.args[0], x.args[1])
		case "~=":
			return lnode("==", x.args[0], x.args[1])
		}
	}
	if x.op == "not" && len(x.args) == 1 {
		return x.args[0]
	}
	return lnode("not", x)
}

// luaEffect is a redis.call executed under a path condition.
type luaEffect struct {
	cond []luaLit
	call *lsym
}
type luaReturn struct {
	cond []luaLit
	val  *lsym
}

type luaEval struct {
	toks    []luaTok
	pos     int
	env     map[string]*lsym
	cond    []luaLit
	effects []luaEffect
	returns []luaReturn
	err     error
}

func (e *luaEval) fail(format string, a ...any) {
	if e.err == nil {
		e.err = fmt.Errorf("UNSUPPORTED: "+format, a...)
	}
}
func (e *luaEval) peek() luaTok { return e.toks[e.pos] }
func (e *luaEval) next() luaTok {
	t := e.toks[e.pos]
	if t.kind != "eof" {
		e.pos++
	}
	return t
}
func (e *luaEval) accept(kind, s string) bool {
	if t := e.peek(); t.kind == kind && t.s == s {
		e.pos++
		return true
	}
	return false
}
func (e *luaEval) expect(kind, s string) {
	if !e.accept(kind, s) {
		e.fail("expected %q, found %q", s, e.peek().s)
	}
}

// luaRun parses and symbolically executes a script.
func luaRun(src string) (*luaEval, error) {
	toks, err := luaLex(src)
	if err != nil {
		return nil, err
	}
	e := &luaEval{toks: toks, env: map[string]*lsym{}}
	e.block(true)
	if e.err == nil && e.peek().kind != "eof" {
		e.fail("trailing %q", e.peek().s)
	}
	if e.err != nil {
		return nil, e.err
	}
	return e, nil
}

func (e *luaEval) blockEnd() bool {
	t := e.peek()
	return t.kind == "eof" || (t.kind == "kw" && (t.s == "end" || t.s == "else" || t.s == "elseif"))
}

// block executes statements until end/else/elseif/eof. live=false parses without effects on env
// (not needed: both arms are executed on copies by the if statement).
func (e *luaEval) block(live bool) {
	for e.err == nil && !e.blockEnd() {
		e.stmt()
	}
}

func (e *luaEval) stmt() {
	t := e.peek()
	switch {
	case t.kind == "kw" && t.s == "local":
		e.next()
		n := e.next()
		if n.kind != "name" {
			e.fail("local without a name")
			return
		}
		if e.peek().kind == "sym" && e.peek().s == "," {
			e.fail("multiple assignment")
			return
		}
		var v *lsym = lleaf("nil", "")
		if e.accept("sym", "=") {
			v = e.expr(0)
		}
		e.env[n.s] = v
	case t.kind == "kw" && t.s == "return":
		e.next()
		var v *lsym = lleaf("nil", "")
		if !e.blockEnd() {
			v = e.expr(0)
		}
		e.returns = append(e.returns, luaReturn{append([]luaLit{}, e.cond...), v})
		if !e.blockEnd() {
			e.fail("statement after return")
		}
	case t.kind == "kw" && t.s == "if":
		e.ifStmt()
	case t.kind == "name":
		// assignment or call statement
		save := e.pos
		n := e.next()
		if e.accept("sym", "=") {
			if _, ok := e.env[n.s]; !ok {
				e.fail("assignment to global %q", n.s)
				return
			}
			e.env[n.s] = e.expr(0)
			return
		}
		e.pos = save
		v := e.expr(0)
		if v == nil || v.op != "call" {
			e.fail("expression statement that is not a redis.call")
		}
	default:
		e.fail("statement starting with %q", t.s)
	}
}

func (e *luaEval) ifStmt() {
	e.expect("kw", "if")
	base := map[string]*lsym{}
	for k, v := range e.env {
		base[k] = v
	}
	baseCond := append([]luaLit{}, e.cond...)
	type arm struct {
		c   *lsym
		env map[string]*lsym
	}
	var arms []arm
	var negs []luaLit
	returnsBefore := len(e.returns)
	armsReturned, armsTotal := 0, 0
	runArm := func(c *lsym) {
		nret := len(e.returns)
		e.env = map[string]*lsym{}
		for k, v := range base {
			e.env[k] = v
		}
		e.cond = append(append([]luaLit{}, baseCond...), negs...)
		if c != nil {
			e.cond = append(e.cond, luaLit{false, c})
		}
		e.block(true)
		arms = append(arms, arm{c, e.env})
		armsTotal++
		if len(e.returns) > nret {
			armsReturned++
		}
		if c != nil {
			negs = append(negs, luaLit{true, c})
		}
	}
	c := e.expr(0)
	e.expect("kw", "then")
	runArm(c)
	hasElse := false
	for e.err == nil {
		if e.accept("kw", "elseif") {
			c = e.expr(0)
			e.expect("kw", "then")
			runArm(c)
			continue
		}
		if e.accept("kw", "else") {
			hasElse = true
			runArm(nil)
		}
		break
	}
	e.expect("kw", "end")
	e.cond = baseCond
	// merge environments: right fold of ite over the arms
	e.env = map[string]*lsym{}
	armReturned := len(e.returns) > returnsBefore
	for k, old := range base {
		merged := old
		changed := false
		for i := len(arms) - 1; i >= 0; i-- {
			a := arms[i]
			nv := a.env[k]
			if a.c == nil { // else arm
				merged = nv
				if nv.String() != old.String() {
					changed = true
				}
				continue
			}
			if nv.String() == merged.String() {
				continue
			}
			changed = true
			if a.c.op == "==" && len(a.c.args) == 2 && merged.String() == old.String() {
				// if x == nil then x = d end  →  default(x, d)
				x, n := a.c.args[0], a.c.args[1]
				if x.op == "nil" {
					x, n = n, x
				}
				if n.op == "nil" && x.String() == old.String() {
					merged = lnode("default", old, nv)
					continue
				}
			}
			merged = lite(a.c, nv, merged)
		}
		_ = changed
		e.env[k] = merged
	}
	if armReturned {
		switch {
		case armsReturned != armsTotal:
			e.fail("an if statement in which only some arms return")
		case !hasElse:
			// code after an if all of whose arms returned runs under the negated conditions
			e.cond = append(e.cond, negs...)
		}
	}
}

var luaPrec = map[string]int{"or": 1, "and": 2, "<": 3, ">": 3, "<=": 3, ">=": 3, "==": 3, "~=": 3, "..": 4, "+": 5, "-": 5, "*": 6, "/": 6, "%": 6}

func (e *luaEval) expr(min int) *lsym {
	l := e.unary()
	for e.err == nil {
		t := e.peek()
		op := t.s
		if !(t.kind == "sym" || t.kind == "kw") {
			break
		}
		p, ok := luaPrec[op]
		if !ok || p <= min {
			break
		}
		e.next()
		r := e.expr(p)
		if r == nil || l == nil {
			return nil
		}
		switch op {
		case ">":
			l = lnode("<", r, l)
		case ">=":
			l = lnode("<=", r, l)
		case "..":
			e.fail("string concatenation")
		default:
			l = lnode(op, l, r)
		}
	}
	return l
}

func (e *luaEval) unary() *lsym {
	if e.accept("kw", "not") {
		return lnot(e.unary())
	}
	if e.accept("sym", "-") {
		return lnode("-", lleaf("num", "0"), e.unary())
	}
	return e.postfix()
}

func (e *luaEval) postfix() *lsym {
	t := e.next()
	var v *lsym
	var path string // dotted global path such as redis.call, math.max
	switch t.kind {
	case "num":
		return lleaf("num", t.s)
	case "str":
		return lleaf("str", t.s)
	case "kw":
		switch t.s {
		case "nil", "true", "false":
			return lleaf(t.s, t.s)
		}
		e.fail("keyword %q in expression", t.s)
		return lleaf("nil", "")
	case "sym":
		if t.s == "(" {
			v = e.expr(0)
			e.expect("sym", ")")
			return v
		}
		e.fail("symbol %q in expression", t.s)
		return lleaf("nil", "")
	case "name":
		if lv, ok := e.env[t.s]; ok {
			v = lv
		} else {
			path = t.s
		}
	default:
		e.fail("unexpected end of script")
		return lleaf("nil", "")
	}
	for e.err == nil {
		switch {
		case path != "" && e.accept("sym", "."):
			n := e.next()
			if n.kind != "name" {
				e.fail("field access")
			}
			path += "." + n.s
		case e.accept("sym", "["):
			idx := e.expr(0)
			e.expect("sym", "]")
			if (path == "ARGV" || path == "KEYS") && idx != nil && idx.op == "num" {
				v = lleaf(strings.ToLower(path), idx.s)
				path = ""
			} else {
				e.fail("indexing of %s", path)
			}
		case e.accept("sym", "("):
			var args []*lsym
			if !e.accept("sym", ")") {
				for {
					args = append(args, e.expr(0))
					if e.accept("sym", ",") {
						continue
					}
					e.expect("sym", ")")
					break
				}
			}
			switch path {
			case "tonumber":
				if len(args) != 1 {
					e.fail("tonumber arity")
					return lleaf("nil", "")
				}
				v = args[0] // numeric coercion is trusted
			case "redis.call":
				if len(args) == 0 || args[0].op != "str" {
					e.fail("redis.call without a literal command")
					return lleaf("nil", "")
				}
				args[0] = lleaf("str", strings.ToLower(args[0].s))
				v = lnode("call", args...)
				e.effects = append(e.effects, luaEffect{append([]luaLit{}, e.cond...), v})
			case "math.max", "math.min", "math.floor", "math.ceil":
				v = lnode(strings.TrimPrefix(path, "math."), args...)
			default:
				e.fail("call of %q", path)
				return lleaf("nil", "")
			}
			path = ""
		default:
			if path != "" {
				e.fail("global %q", path)
				return lleaf("nil", "")
			}
			return v
		}
	}
	return v
}

func luaIdx(x *lsym, op string) int {
	if x == nil || x.op != op {
		return 0
	}
	n := 0
	fmt.Sscanf(x.s, "%d", &n)
	return n
}

// luaValue evaluates a symbolic value for one concrete assignment of its
// leaves (kind: 0 not evaluable, 1 number, 2 boolean). Used to decide guards
// that only compare the counter with the limit / with constants, whatever
// spelling (mirrored chains, negations, early returns) the script uses.
func luaValue(x *lsym, leaf func(*lsym) (float64, bool)) (num float64, b bool, kind int) {
	if v, ok := leaf(x); ok {
		return v, false, 1
	}
	switch x.op {
	case "num":
		var f float64
		if _, err := fmt.Sscanf(x.s, "%g", &f); err != nil {
			return 0, false, 0
		}
		return f, false, 1
	case "true":
		return 0, true, 2
	case "false":
		return 0, false, 2
	}
	var nums []float64
	var bools []bool
	kinds := 0
	for _, a := range x.args {
		n, bb, k := luaValue(a, leaf)
		if k == 0 {
			return 0, false, 0
		}
		nums, bools = append(nums, n), append(bools, bb)
		kinds |= k
	}
	if x.op == "ite" && len(x.args) == 3 {
		_, c, k := luaValue(x.args[0], leaf)
		if k != 2 {
			return 0, false, 0
		}
		if c {
			return luaValue(x.args[1], leaf)
		}
		return luaValue(x.args[2], leaf)
	}
	switch {
	case len(nums) == 2 && kinds == 1:
		p, q := nums[0], nums[1]
		switch x.op {
		case "+":
			return p + q, false, 1
		case "-":
			return p - q, false, 1
		case "*":
			return p * q, false, 1
		case "/":
			if q == 0 {
				return 0, false, 0
			}
			return p / q, false, 1
		case "max":
			if p > q {
				return p, false, 1
			}
			return q, false, 1
		case "min":
			if p < q {
				return p, false, 1
			}
			return q, false, 1
		case "<":
			return 0, p < q, 2
		case "<=":
			return 0, p <= q, 2
		case "==":
			return 0, p == q, 2
		case "~=":
			return 0, p != q, 2
		}
	case len(bools) == 2 && kinds == 2:
		switch x.op {
		case "and":
			return 0, bools[0] && bools[1], 2
		case "or":
			return 0, bools[0] || bools[1], 2
		case "==":
			return 0, bools[0] == bools[1], 2
		case "~=":
			return 0, bools[0] != bools[1], 2
		}
	case len(bools) == 1 && kinds == 2 && x.op == "not":
		return 0, !bools[0], 2
	}
	return 0, false, 0
}

// luaHolds evaluates a path condition (conjunction of literals); ok=false when not evaluable.
func luaHolds(cond []luaLit, leaf func(*lsym) (float64, bool)) (holds, ok bool) {
	for _, l := range cond {
		_, b, k := luaValue(l.c, leaf)
		if k != 2 {
			return false, false
		}
		if b == l.neg {
			return false, true
		}
	}
	return true, true
}

func luaWalk(x *lsym, f func(*lsym)) {
	if x == nil {
		return
	}
	f(x)
	for _, a := range x.args {
		luaWalk(a, f)
	}
}

// c08periodRoles checks the period script and returns the ARGV positions of its roles.
// The reply and the expiry guard are decided semantically: the path conditions
// are evaluated for concrete counter/limit pairs on both sides of every
// boundary, so any equivalent spelling of the comparison chain is accepted.
func c08periodRoles(src string) (map[string]int, string) {
	e, err := luaRun(src)
	if err != nil {
		return nil, err.Error()
	}
	if len(e.effects) != 2 {
		return nil, fmt.Sprintf("the script issues %d redis calls, expected INCRBY and a conditional EXPIRE", len(e.effects))
	}
	inc, exp := e.effects[0], e.effects[1]
	if len(inc.cond) != 0 || len(inc.call.args) != 3 || inc.call.args[0].s != "incrby" || luaIdx(inc.call.args[1], "keys") != 1 || inc.call.args[2].String() != "1" {
		return nil, fmt.Sprintf("the counter is %s under %v, expected an unconditional call(\"incrby\",KEYS[1],1): every take must count exactly once", inc.call, inc.cond)
	}
	cur := inc.call.String()
	if len(exp.call.args) != 3 || exp.call.args[0].s != "expire" || exp.call.args[1].String() != "KEYS[1]" {
		return nil, fmt.Sprintf("second redis call is %s, expected call(\"expire\",KEYS[1],window)", exp.call)
	}
	window := luaIdx(exp.call.args[2], "argv")
	if window == 0 {
		return nil, fmt.Sprintf("the expiry is %s, not an ARGV element", exp.call.args[2])
	}
	// the expiry is set exactly on the first hit (the counter is ≥ 1 after INCRBY)
	for _, c := range []float64{1, 2, 3, 7} {
		holds, ok := luaHolds(exp.cond, func(x *lsym) (float64, bool) { return c, x.String() == cur })
		if !ok {
			return nil, fmt.Sprintf("the expiry is set under %v, which is not a test of the counter against constants", exp.cond)
		}
		if holds != (c == 1) {
			return nil, fmt.Sprintf("the expiry is set under %v, expected exactly when the counter == 1: otherwise every take would push the window's end (or the counter would never expire)", exp.cond)
		}
	}
	// the limit: the one ARGV position the reply conditions read
	lims := map[int]bool{}
	for _, r := range e.returns {
		for _, l := range r.cond {
			luaWalk(l.c, func(x *lsym) {
				if x.op == "argv" {
					lims[luaIdx(x, "argv")] = true
				}
			})
		}
	}
	if len(lims) != 1 {
		return nil, fmt.Sprintf("the replies depend on %d ARGV positions, expected exactly the limit", len(lims))
	}
	limit := 0
	for k := range lims {
		limit = k
	}
	if limit == window {
		return nil, "limit and window read the same ARGV position"
	}
	limName := fmt.Sprintf("ARGV[%d]", limit)
	for _, L := range []float64{1, 3} {
		for c := float64(1); c <= L+2; c++ {
			leaf := func(x *lsym) (float64, bool) {
				switch x.String() {
				case cur:
					return c, true
				case limName:
					return L, true
				}
				return 0, false
			}
			want := "0"
			switch {
			case c < L:
				want = "1"
			case c == L:
				want = "2"
			}
			got := ""
			for _, r := range e.returns {
				holds, ok := luaHolds(r.cond, leaf)
				if !ok {
					return nil, fmt.Sprintf("a reply is given under %v, which is not a comparison of the counter with the limit", r.cond)
				}
				if holds {
					got = r.val.String()
					break
				}
			}
			if got != want {
				return nil, fmt.Sprintf("with counter %v and limit %v the script answers %q, expected %s (1 below the limit, 2 at the limit, 0 above)", c, L, got, want)
			}
		}
	}
	return map[string]int{"limit": limit, "window": window}, ""
}

// c08tokenRoles checks the token-bucket script and returns the ARGV/KEYS positions of its roles.
func c08tokenRoles(src string) (map[string]int, string) {
	e, err := luaRun(src)
	if err != nil {
		return nil, err.Error()
	}
	if len(e.returns) != 1 || len(e.returns[0].cond) != 0 {
		return nil, fmt.Sprintf("%d returns, expected one unconditional `return allowed`", len(e.returns))
	}
	allowed := e.returns[0].val
	if allowed.op != "<=" || allowed.args[0].op != "argv" || allowed.args[1].op != "min" || len(allowed.args[1].args) != 2 {
		return nil, fmt.Sprintf("the reply is %s, expected requested <= min(capacity, …) (grant iff enough tokens)", allowed)
	}
	roles := map[string]int{"requested": luaIdx(allowed.args[0], "argv")}
	filled := allowed.args[1]
	var capv, sum *lsym
	for _, a := range filled.args {
		if a.op == "argv" {
			capv = a
		} else {
			sum = a
		}
	}
	if capv == nil || sum == nil || sum.op != "+" || len(sum.args) != 2 {
		return nil, fmt.Sprintf("filled is %s, expected min(capacity, last + delta*rate)", filled)
	}
	roles["capacity"] = luaIdx(capv, "argv")
	var last, prod *lsym
	for _, a := range sum.args {
		if a.op == "*" {
			prod = a
		} else {
			last = a
		}
	}
	if last == nil || prod == nil || len(prod.args) != 2 {
		return nil, fmt.Sprintf("filled is %s, expected min(capacity, last + delta*rate)", filled)
	}
	// last = default(call(get,KEYS[a]), capacity)
	if last.op != "default" || last.args[0].op != "call" || len(last.args[0].args) != 2 || last.args[0].args[0].s != "get" || last.args[1].String() != capv.String() {
		return nil, fmt.Sprintf("the previous level is %s, expected the stored value of a key, defaulting to capacity (a fresh bucket is full)", last)
	}
	roles["tokensKey"] = luaIdx(last.args[0].args[1], "keys")
	var rate, delta *lsym
	for _, a := range prod.args {
		if a.op == "argv" {
			rate = a
		} else {
			delta = a
		}
	}
	if rate == nil || delta == nil || delta.op != "max" || len(delta.args) != 2 {
		return nil, fmt.Sprintf("the refill is %s, expected max(0, now - ts) * rate", prod)
	}
	roles["rate"] = luaIdx(rate, "argv")
	var zero, diff *lsym
	for _, a := range delta.args {
		if a.op == "num" {
			zero = a
		} else {
			diff = a
		}
	}
	if zero == nil || zero.s != "0" || diff == nil || diff.op != "-" || diff.args[0].op != "argv" {
		return nil, fmt.Sprintf("elapsed time is %s, expected max(0, now - ts) (a clock stepping back must not drain the bucket)", delta)
	}
	roles["now"] = luaIdx(diff.args[0], "argv")
	ts := diff.args[1]
	if ts.op != "default" || ts.args[0].op != "call" || len(ts.args[0].args) != 2 || ts.args[0].args[0].s != "get" || ts.args[1].String() != "0" {
		return nil, fmt.Sprintf("the last refresh time is %s, expected the stored value of a key, defaulting to 0", ts)
	}
	roles["tsKey"] = luaIdx(ts.args[0].args[1], "keys")
	// distinct positions
	seen := map[int]bool{}
	for _, r := range []string{"rate", "capacity", "now", "requested"} {
		if roles[r] < 1 || seen[roles[r]] {
			return nil, fmt.Sprintf("role %s reads ARGV[%d], which is missing or shared with another role", r, roles[r])
		}
		seen[roles[r]] = true
	}
	if roles["tokensKey"] < 1 || roles["tsKey"] < 1 || roles["tokensKey"] == roles["tsKey"] {
		return nil, "level and timestamp are not kept under two different KEYS"
	}
	// effects: get, get, setex(tokens, ttl, new), setex(ts, ttl, now) — all unconditional
	var setex []*lsym
	for _, ef := range e.effects {
		if len(ef.cond) != 0 {
			return nil, fmt.Sprintf("%s runs only under %v", ef.call, ef.cond)
		}
		switch ef.call.args[0].s {
		case "get":
		case "setex":
			setex = append(setex, ef.call)
		default:
			return nil, fmt.Sprintf("unexpected redis call %s", ef.call)
		}
	}
	if len(setex) != 2 {
		return nil, fmt.Sprintf("%d setex calls, expected the level and the timestamp to be re-set", len(setex))
	}
	ttl := fmt.Sprintf("floor((%s*2))", "("+capv.String()+"/"+rate.String()+")")
	ttlAlt := fmt.Sprintf("floor((2*%s))", "("+capv.String()+"/"+rate.String()+")")
	wantNew := lite(allowed, lnode("-", filled, allowed.args[0]), filled).String()
	got := map[string][2]string{}
	stored := map[string]*lsym{}
	for _, c := range setex {
		if len(c.args) != 4 {
			return nil, fmt.Sprintf("malformed %s", c)
		}
		got[c.args[1].String()] = [2]string{c.args[2].String(), c.args[3].String()}
		stored[c.args[1].String()] = c.args[3]
	}
	tk, sk := fmt.Sprintf("KEYS[%d]", roles["tokensKey"]), fmt.Sprintf("KEYS[%d]", roles["tsKey"])
	for _, k := range []string{tk, sk} {
		g, ok := got[k]
		if !ok {
			return nil, fmt.Sprintf("%s is read but not re-set", k)
		}
		if g[0] != ttl && g[0] != ttlAlt {
			return nil, fmt.Sprintf("%s is re-set with ttl %s, expected %s for both keys (a key outliving the other refills or empties the bucket wrongly)", k, g[0], ttl)
		}
	}
	if got[tk][1] != wantNew {
		return nil, fmt.Sprintf("the stored level is %s, expected %s (debit exactly the granted tokens, nothing when refused)", got[tk][1], wantNew)
	}
	// the stored timestamp is max(now, ts) - decided by evaluating the stored expression for
	// concrete pairs (now, ts) on both sides of now == ts, whatever its spelling (math.max,
	// an explicit clamp, ts + max(0, now - ts), ...). ts = 0 stands for the absent key.
	nowS, tsS := diff.args[0].String(), ts.String()
	for _, pr := range [][2]float64{{100, 0}, {100, 98}, {100, 99}, {100, 100}, {100, 101}, {100, 107}, {3, 100}, {1700000100, 1700000101}, {1700000101, 1700000100}} {
		now, last := pr[0], pr[1]
		v, _, k := luaValue(stored[sk], func(x *lsym) (float64, bool) {
			switch x.String() {
			case nowS:
				return now, true
			case tsS:
				return last, true
			}
			return 0, false
		})
		if k != 1 {
			return nil, fmt.Sprintf("the stored timestamp is %s, which is not computed from now and the timestamp read (expected max(now, last refresh))", got[sk][1])
		}
		want := now
		if last > want {
			want = last
		}
		switch {
		case v < last:
			return nil, fmt.Sprintf("the stored timestamp is %s: with now = %v and a last refresh of %v it stores %v, older than the timestamp it read (expected max(now, last refresh) = %v). A caller whose second is older rewinds the refill clock, and the next caller with the newer second is credited rate x the same span again: more than burst + rate x t events are admitted between s and s+t", got[sk][1], now, last, v, want)
		case v != want:
			return nil, fmt.Sprintf("the stored timestamp is %s: with now = %v and a last refresh of %v it stores %v, expected max(now, last refresh) = %v (a span that was credited must not be credited again, and a span not yet credited must not be skipped)", got[sk][1], now, last, v, want)
		}
	}
	return roles, ""
}
