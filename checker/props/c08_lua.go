package props

import (
	"fmt"
	"sort"
	"strings"
)

// K12: a small tokenizer, recursive-descent parser and symbolic evaluator for
// the Lua subset used by the two limiter scripts. Anything outside the subset
// yields an error starting with "UNSUPPORTED" (the obligation is then
// unresolved, never passed). Locals are substituted by their symbolic values,
// so renaming locals or reformatting the script does not change the result.

type luaTok struct {
	kind string // name, num, str, sym, kw, eof
	s    string
}

var luaKeywords = map[string]bool{"local": true, "if": true, "then": true, "elseif": true, "else": true, "end": true,
	"return": true, "and": true, "or": true, "not": true, "nil": true, "true": true, "false": true,
	"while": true, "for": true, "do": true, "function": true, "repeat": true, "until": true, "break": true, "in": true, "goto": true}

func luaLex(src string) ([]luaTok, error) {
	var out []luaTok
	i := 0
	isAlpha := func(c byte) bool { return c == '_' || (c >= 'a' && c <= 'z') || (c >= 'A' && c <= 'Z') }
	isDigit := func(c byte) bool { return c >= '0' && c <= '9' }
	for i < len(src) {
		c := src[i]
		switch {
		case c == ' ' || c == '\t' || c == '\n' || c == '\r' || c == ';':
			i++
		case c == '-' && i+1 < len(src) && src[i+1] == '-':
			if strings.HasPrefix(src[i:], "--[[") || strings.HasPrefix(src[i:], "--[=") {
				return nil, fmt.Errorf("UNSUPPORTED: long comment")
			}
			for i < len(src) && src[i] != '\n' {
				i++
			}
		case isAlpha(c):
			j := i
			for j < len(src) && (isAlpha(src[j]) || isDigit(src[j])) {
				j++
			}
			w := src[i:j]
			if luaKeywords[w] {
				out = append(out, luaTok{"kw", w})
			} else {
				out = append(out, luaTok{"name", w})
			}
			i = j
		case isDigit(c):
			j := i
			for j < len(src) && (isDigit(src[j]) || src[j] == '.') {
				j++
			}
			if j < len(src) && (isAlpha(src[j])) {
				return nil, fmt.Errorf("UNSUPPORTED: number syntax near %q", src[i:j+1])
			}
			out = append(out, luaTok{"num", src[i:j]})
			i = j
		case c == '"' || c == '\'':
			j := i + 1
			for j < len(src) && src[j] != c {
				if src[j] == '\\' || src[j] == '\n' {
					return nil, fmt.Errorf("UNSUPPORTED: string escape")
				}
				j++
			}
			if j >= len(src) {
				return nil, fmt.Errorf("UNSUPPORTED: unterminated string")
			}
			out = append(out, luaTok{"str", src[i+1 : j]})
			i = j + 1
		default:
			two := ""
			if i+1 < len(src) {
				two = src[i : i+2]
			}
			switch two {
			case "==", "~=", "<=", ">=", "..":
				out = append(out, luaTok{"sym", two})
				i += 2
				continue
			}
			if strings.ContainsRune("=<>()[],.+-*/%", rune(c)) {
				out = append(out, luaTok{"sym", string(c)})
				i++
				continue
			}
			return nil, fmt.Errorf("UNSUPPORTED: character %q", string(c))
		}
	}
	return append(out, luaTok{"eof", ""}), nil
}

// lsym is a symbolic value.
type lsym struct {
	op   string // leaf: num str nil true false argv keys name ; else operator / function symbol
	s    string
	args []*lsym
}

func (x *lsym) String() string {
	switch x.op {
	case "num", "true", "false", "name":
		return x.s
	case "nil":
		return "nil"
	case "str":
		return `"` + x.s + `"`
	case "argv":
		return "ARGV[" + x.s + "]"
	case "keys":
		return "KEYS[" + x.s + "]"
	}
	var as []string
	for _, a := range x.args {
		as = append(as, a.String())
	}
	switch x.op {
	case "+", "*", "==", "~=", "max", "min", "and", "or":
		sort.Strings(as)
	}
	switch x.op {
	case "+", "-", "*", "/", "%", "<", "<=", "==", "~=", "and", "or", "..":
		if len(as) == 2 {
			return "(" + as[0] + x.op + as[1] + ")"
		}
	}
	return x.op + "(" + strings.Join(as, ",") + ")"
}

func lleaf(op, s string) *lsym          { return &lsym{op: op, s: s} }
func lnode(op string, a ...*lsym) *lsym { return &lsym{op: op, args: a} }

// luaEffect is a redis.call executed under a path condition.
type luaEffect struct {
	cond []string
	call *lsym
}
type luaReturn struct {
	cond []string
	val  *lsym
}

type luaEval struct {
	toks    []luaTok
	pos     int
	env     map[string]*lsym
	cond    []string
	effects []luaEffect
	returns []luaReturn
	err     error
}

func (e *luaEval) fail(format string, a ...any) {
	if e.err == nil {
		e.err = fmt.Errorf("UNSUPPORTED: "+format, a...)
	}
}
func (e *luaEval) peek() luaTok { return e.toks[e.pos] }
func (e *luaEval) next() luaTok {
	t := e.toks[e.pos]
	if t.kind != "eof" {
		e.pos++
	}
	return t
}
func (e *luaEval) accept(kind, s string) bool {
	if t := e.peek(); t.kind == kind && t.s == s {
		e.pos++
		return true
	}
	return false
}
func (e *luaEval) expect(kind, s string) {
	if !e.accept(kind, s) {
		e.fail("expected %q, found %q", s, e.peek().s)
	}
}

// luaRun parses and symbolically executes a script.
func luaRun(src string) (*luaEval, error) {
	toks, err := luaLex(src)
	if err != nil {
		return nil, err
	}
	e := &luaEval{toks: toks, env: map[string]*lsym{}}
	e.block(true)
	if e.err == nil && e.peek().kind != "eof" {
		e.fail("trailing %q", e.peek().s)
	}
	if e.err != nil {
		return nil, e.err
	}
	return e, nil
}

func (e *luaEval) blockEnd() bool {
	t := e.peek()
	return t.kind == "eof" || (t.kind == "kw" && (t.s == "end" || t.s == "else" || t.s == "elseif"))
}

// block executes statements until end/else/elseif/eof. live=false parses without effects on env
// (not needed: both arms are executed on copies by the if statement).
func (e *luaEval) block(live bool) {
	for e.err == nil && !e.blockEnd() {
		e.stmt()
	}
}

func (e *luaEval) stmt() {
	t := e.peek()
	switch {
	case t.kind == "kw" && t.s == "local":
		e.next()
		n := e.next()
		if n.kind != "name" {
			e.fail("local without a name")
			return
		}
		if e.peek().kind == "sym" && e.peek().s == "," {
			e.fail("multiple assignment")
			return
		}
		var v *lsym = lleaf("nil", "")
		if e.accept("sym", "=") {
			v = e.expr(0)
		}
		e.env[n.s] = v
	case t.kind == "kw" && t.s == "return":
		e.next()
		var v *lsym = lleaf("nil", "")
		if !e.blockEnd() {
			v = e.expr(0)
		}
		e.returns = append(e.returns, luaReturn{append([]string{}, e.cond...), v})
		if !e.blockEnd() {
			e.fail("statement after return")
		}
	case t.kind == "kw" && t.s == "if":
		e.ifStmt()
	case t.kind == "name":
		// assignment or call statement
		save := e.pos
		n := e.next()
		if e.accept("sym", "=") {
			if _, ok := e.env[n.s]; !ok {
				e.fail("assignment to global %q", n.s)
				return
			}
			e.env[n.s] = e.expr(0)
			return
		}
		e.pos = save
		v := e.expr(0)
		if v == nil || v.op != "call" {
			e.fail("expression statement that is not a redis.call")
		}
	default:
		e.fail("statement starting with %q", t.s)
	}
}

func (e *luaEval) ifStmt() {
	e.expect("kw", "if")
	base := map[string]*lsym{}
	for k, v := range e.env {
		base[k] = v
	}
	baseCond := append([]string{}, e.cond...)
	type arm struct {
		c   *lsym
		env map[string]*lsym
	}
	var arms []arm
	var negs []string
	returnsBefore := len(e.returns)
	runArm := func(c *lsym) {
		e.env = map[string]*lsym{}
		for k, v := range base {
			e.env[k] = v
		}
		e.cond = append(append([]string{}, baseCond...), negs...)
		if c != nil {
			e.cond = append(e.cond, c.String())
		}
		e.block(true)
		arms = append(arms, arm{c, e.env})
		if c != nil {
			negs = append(negs, "!"+c.String())
		}
	}
	c := e.expr(0)
	e.expect("kw", "then")
	runArm(c)
	hasElse := false
	for e.err == nil {
		if e.accept("kw", "elseif") {
			c = e.expr(0)
			e.expect("kw", "then")
			runArm(c)
			continue
		}
		if e.accept("kw", "else") {
			hasElse = true
			runArm(nil)
		}
		break
	}
	e.expect("kw", "end")
	e.cond = baseCond
	// merge environments: right fold of ite over the arms
	e.env = map[string]*lsym{}
	armReturned := len(e.returns) > returnsBefore
	for k, old := range base {
		merged := old
		changed := false
		for i := len(arms) - 1; i >= 0; i-- {
			a := arms[i]
			nv := a.env[k]
			if a.c == nil { // else arm
				merged = nv
				if nv.String() != old.String() {
					changed = true
				}
				continue
			}
			if nv.String() == merged.String() {
				continue
			}
			changed = true
			if a.c.op == "==" && len(a.c.args) == 2 && merged.String() == old.String() {
				// if x == nil then x = d end  →  default(x, d)
				x, n := a.c.args[0], a.c.args[1]
				if x.op == "nil" {
					x, n = n, x
				}
				if n.op == "nil" && x.String() == old.String() {
					merged = lnode("default", old, nv)
					continue
				}
			}
			merged = lnode("ite", a.c, nv, merged)
		}
		_ = changed
		e.env[k] = merged
	}
	if armReturned && !hasElse {
		// code after an if whose arm returned runs under the negated conditions
		e.cond = append(e.cond, negs...)
	}
	if armReturned && hasElse {
		all := true
		_ = all
	}
}

var luaPrec = map[string]int{"or": 1, "and": 2, "<": 3, ">": 3, "<=": 3, ">=": 3, "==": 3, "~=": 3, "..": 4, "+": 5, "-": 5, "*": 6, "/": 6, "%": 6}

func (e *luaEval) expr(min int) *lsym {
	l := e.unary()
	for e.err == nil {
		t := e.peek()
		op := t.s
		if !(t.kind == "sym" || t.kind == "kw") {
			break
		}
		p, ok := luaPrec[op]
		if !ok || p <= min {
			break
		}
		e.next()
		r := e.expr(p)
		if r == nil || l == nil {
			return nil
		}
		switch op {
		case ">":
			l = lnode("<", r, l)
		case ">=":
			l = lnode("<=", r, l)
		case "..":
			e.fail("string concatenation")
		default:
			l = lnode(op, l, r)
		}
	}
	return l
}

func (e *luaEval) unary() *lsym {
	if e.accept("kw", "not") {
		return lnode("not", e.unary())
	}
	if e.accept("sym", "-") {
		return lnode("-", lleaf("num", "0"), e.unary())
	}
	return e.postfix()
}

func (e *luaEval) postfix() *lsym {
	t := e.next()
	var v *lsym
	var path string // dotted global path such as redis.call, math.max
	switch t.kind {
	case "num":
		return lleaf("num", t.s)
	case "str":
		return lleaf("str", t.s)
	case "kw":
		switch t.s {
		case "nil", "true", "false":
			return lleaf(t.s, t.s)
		}
		e.fail("keyword %q in expression", t.s)
		return lleaf("nil", "")
	case "sym":
		if t.s == "(" {
			v = e.expr(0)
			e.expect("sym", ")")
			return v
		}
		e.fail("symbol %q in expression", t.s)
		return lleaf("nil", "")
	case "name":
		if lv, ok := e.env[t.s]; ok {
			v = lv
		} else {
			path = t.s
		}
	default:
		e.fail("unexpected end of script")
		return lleaf("nil", "")
	}
	for e.err == nil {
		switch {
		case path != "" && e.accept("sym", "."):
			n := e.next()
			if n.kind != "name" {
				e.fail("field access")
			}
			path += "." + n.s
		case e.accept("sym", "["):
			idx := e.expr(0)
			e.expect("sym", "]")
			if (path == "ARGV" || path == "KEYS") && idx != nil && idx.op == "num" {
				v = lleaf(strings.ToLower(path), idx.s)
				path = ""
			} else {
				e.fail("indexing of %s", path)
			}
		case e.accept("sym", "("):
			var args []*lsym
			if !e.accept("sym", ")") {
				for {
					args = append(args, e.expr(0))
					if e.accept("sym", ",") {
						continue
					}
					e.expect("sym", ")")
					break
				}
			}
			switch path {
			case "tonumber":
				if len(args) != 1 {
					e.fail("tonumber arity")
					return lleaf("nil", "")
				}
				v = args[0] // numeric coercion is trusted
			case "redis.call":
				if len(args) == 0 || args[0].op != "str" {
					e.fail("redis.call without a literal command")
					return lleaf("nil", "")
				}
				args[0] = lleaf("str", strings.ToLower(args[0].s))
				v = lnode("call", args...)
				e.effects = append(e.effects, luaEffect{append([]string{}, e.cond...), v})
			case "math.max", "math.min", "math.floor", "math.ceil":
				v = lnode(strings.TrimPrefix(path, "math."), args...)
			default:
				e.fail("call of %q", path)
				return lleaf("nil", "")
			}
			path = ""
		default:
			if path != "" {
				e.fail("global %q", path)
				return lleaf("nil", "")
			}
			return v
		}
	}
	return v
}

func luaIdx(x *lsym, op string) int {
	if x == nil || x.op != op {
		return 0
	}
	n := 0
	fmt.Sscanf(x.s, "%d", &n)
	return n
}

// c08periodRoles checks the period script and returns the ARGV positions of its roles.
func c08periodRoles(src string) (map[string]int, string) {
	e, err := luaRun(src)
	if err != nil {
		return nil, err.Error()
	}
	if len(e.effects) != 2 {
		return nil, fmt.Sprintf("the script issues %d redis calls, expected INCRBY and a conditional EXPIRE", len(e.effects))
	}
	inc, exp := e.effects[0], e.effects[1]
	if len(inc.cond) != 0 || len(inc.call.args) != 3 || inc.call.args[0].s != "incrby" || luaIdx(inc.call.args[1], "keys") != 1 || inc.call.args[2].String() != "1" {
		return nil, fmt.Sprintf("the counter is %s under %v, expected an unconditional call(\"incrby\",KEYS[1],1): every take must count exactly once", inc.call, inc.cond)
	}
	cur := inc.call.String()
	first := "(" + "1==" + cur + ")"
	if len(exp.call.args) != 3 || exp.call.args[0].s != "expire" || exp.call.args[1].String() != "KEYS[1]" {
		return nil, fmt.Sprintf("second redis call is %s, expected call(\"expire\",KEYS[1],window)", exp.call)
	}
	if len(exp.cond) != 1 || exp.cond[0] != first {
		return nil, fmt.Sprintf("the expiry is set under %v, expected exactly when the counter == 1: otherwise every take would push the window's end (or the counter would never expire)", exp.cond)
	}
	window := luaIdx(exp.call.args[2], "argv")
	if window == 0 {
		return nil, fmt.Sprintf("the expiry is %s, not an ARGV element", exp.call.args[2])
	}
	if len(e.returns) != 3 {
		return nil, fmt.Sprintf("%d return statements, expected three (below / at / above the limit)", len(e.returns))
	}
	// return 1 under (cur < limit); return 2 under !(cur<limit), (limit == cur); return 0 otherwise
	r1, r2, r0 := e.returns[0], e.returns[1], e.returns[2]
	if len(r1.cond) != 1 || !strings.HasPrefix(r1.cond[0], "("+cur+"<ARGV[") {
		return nil, fmt.Sprintf("first reply is under %v, expected counter < limit", r1.cond)
	}
	var limit int
	fmt.Sscanf(strings.TrimPrefix(r1.cond[0], "("+cur+"<ARGV["), "%d", &limit)
	lt := fmt.Sprintf("(%s<ARGV[%d])", cur, limit)
	eq := fmt.Sprintf("(ARGV[%d]==%s)", limit, cur)
	if limit == 0 || r1.cond[0] != lt || r1.val.String() != "1" {
		return nil, fmt.Sprintf("below the limit (%v) the script answers %s, expected 1 under %s", r1.cond, r1.val, lt)
	}
	if len(r2.cond) != 2 || r2.cond[0] != "!"+lt || r2.cond[1] != eq || r2.val.String() != "2" {
		return nil, fmt.Sprintf("at the limit the script answers %s under %v, expected 2 under [!%s %s]", r2.val, r2.cond, lt, eq)
	}
	if len(r0.cond) != 2 || r0.cond[0] != "!"+lt || r0.cond[1] != "!"+eq || r0.val.String() != "0" {
		return nil, fmt.Sprintf("above the limit the script answers %s under %v, expected 0 under [!%s !%s]", r0.val, r0.cond, lt, eq)
	}
	if limit == window {
		return nil, "limit and window read the same ARGV position"
	}
	return map[string]int{"limit": limit, "window": window}, ""
}

// c08tokenRoles checks the token-bucket script and returns the ARGV/KEYS positions of its roles.
func c08tokenRoles(src string) (map[string]int, string) {
	e, err := luaRun(src)
	if err != nil {
		return nil, err.Error()
	}
	if len(e.returns) != 1 || len(e.returns[0].cond) != 0 {
		return nil, fmt.Sprintf("%d returns, expected one unconditional `return allowed`", len(e.returns))
	}
	allowed := e.returns[0].val
	if allowed.op != "<=" || allowed.args[0].op != "argv" || allowed.args[1].op != "min" || len(allowed.args[1].args) != 2 {
		return nil, fmt.Sprintf("the reply is %s, expected requested <= min(capacity, …) (grant iff enough tokens)", allowed)
	}
	roles := map[string]int{"requested": luaIdx(allowed.args[0], "argv")}
	filled := allowed.args[1]
	var capv, sum *lsym
	for _, a := range filled.args {
		if a.op == "argv" {
			capv = a
		} else {
			sum = a
		}
	}
	if capv == nil || sum == nil || sum.op != "+" || len(sum.args) != 2 {
		return nil, fmt.Sprintf("filled is %s, expected min(capacity, last + delta*rate)", filled)
	}
	roles["capacity"] = luaIdx(capv, "argv")
	var last, prod *lsym
	for _, a := range sum.args {
		if a.op == "*" {
			prod = a
		} else {
			last = a
		}
	}
	if last == nil || prod == nil || len(prod.args) != 2 {
		return nil, fmt.Sprintf("filled is %s, expected min(capacity, last + delta*rate)", filled)
	}
	// last = default(call(get,KEYS[a]), capacity)
	if last.op != "default" || last.args[0].op != "call" || len(last.args[0].args) != 2 || last.args[0].args[0].s != "get" || last.args[1].String() != capv.String() {
		return nil, fmt.Sprintf("the previous level is %s, expected the stored value of a key, defaulting to capacity (a fresh bucket is full)", last)
	}
	roles["tokensKey"] = luaIdx(last.args[0].args[1], "keys")
	var rate, delta *lsym
	for _, a := range prod.args {
		if a.op == "argv" {
			rate = a
		} else {
			delta = a
		}
	}
	if rate == nil || delta == nil || delta.op != "max" || len(delta.args) != 2 {
		return nil, fmt.Sprintf("the refill is %s, expected max(0, now - ts) * rate", prod)
	}
	roles["rate"] = luaIdx(rate, "argv")
	var zero, diff *lsym
	for _, a := range delta.args {
		if a.op == "num" {
			zero = a
		} else {
			diff = a
		}
	}
	if zero == nil || zero.s != "0" || diff == nil || diff.op != "-" || diff.args[0].op != "argv" {
		return nil, fmt.Sprintf("elapsed time is %s, expected max(0, now - ts) (a clock stepping back must not drain the bucket)", delta)
	}
	roles["now"] = luaIdx(diff.args[0], "argv")
	ts := diff.args[1]
	if ts.op != "default" || ts.args[0].op != "call" || len(ts.args[0].args) != 2 || ts.args[0].args[0].s != "get" || ts.args[1].String() != "0" {
		return nil, fmt.Sprintf("the last refresh time is %s, expected the stored value of a key, defaulting to 0", ts)
	}
	roles["tsKey"] = luaIdx(ts.args[0].args[1], "keys")
	// distinct positions
	seen := map[int]bool{}
	for _, r := range []string{"rate", "capacity", "now", "requested"} {
		if roles[r] < 1 || seen[roles[r]] {
			return nil, fmt.Sprintf("role %s reads ARGV[%d], which is missing or shared with another role", r, roles[r])
		}
		seen[roles[r]] = true
	}
	if roles["tokensKey"] < 1 || roles["tsKey"] < 1 || roles["tokensKey"] == roles["tsKey"] {
		return nil, "level and timestamp are not kept under two different KEYS"
	}
	// effects: get, get, setex(tokens, ttl, new), setex(ts, ttl, now) — all unconditional
	var setex []*lsym
	for _, ef := range e.effects {
		if len(ef.cond) != 0 {
			return nil, fmt.Sprintf("%s runs only under %v", ef.call, ef.cond)
		}
		switch ef.call.args[0].s {
		case "get":
		case "setex":
			setex = append(setex, ef.call)
		default:
			return nil, fmt.Sprintf("unexpected redis call %s", ef.call)
		}
	}
	if len(setex) != 2 {
		return nil, fmt.Sprintf("%d setex calls, expected the level and the timestamp to be re-set", len(setex))
	}
	ttl := fmt.Sprintf("floor((%s*2))", "("+capv.String()+"/"+rate.String()+")")
	ttlAlt := fmt.Sprintf("floor((2*%s))", "("+capv.String()+"/"+rate.String()+")")
	wantNew := lnode("ite", allowed, lnode("-", filled, allowed.args[0]), filled).String()
	got := map[string][2]string{}
	for _, c := range setex {
		if len(c.args) != 4 {
			return nil, fmt.Sprintf("malformed %s", c)
		}
		got[c.args[1].String()] = [2]string{c.args[2].String(), c.args[3].String()}
	}
	tk, sk := fmt.Sprintf("KEYS[%d]", roles["tokensKey"]), fmt.Sprintf("KEYS[%d]", roles["tsKey"])
	for _, k := range []string{tk, sk} {
		g, ok := got[k]
		if !ok {
			return nil, fmt.Sprintf("%s is read but not re-set", k)
		}
		if g[0] != ttl && g[0] != ttlAlt {
			return nil, fmt.Sprintf("%s is re-set with ttl %s, expected %s for both keys (a key outliving the other refills or empties the bucket wrongly)", k, g[0], ttl)
		}
	}
	if got[tk][1] != wantNew {
		return nil, fmt.Sprintf("the stored level is %s, expected %s (debit exactly the granted tokens, nothing when refused)", got[tk][1], wantNew)
	}
	if got[sk][1] != diff.args[0].String() {
		return nil, fmt.Sprintf("the stored timestamp is %s, expected now", got[sk][1])
	}
	return roles, ""
}
