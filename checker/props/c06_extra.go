package props

import (
	"go/token"

	"godcheck/core"

	"golang.org/x/tools/go/ssa"
)

// c06Extra: rules added after the fourth independent seeding round.
func c06Extra(r *core.Run) {
	p := r.P
	defer c06Round9(r)
	defer c06Round8(r)
	r.Check("D3/K2/expiry-defaults-independent", "the cache options' two expiries are defaulted independently: the function that fills Options.Expire / Options.NotFoundExpire with their defaults returns, on every path, with each of them either known positive or freshly defaulted (a placeholder stored with expiry 0 never expires)", func(o *core.O) {
		n := 0
		for _, f := range p.PkgFuncs(cachePkg) {
			for _, field := range []string{"Options.Expire", "Options.NotFoundExpire"} {
				var defaults []ssa.Instruction
				for _, st := range core.StoresToField(f, field) {
					if _, isConst := core.ConstInt(core.Forward(st.Val)); isConst {
						defaults = append(defaults, st)
					}
				}
				if len(defaults) == 0 {
					continue
				}
				n++
				r.Fn(core.FuncName(f))
				positive, _ := core.EdgesOf(f, core.Cmp(token.GTR, core.FieldLoad(field), core.IsConstInt(0)))
				if w, ok := core.Reach(core.Q{From: []core.At{core.Entry(f)}, Target: core.IsReturn, Blocked: core.Is(defaults...), Cut: core.CutSet(positive)}); ok {
					o.Fail(p.InstrPos(w), "%s can return with %s neither known positive nor defaulted (e.g. when only the other expiry was configured): entries are stored without expiry", core.FuncName(f), field)
				}
			}
		}
		o.Site(n, cachePkg)
	})
}
