package props

import (
	"go/token"
	"strings"

	"godcheck/core"

	"golang.org/x/tools/go/ssa"
)

// c15PutAlwaysDelivered: a delivered Put event always reaches the listeners of its prefix.
//
// The cluster-side base c.values[prefix] keeps every live key, while an exclusive container attributes a value to
// the most recent key only; the base is therefore no oracle for "the subscriber already knows this": a put that
// repeats base[key] == value (a publisher with a fixed id re-registering while its old key is alive) still changes
// which key holds the value on the subscriber side. Skipping it leaves the value with a key that expires later,
// and the value disappears although a key carrying it is present - never healed by a reload (its diff also sees
// the key unchanged).
func c15PutAlwaysDelivered(r *core.Run, pkg string) {
	p := r.P
	r.Explanation += " Every path on which a watch event of type Put is handled passes the notification of the prefix's listeners (an OnAdd call, or the head of the loop that calls OnAdd for each listener) before the next event is taken or the function returns."
	r.NotDecided += " Not decided for the delivery of Put events: dispatchers whose OnAdd call sits in a callee that is not inlined; skips guarded by anything but the emptiness of the listener list."
	r.Check("D3/K3/put-always-delivered", "in the function of lib/discov/internal that applies watch events, a Put event is never dropped before the listeners: from the edge on which event.Type == Put holds (from the entry of a handler that runs for one event only and calls OnAdd), every path to the next event's type test or to a return passes an OnAdd call or the head of the listener loop that makes the OnAdd calls - no early `continue`/return that depends on the stored base c.values or on anything else but an empty listener list (the base keeps every live key, an exclusive container only the most recent key of a value: a put that repeats the stored key/value still moves the value to that key on the subscriber side; dropped, the value goes away with the other key's expiry although this key still carries it, and no reload repairs it) [clauses: change listeners run on every update; in exclusive mode a value is retained under the most recent key that published it; value list equals the distinct values of the keys present]", func(o *core.O) {
		isType := core.FieldLoad("Event.Type")
		put := core.Cmp(token.EQL, isType, core.IsConstInt(0))
		onAdd := core.CallMethod("internal.UpdateListener", "OnAdd")
		nextEvent := func(in ssa.Instruction) bool {
			u, ok := in.(*ssa.UnOp)
			return ok && core.FieldAddrNameOfLoad(u) == "Event.Type"
		}
		isListenerLen := func(v ssa.Value) bool {
			c, ok := v.(*ssa.Call)
			if !ok {
				return false
			}
			b, ok := c.Call.Value.(*ssa.Builtin)
			return ok && b.Name() == "len" && len(c.Call.Args) == 1 && strings.HasSuffix(c.Call.Args[0].Type().String(), "internal.UpdateListener")
		}
		n := 0
		for _, f := range p.PkgFuncs(pkg) {
			if f.Parent() != nil || len(f.Blocks) == 0 || c15ParamOfType(f, "client/v3.Event") == nil {
				continue
			}
			adds := core.Instrs(f, onAdd)
			if len(adds) == 0 {
				continue // no notification here: D3/K3/event-update-then-notify decides that it forwards
			}
			putE, _ := core.EdgesOf(f, put)
			var from []core.At
			for _, e := range putE {
				from = append(from, core.Head(e.To))
			}
			if len(putE) == 0 {
				if len(core.Instrs(f, nextEvent)) > 0 {
					continue // tests the type in another spelling: not decided here
				}
				from = []core.At{core.Entry(f)} // a handler of one event that calls OnAdd
			}
			r.Fn(core.FuncName(f))
			n += len(from)
			o.Site(len(from), core.FuncName(f))
			// the heads of the listener loops (where a zero-listener run leaves without a call); a head
			// that dominates a type test is the loop over the events, not over the listeners
			typeBlocks := map[*ssa.BasicBlock]bool{}
			for _, in := range core.Instrs(f, nextEvent) {
				typeBlocks[in.Block()] = true
			}
			heads := map[*ssa.BasicBlock]bool{}
			for _, a := range adds {
				h := c15LoopHead(a.Block())
				if h == nil {
					continue
				}
				outer := false
				for tb := range typeBlocks {
					outer = outer || h.Dominates(tb)
				}
				if !outer {
					heads[h] = true
				}
			}
			delivered := func(in ssa.Instruction) bool { return onAdd(in) || heads[in.Block()] }
			// a skip of an empty listener list delivers to everybody there is
			emptyE, _ := core.EdgesOf(f, core.Cmp(token.EQL, isListenerLen, core.IsConstInt(0)))
			if w, ok := core.Reach(core.Q{From: from, Target: core.Or(nextEvent, core.IsReturn), Blocked: delivered, Cut: core.CutSet(emptyE)}); ok {
				o.Fail(p.InstrPos(w), "%s: a Put event can be left without notifying the listeners (the next event or a return is reached at %s without passing OnAdd): a put that is skipped - e.g. because the stored base already holds the key with that value - never reaches an exclusive container, which keeps the value under the other key; when that key expires the value leaves Values() although this key still carries it, and the reload diff sees nothing to repair", core.FuncName(f), p.InstrPos(w))
			}
		}
		if n == 0 {
			o.Unres("no function of %s takes a *clientv3.Event, tests its type for Put and calls OnAdd", pkg)
		}
	})
}
