package props

import (
	"go/constant"
	"go/token"
	"go/types"
	"sort"
	"strings"
	"unicode"

	"godcheck/core"

	"golang.org/x/tools/go/ssa"
)

// Round 9 (defect hunt h7, findings f1 and f2 of C20):
//
//  f1  format.split opened a word only before ASCII 'A'..'Z'. The word-boundary rule
//      (D3/K6) evaluated the splitter around both ends of that range and thereby pinned
//      the defect. It is restated against the property's own predicate (upper-case
//      letter = unicode.IsUpper) and evaluated on ASCII and non-ASCII samples; the
//      evaluator below decides a rune loop for one concrete rune, including calls of
//      the unicode predicates, of predicate parameters bound at the call site and of
//      small in-module predicates. D3/K9 compares the two splitters of the generator.
//  f2  FileNamingFormat took the first DESIGNER of the whole template. Indices are now
//      decomposed as linear forms, so that Index(Y[i+w:], n) + i + w is recognised as
//      a position in Y (D2/K8 index-provenance, D2/K6 flag-width, D3/K8 decomposition),
//      and D2/K8/designer-searched-behind-go demands a search that cannot be caught
//      by an occurrence in front of GO.

// ---------------------------------------------------------------- linear index forms

// c20Lin is Σ coef·atom + k over integer SSA values.
type c20Lin struct {
	terms map[ssa.Value]int64
	k     int64
}

func (l c20Lin) plus(o c20Lin, sign int64) c20Lin {
	out := c20Lin{terms: map[ssa.Value]int64{}, k: l.k + sign*o.k}
	for a, c := range l.terms {
		out.terms[a] += c
	}
	for a, c := range o.terms {
		out.terms[a] += sign * c
	}
	for a, c := range out.terms {
		if c == 0 {
			delete(out.terms, a)
		}
	}
	return out
}

func isIntegerType(t types.Type) bool {
	b, ok := t.Underlying().(*types.Basic)
	return ok && b.Info()&types.IsInteger != 0
}

// c20LinOf decomposes an integer value into its linear forms (one per combination of
// φ inputs, at most 16): sums and differences are expanded, everything else is an atom.
func c20LinOf(v ssa.Value, seen map[*ssa.Phi]bool, depth int) []c20Lin {
	if v == nil {
		return nil
	}
	fv := core.Forward(v)
	atom := []c20Lin{{terms: map[ssa.Value]int64{fv: 1}}}
	if depth > 12 {
		return atom
	}
	if c, ok := fv.(*ssa.Const); ok && c.Value != nil && c.Value.Kind() == constant.Int {
		return []c20Lin{{terms: map[ssa.Value]int64{}, k: c.Int64()}}
	}
	switch x := fv.(type) {
	case *ssa.BinOp:
		if x.Op != token.ADD && x.Op != token.SUB || !isIntegerType(x.Type()) {
			return atom
		}
		sign := int64(1)
		if x.Op == token.SUB {
			sign = -1
		}
		as, bs := c20LinOf(x.X, seen, depth+1), c20LinOf(x.Y, seen, depth+1)
		if len(as)*len(bs) == 0 || len(as)*len(bs) > 16 {
			return atom
		}
		var out []c20Lin
		for _, a := range as {
			for _, b := range bs {
				out = append(out, a.plus(b, sign))
			}
		}
		return out
	case *ssa.Phi:
		if seen[x] {
			return atom
		}
		seen[x] = true
		defer delete(seen, x)
		var out []c20Lin
		for _, e := range x.Edges {
			out = append(out, c20LinOf(e, seen, depth+1)...)
		}
		if len(out) == 0 || len(out) > 16 {
			return atom
		}
		return out
	case *ssa.Convert:
		if isIntegerType(x.Type()) && isIntegerType(x.X.Type()) {
			return c20LinOf(x.X, seen, depth+1)
		}
	}
	return atom
}

func isIndexCall(v ssa.Value) *ssa.Call {
	c, ok := v.(*ssa.Call)
	if ok && indexFamily[core.CalleeName(c)] && len(c.Call.Args) >= 1 {
		return c
	}
	return nil
}

// c20OriginsOf reads a linear form as (position found by a strings.Index* call) +
// constant, relative to a base string: the haystack itself, or – when the haystack is
// the window Y[L:] (or Y[:h]) of another string and the form adds L back – that string Y.
func c20OriginsOf(lf c20Lin) []idxOrigin {
	var out []idxOrigin
	for a, coef := range lf.terms {
		c := isIndexCall(a)
		if c == nil || coef != 1 {
			continue
		}
		rest := lf.plus(c20Lin{terms: map[ssa.Value]int64{a: 1}}, -1)
		found := false
		if s, ok := core.Forward(c.Call.Args[0]).(*ssa.Slice); ok && s.Max == nil {
			if s.Low == nil {
				if len(rest.terms) == 0 {
					out, found = append(out, idxOrigin{call: c, base: s.X, off: rest.k}), true
				}
			} else {
				for _, low := range c20LinOf(s.Low, map[*ssa.Phi]bool{}, 0) {
					if rem := rest.plus(low, -1); len(rem.terms) == 0 {
						out, found = append(out, idxOrigin{call: c, base: s.X, off: rem.k}), true
					}
				}
			}
		}
		if !found && len(rest.terms) == 0 {
			out = append(out, idxOrigin{call: c, base: c.Call.Args[0], off: rest.k})
		}
	}
	// deterministic order, no duplicates
	sort.SliceStable(out, func(i, j int) bool {
		if out[i].call != out[j].call {
			return out[i].call.Pos() < out[j].call.Pos()
		}
		return out[i].off < out[j].off
	})
	var uniq []idxOrigin
	for _, o := range out {
		dup := false
		for _, u := range uniq {
			if u.call == o.call && u.off == o.off && u.base == o.base {
				dup = true
			}
		}
		if !dup {
			uniq = append(uniq, o)
		}
	}
	return uniq
}

// c20FlagSearches: the strings.Index* calls of fn with a constant needle, by the
// lower-cased needle.
func c20FlagSearches(fn *ssa.Function) map[string][]*ssa.Call {
	out := map[string][]*ssa.Call{}
	if fn == nil {
		return out
	}
	for _, in := range core.Calls(fn, func(in ssa.Instruction) bool {
		c, ok := in.(*ssa.Call)
		return ok && indexFamily[core.CalleeName(c)] && len(c.Call.Args) >= 2
	}) {
		c := in.(*ssa.Call)
		if needle, ok := core.ConstString(c.Call.Args[1]); ok {
			out[strings.ToLower(needle)] = append(out[strings.ToLower(needle)], c)
		}
	}
	return out
}

// c20BehindOf: when the haystack of search is the window Y[iFirst+k:] of the haystack
// Y of the search first, k is returned (the search cannot see anything in front of the
// first flag's match: its result, offset back, is ordered behind it by construction).
func c20BehindOf(search, first *ssa.Call) (k int64, behind bool) {
	s, ok := core.Forward(search.Call.Args[0]).(*ssa.Slice)
	if !ok || s.Low == nil || !sameVal(s.X, first.Call.Args[0]) {
		return 0, false
	}
	lows := c20LinOf(s.Low, map[*ssa.Phi]bool{}, 0)
	if len(lows) == 0 {
		return 0, false
	}
	for i, low := range lows {
		if len(low.terms) != 1 || low.terms[ssa.Value(first)] != 1 {
			return 0, false
		}
		if i > 0 && low.k != k {
			return 0, false
		}
		k = low.k
	}
	return k, true
}

func isLastIndexCall(c *ssa.Call) bool {
	return strings.HasPrefix(core.CalleeName(c), "strings.LastIndex")
}

// ---------------------------------------------------------------- one rune, concretely

// c20UnicodePreds: the reference semantics of the standard library's rune predicates
// and mappings (the library's own tables, not the analysed program).
var c20UnicodePreds = map[string]func(rune) bool{
	"unicode.IsUpper": unicode.IsUpper, "unicode.IsLower": unicode.IsLower, "unicode.IsTitle": unicode.IsTitle,
	"unicode.IsLetter": unicode.IsLetter, "unicode.IsDigit": unicode.IsDigit, "unicode.IsNumber": unicode.IsNumber,
	"unicode.IsSpace": unicode.IsSpace, "unicode.IsPunct": unicode.IsPunct, "unicode.IsSymbol": unicode.IsSymbol,
	"unicode.IsMark": unicode.IsMark, "unicode.IsControl": unicode.IsControl, "unicode.IsPrint": unicode.IsPrint,
	"unicode.IsGraphic": unicode.IsGraphic,
}

var c20UnicodeMaps = map[string]func(rune) rune{
	"unicode.ToUpper": unicode.ToUpper, "unicode.ToLower": unicode.ToLower, "unicode.ToTitle": unicode.ToTitle,
}

var c20UnicodeTables = map[string]*unicode.RangeTable{
	"Upper": unicode.Upper, "Lu": unicode.Lu, "Lower": unicode.Lower, "Ll": unicode.Ll, "Title": unicode.Title, "Lt": unicode.Lt,
	"Letter": unicode.Letter, "L": unicode.L, "Digit": unicode.Digit, "Nd": unicode.Nd, "Number": unicode.Number, "N": unicode.N,
}

// c20Frame evaluates the branch conditions of fn for one concrete rune: isRune
// recognises the rune variable, bind gives the values of parameters fixed by the
// call site (function constants, constants).
type c20Frame struct {
	fn     *ssa.Function
	isRune func(ssa.Value) bool
	c      int64
	bind   map[ssa.Value]any
	inMod  map[*ssa.Function]bool
	depth  int

	dead      map[core.Edge]bool
	reach     map[*ssa.BasicBlock]bool
	Undecided []ssa.Instruction // reachable branches on the rune that could not be evaluated
}

func (fr *c20Frame) funcOf(v ssa.Value) *ssa.Function {
	switch x := core.Forward(v).(type) {
	case *ssa.Function:
		return x
	case *ssa.MakeClosure:
		if len(x.Bindings) == 0 {
			f, _ := x.Fn.(*ssa.Function)
			return f
		}
	case *ssa.Parameter:
		f, _ := fr.bind[x].(*ssa.Function)
		return f
	}
	return nil
}

func (fr *c20Frame) intVal(v ssa.Value, d int) (int64, bool) {
	if d > 8 || v == nil {
		return 0, false
	}
	if fr.isRune(v) {
		return fr.c, true
	}
	switch x := v.(type) {
	case *ssa.Const:
		if x.Value != nil && x.Value.Kind() == constant.Int {
			return x.Int64(), true
		}
	case *ssa.Parameter:
		if c, ok := fr.bind[x].(constant.Value); ok && c.Kind() == constant.Int {
			n, exact := constant.Int64Val(c)
			return n, exact
		}
	case *ssa.ChangeType:
		return fr.intVal(x.X, d+1)
	case *ssa.Convert:
		n, ok := fr.intVal(x.X, d+1)
		if !ok {
			return 0, false
		}
		b, isBasic := x.Type().Underlying().(*types.Basic)
		if !isBasic || b.Info()&types.IsInteger == 0 {
			return 0, false
		}
		switch b.Kind() {
		case types.Int8:
			return int64(int8(n)), true
		case types.Int16:
			return int64(int16(n)), true
		case types.Int32:
			return int64(int32(n)), true
		case types.Uint8:
			return int64(uint8(n)), true
		case types.Uint16:
			return int64(uint16(n)), true
		case types.Uint32:
			return int64(uint32(n)), true
		case types.Uint, types.Uint64, types.Uintptr:
			return n, n >= 0
		}
		return n, true
	case *ssa.BinOp:
		a, aok := fr.intVal(x.X, d+1)
		b, bok := fr.intVal(x.Y, d+1)
		if !aok || !bok {
			return 0, false
		}
		var res int64
		switch x.Op {
		case token.ADD:
			res = a + b
		case token.SUB:
			res = a - b
		case token.MUL:
			res = a * b
		case token.AND:
			res = a & b
		case token.OR:
			res = a | b
		case token.XOR:
			res = a ^ b
		case token.AND_NOT:
			res = a &^ b
		default:
			return 0, false
		}
		// wrap-around of the narrow unsigned types (uint32(r-'A') < 26)
		if bt, ok := x.Type().Underlying().(*types.Basic); ok {
			switch bt.Kind() {
			case types.Uint8:
				res = int64(uint8(res))
			case types.Uint16:
				res = int64(uint16(res))
			case types.Uint32:
				res = int64(uint32(res))
			case types.Int32:
				res = int64(int32(res))
			case types.Uint, types.Uint64, types.Uintptr:
				if res < 0 {
					return 0, false
				}
			}
		}
		return res, true
	case *ssa.Call:
		if x.Call.IsInvoke() || len(x.Call.Args) != 1 {
			return 0, false
		}
		if f := fr.funcOf(x.Call.Value); f != nil {
			if m := c20UnicodeMaps[c20FuncName(f)]; m != nil {
				if a, ok := fr.intVal(x.Call.Args[0], d+1); ok {
					return int64(m(rune(a))), true
				}
			}
		}
	}
	return 0, false
}

func (fr *c20Frame) boolVal(v ssa.Value, d int) (bool, bool) {
	if d > 8 || v == nil {
		return false, false
	}
	switch x := v.(type) {
	case *ssa.Const:
		if x.Value != nil && x.Value.Kind() == constant.Bool {
			return constant.BoolVal(x.Value), true
		}
	case *ssa.Parameter:
		if c, ok := fr.bind[x].(constant.Value); ok && c.Kind() == constant.Bool {
			return constant.BoolVal(c), true
		}
	case *ssa.UnOp:
		if x.Op == token.NOT {
			b, ok := fr.boolVal(x.X, d+1)
			return !b, ok
		}
	case *ssa.BinOp:
		if a, aok := fr.intVal(x.X, d+1); aok {
			if b, bok := fr.intVal(x.Y, d+1); bok {
				return evalCmp(x.Op, a, b)
			}
			return false, false
		}
		if a, aok := fr.boolVal(x.X, d+1); aok {
			if b, bok := fr.boolVal(x.Y, d+1); bok {
				switch x.Op {
				case token.EQL:
					return a == b, true
				case token.NEQ, token.XOR:
					return a != b, true
				case token.AND:
					return a && b, true
				case token.OR:
					return a || b, true
				}
			}
		}
	case *ssa.Phi:
		val, n := false, 0
		for i, e := range x.Edges {
			pb := x.Block().Preds[i]
			if !fr.reach[pb] || fr.dead[core.Edge{From: pb, To: x.Block()}] {
				continue
			}
			b, ok := fr.boolVal(e, d+1)
			if !ok || (n > 0 && b != val) {
				return false, false
			}
			val, n = b, n+1
		}
		return val, n > 0
	case *ssa.Call:
		if x.Call.IsInvoke() {
			return false, false
		}
		f := fr.funcOf(x.Call.Value)
		if f == nil {
			return false, false
		}
		name := c20FuncName(f)
		if pred := c20UnicodePreds[name]; pred != nil && len(x.Call.Args) == 1 {
			if a, ok := fr.intVal(x.Call.Args[0], d+1); ok {
				return pred(rune(a)), true
			}
			return false, false
		}
		if name == "unicode.Is" && len(x.Call.Args) == 2 {
			if ld, ok := x.Call.Args[0].(*ssa.UnOp); ok && ld.Op == token.MUL {
				if g, ok := ld.X.(*ssa.Global); ok && g.Pkg != nil && g.Pkg.Pkg.Path() == "unicode" {
					if tbl := c20UnicodeTables[g.Name()]; tbl != nil {
						if a, ok := fr.intVal(x.Call.Args[1], d+1); ok {
							return unicode.Is(tbl, rune(a)), true
						}
					}
				}
			}
			return false, false
		}
		// a small in-module predicate over one integer: evaluated in its own frame
		if fr.inMod[f] && f.Blocks != nil && len(f.FreeVars) == 0 && len(f.Params) == 1 && len(x.Call.Args) == 1 &&
			f.Signature.Results().Len() == 1 && isIntegerType(f.Params[0].Type()) && fr.depth < 3 {
			a, ok := fr.intVal(x.Call.Args[0], d+1)
			if !ok {
				return false, false
			}
			par := f.Params[0]
			sub := &c20Frame{fn: f, isRune: func(v ssa.Value) bool { return core.Forward(v) == ssa.Value(par) }, c: a, inMod: fr.inMod, depth: fr.depth + 1}
			sub.solve()
			if len(sub.Undecided) > 0 {
				return false, false
			}
			val, n := false, 0
			for _, ret := range core.Returns(f) {
				if !sub.reach[ret.Block()] {
					continue
				}
				b, ok := sub.boolVal(core.Result(ret, 0), 0)
				if !ok || (n > 0 && b != val) {
					return false, false
				}
				val, n = b, n+1
			}
			return val, n > 0
		}
	}
	return false, false
}

// solve removes, to a fixpoint, the infeasible successor of every branch whose
// condition evaluates for the concrete rune (the scheme of concreteCutX).
func (fr *c20Frame) solve() {
	fr.dead = map[core.Edge]bool{}
	fr.reach = map[*ssa.BasicBlock]bool{}
	if fr.bind == nil {
		fr.bind = map[ssa.Value]any{}
	}
	flood := func() {
		for b := range fr.reach {
			delete(fr.reach, b)
		}
		work := []*ssa.BasicBlock{fr.fn.Blocks[0]}
		for len(work) > 0 {
			b := work[len(work)-1]
			work = work[:len(work)-1]
			if fr.reach[b] {
				continue
			}
			fr.reach[b] = true
			for _, s := range b.Succs {
				if !fr.dead[core.Edge{From: b, To: s}] {
					work = append(work, s)
				}
			}
		}
	}
	for round := 0; round < 12; round++ {
		flood()
		changed := false
		for _, b := range fr.fn.Blocks {
			iff, ok := b.Instrs[len(b.Instrs)-1].(*ssa.If)
			if !ok || !fr.reach[b] {
				continue
			}
			val, known := fr.boolVal(iff.Cond, 0)
			if !known {
				continue
			}
			e := core.Edge{From: b, To: b.Succs[1]}
			if !val {
				e = core.Edge{From: b, To: b.Succs[0]}
			}
			if !fr.dead[e] {
				fr.dead[e], changed = true, true
			}
		}
		if !changed {
			break
		}
	}
	flood()
	fr.Undecided = nil
	for _, b := range fr.fn.Blocks {
		iff, ok := b.Instrs[len(b.Instrs)-1].(*ssa.If)
		if !ok || !fr.reach[b] {
			continue
		}
		if _, known := fr.boolVal(iff.Cond, 0); !known && core.DependsOn(iff.Cond, func(v ssa.Value) bool {
			if _, isCall := v.(*ssa.Call); isCall {
				return false // the tuple the rune is extracted from is not the rune
			}
			return fr.isRune(v)
		}) {
			fr.Undecided = append(fr.Undecided, iff)
		}
	}
}

func (fr *c20Frame) cut(e core.Edge) bool { return fr.dead[e] }

// ---------------------------------------------------------------- the rune loop of a word splitter

// c20SplitLoop is a function that walks over the runes of a string (ReadRune on a
// strings.Reader, or `for range` over a string) and collects them in a word buffer.
type c20SplitLoop struct {
	fn     *ssa.Function
	rd     ssa.Instruction // obtains the next rune
	isRune func(ssa.Value) bool
	noRune core.Atom // holds on the edges on which no rune was obtained
	bind   map[ssa.Value]any
}

var (
	c20IsFlush = core.Or(core.CallMethod("bytes.Buffer", "Reset"), core.CallMethod("strings.Builder", "Reset"))
	c20IsKeep  = core.Or(core.CallMethod("bytes.Buffer", "WriteRune"), core.CallMethod("strings.Builder", "WriteRune"))
)

// c20FindSplitLoop recognises the role; paramOnly: the string ranged over must be a
// parameter itself (the splitter of util/format), otherwise any string.
func c20FindSplitLoop(f *ssa.Function, paramOnly bool) *c20SplitLoop {
	if f == nil || f.Blocks == nil {
		return nil
	}
	l := &c20SplitLoop{fn: f}
	if reads := core.Calls(f, core.CallMethod("strings.Reader", "ReadRune")); len(reads) == 1 {
		c, ok := reads[0].(*ssa.Call)
		if !ok {
			return nil
		}
		l.rd = c
		l.isRune = func(v ssa.Value) bool { return core.IsResult(v, 0, core.Is(c)) }
		l.noRune = core.Not(core.ErrNil(2, core.Is(c)))
	} else {
		var nexts []*ssa.Next
		for _, in := range core.Instrs(f, func(in ssa.Instruction) bool {
			nx, ok := in.(*ssa.Next)
			if !ok || !nx.IsString {
				return false
			}
			rg, ok := nx.Iter.(*ssa.Range)
			if !ok {
				return false
			}
			if !paramOnly {
				return true
			}
			_, isParam := core.Strip(rg.X).(*ssa.Parameter)
			return isParam
		}) {
			nexts = append(nexts, in.(*ssa.Next))
		}
		if len(nexts) != 1 {
			return nil
		}
		nx := nexts[0]
		l.rd = nx
		l.isRune = func(v ssa.Value) bool {
			e, ok := core.Forward(v).(*ssa.Extract)
			return ok && e.Tuple == ssa.Value(nx) && e.Index == 2
		}
		l.noRune = core.Not(core.BoolVal(func(v ssa.Value) bool {
			e, ok := v.(*ssa.Extract)
			return ok && e.Tuple == ssa.Value(nx) && e.Index == 0
		}))
	}
	if len(core.Instrs(f, c20IsKeep)) == 0 {
		return nil // iterates over runes but builds no words
	}
	return l
}

// c20RuneVerdict: what the loop body can do with one concrete rune.
type c20RuneVerdict struct {
	canFlush   bool // the buffer can be reset before the rune is kept / the next one is read
	skipsFlush bool // … and it can also not be
	keeps      bool // the rune can be written to the buffer
	drops      bool // the next rune can be read without this one having been written
	undecided  []ssa.Instruction
}

func (l *c20SplitLoop) verdict(inMod map[*ssa.Function]bool, c rune) c20RuneVerdict {
	fr := &c20Frame{fn: l.fn, isRune: l.isRune, c: int64(c), bind: l.bind, inMod: inMod}
	fr.solve()
	errArm, _ := core.EdgesOf(l.fn, l.noRune)
	both := func(e core.Edge) bool {
		if fr.cut(e) {
			return true
		}
		for _, x := range errArm {
			if x == e {
				return true
			}
		}
		return false
	}
	next := core.Is(l.rd)
	var v c20RuneVerdict
	from := []core.At{core.After(l.rd)}
	_, v.skipsFlush = core.Reach(core.Q{From: from, Target: core.Or(c20IsKeep, next), Blocked: c20IsFlush, Cut: both})
	_, v.canFlush = core.Reach(core.Q{From: from, Target: c20IsFlush, Blocked: core.Or(c20IsKeep, next), Cut: both})
	_, v.keeps = core.Reach(core.Q{From: from, Target: c20IsKeep, Blocked: next, Cut: both})
	_, v.drops = core.Reach(core.Q{From: from, Target: next, Blocked: c20IsKeep, Cut: both})
	// only branches the rune can reach after it was read matter
	for _, u := range fr.Undecided {
		if _, ok := core.Reach(core.Q{From: from, Target: core.Is(u), Blocked: next, Cut: both}); ok {
			v.undecided = append(v.undecided, u)
		}
	}
	return v
}

// c20WordSamples: runes on which the splitters are evaluated. The property: a word
// starts at '_' (which belongs to no word) and before every upper-case letter.
var c20WordSamples = []rune{
	'_',
	'A', 'B', 'M', 'Y', 'Z', 'É', 'Ü', 'Ā', 'Σ', 'Ф', // upper-case letters: ASCII, Latin-1, Latin Extended, Greek, Cyrillic
	'@', '[', '`', 'a', 'z', '{', '0', '1', '9', '-', '.', ' ', // ASCII around the letter ranges, digits, punctuation
	'é', 'ü', 'ß', 'σ', 'ф', '中', 'ا', '٣', // lower-case and caseless letters, a non-ASCII digit
}

// ---------------------------------------------------------------- the rules

func c20R9(r *core.Run, ext *core.Ext) {
	p := r.P
	all := ext.AllFuncs()
	inMod := map[*ssa.Function]bool{}
	for _, f := range all {
		inMod[f] = true
	}
	fnFormat := ext.Func(fmtRel, "", "FileNamingFormat")
	fnSnake := ext.Func(strxRel, "String", "ToSnake")

	r.Check("D2/K8/designer-searched-behind-go", "the position of the second flag that FileNamingFormat uses comes from a search that an occurrence in front of the first flag cannot catch: the haystack is the part of the (folded) template starting at the GO match (at most the flag's width behind its start), or the search takes the last occurrence [a first-occurrence search over the whole template finds the 'designer' of a prefix: the template designer_go_designer contains 'go' then 'designer' and is rejected as wrong order]; a window that starts more than the flag's width behind the GO match misses a DESIGNER that follows GO directly (goDesigner)", func(o *core.O) {
		if !o.Need(fnFormat != nil, "format.FileNamingFormat") {
			return
		}
		fs := c20FlagSearches(fnFormat)
		if !o.Need(len(fs["go"]) > 0 && len(fs["designer"]) > 0, "strings.Index calls for the flags GO and DESIGNER in FileNamingFormat") {
			return
		}
		r.Fn(core.FuncName(fnFormat))
		goW := int64(2)
		if s, ok := core.ConstString(fs["go"][0].Call.Args[1]); ok {
			goW = int64(len(s))
		}
		good := 0
		var whole []*ssa.Call
		for _, d := range fs["designer"] {
			o.Site(1, core.FuncName(fnFormat))
			if isLastIndexCall(d) {
				good++
				continue
			}
			behind := false
			for _, g := range fs["go"] {
				if k, ok := c20BehindOf(d, g); ok {
					behind = true
					switch {
					case k < 0:
						o.Fail(p.InstrPos(d), "FileNamingFormat searches DESIGNER from %d bytes in front of the GO match: not restricted to the part behind GO", -k)
					case k > goW:
						o.Fail(p.InstrPos(d), "FileNamingFormat searches DESIGNER from %d bytes behind the start of the GO match, the flag is %d bytes wide: a DESIGNER that follows GO directly (goDesigner) is missed and the template rejected", k, goW)
					default:
						good++
					}
				}
			}
			if behind {
				continue
			}
			dependsOnGo := func(v ssa.Value) bool {
				for _, g := range fs["go"] {
					if v == ssa.Value(g) {
						return true
					}
				}
				return false
			}
			// a window whose start does not follow the GO match is as good as the whole template
			if s, ok := core.Forward(d.Call.Args[0]).(*ssa.Slice); ok && s.Low != nil && core.DependsOn(s.Low, dependsOnGo) {
				o.Unres("FileNamingFormat searches DESIGNER in %s: the start of that window is not (position of GO) + constant", core.Describe(s))
				continue
			}
			whole = append(whole, d)
		}
		if good == 0 {
			for _, d := range whole {
				o.Fail(p.InstrPos(d), "FileNamingFormat takes the first DESIGNER of %s, which does not start at the GO match, and has no search restricted to the part behind GO: a template whose prefix contains 'designer' (designer_go_designer) is rejected as wrong order although 'go' is followed by 'designer'", core.Describe(d.Call.Args[0]))
			}
		}
	})

	// the two word splitters of the generator
	var fmtLoop *c20SplitLoop
	for _, f := range ext.Funcs(fmtRel) {
		if l := c20FindSplitLoop(f, true); l != nil && len(core.Instrs(f, c20IsFlush)) > 0 {
			fmtLoop = l
		}
	}
	r.Check("D3/K9/snake-splitter-agrees", "the rune loop String.ToSnake runs (under the predicate and flags ToSnake passes to it) starts a new word before a rune, and keeps it, exactly when the splitter of util/format does, for every sample rune other than '_' (ASCII and non-ASCII upper-case, lower-case, caseless, digits) [both cut an identifier into the words the property names – before upper-case letters; where they disagree one of them does not, and a file named by go_designer differs from the snake form of the same identifier]", func(o *core.O) {
		if !o.Need(fnSnake != nil, "stringx.String.ToSnake") || !o.Need(fmtLoop != nil, "the word splitter of util/format (rune loop with a word buffer)") {
			return
		}
		// the loop: in ToSnake itself, or in an in-module function it calls (bindings from that call)
		var loops []*c20SplitLoop
		if l := c20FindSplitLoop(fnSnake, false); l != nil {
			loops = append(loops, l)
		}
		for _, in := range core.Calls(fnSnake, func(in ssa.Instruction) bool {
			c, ok := in.(*ssa.Call)
			return ok && staticCallee(c) != nil && inMod[staticCallee(c)]
		}) {
			c := in.(*ssa.Call)
			g := staticCallee(c)
			l := c20FindSplitLoop(g, false)
			if l == nil || len(c.Call.Args) != len(g.Params) {
				continue
			}
			l.bind = map[ssa.Value]any{}
			for i, a := range c.Call.Args {
				switch x := core.Forward(a).(type) {
				case *ssa.Function:
					l.bind[g.Params[i]] = x
				case *ssa.MakeClosure:
					if fn, ok := x.Fn.(*ssa.Function); ok && len(x.Bindings) == 0 {
						l.bind[g.Params[i]] = fn
					}
				case *ssa.Const:
					if x.Value != nil {
						l.bind[g.Params[i]] = x.Value
					}
				}
			}
			loops = append(loops, l)
		}
		if !o.Need(len(loops) > 0, "the rune loop with a word buffer that ToSnake runs") {
			return
		}
		r.Fn(core.FuncName(fnSnake))
		for _, l := range loops {
			r.Fn(core.FuncName(l.fn))
			for _, c := range c20WordSamples {
				if c == '_' {
					continue
				}
				o.Site(1)
				a, b := fmtLoop.verdict(inMod, c), l.verdict(inMod, c)
				if len(a.undecided)+len(b.undecided) > 0 {
					o.Unres("a branch on the rune could not be evaluated for %q (%s / %s)", c, core.FuncName(fmtLoop.fn), core.FuncName(l.fn))
					return
				}
				word := func(v c20RuneVerdict) string {
					if v.canFlush {
						return "starts a new word"
					}
					return "continues the word"
				}
				if a.canFlush != b.canFlush {
					o.Fail(p.Pos(l.fn.Pos()), "before %q (upper-case: %v) %s %s but %s %s: the generator's two splitters cut the same identifier into different words", c, unicode.IsUpper(c), core.FuncName(l.fn), word(b), core.FuncName(fmtLoop.fn), word(a))
					continue
				}
				if (a.keeps && !a.drops) != (b.keeps && !b.drops) {
					o.Fail(p.Pos(l.fn.Pos()), "%s and %s disagree on whether %q belongs to a word", core.FuncName(l.fn), core.FuncName(fmtLoop.fn), c)
				}
			}
		}
	})
}
