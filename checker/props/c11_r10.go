package props

import (
	"go/token"
	"go/types"
	"strings"

	"godcheck/core"

	"golang.org/x/tools/go/ssa"
)

const sqlc = "lib/store/sqlc"

// c11R10: rules written for the independently seeded changes of round 9 (C11-vm2: the strict flag is
// weakened on its way to the column-count check; C11-vm3: a collaborating wrapper of the transaction
// body stops the body's panic and hands a nil error to the runner).
func c11R10(r *core.Run) {
	defer c11R11(r)
	p := r.P
	r.Explanation += " That the mode a row-mapping function of lib/store/sqlx was called in reaches the strict column-count check: the flag handed on is the function's own flag, true, or weaker only where the own flag is false (a check confined to the first pass of a row loop is accepted). That no function of lib/store/sqlx or lib/store/sqlc that runs a caller-supplied transaction body stops a panic of it without reporting it (re-panic, or a provably non-nil error stored into its named result)."
	r.NotDecided += " Strict flag: a flag computed from anything but the caller's mode, constants and a first-iteration marker is reported, also where it happens to be equivalent. Absorbed panics: only recover() calls inside the functions that call the body value, their closures and the named functions they defer (a *error handed to such a helper is taken to be the named result); non-nil is proved for fmt.Errorf/errors.New, conversions of concrete values, package-level error variables, a type assertion to error under its ok, and in-package helpers all of whose returns are such."

	// ---- C11-vm2 ----
	r.Check("D3/K8/strict-mode-reaches-the-column-check", "a function of lib/store/sqlx that is called in strict mode applies the column-count check in strict mode: the flag it hands to a function taking the strict flag is its own flag (or true) on every path on which its own flag is true – it does not depend on anything else, such as the state of the destination [in strict mode a result with fewer columns than destination fields is an error rather than a partially filled struct, for every destination and every result set: a flag weakened on the way lets a short result fill the struct partially and return nil, and a Transact body built on it commits]", func(o *core.O) {
		takers := c11StrictTakers(p)
		if !o.Need(len(takers) > 0, "a function of lib/store/sqlx that rejects a result with ErrNotMatchDestination under a bool parameter") {
			return
		}
		n := 0
		for _, f := range p.PkgFuncs(sqlx) {
			for _, c := range core.Calls(f, func(in ssa.Instruction) bool { return core.AsCall(in) != nil }) {
				callee := c.Common().StaticCallee()
				if callee == nil || c.Common().IsInvoke() {
					continue
				}
				for idx := range takers[callee] {
					if idx >= len(c.Common().Args) {
						continue
					}
					n++
					r.Fn(core.FuncName(f))
					if why := c11StrictArgWeakened(f, c, c.Common().Args[idx]); why != "" {
						o.Fail(p.InstrPos(c), "%s hands %s a strict flag that %s: in strict mode a result with fewer columns than the destination has fields is then mapped, the missing fields stay zero and nil is returned", core.FuncName(f), core.FuncName(callee), why)
					}
				}
			}
		}
		o.Site(n, sqlx)
	})

	// ---- C11-vm3 ----
	r.Check("D1/K1/body-panic-not-absorbed", "no function of lib/store/sqlx or lib/store/sqlc that runs a caller-supplied transaction body stops a panic of the body silently: where such a function (or a closure it defers) calls recover() and the result is not known to be nil, every path to its end re-panics or stores a provably non-nil error into the function's named result [if the function panics the transaction is rolled back and the caller learns of it, a nil result always means exactly one Commit: a wrapper that turns a panic into a nil return makes the runner see a body that returned normally with nil, and commits]", func(o *core.O) {
		isBodySig := func(t types.Type) bool {
			sig, ok := t.Underlying().(*types.Signature)
			if !ok || sig.Results().Len() != 1 || sig.Results().At(0).Type().String() != "error" {
				return false
			}
			k := sig.Params().Len()
			return (k == 1 || k == 2) && strings.HasSuffix(sig.Params().At(k-1).Type().String(), "lib/store/sqlx.Session")
		}
		callsBody := func(in ssa.Instruction) bool {
			c := core.AsCall(in)
			if c == nil || c.Common().IsInvoke() || c.Common().StaticCallee() != nil {
				return false
			}
			if _, isBuiltin := c.Common().Value.(*ssa.Builtin); isBuiltin {
				return false
			}
			return isBodySig(c.Common().Value.Type())
		}
		isTxEnd := core.Or(core.CallMethod("sqlx.trans", "Commit"), core.CallMethod("sqlx.trans", "Rollback"))
		var endsTx func(f *ssa.Function, depth int) bool
		endsTx = func(f *ssa.Function, depth int) bool {
			if len(core.Calls(f, isTxEnd)) > 0 {
				return true
			}
			if depth >= 2 {
				return false
			}
			for _, c := range core.Calls(f, func(in ssa.Instruction) bool { return core.AsCall(in) != nil }) {
				if g := c.Common().StaticCallee(); g != nil && g != f && g.Pkg == f.Pkg && len(g.Blocks) > 0 && endsTx(g, depth+1) {
					return true
				}
			}
			return false
		}
		carriers, recovers := 0, 0
		for _, rel := range []string{sqlx, sqlc} {
			all := p.PkgFuncs(rel)
			for _, f := range all {
				if len(core.Calls(f, callsBody)) == 0 {
					continue
				}
				carriers++
				r.Fn(core.FuncName(f))
				// f, the closures created inside it, and the named functions of the package they defer
				// (recover() only works in a function that is deferred directly)
				var scope []*ssa.Function
				inScope := map[*ssa.Function]bool{}
				for _, d := range all {
					for g := d; g != nil; g = g.Parent() {
						if g == f && !inScope[d] {
							inScope[d] = true
							scope = append(scope, d)
						}
					}
				}
				for i := 0; i < len(scope); i++ {
					for _, in := range core.Instrs(scope[i], func(in ssa.Instruction) bool { _, ok := in.(*ssa.Defer); return ok }) {
						g := in.(*ssa.Defer).Call.StaticCallee()
						if g != nil && g.Parent() == nil && g.Pkg == f.Pkg && len(g.Blocks) > 0 && !inScope[g] {
							inScope[g] = true
							scope = append(scope, g)
						}
					}
				}
				for _, d := range scope {
					recs := core.Instrs(d, func(in ssa.Instruction) bool { v, ok := in.(ssa.Value); return ok && isRecoverResult(v) })
					if len(recs) == 0 {
						continue
					}
					if endsTx(d, 0) {
						continue // the transaction finaliser: its recover arm is decided by D1/K1/panic-rolled-back-and-reported
					}
					nilEdges, _ := core.EdgesOf(d, core.Cmp(token.EQL, isRecoverResult, core.IsNil))
					cut := core.CutSet(nilEdges)
					reports := func(in ssa.Instruction) bool {
						switch x := in.(type) {
						case *ssa.Panic:
							return true
						case *ssa.Store:
							if st, ok := c11ErrVarStore(p, x); ok {
								return c11StoresNonNil(d, st)
							}
							// a deferred named helper reports through the *error it was handed
							if pa, ok := x.Addr.(*ssa.Parameter); ok && d.Parent() == nil && c11IsErrPtr(pa.Type()) {
								return c11StoresNonNil(d, x)
							}
						}
						return false
					}
					for _, rc := range recs {
						recovers++
						if w, ok := core.Reach(core.Q{From: []core.At{core.After(rc)}, Target: core.IsReturn, Blocked: reports, Cut: cut}); ok {
							o.Fail(p.InstrPos(rc), "%s runs the caller's transaction body and %s stops a panic of it: a path from recover() (result not known to be nil) reaches %s without re-panicking and without storing a provably non-nil error into the named result – the body then appears to have returned normally with nil, the transaction is committed and Transact returns nil", core.FuncName(f), core.FuncName(d), p.InstrPos(w))
						}
					}
				}
			}
		}
		if !o.Need(carriers > 0, "a function of lib/store/sqlx or lib/store/sqlc that calls a transaction body value (func([context.Context,] sqlx.Session) error)") {
			return
		}
		o.Site(carriers+recovers, sqlx, sqlc)
	})
}

// c11StrictTakers: by role, the (function, parameter) pairs of lib/store/sqlx that take the strict
// flag – a bool parameter under which the function rejects a result with ErrNotMatchDestination,
// or which it hands on (unchanged, or as the mode deciding what is handed on) to such a function.
func c11StrictTakers(p *core.Prog) map[*ssa.Function]map[int]bool {
	takers := map[*ssa.Function]map[int]bool{}
	add := func(f *ssa.Function, i int) bool {
		if takers[f] == nil {
			takers[f] = map[int]bool{}
		}
		if takers[f][i] {
			return false
		}
		takers[f][i] = true
		return true
	}
	isBool := func(t types.Type) bool {
		b, ok := t.Underlying().(*types.Basic)
		return ok && b.Kind() == types.Bool
	}
	funcs := p.PkgFuncs(sqlx)
	for _, f := range funcs {
		if f.Parent() != nil {
			continue
		}
		rets := core.Instrs(f, func(in ssa.Instruction) bool {
			ret, ok := in.(*ssa.Return)
			if !ok {
				return false
			}
			for i := range ret.Results {
				if core.IsGlobal(sqlx, "ErrNotMatchDestination")(core.Result(ret, i)) {
					return true
				}
			}
			return false
		})
		if len(rets) == 0 {
			continue
		}
		for i, prm := range f.Params {
			if !isBool(prm.Type()) {
				continue
			}
			atom := core.BoolVal(core.ParamAt(f, i))
			if core.EdgeCount(f, atom) == 0 {
				continue
			}
			for _, ret := range rets {
				if core.Requires(f, core.Is(ret), atom) == nil {
					add(f, i)
				}
			}
		}
	}
	rootOf := func(f *ssa.Function) *ssa.Function {
		for f.Parent() != nil {
			f = f.Parent()
		}
		return f
	}
	for changed, round := true, 0; changed && round < 6; round++ {
		changed = false
		for _, f := range funcs {
			root := rootOf(f)
			for _, c := range core.Calls(f, func(in ssa.Instruction) bool { return core.AsCall(in) != nil }) {
				callee := c.Common().StaticCallee()
				if callee == nil || c.Common().IsInvoke() || takers[callee] == nil {
					continue
				}
				for idx := range takers[callee] {
					if idx >= len(c.Common().Args) {
						continue
					}
					for _, m := range c11ModesOf(f, c.Common().Args[idx]) {
						if m.root == root && add(root, m.idx) {
							changed = true
						}
					}
				}
			}
		}
	}
	return takers
}

type c11Mode struct {
	root *ssa.Function
	idx  int
	is   func(ssa.Value) bool
}

// c11BoolParams: the bool parameters of the outermost function around f, each with the predicate
// matching it directly or as captured by f.
func c11BoolParams(f *ssa.Function) []c11Mode {
	root := f
	for root.Parent() != nil {
		root = root.Parent()
	}
	var out []c11Mode
	for i, prm := range root.Params {
		if b, ok := prm.Type().Underlying().(*types.Basic); ok && b.Kind() == types.Bool {
			out = append(out, c11Mode{root, i, core.ParamOrCaptured(root, i)})
		}
	}
	return out
}

// c11ModesOf: the bool parameters of f's outermost function that the flag v is made of: those that
// are a leaf of v; when none is, those that are branched on in f (v may be `mode && …`).
func c11ModesOf(f *ssa.Function, v ssa.Value) []c11Mode {
	params := c11BoolParams(f)
	var leaves []c11Mode
	seen := map[int]bool{}
	for _, leaf := range gxPhiLeaves(core.Forward(v)) {
		for _, m := range params {
			if !seen[m.idx] && m.is(leaf) {
				seen[m.idx] = true
				leaves = append(leaves, m)
			}
		}
	}
	if len(leaves) > 0 {
		return leaves
	}
	var ctl []c11Mode
	for _, m := range params {
		h, fl := core.EdgesOf(f, core.BoolVal(m.is))
		if len(h)+len(fl) > 0 {
			ctl = append(ctl, m)
		}
	}
	return ctl
}

func c11ConstBool(v ssa.Value) (val, ok bool) {
	c, isC := v.(*ssa.Const)
	if !isC || c.Value == nil {
		return false, false
	}
	switch c.Value.String() {
	case "true":
		return true, true
	case "false":
		return false, true
	}
	return false, false
}

// c11StrictArgWeakened decides whether the strict flag v, handed on by f, can be false although the
// mode f was called in is true. "" = no; otherwise what is wrong with it.
//
//   - the constant true, or constants only in a function that has no bool parameter: f fixes the
//     mode itself (the query methods; their constants are decided by D2/K9) – not weakened;
//   - a call that is made only where a bool parameter of f is false – not weakened;
//   - otherwise v must, for one bool parameter m of f's outermost function, be at least m: every
//     value that can flow into v is m itself or true, or flows in only over an edge that cannot be
//     taken while m is true. A φ at a loop head is judged by what enters the loop from outside
//     (columns and element type are the same for every row: checking the first row is enough).
func c11StrictArgWeakened(f *ssa.Function, call ssa.Instruction, v ssa.Value) string {
	v = core.Forward(v)
	modes := c11ModesOf(f, v)
	if len(modes) == 0 {
		allConst, allTrue := true, true
		for _, leaf := range gxPhiLeaves(v) {
			b, ok := c11ConstBool(leaf)
			if !ok {
				allConst = false
			}
			if !ok || !b {
				allTrue = false
			}
		}
		if allTrue || (allConst && len(c11BoolParams(f)) == 0) {
			return ""
		}
		if allConst {
			return "is the constant false although " + core.FuncName(f) + " itself is told the mode by a parameter"
		}
		return "is computed from " + core.Describe(v) + ", not from the mode the caller asked for"
	}
	why := ""
	for _, m := range modes {
		_, fails := core.EdgesOf(f, core.BoolVal(m.is))
		if len(fails) > 0 {
			if _, reachable := core.Reach(core.Q{From: []core.At{core.Entry(f)}, Target: core.Is(call), Cut: core.CutSet(fails)}); !reachable {
				return "" // the call itself is made only where the mode is not strict
			}
		}
		var weak func(v ssa.Value, seen map[ssa.Value]bool) string
		weak = func(v ssa.Value, seen map[ssa.Value]bool) string {
			v = core.Forward(v)
			if seen[v] {
				return ""
			}
			seen[v] = true
			if m.is(v) {
				return ""
			}
			if b, ok := c11ConstBool(v); ok {
				if b {
					return ""
				}
				return "is false on a path on which strict mode was asked for"
			}
			ph, ok := v.(*ssa.Phi)
			if !ok {
				return "depends on " + core.Describe(v) + " where strict mode was asked for"
			}
			blk := ph.Block()
			loopHead := false
			for _, pred := range blk.Preds {
				if blk.Dominates(pred) {
					loopHead = true
				}
			}
			for i, e := range ph.Edges {
				pred := blk.Preds[i]
				if loopHead && blk.Dominates(pred) {
					continue // back edge: a later row of the same result
				}
				if !gxEdgeReachable(f, core.Edge{From: pred, To: blk}, fails) {
					continue // only taken when the mode is not strict
				}
				if w := weak(e, seen); w != "" {
					return w
				}
			}
			return ""
		}
		w := weak(v, map[ssa.Value]bool{})
		if w == "" {
			return ""
		}
		if why == "" {
			why = w
		}
	}
	return why
}

// c11StoresNonNil: the error value stored by st (in function d) is provably non-nil.
func c11StoresNonNil(d *ssa.Function, st *ssa.Store) bool {
	ok := true
	gxLeavesWithEdges(st.Val, func(leaf ssa.Value, edge *core.Edge) {
		if c11NonNilErr(leaf, 0) {
			return
		}
		// v, ok := x.(error) stored where ok holds
		if ex, isEx := leaf.(*ssa.Extract); isEx && ex.Index == 0 {
			if ta, isTA := ex.Tuple.(*ssa.TypeAssert); isTA && ta.CommaOk {
				okAtom := core.BoolVal(func(v ssa.Value) bool {
					e2, is := v.(*ssa.Extract)
					return is && e2.Index == 1 && e2.Tuple == ssa.Value(ta)
				})
				holds, _ := core.EdgesOf(d, okAtom)
				if len(holds) > 0 {
					if edge != nil && !gxEdgeReachable(d, *edge, holds) {
						return
					}
					if w, _ := core.Reach(core.Q{From: []core.At{core.Entry(d)}, Target: core.Is(st), Cut: core.CutSet(holds)}); w == nil {
						return
					}
				}
			}
		}
		ok = false
	})
	return ok
}

// c11NonNilErr: v is an error value that cannot be the nil interface: a conversion of a concrete
// value, the result of fmt.Errorf / errors.New, a package-level error variable, or the result of an
// in-package helper all of whose returns are such.
func c11NonNilErr(v ssa.Value, depth int) bool {
	if _, ok := v.(*ssa.MakeInterface); ok {
		return true
	}
	v = core.Strip(v)
	switch x := v.(type) {
	case *ssa.UnOp:
		if x.Op == token.MUL {
			_, isG := x.X.(*ssa.Global)
			return isG
		}
	case *ssa.Call:
		switch core.CalleeName(x) {
		case "fmt.Errorf", "errors.New":
			return true
		}
		g := x.Call.StaticCallee()
		if g == nil || depth >= 2 || len(g.Blocks) == 0 || g.Signature.Results().Len() != 1 {
			return false
		}
		rets := core.Returns(g)
		if len(rets) == 0 {
			return false
		}
		for _, ret := range rets {
			good := true
			gxLeavesWithEdges(core.Result(ret, 0), func(leaf ssa.Value, _ *core.Edge) {
				if !c11NonNilErr(leaf, depth+1) {
					good = false
				}
			})
			if !good {
				return false
			}
		}
		return true
	}
	return false
}
