package props

// Evaluation helpers of the C03 rule table (round-3 robustness): membership in
// a provably constant package-level map literal, and a small evaluator for
// pure boolean validators over one string argument that understands it.
// (Candidates for core/eval.go: b2ConstMapGlobal is the map analogue of
// core's constGlobal; b2EvalPure's Lookup/len cases are what core.Eval lacks.)

import (
	"fmt"
	"go/constant"
	"go/token"
	"go/types"
	"sort"

	"godcheck/core"

	"golang.org/x/tools/go/ssa"
)

// b2ConstMap is the content of a constant map: keys by their exact constant
// spelling; a value is nil when it is not a scalar constant (struct{}{} of a set).
type b2ConstMap struct {
	keys map[string]constant.Value
	vals map[string]constant.Value
}

func b2MapKey(c constant.Value) string { return fmt.Sprint(c.Kind()) + ":" + c.ExactString() }

// b2ConstMapGlobal returns the content of the package-level map variable g when
// it is provably constant: g is stored to exactly once, in the package
// initialiser, with a fresh `make(map…)` that is filled in the same basic
// block by updates with constant keys and used for nothing else; every other
// mention of g in the whole program is a load that is only looked up, ranged
// over or measured with len (never updated, deleted from, passed on, stored,
// captured or compared). nil otherwise.
func b2ConstMapGlobal(g *ssa.Global) *b2ConstMap {
	if g == nil || g.Pkg == nil {
		return nil
	}
	if _, ok := g.Type().Underlying().(*types.Pointer).Elem().Underlying().(*types.Map); !ok {
		return nil
	}
	initFn := g.Pkg.Func("init")
	if initFn == nil {
		return nil
	}
	// which packages can mention g: its own, and every package of the program when it is exported
	pkgs := []*ssa.Package{g.Pkg}
	if g.Object() == nil || g.Object().Exported() {
		pkgs = g.Pkg.Prog.AllPackages()
	}
	var out *b2ConstMap
	stores := 0
	for _, sp := range pkgs {
		for _, f := range b2AllPkgFuncs(g.Pkg.Prog, sp) {
			for _, b := range f.Blocks {
				for _, in := range b.Instrs {
					uses := false
					for _, op := range in.Operands(nil) {
						if *op == ssa.Value(g) {
							uses = true
						}
					}
					if !uses {
						continue
					}
					switch x := in.(type) {
					case *ssa.Store:
						if x.Addr != ssa.Value(g) || f != initFn {
							return nil
						}
						stores++
						out = b2LiteralMap(x)
						if out == nil {
							return nil
						}
					case *ssa.UnOp:
						if x.Op != token.MUL || !b2MapReadOnly(x) {
							return nil
						}
					case *ssa.DebugRef:
					default:
						return nil
					}
				}
			}
		}
	}
	if stores != 1 {
		return nil
	}
	return out
}

// b2MapReadOnly: the loaded map value is only looked up, ranged over or measured.
func b2MapReadOnly(v ssa.Value) bool {
	refs := v.Referrers()
	if refs == nil {
		return false
	}
	for _, r := range *refs {
		switch x := r.(type) {
		case *ssa.Lookup:
			if x.X != v || x.Index == v {
				return false
			}
		case *ssa.Range:
		case *ssa.DebugRef:
		case *ssa.Call:
			bi, ok := x.Call.Value.(*ssa.Builtin)
			if !ok || bi.Name() != "len" {
				return false
			}
		default:
			return false
		}
	}
	return true
}

// b2LiteralMap reads `map[K]V{k0: v0, …}` as lowered by the builder into the
// block of the store st: a fresh MakeMap, one MapUpdate per constant key, all
// in st's block and before st, and no other use of the fresh map.
func b2LiteralMap(st *ssa.Store) *b2ConstMap {
	mk, ok := st.Val.(*ssa.MakeMap)
	if !ok || mk.Block() != st.Block() || mk.Referrers() == nil {
		return nil
	}
	out := &b2ConstMap{keys: map[string]constant.Value{}, vals: map[string]constant.Value{}}
	pos := map[ssa.Instruction]int{}
	for i, in := range st.Block().Instrs {
		pos[in] = i
	}
	for _, r := range *mk.Referrers() {
		switch x := r.(type) {
		case *ssa.MapUpdate:
			if x.Map != ssa.Value(mk) || x.Block() != st.Block() || pos[x] > pos[st] {
				return nil
			}
			k, ok := core.Strip(x.Key).(*ssa.Const)
			if !ok || k.Value == nil || x.Value == ssa.Value(mk) {
				return nil
			}
			id := b2MapKey(k.Value)
			if _, dup := out.keys[id]; dup {
				return nil
			}
			out.keys[id] = k.Value
			if c, ok := x.Value.(*ssa.Const); ok && c.Value != nil {
				out.vals[id] = c.Value
			}
		case *ssa.Store:
			if x != st {
				return nil
			}
		case *ssa.DebugRef:
		default:
			return nil
		}
	}
	return out
}

// b2ConstMapKeysLookedUp lists the string keys of the constant package-level
// maps that fn looks up under a value satisfying isVar.
func b2ConstMapKeysLookedUp(fn *ssa.Function, isVar func(ssa.Value) bool) []string {
	set := map[string]bool{}
	for _, b := range fn.Blocks {
		for _, in := range b.Instrs {
			lk, ok := in.(*ssa.Lookup)
			if !ok || !isVar(lk.Index) {
				continue
			}
			if m := b2ConstMapOf(lk.X); m != nil {
				for _, k := range m.keys {
					if k.Kind() == constant.String {
						set[constant.StringVal(k)] = true
					}
				}
			}
		}
	}
	var out []string
	for k := range set {
		out = append(out, k)
	}
	sort.Strings(out)
	return out
}

// b2ConstMapOf resolves a map operand to the constant global it loads.
func b2ConstMapOf(v ssa.Value) *b2ConstMap {
	u, ok := v.(*ssa.UnOp)
	if !ok || u.Op != token.MUL {
		return nil
	}
	g, ok := u.X.(*ssa.Global)
	if !ok {
		return nil
	}
	return b2ConstMapGlobal(g)
}

// b2Opaque stands for a value the evaluator carries but cannot compute with
// (the struct{}{} element of a set).
type b2Opaque struct{}

// b2EvalPure evaluates a pure function of the module on constant arguments:
// comparisons of constants, !, φ, branches, len of a string or of a constant
// map, lookups (plain and comma-ok) in constant package-level maps, and static
// calls of functions of the same package. Anything else is an error; nothing
// of the analysed program is executed.
func b2EvalPure(fn *ssa.Function, args []constant.Value) (constant.Value, error) {
	steps := 20000
	return b2evalCall(fn, args, &steps, 0)
}

func b2evalCall(fn *ssa.Function, args []constant.Value, steps *int, depth int) (constant.Value, error) {
	if fn == nil || len(fn.Blocks) == 0 || len(args) != len(fn.Params) || depth > 6 || fn.Recover != nil {
		return nil, fmt.Errorf("no evaluable body")
	}
	env := map[ssa.Value]any{}
	for i, prm := range fn.Params {
		env[prm] = args[i]
	}
	val := func(v ssa.Value) (any, error) {
		if c, ok := v.(*ssa.Const); ok {
			if c.Value == nil {
				return b2Opaque{}, nil
			}
			return c.Value, nil
		}
		if r, ok := env[v]; ok {
			return r, nil
		}
		return nil, fmt.Errorf("value %s is outside the evaluated subset", v.Name())
	}
	cval := func(v ssa.Value) (constant.Value, error) {
		r, err := val(v)
		if err != nil {
			return nil, err
		}
		c, ok := r.(constant.Value)
		if !ok {
			return nil, fmt.Errorf("value %s is not a scalar constant", v.Name())
		}
		return c, nil
	}
	var prev *ssa.BasicBlock
	b := fn.Blocks[0]
	for {
		newPhi := map[ssa.Value]any{}
		for _, in := range b.Instrs {
			phi, ok := in.(*ssa.Phi)
			if !ok {
				break
			}
			idx := -1
			for i, pr := range b.Preds {
				if pr == prev {
					idx = i
				}
			}
			if idx < 0 {
				return nil, fmt.Errorf("phi without predecessor")
			}
			r, err := val(phi.Edges[idx])
			if err != nil {
				return nil, err
			}
			newPhi[phi] = r
		}
		for k, v := range newPhi {
			env[k] = v
		}
		var next *ssa.BasicBlock
		for _, in := range b.Instrs {
			*steps--
			if *steps <= 0 {
				return nil, fmt.Errorf("evaluation did not terminate")
			}
			switch x := in.(type) {
			case *ssa.Phi, *ssa.DebugRef:
			case *ssa.Return:
				if len(x.Results) != 1 {
					return nil, fmt.Errorf("result count")
				}
				return cval(x.Results[0])
			case *ssa.Jump:
				next = b.Succs[0]
			case *ssa.If:
				c, err := cval(x.Cond)
				if err != nil {
					return nil, err
				}
				if c.Kind() != constant.Bool {
					return nil, fmt.Errorf("non-boolean condition")
				}
				if constant.BoolVal(c) {
					next = b.Succs[0]
				} else {
					next = b.Succs[1]
				}
			case *ssa.BinOp:
				l, err := cval(x.X)
				if err != nil {
					return nil, err
				}
				r, err := cval(x.Y)
				if err != nil {
					return nil, err
				}
				switch x.Op {
				case token.EQL, token.NEQ, token.LSS, token.LEQ, token.GTR, token.GEQ:
					if l.Kind() != r.Kind() {
						return nil, fmt.Errorf("comparison of different kinds")
					}
					env[x] = constant.MakeBool(constant.Compare(l, x.Op, r))
				default:
					return nil, fmt.Errorf("operator %s", x.Op)
				}
			case *ssa.UnOp:
				switch x.Op {
				case token.NOT:
					c, err := cval(x.X)
					if err != nil {
						return nil, err
					}
					if c.Kind() != constant.Bool {
						return nil, fmt.Errorf("! of a non-boolean")
					}
					env[x] = constant.MakeBool(!constant.BoolVal(c))
				case token.MUL:
					g, ok := x.X.(*ssa.Global)
					if !ok {
						return nil, fmt.Errorf("load of %s", core.Describe(x.X))
					}
					m := b2ConstMapGlobal(g)
					if m == nil {
						return nil, fmt.Errorf("package-level variable %s is not a provably constant map literal", g.Name())
					}
					env[x] = m
				default:
					return nil, fmt.Errorf("operator %s", x.Op)
				}
			case *ssa.Lookup:
				mv, err := val(x.X)
				if err != nil {
					return nil, err
				}
				m, ok := mv.(*b2ConstMap)
				if !ok {
					return nil, fmt.Errorf("lookup in something other than a constant map")
				}
				k, err := cval(x.Index)
				if err != nil {
					return nil, err
				}
				id := b2MapKey(k)
				_, present := m.keys[id]
				var elem any = b2Opaque{}
				if c, ok := m.vals[id]; ok {
					elem = c
				} else if !present {
					// zero value of the element type
					switch bt := x.X.Type().Underlying().(*types.Map).Elem().Underlying().(type) {
					case *types.Basic:
						switch {
						case bt.Info()&types.IsBoolean != 0:
							elem = constant.MakeBool(false)
						case bt.Info()&types.IsString != 0:
							elem = constant.MakeString("")
						case bt.Info()&types.IsInteger != 0:
							elem = constant.MakeInt64(0)
						}
					}
				}
				if x.CommaOk {
					env[x] = []any{elem, constant.MakeBool(present)}
				} else {
					env[x] = elem
				}
			case *ssa.Extract:
				t, err := val(x.Tuple)
				if err != nil {
					return nil, err
				}
				tt, ok := t.([]any)
				if !ok || x.Index >= len(tt) {
					return nil, fmt.Errorf("extract of a non-tuple")
				}
				env[x] = tt[x.Index]
			case *ssa.ChangeType:
				r, err := val(x.X)
				if err != nil {
					return nil, err
				}
				env[x] = r
			case *ssa.Call:
				if bi, ok := x.Call.Value.(*ssa.Builtin); ok {
					if bi.Name() != "len" || len(x.Call.Args) != 1 {
						return nil, fmt.Errorf("builtin %s", bi.Name())
					}
					a, err := val(x.Call.Args[0])
					if err != nil {
						return nil, err
					}
					switch a := a.(type) {
					case *b2ConstMap:
						env[x] = constant.MakeInt64(int64(len(a.keys)))
					case constant.Value:
						if a.Kind() != constant.String {
							return nil, fmt.Errorf("len of a non-string")
						}
						env[x] = constant.MakeInt64(int64(len(constant.StringVal(a))))
					default:
						return nil, fmt.Errorf("len of an unknown value")
					}
					continue
				}
				callee := x.Call.StaticCallee()
				if callee == nil || x.Call.IsInvoke() || callee.Pkg == nil || callee.Pkg != fn.Pkg {
					return nil, fmt.Errorf("call of %s leaves the package", core.Short(core.CalleeName(x)))
				}
				var as []constant.Value
				for _, a := range x.Call.Args {
					c, err := cval(a)
					if err != nil {
						return nil, err
					}
					as = append(as, c)
				}
				if callee.Signature.Results().Len() != 1 {
					return nil, fmt.Errorf("call of %s: result count", core.Short(core.CalleeName(x)))
				}
				r, err := b2evalCall(callee, as, steps, depth+1)
				if err != nil {
					return nil, err
				}
				env[x] = r
			default:
				return nil, fmt.Errorf("instruction %T is outside the evaluated subset", in)
			}
		}
		if next == nil {
			return nil, fmt.Errorf("block without terminator")
		}
		prev, b = b, next
	}
}

// c03EvalValidator evaluates the boolean validator fn (one string parameter)
// on s: by core.Eval where that applies (if-chain, switch, lookup loop over a
// constant slice), else by b2EvalPure (membership in a constant map literal).
func c03EvalValidator(p *core.Prog, fn *ssa.Function, s string) (bool, error) {
	if fn == nil || len(fn.Params) != 1 {
		return false, fmt.Errorf("not a function of one parameter")
	}
	if res, ok := p.Eval(fn, constant.MakeString(s)); ok && len(res) == 1 {
		if b, ok := core.AsBool(res[0]); ok {
			return b, nil
		}
	}
	c, err := b2EvalPure(fn, []constant.Value{constant.MakeString(s)})
	if err != nil {
		return false, err
	}
	if c.Kind() != constant.Bool {
		return false, fmt.Errorf("non-boolean result")
	}
	return constant.BoolVal(c), nil
}
