package props

import (
	"go/token"

	"golang.org/x/tools/go/ssa"

	"godcheck/core"
)

// Detection round 11 (missed change C18-xm1): ManagedResource.MarkBroken must
// compare the CURRENT resource and discard it in one write-locked section.

// c18WLoadOfResource reports whether v is a load of ManagedResource.resource
// executed while the write lock of the same ManagedResource is held.
func c18WLoadOfResource(la *core.LockAnalysis, v ssa.Value) *ssa.UnOp {
	u, ok := core.Forward(v).(*ssa.UnOp)
	if !ok || u.Op != token.MUL {
		return nil
	}
	fa, ok := u.X.(*ssa.FieldAddr)
	if !ok || core.FieldAddrName(fa) != "ManagedResource.resource" {
		return nil
	}
	if k, held := la.HeldKind(u, core.LockPath(fa.X)+".lock"); !held || k != 'W' {
		return nil
	}
	return u
}

// c18R11 registers the rule of detection round 11.
func c18R11(r *core.Run, la *core.LockAnalysis) {
	p := r.P
	r.Check("D5/K3/managed-discard-only-the-compared-current", "ManagedResource discards (overwrites with anything but a freshly generated resource) its resource only on the true outcome of equal(current, ·) where current was read from the resource field under the write lock, and that lock is not released between this read and the discarding store [ManagedResource's sequential specification: MarkBroken(r) discards the current resource only if it IS r; comparing a snapshot taken under the read lock or without a lock, or releasing the lock before clearing, lets a stale MarkBroken(r1) clear the r2 that a concurrent MarkBroken(r1)+Take regenerated in between — r2 is lost although nobody marked it broken, two holders see different current resources, the history has no linearization]", func(o *core.O) {
		isGen := core.CallOfValue(core.FieldLoad("ManagedResource.generate"))
		isEqual := core.CallOfValue(core.FieldLoad("ManagedResource.equal"))
		isUnlock := c18UnlockOf("ManagedResource.lock")
		n, eqs := 0, 0
		eqPos := ""
		for _, f := range p.PkgFuncs(syncxPkg) {
			if len(f.Blocks) == 0 {
				continue
			}
			if es := core.Instrs(f, isEqual); len(es) > 0 {
				eqs += len(es)
				eqPos = p.InstrPos(es[0])
			}
			for _, s := range core.StoresToField(f, "ManagedResource.resource") {
				if g, ok := core.Forward(s.Val).(ssa.Instruction); ok && isGen(g) {
					continue // installs a generated resource (D5/K2/managed-take-rechecks)
				}
				n++
				r.Fn(core.FuncName(f))
				s := s
				// the current resource read under the write lock in the critical
				// section that s belongs to: no release of the lock on a path
				// from the read to s.
				sameSection := func(l *ssa.UnOp) bool {
					for _, u := range core.Instrs(f, isUnlock) {
						if _, ok := core.Reach(core.Q{From: []core.At{core.After(l)}, Target: core.Is(u), Blocked: core.Is(s)}); !ok {
							continue
						}
						if _, ok := core.Reach(core.Q{From: []core.At{core.After(u)}, Target: core.Is(s), Blocked: core.Is(l)}); ok {
							return false
						}
					}
					return true
				}
				same := core.BoolVal(func(v ssa.Value) bool {
					c, ok := v.(*ssa.Call)
					if !ok || !isEqual(c) {
						return false
					}
					for _, a := range core.Args(c) {
						if l := c18WLoadOfResource(la, a); l != nil && sameSection(l) {
							return true
						}
					}
					return false
				})
				if w := core.Requires(f, core.Is(s), same); w != nil {
					o.Fail(p.InstrPos(w), "%s discards the managed resource without equal(current, ·) having returned true for the current resource read under the write lock in the same critical section: a stale MarkBroken (its comparison made on an older snapshot) clears a resource regenerated in between, which nobody marked broken", core.FuncName(f))
				}
			}
		}
		o.Site(n, "discarding stores to ManagedResource.resource")
		if n == 0 {
			if eqs == 0 {
				o.Unres("no store discarding ManagedResource.resource and no call of ManagedResource.equal found in %s: how MarkBroken discards a broken resource is not understood", syncxPkg)
			} else {
				o.Fail(eqPos, "ManagedResource never discards its resource: MarkBroken has no effect")
			}
		}
	})
	r.Explanation += " ManagedResource discards its resource only on the true outcome of equal applied to the current resource read under the write lock, within the same critical section as the discarding store."
	r.NotDecided += " ManagedResource: that the other operand of equal is MarkBroken's argument and the operand order; a comparison routed through a φ of snapshots; a discard performed in an exported helper or function literal called with the lock held (only new unexported helpers are inlined)."
}
