package props

import (
	"go/constant"
	"go/token"
	"go/types"
	"strings"
	"unicode"

	"godcheck/core"

	"golang.org/x/tools/go/ssa"
)

func init() { register("C20", c20) }

const (
	godMod    = "tools/god"
	fmtRel    = "util/format"
	strxRel   = "util/stringx"
	godCfgRel = "config"
)

// ---- index provenance helpers ----

var indexFamily = map[string]bool{
	"strings.Index": true, "strings.IndexByte": true, "strings.IndexRune": true, "strings.IndexAny": true,
	"strings.IndexFunc": true, "strings.LastIndex": true, "strings.LastIndexByte": true,
	"strings.LastIndexAny": true, "strings.LastIndexFunc": true,
}

type idxOrigin struct {
	call *ssa.Call
	base ssa.Value // the string the position refers to: the haystack, or Y when the haystack is a window Y[L:] and L is added back
	off  int64
}

// indexOrigins decomposes v into (result of a strings.Index* call) + constant,
// per φ input; see c20OriginsOf (c20_r9.go) for windows of the haystack.
func indexOrigins(v ssa.Value, depth int) []idxOrigin {
	if v == nil {
		return nil
	}
	var out []idxOrigin
	for _, lf := range c20LinOf(v, map[*ssa.Phi]bool{}, depth) {
		out = append(out, c20OriginsOf(lf)...)
	}
	return out
}

// lengthPreserving: every return of g is string(b) where b = []byte(param) and b
// is only read, measured and written element-wise (never appended or re-sliced).
func lengthPreserving(g *ssa.Function) bool {
	if g == nil || g.Blocks == nil || len(g.Params) != 1 || g.Signature.Results().Len() != 1 {
		return false
	}
	rets := core.Returns(g)
	if len(rets) == 0 {
		return false
	}
	for _, ret := range rets {
		cv, ok := core.Result(ret, 0).(*ssa.Convert)
		if !ok {
			return false
		}
		b, ok := cv.X.(*ssa.Convert)
		if !ok || b.X != ssa.Value(g.Params[0]) {
			return false
		}
		if _, isSlice := b.Type().Underlying().(*types.Slice); !isSlice {
			return false
		}
		for _, ref := range *b.Referrers() {
			switch x := ref.(type) {
			case *ssa.IndexAddr:
				for _, r2 := range *x.Referrers() {
					switch y := r2.(type) {
					case *ssa.Store:
						if y.Addr != ssa.Value(x) {
							return false // the element address itself is stored away
						}
					case *ssa.UnOp, *ssa.DebugRef:
					default:
						return false
					}
				}
			case *ssa.Convert:
				if _, isStr := x.Type().Underlying().(*types.Basic); !isStr {
					return false
				}
			case *ssa.Call:
				if bi, ok := x.Call.Value.(*ssa.Builtin); !ok || bi.Name() != "len" {
					return false
				}
			case *ssa.DebugRef, *ssa.Range:
			default:
				return false
			}
		}
	}
	return true
}

// caseFunc classifies a call as a case conversion: "lower", "upper", "title"
// and returns the converted operand.
func caseFunc(v ssa.Value) (kind string, arg ssa.Value) {
	c, ok := v.(*ssa.Call)
	if !ok {
		return "", nil
	}
	switch core.CalleeName(c) {
	case "strings.ToLower":
		return "lower", c.Call.Args[0]
	case "strings.ToUpper":
		return "upper", c.Call.Args[0]
	case "strings.Title":
		return "title", c.Call.Args[0]
	case "(golang.org/x/text/cases.Caser).String":
		if mk, ok := c.Call.Args[0].(*ssa.Call); ok && core.CalleeName(mk) == "golang.org/x/text/cases.Title" {
			return "title", c.Call.Args[1]
		}
	}
	return "", nil
}

// structAllocOf resolves a struct-typed call argument to the local allocation it
// was built in: a load of that allocation, or a φ (an inlined constructor's merged
// result) whose other inputs are zero values arriving only on edges on which the
// constructor's error result is non-nil while the call needs that error to be nil.
func structAllocOf(fn *ssa.Function, call ssa.Instruction, a ssa.Value, pkgFuncs []*ssa.Function) (*ssa.Alloc, ssa.Instruction) {
	load := func(v ssa.Value) *ssa.Alloc {
		if u, ok := v.(*ssa.UnOp); ok && u.Op == token.MUL {
			if x, ok := u.X.(*ssa.Alloc); ok {
				return x
			}
		}
		return nil
	}
	if x := load(a); x != nil {
		return x, a.(*ssa.UnOp)
	}
	phi, ok := a.(*ssa.Phi)
	if !ok {
		return nil, nil
	}
	var al *ssa.Alloc
	var use ssa.Instruction
	var zero []int
	for i, e := range phi.Edges {
		if c, isConst := e.(*ssa.Const); isConst && c.Value == nil {
			zero = append(zero, i)
			continue
		}
		x := load(e)
		if x == nil || al != nil {
			return nil, nil
		}
		al, use = x, e.(*ssa.UnOp)
	}
	if al == nil || len(zero) == 0 {
		return al, use
	}
	// the companion error φ of the same block
	for _, in := range phi.Block().Instrs {
		ep, ok := in.(*ssa.Phi)
		if !ok || ep == phi || ep.Type().String() != "error" {
			continue
		}
		isErr := func(v ssa.Value) bool { return v == ssa.Value(ep) }
		if requiresX(fn, core.Is(call), core.Cmp(token.EQL, isErr, core.IsNil)) != nil {
			continue
		}
		good := true
		for _, i := range zero {
			ev := ep.Edges[i]
			pred := phi.Block().Preds[i]
			if errNonNil(pkgFuncs, ev) {
				continue
			}
			isEv := func(v ssa.Value) bool { return v == ev }
			at := core.Cmp(token.NEQ, isEv, core.IsNil)
			if core.EdgeCount(fn, at) == 0 || requiresX(fn, core.Is(pred.Instrs[len(pred.Instrs)-1]), at) != nil {
				good = false
			}
		}
		if good {
			return al, use
		}
	}
	return nil, nil
}

// sliceFedBy: the slice value depends on a value satisfying src: through appends
// (def-use) or through element stores into the slice made by make([]T, n).
func sliceFedBy(v ssa.Value, src func(ssa.Value) bool) bool {
	if core.DependsOn(v, src) {
		return true
	}
	seen := map[ssa.Value]bool{}
	var walk func(v ssa.Value) bool
	walk = func(v ssa.Value) bool {
		if v == nil || seen[v] {
			return false
		}
		seen[v] = true
		switch x := v.(type) {
		case *ssa.Phi:
			for _, e := range x.Edges {
				if walk(e) {
					return true
				}
			}
		case *ssa.Slice:
			return walk(x.X)
		case *ssa.MakeSlice:
			for _, ref := range *x.Referrers() {
				if ia, ok := ref.(*ssa.IndexAddr); ok {
					for _, r2 := range *ia.Referrers() {
						if st, ok := r2.(*ssa.Store); ok && st.Addr == ssa.Value(ia) && core.DependsOn(st.Val, src) {
							return true
						}
					}
				}
			}
		}
		return false
	}
	return walk(v)
}

// concreteCutX is core.ConcreteCut extended to conditions that are boolean φ-nodes
// (`a && b` used as a value, e.g. in the cases of a tagless switch): the guards
// comparing the variable with constants are evaluated for the concrete value c,
// φ-nodes are evaluated over their feasible inputs, and the infeasible successor
// of every decided `if` is removed, iterated to a fixpoint.
func concreteCutX(fn *ssa.Function, isVar func(ssa.Value) bool, c int64) func(core.Edge) bool {
	dead := map[core.Edge]bool{}
	reach := map[*ssa.BasicBlock]bool{}
	var eval func(v ssa.Value, d int) (bool, bool)
	eval = func(v ssa.Value, d int) (bool, bool) {
		if d > 6 {
			return false, false
		}
		switch x := v.(type) {
		case *ssa.Const:
			if x.Value != nil && x.Value.Kind() == constant.Bool {
				return constant.BoolVal(x.Value), true
			}
		case *ssa.UnOp:
			if x.Op == token.NOT {
				b, ok := eval(x.X, d+1)
				return !b, ok
			}
		case *ssa.BinOp:
			if isVar(core.Strip(x.X)) {
				if k, ok := core.ConstInt(x.Y); ok {
					return evalCmp(x.Op, c, k)
				}
			} else if isVar(core.Strip(x.Y)) {
				if k, ok := core.ConstInt(x.X); ok {
					return evalCmp(x.Op, k, c)
				}
			}
		case *ssa.Phi:
			val, n := false, 0
			for i, e := range x.Edges {
				pb := x.Block().Preds[i]
				if !reach[pb] || dead[core.Edge{From: pb, To: x.Block()}] {
					continue
				}
				b, ok := eval(e, d+1)
				if !ok || (n > 0 && b != val) {
					return false, false
				}
				val, n = b, n+1
			}
			return val, n > 0
		}
		return false, false
	}
	for round := 0; round < 10; round++ {
		// reachability under the current dead set
		for b := range reach {
			delete(reach, b)
		}
		work := []*ssa.BasicBlock{fn.Blocks[0]}
		for len(work) > 0 {
			b := work[len(work)-1]
			work = work[:len(work)-1]
			if reach[b] {
				continue
			}
			reach[b] = true
			for _, s := range b.Succs {
				if !dead[core.Edge{From: b, To: s}] {
					work = append(work, s)
				}
			}
		}
		changed := false
		for _, b := range fn.Blocks {
			iff, ok := b.Instrs[len(b.Instrs)-1].(*ssa.If)
			if !ok || !reach[b] {
				continue
			}
			val, known := eval(iff.Cond, 0)
			if !known {
				continue
			}
			e := core.Edge{From: b, To: b.Succs[1]}
			if !val {
				e = core.Edge{From: b, To: b.Succs[0]}
			}
			if !dead[e] {
				dead[e], changed = true, true
			}
		}
		if !changed {
			break
		}
	}
	return func(e core.Edge) bool { return dead[e] }
}

func flattenConcat(v ssa.Value) []ssa.Value {
	if b, ok := v.(*ssa.BinOp); ok && b.Op == token.ADD {
		return append(flattenConcat(b.X), flattenConcat(b.Y)...)
	}
	return []ssa.Value{v}
}

func c20(r *core.Run) {
	p := r.P
	r.Explanation = "The three leaf packages of the generator (tools/god/util/format, util/stringx, config) are parsed and type-checked in-process and decided on their SSA: FileNamingFormat, ToCamel and ToSnake reach no clock, randomness, environment, OS, goroutine, map iteration or mutable package-level variable; every index obtained from strings.Index*(Y, ...) subscripts only Y (or X when Y = g(X) with g byte-length preserving by construction) and is offset only by the width of the searched flag; the template is sliced only after both flags were found in order, otherwise a non-nil error is returned; the template is decomposed into prefix / GO style / separator / DESIGNER style / suffix from the right slices; getStyle maps exactly lower/upper/title spellings (of the lower-cased flag) to three distinct styles and errors otherwise, and on every path on which it reported an error FileNamingFormat returns an error that is non-nil on that path (nil tests followed path by path), transferTo applies the same case function per style; doFormat renders the first word in the GO style, the others in the DESIGNER style, joined by the separator between prefix and suffix; the DESIGNER position comes from a search restricted to the part of the template behind the GO match (a position found in a window Y[L:] counts as a position in Y only with L added back); the splitter of util/format opens a word at '_' and before every rune for which unicode.IsUpper holds, evaluated on ASCII and non-ASCII sample runes, and ToSnake's splitter agrees with it on those samples."
	r.NotDecided = "the rendering rule over all strings (behaviour of strings.Title/ToUpper on arbitrary Unicode – strings.Title also capitalises after punctuation inside a word, observed in h7 f3 –, the word splitter on runes outside the samples, e.g. title-case letters), which of several DESIGNERs behind GO is taken, camel<->snake round trip, panic-freedom of the conversions in general (e.g. UnTitle's byte-wise first letter)."
	r.Trusted = append(r.Trusted, "in-process loader core/ext_c20.go: go/parser + go/types + ssautil.BuildPackage; imports served from export data via one read-only packages.Load in the main module")

	ext, err := p.LoadExt(godMod, strxRel, godCfgRel, fmtRel)
	defer func() {
		if err == nil && ext != nil {
			c20Extra(r, ext, strxRel)
		}
	}()
	r.Check("D0/loader/leaf-packages-type-check", "tools/god/util/format, util/stringx and config parse, type-check (zero errors) and build to SSA in-process", func(o *core.O) {
		if err != nil {
			o.Unres("%v", err)
			return
		}
		for _, rel := range []string{fmtRel, strxRel, godCfgRel} {
			fs := ext.Funcs(rel)
			o.Site(len(fs), godMod+"/"+rel)
			if len(fs) == 0 {
				o.Unres("package %s/%s has no functions", godMod, rel)
			}
		}
	})
	if err != nil {
		return
	}
	r.Extra["packages_in_process"] = 3
	r.Extra["ext_funcs"] = ext.FuncNames()
	if ext.VariantLevel > 0 {
		r.Extra["ext_inlined"] = ext.Inlined
		r.Extra["ext_structs_split"] = ext.Split
	}
	all := ext.AllFuncs()
	inMod := map[*ssa.Function]bool{}
	for _, f := range all {
		inMod[f] = true
	}
	fnFormat := ext.Func(fmtRel, "", "FileNamingFormat")
	fnCamel := ext.Func(strxRel, "String", "ToCamel")
	fnSnake := ext.Func(strxRel, "String", "ToSnake")
	consts := &c20Consts{all: all}
	posOf := func(in ssa.Instruction) string { return p.InstrPos(in) }

	// ------------------------------------------------------------------ D1
	r.Check("D1/K5/deterministic-entry-points", "FileNamingFormat, String.ToCamel, String.ToSnake and everything they reach in the three packages call nothing from time, math/rand, crypto/rand, os, os/user, os/exec, runtime, syscall, net; start no goroutine, select on nothing, iterate no map; call function values only when they are parameters/closures, function constants or entries of a constant table; read only package-level variables that are error sentinels assigned once in an initialiser or unexported constant tables (assigned once from a literal of constants and functions, only read)", func(o *core.O) {
		entries := []*ssa.Function{fnFormat, fnCamel, fnSnake}
		for i, e := range entries {
			if !o.Need(e != nil, []string{"format.FileNamingFormat", "stringx.String.ToCamel", "stringx.String.ToSnake"}[i]) {
				return
			}
		}
		reach := map[*ssa.Function]bool{}
		var work []*ssa.Function
		add := func(f *ssa.Function) {
			if f != nil && inMod[f] && !reach[f] {
				reach[f] = true
				work = append(work, f)
			}
		}
		// a package-level table that is a constant (initialised once from a literal of
		// constants and functions, never written, never escaping) is not state; the
		// functions it holds are reachable from whoever reads it
		isInMod := func(g *ssa.Global) bool { return g.Pkg != nil && inMod[g.Pkg.Func("init")] }
		tableFuncs := func(g *ssa.Global) ([]*ssa.Function, bool) {
			if !isInMod(g) {
				return nil, false
			}
			v, ok := consts.of(g)
			if !ok {
				return nil, false
			}
			return c20FuncsIn(v, nil), true
		}
		for _, e := range entries {
			add(e)
		}
		for len(work) > 0 {
			f := work[len(work)-1]
			work = work[:len(work)-1]
			for _, b := range f.Blocks {
				for _, in := range b.Instrs {
					for _, op := range in.Operands(nil) {
						switch x := (*op).(type) {
						case *ssa.Function:
							add(x)
						case *ssa.MakeClosure:
							add(x.Fn.(*ssa.Function))
						case *ssa.Global:
							fs, _ := tableFuncs(x)
							for _, tf := range fs {
								add(tf)
							}
						}
					}
				}
			}
		}
		banned := []string{"time.", "(time.", "(*time.", "math/rand", "crypto/rand", "os.", "(*os.", "os/user.", "os/exec.", "(*os/exec.", "runtime.", "syscall.", "net.", "(*net.", "(*math/rand", "golang.org/x/sys"}
		initOnly := func(g *ssa.Global) bool {
			n := 0
			for _, f := range all {
				for _, b := range f.Blocks {
					for _, in := range b.Instrs {
						for _, op := range in.Operands(nil) {
							if *op != ssa.Value(g) {
								continue
							}
							switch x := in.(type) {
							case *ssa.Store:
								if x.Addr != ssa.Value(g) || f.Name() != "init" {
									return false
								}
								n++
							case *ssa.UnOp:
							default:
								return false
							}
						}
					}
				}
			}
			return n <= 1
		}
		isErrorType := func(t types.Type) bool {
			pt, ok := t.(*types.Pointer)
			return ok && types.Identical(pt.Elem(), types.Universe.Lookup("error").Type())
		}
		for _, f := range all {
			if !reach[f] {
				continue
			}
			o.Site(1, core.FuncName(f))
			r.Fn(core.FuncName(f))
			for _, b := range f.Blocks {
				for _, in := range b.Instrs {
					switch x := in.(type) {
					case *ssa.Go:
						o.Fail(posOf(in), "%s starts a goroutine", core.FuncName(f))
					case *ssa.Select:
						o.Fail(posOf(in), "%s selects on channels", core.FuncName(f))
					case *ssa.Range:
						if _, isMap := x.X.Type().Underlying().(*types.Map); isMap {
							o.Fail(posOf(in), "%s iterates over a map (order is random)", core.FuncName(f))
						}
					}
					if c := core.AsCall(in); c != nil {
						r.Calls++
						name := core.CalleeName(c)
						for _, bad := range banned {
							if strings.HasPrefix(name, bad) {
								o.Fail(posOf(in), "%s calls %s: the result would depend on more than the template and the identifier", core.FuncName(f), name)
							}
						}
						if strings.HasPrefix(name, "dyn:") && !strings.HasPrefix(name, "dyn:param:") && !strings.HasPrefix(name, "dyn:freevar:") {
							// a function read from constant tables: its possible callees are the table's functions (checked below)
							// … or function constants chosen per path (in-module ones are reached through the operand scan above)
							known := false
							if roots, fns, ok := c20CalleeSources(c.Common().Value); ok && !c.Common().IsInvoke() {
								known = true
								for _, g := range roots {
									if _, isConst := tableFuncs(g); !isConst {
										known = false
									}
								}
								for _, tf := range fns {
									if inMod[tf] {
										continue
									}
									tn := c20FuncName(tf)
									for _, bad := range banned {
										if strings.HasPrefix(tn, bad) {
											o.Fail(posOf(in), "%s calls %s through a function value: the result would depend on more than the template and the identifier", core.FuncName(f), tn)
										}
									}
								}
							}
							if !known {
								o.Fail(posOf(in), "%s calls a function value that is not a parameter, a captured closure, a function constant or an entry of a constant package-level table (%s)", core.FuncName(f), name)
							}
						}
					}
					for _, op := range in.Operands(nil) {
						if fv, isFn := (*op).(*ssa.Function); isFn && !inMod[fv] && !(core.AsCall(in) != nil && core.AsCall(in).Common().Value == ssa.Value(fv)) {
							// a function constant used as a value (argument, φ input, stored) is as good as called
							tn := c20FuncName(fv)
							for _, bad := range banned {
								if strings.HasPrefix(tn, bad) {
									o.Fail(posOf(in), "%s uses %s as a function value: the result would depend on more than the template and the identifier", core.FuncName(f), tn)
								}
							}
						}
						g, ok := (*op).(*ssa.Global)
						if !ok {
							continue
						}
						if g.Pkg == nil || !inMod[g.Pkg.Func("init")] {
							continue // variables of other modules (io.EOF, language.English, cases.NoLower): library constants
						}
						if fs, isConst := tableFuncs(g); isConst {
							for _, tf := range fs {
								if inMod[tf] {
									continue // reached: checked like every other function
								}
								tn := c20FuncName(tf)
								for _, bad := range banned {
									if strings.HasPrefix(tn, bad) {
										o.Fail(posOf(in), "%s reads the table %s, which holds %s: the result would depend on more than the template and the identifier", core.FuncName(f), g.Name(), tn)
									}
								}
							}
						} else if !isErrorType(g.Type()) {
							o.Fail(posOf(in), "%s uses the package-level variable %s (mutable state: not an unexported constant table assigned once from a literal and only read)", core.FuncName(f), g.Name())
						} else if !initOnly(g) {
							o.Fail(posOf(in), "%s uses %s, which is reassigned outside its initialiser", core.FuncName(f), g.Name())
						}
					}
				}
			}
		}
	})

	// ------------------------------------------------------------------ D2
	type sliceUse struct {
		fn      *ssa.Function
		in      ssa.Instruction
		x       ssa.Value
		origins []idxOrigin
	}
	var uses []sliceUse
	for _, f := range all {
		for _, b := range f.Blocks {
			for _, in := range b.Instrs {
				var x ssa.Value
				var idx []ssa.Value
				switch s := in.(type) {
				case *ssa.Slice:
					x, idx = s.X, []ssa.Value{s.Low, s.High}
				case *ssa.Lookup:
					x, idx = s.X, []ssa.Value{s.Index}
				case *ssa.IndexAddr:
					x, idx = s.X, []ssa.Value{s.Index}
				default:
					continue
				}
				var os []idxOrigin
				for _, i := range idx {
					os = append(os, indexOrigins(i, 0)...)
				}
				if len(os) > 0 {
					uses = append(uses, sliceUse{f, in, x, os})
				}
			}
		}
	}
	r.Check("D2/K8/index-provenance", "an index obtained from strings.Index*(Y, ...) (plus constants) subscripts only Y itself, or X when Y = g(X) for an in-module g that is byte-length preserving by construction (returns string(b), b = []byte(param) written element-wise only); a position found in the window Y[L:] is a position in Y only with L added back (Index(Y[L:], n) + L + constant)", func(o *core.O) {
		if !o.Need(len(uses) > 0, "a slice/index expression using a strings.Index* result (FileNamingFormat)") {
			return
		}
		for _, u := range uses {
			o.Site(1, core.FuncName(u.fn))
			r.Fn(core.FuncName(u.fn))
			seen := map[*ssa.Call]bool{}
			for _, og := range u.origins {
				if seen[og.call] {
					continue
				}
				seen[og.call] = true
				y := og.base
				if sameVal(u.x, y) {
					continue
				}
				if gc, ok := core.Forward(y).(*ssa.Call); ok {
					if g := staticCallee(gc); g != nil && inMod[g] && len(gc.Call.Args) == 1 && sameVal(gc.Call.Args[0], u.x) && lengthPreserving(g) {
						r.Fn(core.FuncName(g))
						continue
					}
				}
				o.Fail(posOf(u.in), "%s: %s is subscripted with an index computed on %s; the two strings need not have the same byte length, so the wrong bytes are selected or the slice panics", core.FuncName(u.fn), core.Describe(u.x), core.Describe(y))
			}
		}
	})
	r.Check("D2/K6/flag-width", "a constant added to the position of a constant needle is the needle's byte length (the slice ends/starts exactly after the flag)", func(o *core.O) {
		n := 0
		for _, u := range uses {
			for _, og := range u.origins {
				if len(og.call.Call.Args) < 2 {
					continue
				}
				needle, ok := core.ConstString(og.call.Call.Args[1])
				if !ok {
					continue
				}
				n++
				if og.off != 0 && og.off != int64(len(needle)) {
					o.Fail(posOf(u.in), "%s: position of %q is offset by %d, the flag is %d bytes wide", core.FuncName(u.fn), needle, og.off, len(needle))
				}
			}
		}
		o.Site(n)
	})

	// ------------------------------------------------------------------ D3
	// roles in FileNamingFormat
	var idxGo, idxDes *ssa.Call
	if fs := c20FlagSearches(fnFormat); len(fs) > 0 {
		if cs := fs["go"]; len(cs) > 0 {
			idxGo = cs[len(cs)-1]
		}
		if cs := fs["designer"]; len(cs) > 0 {
			idxDes = cs[len(cs)-1]
		}
	}
	// DESIGNER searched in the window Y[iGO+k:], 0 <= k: whatever it finds lies behind the GO
	// match once the window's start is added back (D2/K8/index-provenance demands that);
	// the order needs no comparison then
	desBehindGo := false
	if idxGo != nil && idxDes != nil {
		if k, ok := c20BehindOf(idxDes, idxGo); ok && k >= 0 {
			desBehindGo = true
		}
	}
	isIdx := func(c *ssa.Call) func(ssa.Value) bool {
		return func(v ssa.Value) bool { return core.Forward(v) == ssa.Value(c) }
	}
	var extFuncsErr = func(v ssa.Value) bool { return errNonNil(all, v) }

	r.Check("D3/K2/both-flags-found-in-order", "FileNamingFormat slices the template and renders only when index(GO) >= 0, index(DESIGNER) >= 0 and index(GO) < index(DESIGNER) – the last one by a comparison, or by construction when DESIGNER is searched only in the part of the template behind the GO match; every return reachable when one of these fails carries a non-nil error", func(o *core.O) {
		if !o.Need(fnFormat != nil, "format.FileNamingFormat") || !o.Need(idxGo != nil && idxDes != nil, "strings.Index calls for the flags GO and DESIGNER in FileNamingFormat") {
			return
		}
		r.Fn(core.FuncName(fnFormat))
		var targets []ssa.Instruction
		for _, u := range uses {
			if u.fn == fnFormat {
				targets = append(targets, u.in)
			}
		}
		for _, c := range core.Calls(fnFormat, func(in ssa.Instruction) bool {
			c := core.AsCall(in)
			return c != nil && staticCallee(c) != nil && inMod[staticCallee(c)]
		}) {
			// calls the flag searches themselves depend on (a case fold of the template) come first by necessity
			cv, _ := c.(ssa.Value)
			feeds := func(v ssa.Value) bool { return cv != nil && v == cv }
			if core.DependsOn(idxGo.Call.Args[0], feeds) || core.DependsOn(idxDes.Call.Args[0], feeds) {
				continue
			}
			targets = append(targets, c)
		}
		o.Site(len(targets), core.FuncName(fnFormat))
		zero := core.IsConstInt(0)
		// "found": idx >= 0 in any spelling (idx > -1, !(idx < 0), …) or idx != -1 (strings.Index* returns -1 or a position)
		found := func(c *ssa.Call) core.Atom {
			return core.AnyOf(core.Cmp(token.GEQ, isIdx(c), zero), gxAtLeast(isIdx(c), 0), core.Cmp(token.NEQ, isIdx(c), core.IsConstInt(-1)))
		}
		type flagAtom struct {
			what string
			a    core.Atom
			of   *ssa.Call // the search the atom is about
		}
		atoms := []flagAtom{
			{"index(GO) >= 0", found(idxGo), idxGo},
			{"index(DESIGNER) >= 0", found(idxDes), idxDes},
		}
		if !desBehindGo {
			atoms = append(atoms, flagAtom{"index(GO) < index(DESIGNER)", core.AnyOf(core.Cmp(token.LEQ, isIdx(idxGo), isIdx(idxDes)), core.Cmp(token.LSS, isIdx(idxGo), isIdx(idxDes))), idxDes})
		}
		for _, at := range atoms {
			for _, tg := range targets {
				// what the search itself is computed from (the window behind GO it looks into) comes first by necessity
				if tv, isVal := tg.(ssa.Value); isVal && core.DependsOn(at.of.Call.Args[0], func(v ssa.Value) bool { return v == tv }) {
					continue
				}
				if w := requiresX(fnFormat, core.Is(tg), at.a); w != nil {
					o.Fail(posOf(tg), "FileNamingFormat: reachable without %s having been established (template lacking a flag or with the flags in the wrong order is not rejected)", at.what)
					break
				}
			}
			_, fails := core.EdgesOf(fnFormat, at.a)
			if len(fails) == 0 {
				continue
			}
			for _, ret := range core.Returns(fnFormat) {
				if core.ReachableFromEdges(fails, core.Is(ret), func(in ssa.Instruction) bool {
					// stop at the slicing: beyond it the other checks apply
					for _, tg := range targets {
						if tg == in {
							return true
						}
					}
					return false
				}) != nil && !extFuncsErr(core.Result(ret, 1)) {
					o.Fail(posOf(ret), "FileNamingFormat: when %s fails the returned error (%s) is not provably non-nil", at.what, core.Describe(core.Result(ret, 1)))
				}
			}
		}
	})

	// the template decomposition: which struct field receives which part
	type part struct {
		name     string
		lowCall  *ssa.Call // nil: from the start
		lowOff   int
		highCall *ssa.Call // nil: to the end
		highOff  int
	}
	roleField := map[string]int{}
	var styleStruct *types.Struct
	var fnGetStyle, fnDoFormat *ssa.Function
	r.Check("D3/K8/template-decomposition", "FileNamingFormat passes on: prefix = T[:iGO], GO spelling = T[iGO:iGO+2] and DESIGNER spelling = T[iDES:iDES+8] (each through the style classifier), separator = T[iGO+2:iDES], suffix = T[iDES+8:], all slices of the template parameter itself", func(o *core.O) {
		if !o.Need(fnFormat != nil && idxGo != nil && idxDes != nil, "FileNamingFormat with its two flag searches") {
			return
		}
		goW, desW := 2, 8
		if s, ok := core.ConstString(idxGo.Call.Args[1]); ok {
			goW = len(s)
		}
		if s, ok := core.ConstString(idxDes.Call.Args[1]); ok {
			desW = len(s)
		}
		parts := []part{
			{"prefix", nil, 0, idxGo, 0},
			{"go-spelling", idxGo, 0, idxGo, goW},
			{"separator", idxGo, goW, idxDes, 0},
			{"designer-spelling", idxDes, 0, idxDes, desW},
			{"suffix", idxDes, desW, nil, 0},
		}
		matchEnd := func(v ssa.Value, c *ssa.Call, off int) bool {
			if c == nil {
				return v == nil
			}
			os := indexOrigins(v, 0)
			return len(os) == 1 && os[0].call == c && os[0].off == int64(off)
		}
		classify := func(v ssa.Value) string {
			s, ok := core.Forward(v).(*ssa.Slice)
			if !ok || !sameVal(s.X, fnFormat.Params[0]) {
				return ""
			}
			for _, pt := range parts {
				if matchEnd(s.Low, pt.lowCall, pt.lowOff) && matchEnd(s.High, pt.highCall, pt.highOff) {
					return pt.name
				}
			}
			return ""
		}
		// the struct handed to the renderer (al) and the point where its value is taken (alUse)
		var al *ssa.Alloc
		var alUse ssa.Instruction
		for _, c := range core.Calls(fnFormat, func(in ssa.Instruction) bool {
			c, ok := in.(*ssa.Call)
			return ok && staticCallee(c) != nil && inMod[staticCallee(c)]
		}) {
			for _, a := range c.Common().Args {
				if x, ld := structAllocOf(fnFormat, c, a, all); x != nil {
					if st, ok := x.Type().(*types.Pointer).Elem().Underlying().(*types.Struct); ok {
						al, alUse, styleStruct, fnDoFormat = x, ld, st, staticCallee(c)
					}
				}
			}
		}
		if !o.Need(al != nil, "the style struct FileNamingFormat passes to the renderer") {
			return
		}
		fields, _ := fieldStoresInto(al)
		for i := 0; i < styleStruct.NumFields(); i++ {
			v, ok := fields[i]
			o.Site(1)
			if !ok {
				o.Fail(posOf(al), "FileNamingFormat never sets field %s of the style", styleStruct.Field(i).Name())
				continue
			}
			role := classify(v)
			if role == "" {
				// a style: result #0 of the classifier applied to a spelling slice
				sv := core.Forward(v)
				if _, isPhi := sv.(*ssa.Phi); isPhi {
					// `if err == nil { designerStyle, err = getStyle(…) }`: the style merges with the zero value of
					// the skipped classification – what it is whenever the struct is handed on, path by path (c20_r10.go)
					if u := c20UniqueOnPaths(all, fnFormat, alUse, sv); u != nil {
						sv = u
					}
				}
				if q, idx := core.ResultOf(sv); q != nil && idx == 0 && staticCallee(q) != nil && inMod[staticCallee(q)] && len(q.Call.Args) == 1 {
					switch classify(q.Call.Args[0]) {
					case "go-spelling":
						role, fnGetStyle = "go-style", staticCallee(q)
					case "designer-spelling":
						role, fnGetStyle = "designer-style", staticCallee(q)
					}
					if role != "" {
						// decided on the guard structure, or – one test on a variable that merges the errors of both
						// classifications – by following the nil tests path by path (c20_r10.go); an alarm needs both to fail
						if w := requiresX(fnFormat, core.Is(alUse), core.ErrNil(1, core.Is(q))); w != nil && !c20NilOnPaths(all, fnFormat, alUse, q, 1) {
							o.Fail(posOf(q), "the style is used although the classifier reported an error")
						}
					}
				}
			}
			if role == "" || role == "go-spelling" || role == "designer-spelling" {
				o.Fail(posOf(al), "FileNamingFormat sets %s to %s: not one of prefix/separator/suffix slices of the template nor the style of a flag's spelling", styleStruct.Field(i).Name(), core.Describe(v))
				continue
			}
			if j, dup := roleField[role]; dup {
				o.Fail(posOf(al), "fields %s and %s both receive the %s", styleStruct.Field(j).Name(), styleStruct.Field(i).Name(), role)
			}
			roleField[role] = i
		}
		for _, role := range []string{"prefix", "separator", "suffix", "go-style", "designer-style"} {
			if _, ok := roleField[role]; !ok {
				o.Fail(posOf(al), "no field of the style receives the %s", role)
			}
		}
	})

	// style tables
	styleOf := map[string]int64{} // case kind -> style constant (from getStyle)
	r.Check("D3/K6/style-classifier", "the classifier returns, with a nil error, three distinct constants guarded by flag == ToLower / ToUpper / Title of the lower-cased flag respectively; every other return carries a non-nil error", func(o *core.O) {
		if !o.Need(fnGetStyle != nil, "the style classifier called by FileNamingFormat (getStyle)") {
			return
		}
		f := fnGetStyle
		r.Fn(core.FuncName(f))
		// decided twice: on the guard structure (below), and – when that does not
		// establish it – by evaluating the classifier on a symbolic flag
		// (c20EvalClassifier: switch, if chain, scan over a constant table of
		// (style, spelling function) alike). Either is sufficient.
		verdict0, msgs0 := o.Verdict, len(o.Msgs)
		defer func() {
			if o.OK() {
				return
			}
			tbl, why := c20EvalClassifier(consts, f)
			if why != "" {
				o.Fail(p.Pos(f.Pos()), "%s, evaluated on a symbolic flag: %s", core.FuncName(f), why)
				return
			}
			o.Verdict, o.Msgs = verdict0, o.Msgs[:msgs0]
			for k := range styleOf {
				delete(styleOf, k)
			}
			for k, c := range tbl {
				styleOf[k] = c
			}
		}()
		flag := f.Params[0]
		fromLowered := func(v ssa.Value) (ok bool, lowered bool) {
			for i := 0; i < 4; i++ {
				if v == ssa.Value(flag) {
					return true, lowered
				}
				k, a := caseFunc(v)
				if k != "lower" {
					return false, false
				}
				lowered, v = true, a
			}
			return false, false
		}
		for _, ret := range core.Returns(f) {
			o.Site(1)
			if !core.IsNil(core.Result(ret, 1)) {
				if !errNonNil(all, core.Result(ret, 1)) {
					o.Fail(posOf(ret), "%s: error %s is not provably non-nil", core.FuncName(f), core.Describe(core.Result(ret, 1)))
				}
				continue
			}
			c, isConst := core.ConstInt(core.Result(ret, 0))
			if !isConst {
				o.Fail(posOf(ret), "%s: success with a non-constant style", core.FuncName(f))
				continue
			}
			var kinds []string
			for _, kind := range []string{"lower", "upper", "title"} {
				kind := kind
				atom := core.Cmp(token.EQL, func(v ssa.Value) bool { return v == ssa.Value(flag) }, func(v ssa.Value) bool {
					k, a := caseFunc(v)
					if k != kind {
						return false
					}
					ok, lowered := fromLowered(a)
					return ok && (lowered || kind != "title")
				})
				if core.EdgeCount(f, atom) > 0 && requiresX(f, core.Is(ret), atom) == nil {
					kinds = append(kinds, kind)
				}
			}
			if len(kinds) != 1 {
				o.Fail(posOf(ret), "%s: style %d is returned without a single deciding test flag == ToLower/ToUpper/Title(lower-cased flag) (found %v): mixed-case flags are not rejected", core.FuncName(f), c, kinds)
				continue
			}
			if old, dup := styleOf[kinds[0]]; dup && old != c {
				o.Fail(posOf(ret), "%s: %s spelling maps to styles %d and %d", core.FuncName(f), kinds[0], old, c)
			}
			styleOf[kinds[0]] = c
		}
		seen := map[int64]string{}
		for _, kind := range []string{"lower", "upper", "title"} {
			c, ok := styleOf[kind]
			if !ok {
				o.Fail(p.Pos(f.Pos()), "%s never accepts the %s spelling", core.FuncName(f), kind)
				continue
			}
			if other, dup := seen[c]; dup {
				o.Fail(p.Pos(f.Pos()), "%s: %s and %s spellings yield the same style %d", core.FuncName(f), other, kind, c)
			}
			seen[c] = kind
		}
	})
	c20R10(r, ext, fnFormat, fnGetStyle) // D3/K2/classifier-error-rejects (c20_r10.go)
	var fnTransfer *ssa.Function
	r.Check("D3/K8/render-first-word-go-others-designer", "the renderer converts word #0 with the GO style and every other word with the DESIGNER style, joins them with the separator and returns prefix + joined + suffix", func(o *core.O) {
		if !o.Need(fnDoFormat != nil && styleStruct != nil && len(roleField) == 5, "the renderer and the five style fields (template decomposition)") {
			return
		}
		f := fnDoFormat
		r.Fn(core.FuncName(f))
		fieldRole := map[string]string{}
		for role, i := range roleField {
			fieldRole[styleStruct.Field(i).Name()] = role
		}
		roleOfLoad := func(v ssa.Value) string {
			n := core.FieldAddrNameOfLoad(core.Forward(v))
			if i := strings.LastIndex(n, "."); i >= 0 {
				return fieldRole[n[i+1:]]
			}
			return ""
		}
		// conversions: in-module calls (elem, style); the style operand is a load of a
		// style field, or a φ of such loads (a temporary selected per word)
		type styleAlt struct {
			role string
			at   ssa.Instruction // the alternative is taken iff control reaches here …
			edge *core.Edge      // … or (φ input) flows along this edge
		}
		altsOf := func(c *ssa.Call) []styleAlt {
			v := c.Call.Args[1]
			if r := roleOfLoad(v); r != "" {
				return []styleAlt{{r, c, nil}}
			}
			phi, ok := v.(*ssa.Phi)
			if !ok {
				return nil
			}
			var out []styleAlt
			for i, e := range phi.Edges {
				r := roleOfLoad(e)
				if r == "" {
					return nil
				}
				pred := phi.Block().Preds[i]
				out = append(out, styleAlt{r, pred.Instrs[len(pred.Instrs)-1], &core.Edge{From: pred, To: phi.Block()}})
			}
			return out
		}
		var convs []*ssa.Call
		for _, c := range core.Calls(f, func(in ssa.Instruction) bool {
			c, ok := in.(*ssa.Call)
			if !ok || staticCallee(c) == nil || !inMod[staticCallee(c)] || len(c.Call.Args) != 2 {
				return false
			}
			as := altsOf(c)
			return len(as) > 0 && strings.HasSuffix(as[0].role, "-style")
		}) {
			convs = append(convs, c.(*ssa.Call))
		}
		o.Site(len(convs), core.FuncName(f))
		got := map[string]bool{}
		for _, c := range convs {
			fnTransfer = staticCallee(c)
			ld, ok := c.Call.Args[0].(*ssa.UnOp)
			var ia *ssa.IndexAddr
			if ok {
				ia, _ = ld.X.(*ssa.IndexAddr)
			}
			if ia == nil {
				o.Fail(posOf(c), "%s converts %s, not a word of the split identifier", core.FuncName(f), core.Describe(c.Call.Args[0]))
				continue
			}
			// "this is word #0": idx == 0, idx < 1, idx <= 0 (idx is a slice index, never negative)
			isIdx := func(v ssa.Value) bool { return sameVal(v, ia.Index) }
			first := core.AnyOf(core.Cmp(token.EQL, isIdx, core.IsConstInt(0)), core.Cmp(token.LSS, isIdx, core.IsConstInt(1)), core.Cmp(token.LEQ, isIdx, core.IsConstInt(0)))
			holds, fails := core.EdgesOf(f, first)
			onEdge := func(e *core.Edge, es []core.Edge) bool {
				for _, x := range es {
					if e != nil && x == *e {
						return true
					}
				}
				return false
			}
			for _, a := range altsOf(c) {
				got[a.role] = true
				if a.role == "go-style" {
					if !onEdge(a.edge, holds) && requiresX(f, core.Is(a.at), first) != nil {
						o.Fail(posOf(c), "%s applies the GO style to words other than the first", core.FuncName(f))
					}
				} else if !onEdge(a.edge, fails) && requiresX(f, core.Is(a.at), core.Not(first)) != nil {
					o.Fail(posOf(c), "%s applies the DESIGNER style to the first word", core.FuncName(f))
				}
			}
		}
		if !got["go-style"] || !got["designer-style"] {
			o.Fail(p.Pos(f.Pos()), "%s does not convert with both styles (GO: %v, DESIGNER: %v)", core.FuncName(f), got["go-style"], got["designer-style"])
		}
		isConv := func(v ssa.Value) bool {
			for _, c := range convs {
				if v == ssa.Value(c) {
					return true
				}
			}
			return false
		}
		n := 0
		for _, ret := range core.Returns(f) {
			if !core.IsNil(core.Result(ret, 1)) {
				continue
			}
			n++
			ps := flattenConcat(core.Result(ret, 0))
			ok := len(ps) == 3 && roleOfLoad(ps[0]) == "prefix" && roleOfLoad(ps[2]) == "suffix"
			if ok {
				j, isCall := ps[1].(*ssa.Call)
				ok = isCall && core.CalleeName(j) == "strings.Join" && roleOfLoad(j.Call.Args[1]) == "separator" && sliceFedBy(j.Call.Args[0], isConv)
			}
			if !ok {
				var ds []string
				for _, x := range ps {
					ds = append(ds, core.Describe(x))
				}
				o.Fail(posOf(ret), "%s returns %s, expected prefix + strings.Join(converted words, separator) + suffix", core.FuncName(f), strings.Join(ds, " + "))
			}
		}
		o.Site(n)
		if n == 0 {
			o.Fail(p.Pos(f.Pos()), "%s has no successful return", core.FuncName(f))
		}
	})
	r.Check("D3/K6/style-conversion-table", "for each style the classifier can return, every return of the converter reachable for that style applies the same case function to its word (lower -> ToLower, upper -> ToUpper, title -> Title)", func(o *core.O) {
		if !o.Need(fnTransfer != nil && len(styleOf) == 3, "the converter called by the renderer (transferTo) and the classifier's three styles") {
			return
		}
		f := fnTransfer
		r.Fn(core.FuncName(f))
		word, sty := f.Params[0], f.Params[1]
		check := func(k int64, want string) {
			// by evaluation first (switch, if chain, lookup in a constant map of functions alike) …
			n, evalWhy := c20EvalConverter(consts, f, k, want)
			if evalWhy == "" {
				o.Site(n)
				return
			}
			nMsgs := len(o.Msgs)
			defer func() {
				if len(o.Msgs) > nMsgs {
					o.Fail(p.Pos(f.Pos()), "%s, evaluated for style %d on a symbolic word: %s", core.FuncName(f), k, evalWhy)
				}
			}()
			// … else on the branch structure
			cut := cutForValue(f, sty, k)
			rets := reachableUnder(f, cut, core.IsReturn)
			o.Site(len(rets))
			if len(rets) == 0 {
				o.Fail(p.Pos(f.Pos()), "%s: no return for style %d", core.FuncName(f), k)
			}
			for _, in := range rets {
				v := core.Result(in.(*ssa.Return), 0)
				kind, a := caseFunc(v)
				switch {
				case want == "" && v == ssa.Value(word):
				case want != "" && kind == want && a == ssa.Value(word):
				default:
					w := want
					if w == "" {
						w = "identity"
					}
					o.Fail(posOf(in), "%s: style %d (%s) yields %s", core.FuncName(f), k, w, core.Describe(v))
				}
			}
		}
		for _, kind := range []string{"lower", "upper", "title"} {
			check(styleOf[kind], kind)
		}
	})
	r.Check("D3/K6/default-template-valid", "config.DefaultFormat (the template NewConfig substitutes for an empty one) contains both flags FileNamingFormat searches for, in order, each spelled in one of the three accepted casings", func(o *core.O) {
		cp := ext.Pkgs[godCfgRel]
		if !o.Need(cp != nil && cp.Types != nil && idxGo != nil && idxDes != nil, "package config and FileNamingFormat's flag searches") {
			return
		}
		c, ok := cp.Types.Scope().Lookup("DefaultFormat").(*types.Const)
		if !o.Need(ok && c.Val().Kind() == constant.String, "string constant config.DefaultFormat") {
			return
		}
		def := constant.StringVal(c.Val())
		o.Site(1, "config.DefaultFormat")
		// NewConfig really falls back to it
		nc := ext.Func(godCfgRel, "", "NewConfig")
		if !o.Need(nc != nil, "config.NewConfig") {
			return
		}
		r.Fn(core.FuncName(nc))
		uses := 0
		for _, b := range nc.Blocks {
			for _, in := range b.Instrs {
				for _, op := range in.Operands(nil) {
					if sv, ok := core.ConstString(*op); ok && sv == def {
						uses++
					}
				}
			}
		}
		o.Site(uses, core.FuncName(nc))
		if uses == 0 {
			o.Fail(p.Pos(nc.Pos()), "NewConfig does not use DefaultFormat")
		}
		fold := func(s string) string { // ASCII fold, byte-length preserving
			b := []byte(s)
			for i, ch := range b {
				if 'a' <= ch && ch <= 'z' {
					b[i] = ch - 'a' + 'A'
				}
			}
			return string(b)
		}
		nGo, _ := core.ConstString(idxGo.Call.Args[1])
		nDes, _ := core.ConstString(idxDes.Call.Args[1])
		if nGo == "" || nDes == "" {
			o.Unres("the flags searched by FileNamingFormat are not constants")
			return
		}
		// reference: GO, and DESIGNER behind it
		iGo, iDes := strings.Index(fold(def), fold(nGo)), -1
		if iGo >= 0 {
			if j := strings.Index(fold(def)[iGo+len(nGo):], fold(nDes)); j >= 0 {
				iDes = iGo + len(nGo) + j
			}
		}
		if iGo < 0 || iDes < 0 {
			o.Fail(p.Pos(c.Pos()), "DefaultFormat %q does not contain %q followed by %q: every generator run without an explicit style fails", def, nGo, nDes)
			return
		}
		for _, w := range []string{def[iGo : iGo+len(nGo)], def[iDes : iDes+len(nDes)]} {
			lo := strings.ToLower(w)
			if w != lo && w != strings.ToUpper(lo) && w != strings.ToUpper(lo[:1])+lo[1:] {
				o.Fail(p.Pos(c.Pos()), "DefaultFormat %q spells the flag %q in mixed case: rejected by the style classifier", def, w)
			}
		}
	})

	r.Check("D3/K8/config-template-verbatim", "config.NewConfig hands the generators the template it was given: every value stored to Config.NamingFormat is the format parameter itself, or the DefaultFormat constant on the path on which the parameter was found empty (a template that is trimmed or otherwise rewritten on the way loses prefix/suffix characters, which the property makes part of the file name)", func(o *core.O) {
		nc := ext.Func(godCfgRel, "", "NewConfig")
		if !o.Need(nc != nil && len(nc.Params) > 0, "config.NewConfig") {
			return
		}
		r.Fn(core.FuncName(nc))
		par := nc.Params[0]
		isPar := func(v ssa.Value) bool { return core.Forward(v) == ssa.Value(par) }
		empty := core.AnyOf(core.EmptyLen(isPar), core.Cmp(token.EQL, isPar, func(v ssa.Value) bool { k, ok := core.ConstString(v); return ok && k == "" }))
		holds, _ := core.EdgesOf(nc, empty)
		n := 0
		for _, st := range core.StoresToField(nc, "Config.NamingFormat") {
			gxLeavesWithEdges(st.Val, func(leaf ssa.Value, edge *core.Edge) {
				n++
				leaf = core.Forward(leaf)
				if leaf == ssa.Value(par) {
					return
				}
				if _, isConst := core.ConstString(leaf); isConst {
					// the default: only where the parameter was found empty
					reach := false
					if edge != nil {
						// every path to this φ edge must come through an `empty` edge
						reach = gxEdgeReachable(nc, *edge, holds)
					} else {
						reach = core.Requires(nc, core.Is(st), empty) != nil
					}
					if reach {
						o.Fail(p.InstrPos(st), "NewConfig replaces the template by %s on a path on which the given template was not found empty", core.Describe(leaf))
					}
					return
				}
				o.Fail(p.InstrPos(st), "NewConfig stores %s as the naming template instead of the format it was given: characters of the template's prefix or suffix are lost or changed before FileNamingFormat sees them", core.Describe(leaf))
			})
		}
		o.Site(n, core.FuncName(nc))
		if n == 0 {
			o.Unres("%s: no store to Config.NamingFormat found", core.FuncName(nc))
		}
	})

	r.Check("D3/K6/word-boundaries", "the splitter of util/format starts a new word exactly at '_' (which is dropped) and before every rune for which unicode.IsUpper holds (which is kept), and keeps every other rune in the current word: evaluated concretely on ASCII and non-ASCII upper-case letters (A, Z, É, Ā, Σ, Ф), on lower-case and caseless letters, digits and punctuation (a, é, ß, 中, 1, ٣, @, [) [the property splits identifiers before upper-case letters and quantifies over unicode identifiers: userÉcole has the words user, École]", func(o *core.O) {
		// role: the function of the format package that iterates over the runes of its
		// string parameter (ReadRune on a strings.Reader, or `for range` over the
		// string) and keeps/flushes a word buffer
		n := 0
		for _, f := range ext.Funcs(fmtRel) {
			l := c20FindSplitLoop(f, true)
			if l == nil {
				continue
			}
			n++
			r.Fn(core.FuncName(f))
			if len(core.Instrs(f, c20IsFlush)) == 0 {
				o.Unres("%s: the word buffer is never reset in the function that collects the runes", core.FuncName(f))
				continue
			}
			for _, c := range c20WordSamples {
				boundary, kept := c == '_' || unicode.IsUpper(c), c != '_'
				v := l.verdict(inMod, c)
				if len(v.undecided) > 0 {
					o.Unres("%s: a branch on the rune (%s) could not be evaluated for %q", core.FuncName(f), posOf(v.undecided[0]), c)
					break
				}
				// boundary: the buffer is flushed before the rune is kept / before the next read
				if boundary && v.skipsFlush {
					if c > unicode.MaxASCII {
						o.Fail(p.Pos(f.Pos()), "%s: the upper-case letter %q does not start a new word although ASCII capitals do (an identifier like userÉcole is rendered as one word)", core.FuncName(f), c)
					} else {
						o.Fail(p.Pos(f.Pos()), "%s: rune %q does not always start a new word", core.FuncName(f), c)
					}
				}
				if !boundary && v.canFlush {
					o.Fail(p.Pos(f.Pos()), "%s: rune %q starts a new word", core.FuncName(f), c)
				}
				if kept && v.drops {
					o.Fail(p.Pos(f.Pos()), "%s: rune %q can be dropped from the word", core.FuncName(f), c)
				}
				if !kept && v.keeps {
					o.Fail(p.Pos(f.Pos()), "%s: separator %q is kept in a word", core.FuncName(f), c)
				}
			}
		}
		o.Site(n)
	})

}
