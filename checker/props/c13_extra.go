package props

import (
	"godcheck/core"

	"golang.org/x/tools/go/ssa"
)

// c13Extra: rules added after the third independent seeding round.
func c13Extra(r *core.Run, pkg string) {
	p := r.P
	isAWR := core.CallMethod("hash.ConsistentHash", "AddWithReplicas")
	isRemove := core.CallMethod("hash.ConsistentHash", "Remove")
	r.Check("D2/K1/add-wrappers-always-replace", "Add and AddWithWeight replace the node's previous virtual nodes for every argument: every path runs AddWithReplicas (which removes first) or Remove for the given node", func(o *core.O) {
		n := 0
		for _, nm := range []string{"Add", "AddWithWeight"} {
			f := p.Func(pkg, "ConsistentHash", nm)
			if !o.Need(f != nil, "(*ConsistentHash)."+nm) {
				continue
			}
			r.Fn(core.FuncName(f))
			onNode := func(in ssa.Instruction) bool {
				if !isAWR(in) && !isRemove(in) {
					return false
				}
				a := core.Args(core.AsCall(in))
				return len(a) >= 2 && core.ParamAt(f, 0)(a[0]) && core.ParamAt(f, 1)(a[1])
			}
			n += len(core.Instrs(f, onNode))
			if w := core.MustPass(core.Entry(f), onNode, core.IsReturn); w != nil {
				o.Fail(p.InstrPos(w), "%s can return without replacing the node's previous virtual nodes: re-adding with such an argument (weight 0 to drain a node) leaves the old virtual nodes on the ring and the node keeps receiving keys", core.FuncName(f))
			}
		}
		o.Site(n, pkg)
	})

	r.Check("D4/K2/no-empty-ring-slot", "Get reports absence by len(ring) == 0, so the ring never keeps a slot without nodes: a slot is stored back after a removal only when nodes remain (else it is deleted) – unless Get also tests len(keys) itself", func(o *core.O) {
		get := p.Func(pkg, "ConsistentHash", "Get")
		if !o.Need(get != nil, "(*ConsistentHash).Get") {
			return
		}
		if core.EdgeCount(get, core.EmptyLen(core.FieldLoad("ConsistentHash.keys"))) > 0 {
			o.Site(1, "Get tests len(keys) itself")
			return
		}
		n := 0
		for _, f := range p.PkgFuncs(pkg) {
			for _, in := range core.Instrs(f, core.IsMapUpdateOn("ConsistentHash.ring")) {
				mu := in.(*ssa.MapUpdate)
				val := core.Strip(core.Forward(mu.Value))
				if c, ok := val.(*ssa.Call); ok && core.CalleeName(c) == "builtin:append" {
					n++ // append(x, node): never empty
					continue
				}
				n++
				r.Fn(core.FuncName(f))
				isVal := func(v ssa.Value) bool { return core.Strip(core.Forward(v)) == val }
				empty := core.EmptyLen(isVal)
				_, nonEmpty := core.EdgesOf(f, empty)
				cut := core.CutSet(nonEmpty)
				if w, ok := core.Reach(core.Q{From: []core.At{core.Entry(f)}, Target: core.Is(in), Cut: cut}); ok {
					o.Fail(p.InstrPos(w), "%s can store a slot without nodes into the ring: after the last node was removed len(ring) != 0 while keys is empty, and Get divides by len(keys) == 0 (panic) instead of reporting absence", core.FuncName(f))
				}
			}
		}
		o.Site(n, pkg)
	})
}
