package props

import (
	"fmt"
	"go/token"
	"godcheck/core"

	"golang.org/x/tools/go/ssa"
)

// c13Extra: rules added after the third independent seeding round.
func c13Extra(r *core.Run, pkg string) {
	p := r.P
	defer c13Routing(r)
	defer c13R10(r, pkg) // round 10: the hash function keeps no state shared between concurrent lookups
	isAWR := core.CallMethod("hash.ConsistentHash", "AddWithReplicas")
	isRemove := core.CallMethod("hash.ConsistentHash", "Remove")
	r.Check("D2/K2/replicas-at-least-weight-divisor", "ConsistentHash.replicas is never below the divisor of the weight formula (replicas·weight/100): every value stored to the field is a constant >= 100, or a caller-supplied number on a path on which it was tested to be >= 100 (with fewer replicas a node of small positive weight gets 0 virtual nodes: it receives no keys, and Get reports absence although a node of positive weight is present)", func(o *core.O) {
		const divisor = 100
		n := 0
		for _, f := range p.PkgFuncs(pkg) {
			for _, st := range core.StoresToField(f, "ConsistentHash.replicas") {
				n++
				r.Fn(core.FuncName(f))
				var bad []string
				gxLeavesWithEdges(st.Val, func(leaf ssa.Value, edge *core.Edge) {
					leaf = core.Forward(leaf)
					if k, ok := core.ConstInt(leaf); ok {
						if k < divisor {
							bad = append(bad, fmt.Sprintf("the constant %d", k))
						}
						return
					}
					same := func(v ssa.Value) bool { return core.Forward(v) == leaf }
					atom := core.AnyOf(core.Cmp(token.GEQ, same, core.IsConstInt(divisor)), core.Cmp(token.GTR, same, core.IsConstInt(divisor-1)))
					holds, _ := core.EdgesOf(f, atom)
					if edge != nil {
						if gxEdgeReachable(f, *edge, holds) {
							bad = append(bad, core.Describe(leaf)+" without a test that it is >= 100")
						}
						return
					}
					if w := core.Requires(f, core.Is(st), atom); w != nil {
						bad = append(bad, core.Describe(leaf)+" without a test that it is >= 100")
					}
				})
				for _, b := range bad {
					o.Fail(p.InstrPos(st), "%s stores %s to ConsistentHash.replicas: replicas·weight/100 is then 0 for small positive weights", core.FuncName(f), b)
				}
			}
		}
		o.Site(n, pkg+": stores to ConsistentHash.replicas")
		if n == 0 {
			o.Unres("no store to ConsistentHash.replicas found")
		}
	})

	r.Check("D2/K1/add-wrappers-always-replace", "Add and AddWithWeight replace the node's previous virtual nodes for every argument: every path runs AddWithReplicas (which removes first) or Remove for the given node", func(o *core.O) {
		n := 0
		for _, nm := range []string{"Add", "AddWithWeight"} {
			f := p.Func(pkg, "ConsistentHash", nm)
			if !o.Need(f != nil, "(*ConsistentHash)."+nm) {
				continue
			}
			r.Fn(core.FuncName(f))
			onNode := func(in ssa.Instruction) bool {
				if !isAWR(in) && !isRemove(in) {
					return false
				}
				a := core.Args(core.AsCall(in))
				return len(a) >= 2 && core.ParamAt(f, 0)(a[0]) && core.ParamAt(f, 1)(a[1])
			}
			n += len(core.Instrs(f, onNode))
			if w := core.MustPass(core.Entry(f), onNode, core.IsReturn); w != nil {
				o.Fail(p.InstrPos(w), "%s can return without replacing the node's previous virtual nodes: re-adding with such an argument (weight 0 to drain a node) leaves the old virtual nodes on the ring and the node keeps receiving keys", core.FuncName(f))
			}
		}
		o.Site(n, pkg)
	})

	r.Check("D4/K2/no-empty-ring-slot", "Get reports absence by len(ring) == 0, so the ring never keeps a slot without nodes: a slot is stored back after a removal only when nodes remain (else it is deleted) – unless Get also tests len(keys) itself", func(o *core.O) {
		get := p.Func(pkg, "ConsistentHash", "Get")
		if !o.Need(get != nil, "(*ConsistentHash).Get") {
			return
		}
		if core.EdgeCount(get, core.EmptyLen(core.FieldLoad("ConsistentHash.keys"))) > 0 {
			o.Site(1, "Get tests len(keys) itself")
			return
		}
		n := 0
		for _, f := range p.PkgFuncs(pkg) {
			for _, in := range core.Instrs(f, core.IsMapUpdateOn("ConsistentHash.ring")) {
				mu := in.(*ssa.MapUpdate)
				val := core.Strip(core.Forward(mu.Value))
				if c, ok := val.(*ssa.Call); ok && core.CalleeName(c) == "builtin:append" {
					n++ // append(x, node): never empty
					continue
				}
				n++
				r.Fn(core.FuncName(f))
				isVal := func(v ssa.Value) bool { return core.Strip(core.Forward(v)) == val }
				empty := core.EmptyLen(isVal)
				_, nonEmpty := core.EdgesOf(f, empty)
				cut := core.CutSet(nonEmpty)
				if w, ok := core.Reach(core.Q{From: []core.At{core.Entry(f)}, Target: core.Is(in), Cut: cut}); ok {
					o.Fail(p.InstrPos(w), "%s can store a slot without nodes into the ring: after the last node was removed len(ring) != 0 while keys is empty, and Get divides by len(keys) == 0 (panic) instead of reporting absence", core.FuncName(f))
				}
			}
		}
		o.Site(n, pkg)
	})
}
