package props

import (
	"go/token"

	"godcheck/core"

	"golang.org/x/tools/go/ssa"
)

// c18Fwd resolves a value like core.Forward and, where that stops at a load of
// a local cell that has more than one store (core.Forward only follows the
// unique store or the nearest one up a chain of unique predecessors), through
// a cell that provably still holds the current value of the one SSA value ever
// stored into it:
//   - the cell is a local allocation that no live closure captures;
//   - apart from copies of the cell onto itself (`*c = *c`, what `return c, done`
//     over named results is lowered to after a function literal that assigned
//     them was inlined), exactly one store writes it;
//   - that store dominates the load (the cell is never read at its zero value), and
//   - no path leads from the definition of the stored value to the load without
//     passing the store (inside a loop the cell is never one iteration behind the
//     SSA value).
//
// This is what remains of `if c, done = g.calls[key]; done { … }; if done { … };
// return c, done` with `done` a named result written by a closure that was run
// on the spot: every use of `done` is the comma-ok result of the one lookup.
func c18Fwd(v ssa.Value) ssa.Value {
	for i := 0; i < 4; i++ {
		v = core.Forward(v)
		u, ok := v.(*ssa.UnOp)
		if !ok || u.Op != token.MUL {
			return v
		}
		al, ok := u.X.(*ssa.Alloc)
		if !ok || al.Referrers() == nil {
			return v
		}
		var st *ssa.Store
		n := 0
		for _, r := range *al.Referrers() {
			switch x := r.(type) {
			case *ssa.Store:
				if x.Addr != ssa.Value(al) {
					return v // the address itself is stored somewhere: escapes
				}
				if c18LoadOf(x.Val, al) {
					continue // *c = *c
				}
				st = x
				n++
			case *ssa.UnOp:
				if x.Op != token.MUL {
					return v
				}
			case *ssa.DebugRef:
			default:
				return v // captured, passed on, field address taken, …
			}
		}
		if n != 1 || !core.Dominates(st, u) {
			return v
		}
		var from core.At
		switch d := st.Val.(type) {
		case *ssa.Extract:
			di, ok := d.Tuple.(ssa.Instruction)
			if !ok || di.Block() == nil {
				return v
			}
			from = core.After(di)
		case ssa.Instruction:
			if d.Block() == nil {
				return v
			}
			from = core.After(d)
		default: // parameter, constant, global: defined on entry
			from = core.Entry(u.Parent())
		}
		if _, stale := core.Reach(core.Q{From: []core.At{from}, Target: core.Is(u), Blocked: core.Is(st)}); stale {
			return v
		}
		v = st.Val
	}
	return v
}

// c18LoadOf: v is a load of cell al (possibly through further self-copies).
func c18LoadOf(v ssa.Value, al *ssa.Alloc) bool {
	u, ok := v.(*ssa.UnOp)
	return ok && u.Op == token.MUL && u.X == ssa.Value(al)
}

// c18FoundBy is the atom "the key was present at lookup l" in the spellings
// c18Found accepts (comma-ok result, or the looked-up value compared with nil),
// also when the outcome travels through a local cell (c18Fwd). With l == nil it
// is the atom for any lookup matched by isLookup.
func c18FoundBy(isLookup instrPred, l *ssa.Lookup) core.Atom {
	mine := func(x *ssa.Lookup) bool {
		if l != nil {
			return x == l
		}
		return isLookup(x)
	}
	commaOK := func(v ssa.Value) bool {
		e, ok := c18Fwd(v).(*ssa.Extract)
		if !ok || e.Index != 1 {
			return false
		}
		x, ok := e.Tuple.(*ssa.Lookup)
		return ok && x.CommaOk && mine(x)
	}
	val := func(v ssa.Value) bool {
		v = c18Fwd(v)
		if e, ok := v.(*ssa.Extract); ok && e.Index == 0 {
			x, ok := e.Tuple.(*ssa.Lookup)
			return ok && mine(x)
		}
		x, ok := v.(*ssa.Lookup)
		return ok && !x.CommaOk && mine(x)
	}
	return core.AnyOf(core.BoolVal(commaOK), core.Cmp(token.NEQ, val, core.IsNil))
}
