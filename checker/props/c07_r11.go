package props

import (
	"go/token"

	"godcheck/core"

	"golang.org/x/tools/go/ssa"
)

// c07WaitsForClose: the instruction returns only once a channel other than the
// ones in `own` has been closed by somebody else - a call of the drain helper
// (role: receives from its only parameter until it is closed), or a comma-ok
// receive inside a cycle whose received value is thrown away (`for range ch {}`
// and its spellings; a receive whose value is used - the dispatch loop taking
// items - is no such wait: that loop also ends on done/ctx/failed).
func c07WaitsForClose(m *mrCtx, own []string) func(ssa.Instruction) bool {
	isOwn := func(ch ssa.Value) bool {
		for _, id := range own {
			if chanMatches(m, ch, id) {
				return true
			}
		}
		return false
	}
	return func(in ssa.Instruction) bool {
		switch x := in.(type) {
		case *ssa.Call:
			g := x.Call.StaticCallee()
			return g != nil && m.drainFns[g] && len(x.Call.Args) == 1 && !isOwn(x.Call.Args[0])
		case *ssa.UnOp:
			if x.Op != token.ARROW || !x.CommaOk || isOwn(x.X) {
				return false
			}
			if refs := x.Referrers(); refs != nil {
				for _, r := range *refs {
					if e, ok := r.(*ssa.Extract); ok && e.Index == 0 && e.Referrers() != nil && len(*e.Referrers()) > 0 {
						return false // the item is used
					}
				}
			}
			_, cyc := core.Reach(core.Q{From: []core.At{core.After(in)}, Target: core.Is(in)})
			return cyc
		}
		return false
	}
}

// c07R11: rule added after the tenth detection round (missed change C07-wm1).
func c07R11(r *core.Run) {
	p := r.P
	m := newMrCtx(r)
	if len(m.funcs) == 0 {
		return
	}

	r.Check("D4/K3/collector-close-not-behind-a-drain", "the close of the channel the reducer consumes (the collector) waits for the running mappers only, never for another channel to be closed: on no path of the dispatcher's cleanup is the close preceded by a drain (the drain helper, or a receive loop discarding the values) of the item source or any other channel - neither in the closing function, nor in the dispatcher's body, nor in a deferred call registered after the closing one [clauses \"a panic in a mapper is re-raised in the calling goroutine\" and \"in every case the call returns\": the reducer ends - and with it finish(), the close of output and the caller's drain(output) before the re-raise - only when the collector is closed; the source of MapReduceChan is closed by the caller's producer, possibly only after the call, so when the dispatch loop stops early (mapper panic) a drain of the source in front of the close never returns and the call hangs instead of re-raising the panic]", func(o *core.O) {
		// the collector, by role: the channel a goroutine hands to the caller's reducer; and the field it travels in
		ids := []string{"field:mapperContext.collector"}
		for _, cn := range c07Consumers(m) {
			ids = append(ids, cn.id)
		}
		isCollector := func(cs closeSite) bool {
			if cs.id == ids[0] {
				return true
			}
			for _, id := range ids[1:] {
				if chanMatches(m, core.AsCall(cs.in).Common().Args[0], id) {
					return true
				}
			}
			return false
		}
		waits := c07WaitsForClose(m, ids)
		isDefer := func(in ssa.Instruction) bool { _, k := in.(*ssa.Defer); return k }
		// a deferred call that (on some path) waits for a foreign channel to be closed
		deferWaits := func(d *ssa.Defer) ssa.Instruction {
			g := calleeFn(d)
			if g == nil {
				return nil
			}
			if m.drainFns[g] {
				if len(d.Call.Args) == 1 {
					own := false
					for _, id := range ids {
						own = own || chanMatches(m, d.Call.Args[0], id)
					}
					if !own {
						return d
					}
				}
				return nil
			}
			if !m.k.in[g] || len(g.Blocks) == 0 {
				return nil
			}
			if ws := core.Instrs(g, waits); len(ws) > 0 {
				return ws[0]
			}
			return nil
		}
		n := 0
		for _, cs := range m.closes {
			if !isCollector(cs) {
				continue
			}
			n++
			g := cs.fn
			r.Fn(core.FuncName(g))
			bad := func(at ssa.Instruction, where string) {
				o.Fail(p.InstrPos(at), "%s: the collector is closed only after %s has waited for another channel to be closed: when the dispatch loop stops before the source is exhausted (a mapper panicked) and the source is still open (MapReduceChan: the producer closes it after the call), the collector is never closed, the reducer never ends, output is never closed and the caller hangs in drain(output) instead of re-raising the panic", core.FuncName(g), where)
			}
			// (a) in the closing function itself
			for _, w := range core.Instrs(g, waits) {
				if _, reach := core.Reach(core.Q{From: []core.At{core.After(w)}, Target: core.Is(cs.in)}); reach {
					bad(w, "a drain in front of it")
				}
			}
			// (b) the closing function is deferred: everything its registrar's body does, and every
			// deferred call registered later, runs before it
			reg, dClose := deferSiteOf(g)
			if reg == nil || dClose == nil {
				continue
			}
			for _, w := range core.Instrs(reg, waits) {
				bad(w, "a drain in the body of "+core.FuncName(reg)+" (which runs before its deferred close)")
			}
			for _, in := range core.Instrs(reg, isDefer) {
				d2 := in.(*ssa.Defer)
				if d2 == dClose {
					continue
				}
				w := deferWaits(d2)
				if w == nil {
					continue
				}
				if _, later := core.Reach(core.Q{From: []core.At{core.After(dClose)}, Target: core.Is(d2)}); later {
					bad(w, "a deferred drain registered after the closing defer (deferred calls run last-registered first)")
				}
			}
		}
		if n == 0 {
			o.Unres("no close of the channel handed to the reducer (mapperContext.collector) found in lib/mr")
			return
		}
		o.Site(n, mrPkg+": closes of the collector")
	})
}
