package props

import (
	"encoding/json"
	"fmt"
	"strings"

	"godcheck/core"

	"golang.org/x/tools/go/ssa"
)

// c14Extra: rules added after the third independent seeding round — the
// balancer only balances if every client actually selects it.
func c14Extra(r *core.Run) {
	p := r.P
	const rpcInternal = "rpc/internal"
	r.Check("D5/K8/policy-reaches-dial", "NewClient dials with a default service config naming the policy the p2c builder registers under; every client option keeps the dial options accumulated before it, and buildDialOptions passes them on", func(o *core.O) {
		// the name the balancer registers under
		regName := ""
		for _, f := range p.PkgFuncs(p2cPkg) {
			for _, c := range core.Calls(f, core.CallTo("google.golang.org/grpc/balancer/base.NewBalancerBuilder")) {
				if s, ok := core.ConstString(core.Forward(c.Common().Args[0])); ok {
					regName = s
				}
			}
		}
		if !o.Need(regName != "", "the name passed to base.NewBalancerBuilder in "+p2cPkg) {
			return
		}
		// the config string is evaluated when it is built from constants (literal, concatenation,
		// Sprintf with %s/%v/%q); otherwise it must at least be built from a constant containing the name
		selects := func(v ssa.Value) bool {
			if cfg, ok := c14EvalString(v, 0); ok {
				var doc struct {
					LoadBalancingPolicy string                       `json:"loadBalancingPolicy"`
					LoadBalancingConfig []map[string]json.RawMessage `json:"loadBalancingConfig"`
				}
				if json.Unmarshal([]byte(cfg), &doc) != nil {
					return false
				}
				if len(doc.LoadBalancingConfig) > 0 {
					_, ok := doc.LoadBalancingConfig[0][regName]
					return ok
				}
				return doc.LoadBalancingPolicy == regName
			}
			return core.DependsOn(v, func(x ssa.Value) bool { s, ok := core.ConstString(x); return ok && strings.Contains(s, regName) })
		}
		// (a) some function of rpc/internal builds WithDefaultServiceConfig from that name and hands it to the dialling method
		n, okCfg := 0, false
		for _, f := range p.PkgFuncs(rpcInternal) {
			for _, c := range core.Calls(f, core.CallTo("google.golang.org/grpc.WithDefaultServiceConfig")) {
				n++
				r.Fn(core.FuncName(f))
				if !selects(c.Common().Args[0]) {
					o.Fail(p.InstrPos(c), "%s: the default service config is not built from the policy name %q the p2c balancer registers under: clients fall back to pick_first and never balance", core.FuncName(f), regName)
					continue
				}
				fromCfg := func(v ssa.Value) bool { return v == c.Value() }
				for _, d := range core.Calls(f, func(in ssa.Instruction) bool {
					cc := core.AsCall(in)
					return cc != nil && cc != c && cc.Common().StaticCallee() != nil && cc.Common().StaticCallee().Name() == "dial"
				}) {
					for _, a := range core.Args(d) {
						if core.DependsOn(a, fromCfg) {
							okCfg = true
						}
					}
				}
			}
		}
		if n == 0 || !okCfg {
			o.Fail("rpc/internal/client.go", "no default service config naming %q reaches the dial call of the client constructor: the p2c balancer is never selected", regName)
		}
		// (b) no option discards the dial options accumulated so far
		isOld := core.FieldLoad("ClientOptions.DialOptions")
		for _, f := range p.PkgFuncs(rpcInternal) {
			for _, st := range core.StoresToField(f, "ClientOptions.DialOptions") {
				n++
				r.Fn(core.FuncName(f))
				if !core.DependsOn(st.Val, isOld) {
					o.Fail(p.InstrPos(st), "%s replaces ClientOptions.DialOptions instead of extending it: the default service config selecting %q (and every earlier option) is dropped, the client no longer balances", core.FuncName(f), regName)
				}
			}
		}
		// (c) the accumulated options are part of what is dialled with
		bd := p.Func(rpcInternal, "client", "buildDialOptions")
		if o.Need(bd != nil, "(*client).buildDialOptions") {
			for _, ret := range core.Returns(bd) {
				n++
				if !core.DependsOn(core.Result(ret, 0), isOld) {
					o.Fail(p.InstrPos(ret), "buildDialOptions returns options that do not include ClientOptions.DialOptions")
				}
			}
		}
		o.Site(n, "rpc/internal")
	})

	r.Check("D1/K7/decay-interval", "the EWMA weight decays with the time since the connection's previous completion: the interval is now − last, where last is the value atomic.SwapInt64(&c.last, now) returned for that very now (an interval measured from the call's start goes negative under overlapping calls, is clamped to 0, and freezes both estimates)", func(o *core.O) {
		n := 0
		for _, f := range gxWithCreatedClosures(p.PkgFuncs(p2cPkg)) {
			for _, sw := range core.Calls(f, gxAtomicOn("subConn.last", "SwapInt64")) {
				call, ok := sw.(*ssa.Call)
				if !ok {
					continue
				}
				n++
				r.Fn(core.FuncName(f))
				stored := core.Strip(core.Forward(call.Call.Args[1]))
				subs := 0
				for _, in := range core.Instrs(f, func(in ssa.Instruction) bool {
					b, ok := in.(*ssa.BinOp)
					return ok && b.Op.String() == "-" && core.Strip(core.Forward(b.Y)) == ssa.Value(call)
				}) {
					subs++
					b := in.(*ssa.BinOp)
					if x := core.Strip(core.Forward(b.X)); x != stored && core.Describe(x) != core.Describe(stored) {
						o.Fail(p.InstrPos(in), "the decay interval is %s − last, not the completion time written into subConn.last: with overlapping calls it is negative, the weight becomes 1 and a failing backend never turns unhealthy", core.Describe(b.X))
					}
				}
				if subs == 0 {
					o.Fail(p.InstrPos(sw), "the previous completion time returned by the swap is not used to measure the decay interval")
				}
			}
		}
		o.Site(n, p2cPkg)
	})
	c14R9(r)  // round 9: rounding direction of the success score (c14_r9.go)
	c14R10(r) // round 10: a candidate found unhealthy is drawn again for the next try (c14_r10.go)
}

// c14EvalString evaluates a string expression built from constants: a literal,
// a concatenation, or fmt.Sprintf with a constant format whose verbs are %s/%v/%q
// applied to constant strings.
func c14EvalString(v ssa.Value, depth int) (string, bool) {
	if depth > 6 {
		return "", false
	}
	v = core.Strip(core.Forward(v))
	if s, ok := core.ConstString(v); ok {
		return s, true
	}
	switch x := v.(type) {
	case *ssa.BinOp:
		if x.Op.String() == "+" {
			a, ok1 := c14EvalString(x.X, depth+1)
			b, ok2 := c14EvalString(x.Y, depth+1)
			return a + b, ok1 && ok2
		}
	case *ssa.MakeInterface:
		return c14EvalString(x.X, depth+1)
	case *ssa.Call:
		if core.CalleeName(x) != "fmt.Sprintf" || len(x.Call.Args) != 2 {
			return "", false
		}
		format, ok := c14EvalString(x.Call.Args[0], depth+1)
		if !ok {
			return "", false
		}
		// the variadic slice: stores of its elements, in index order
		sl, ok := core.Strip(x.Call.Args[1]).(*ssa.Slice)
		if !ok {
			return "", false
		}
		al, ok := sl.X.(*ssa.Alloc)
		if !ok {
			return "", false
		}
		elems := map[int64]string{}
		for _, r := range *al.Referrers() {
			ia, ok := r.(*ssa.IndexAddr)
			if !ok {
				continue
			}
			idx, ok := core.ConstInt(ia.Index)
			if !ok {
				return "", false
			}
			for _, rr := range *ia.Referrers() {
				if st, ok := rr.(*ssa.Store); ok && st.Addr == ssa.Value(ia) {
					e, ok := c14EvalString(st.Val, depth+1)
					if !ok {
						return "", false
					}
					elems[idx] = e
				}
			}
		}
		var args []any
		for i := int64(0); i < int64(len(elems)); i++ {
			e, ok := elems[i]
			if !ok {
				return "", false
			}
			args = append(args, e)
		}
		for _, verb := range strings.Split(format, "%")[1:] {
			if verb == "" || !strings.ContainsRune("svq", rune(verb[0])) {
				return "", false
			}
		}
		return fmt.Sprintf(format, args...), true
	}
	return "", false
}

// gxWithCreatedClosures adds to fs the function values their code creates that are not
// listed themselves (bound-method wrappers: they have no lexical parent), transitively.
func gxWithCreatedClosures(fs []*ssa.Function) []*ssa.Function {
	seen := map[*ssa.Function]bool{}
	for _, f := range fs {
		seen[f] = true
	}
	out := append([]*ssa.Function(nil), fs...)
	for i := 0; i < len(out); i++ {
		for _, b := range out[i].Blocks {
			for _, in := range b.Instrs {
				if mc, ok := in.(*ssa.MakeClosure); ok {
					if k, ok := mc.Fn.(*ssa.Function); ok && !seen[k] && k.Blocks != nil {
						seen[k] = true
						out = append(out, k)
					}
				}
			}
		}
	}
	return out
}
