package props

import (
	"godcheck/core"

	"golang.org/x/tools/go/ssa"
)

// c14Extra: rules added after the third independent seeding round — the
// balancer only balances if every client actually selects it.
func c14Extra(r *core.Run) {
	p := r.P
	const rpcInternal = "rpc/internal"
	r.Check("D5/K8/policy-reaches-dial", "NewClient dials with a default service config naming the policy the p2c builder registers under; every client option keeps the dial options accumulated before it, and buildDialOptions passes them on", func(o *core.O) {
		// the name the balancer registers under
		regName := ""
		for _, f := range p.PkgFuncs(p2cPkg) {
			for _, c := range core.Calls(f, core.CallTo("google.golang.org/grpc/balancer/base.NewBalancerBuilder")) {
				if s, ok := core.ConstString(core.Forward(c.Common().Args[0])); ok {
					regName = s
				}
			}
		}
		if !o.Need(regName != "", "the name passed to base.NewBalancerBuilder in "+p2cPkg) {
			return
		}
		isName := func(v ssa.Value) bool { s, ok := core.ConstString(v); return ok && s == regName }
		// (a) some function of rpc/internal builds WithDefaultServiceConfig from that name and hands it to the dialling method
		n, okCfg := 0, false
		for _, f := range p.PkgFuncs(rpcInternal) {
			for _, c := range core.Calls(f, core.CallTo("google.golang.org/grpc.WithDefaultServiceConfig")) {
				n++
				r.Fn(core.FuncName(f))
				if !core.DependsOn(c.Common().Args[0], isName) {
					o.Fail(p.InstrPos(c), "%s: the default service config is not built from the policy name %q the p2c balancer registers under: clients fall back to pick_first and never balance", core.FuncName(f), regName)
					continue
				}
				fromCfg := func(v ssa.Value) bool { return v == c.Value() }
				for _, d := range core.Calls(f, func(in ssa.Instruction) bool {
					cc := core.AsCall(in)
					return cc != nil && cc != c && cc.Common().StaticCallee() != nil && cc.Common().StaticCallee().Name() == "dial"
				}) {
					for _, a := range core.Args(d) {
						if core.DependsOn(a, fromCfg) {
							okCfg = true
						}
					}
				}
			}
		}
		if n == 0 || !okCfg {
			o.Fail("rpc/internal/client.go", "no default service config naming %q reaches the dial call of the client constructor: the p2c balancer is never selected", regName)
		}
		// (b) no option discards the dial options accumulated so far
		isOld := core.FieldLoad("ClientOptions.DialOptions")
		for _, f := range p.PkgFuncs(rpcInternal) {
			for _, st := range core.StoresToField(f, "ClientOptions.DialOptions") {
				n++
				r.Fn(core.FuncName(f))
				if !core.DependsOn(st.Val, isOld) {
					o.Fail(p.InstrPos(st), "%s replaces ClientOptions.DialOptions instead of extending it: the default service config selecting %q (and every earlier option) is dropped, the client no longer balances", core.FuncName(f), regName)
				}
			}
		}
		// (c) the accumulated options are part of what is dialled with
		bd := p.Func(rpcInternal, "client", "buildDialOptions")
		if o.Need(bd != nil, "(*client).buildDialOptions") {
			for _, ret := range core.Returns(bd) {
				n++
				if !core.DependsOn(core.Result(ret, 0), isOld) {
					o.Fail(p.InstrPos(ret), "buildDialOptions returns options that do not include ClientOptions.DialOptions")
				}
			}
		}
		o.Site(n, "rpc/internal")
	})
}
