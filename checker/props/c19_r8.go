package props

import (
	"go/token"
	"go/types"
	"sort"
	"strings"

	"godcheck/core"

	"golang.org/x/tools/go/ssa"
)

// Rules added after the eighth independent seeding round (C19-um1, C19-um2).
//
//  D4/K9 backup-names-agree   the three names a rotate rule deals in – the name it gives a
//                             backup (BackupFilename), the pattern it lists backups with
//                             (filepath.Glob) and the retention boundary the listed names are
//                             compared with – are built from the same configured name parts
//                             (the string fields of the rule: file name, delimiter).
//  D2/K1 backup-name-set-when-open
//                             where rotate renames only a logger whose l.backup is non-empty,
//                             no function leaves the logger with an open file and l.backup unset.
//
// Both are decided through helpers (a value is followed into in-package callees with the
// arguments of the call it came through; a function that leaves the condition to its callers
// is judged at its call sites), so that extracting or inlining a helper does not move them.

// ---------------------------------------------------------------- ingredients of a value

// c19Ing is what a string value is made of, as far as these rules care.
type c19Ing struct {
	fields map[string]bool // "T.f": string-typed fields of structs declared in the package
	clock  bool            // time.Now()
	glob   bool            // a result of filepath.Glob
}

func (g *c19Ing) names() []string {
	var out []string
	for f := range g.fields {
		out = append(out, f)
	}
	sort.Strings(out)
	return out
}

type c19IngKey struct {
	v   ssa.Value
	ctx ssa.CallInstruction
}

// c19IngWalker computes ingredients by def-use, through φ, conversions, local memory
// (everything stored into a local allocation or written into it by a call that is handed
// its address: varargs arrays, strings.Builder), results of in-package callees (followed
// into the callee's returns; its parameters are the arguments of that very call) and
// parameters reached without a call context (the arguments of every in-package call site).
type c19IngWalker struct {
	pkgPath string
	sites   map[*ssa.Function][]ssa.CallInstruction
	mcs     map[*ssa.Function][]*ssa.MakeClosure
	// stop, when set, makes the walk end at the calls it matches: what is found then is what the
	// value is made of WITHOUT having passed such a call (c19_r10.go: a cleaning call).
	stop func(*ssa.Call) bool
}

func c19NewIngWalker(p *core.Prog, pkg string) *c19IngWalker {
	w := &c19IngWalker{pkgPath: core.Mod + "/" + pkg, sites: map[*ssa.Function][]ssa.CallInstruction{}, mcs: map[*ssa.Function][]*ssa.MakeClosure{}}
	for _, f := range p.PkgFuncs(pkg) {
		for _, b := range f.Blocks {
			for _, in := range b.Instrs {
				if c, ok := in.(ssa.CallInstruction); ok {
					if g := c.Common().StaticCallee(); g != nil {
						w.sites[g] = append(w.sites[g], c)
					}
				}
				if mc, ok := in.(*ssa.MakeClosure); ok {
					if g, _ := mc.Fn.(*ssa.Function); g != nil {
						w.mcs[g] = append(w.mcs[g], mc)
					}
				}
			}
		}
	}
	return w
}

func (w *c19IngWalker) inPkg(f *ssa.Function) bool {
	return f != nil && f.Blocks != nil && f.Pkg != nil && f.Pkg.Pkg.Path() == w.pkgPath
}

// c19LocalRoot: the local allocation an address is derived from (nil: not local memory).
func c19LocalRoot(v ssa.Value) *ssa.Alloc {
	for i := 0; i < 10; i++ {
		switch x := v.(type) {
		case *ssa.Alloc:
			return x
		case *ssa.FieldAddr:
			v = x.X
		case *ssa.IndexAddr:
			v = x.X
		case *ssa.Slice:
			v = x.X
		default:
			return nil
		}
	}
	return nil
}

// c19PkgStringField: addr is the address of a string-typed field of a struct type declared in
// the package pkgPath – it returns "T.f".
func c19PkgStringField(addr ssa.Value, pkgPath string) string {
	fa, ok := addr.(*ssa.FieldAddr)
	if !ok {
		return ""
	}
	t := fa.X.Type()
	if pt, ok := t.Underlying().(*types.Pointer); ok {
		t = pt.Elem()
	}
	n, ok := t.(*types.Named)
	if !ok || n.Obj().Pkg() == nil || n.Obj().Pkg().Path() != pkgPath {
		return ""
	}
	st, ok := n.Underlying().(*types.Struct)
	if !ok || fa.Field >= st.NumFields() {
		return ""
	}
	if b, ok := st.Field(fa.Field).Type().Underlying().(*types.Basic); !ok || b.Kind() != types.String {
		return ""
	}
	return core.FieldAddrName(fa)
}

func (w *c19IngWalker) of(v ssa.Value) *c19Ing {
	out := &c19Ing{fields: map[string]bool{}}
	seen, seenMem := map[c19IngKey]bool{}, map[c19IngKey]bool{}
	var walk func(v ssa.Value, stack []ssa.CallInstruction)
	var mem func(al *ssa.Alloc, stack []ssa.CallInstruction)
	top := func(stack []ssa.CallInstruction) ssa.CallInstruction {
		if len(stack) == 0 {
			return nil
		}
		return stack[len(stack)-1]
	}
	push := func(stack []ssa.CallInstruction, c ssa.CallInstruction) []ssa.CallInstruction {
		return append(stack[:len(stack):len(stack)], c)
	}
	results := func(callee *ssa.Function, idx int, stack []ssa.CallInstruction) {
		for _, ret := range core.Returns(callee) {
			for i, res := range ret.Results {
				if idx < 0 || i == idx {
					walk(res, stack)
				}
			}
		}
	}
	mem = func(al *ssa.Alloc, stack []ssa.CallInstruction) {
		k := c19IngKey{al, top(stack)}
		if seenMem[k] {
			return
		}
		seenMem[k] = true
		derived := []ssa.Value{al}
		have := map[ssa.Value]bool{al: true}
		add := func(v ssa.Value) {
			if !have[v] {
				have[v] = true
				derived = append(derived, v)
			}
		}
		for i := 0; i < len(derived); i++ {
			d := derived[i]
			refs := d.Referrers()
			if refs == nil {
				continue
			}
			for _, r := range *refs {
				switch x := r.(type) {
				case *ssa.Store:
					if x.Addr == d {
						walk(x.Val, stack)
					}
				case *ssa.FieldAddr:
					add(x)
				case *ssa.IndexAddr:
					add(x)
				case *ssa.Slice:
					if x.X == d {
						add(x)
					}
				case *ssa.MakeInterface:
					add(x)
				case *ssa.ChangeInterface:
					add(x)
				case *ssa.ChangeType:
					add(x)
				case *ssa.MakeClosure:
					// a literal that captured the cell may write it
					g, _ := x.Fn.(*ssa.Function)
					for j, b := range x.Bindings {
						if b == d && g != nil && j < len(g.FreeVars) {
							add(g.FreeVars[j])
						}
					}
				case ssa.CallInstruction:
					// handed to a call by address: what the call is given besides may end up in it
					for _, op := range x.Operands(nil) {
						if *op != nil && *op != d {
							walk(*op, stack)
						}
					}
				}
			}
		}
	}
	walk = func(v ssa.Value, stack []ssa.CallInstruction) {
		if v == nil || len(stack) > 6 {
			return
		}
		k := c19IngKey{v, top(stack)}
		if seen[k] {
			return
		}
		seen[k] = true
		switch x := v.(type) {
		case *ssa.Const, *ssa.Global, *ssa.Function, *ssa.Builtin:
			return
		case *ssa.Parameter:
			f := x.Parent()
			idx := -1
			for i, pa := range f.Params {
				if pa == x {
					idx = i
				}
			}
			if idx < 0 {
				return
			}
			if c := top(stack); c != nil && c.Common().StaticCallee() == f {
				if a := c.Common().Args; idx < len(a) {
					walk(a[idx], stack[:len(stack)-1])
				}
				return
			}
			for _, c := range w.sites[f] {
				if a := c.Common().Args; idx < len(a) {
					walk(a[idx], nil)
				}
			}
			return
		case *ssa.FreeVar:
			g := x.Parent()
			for j, fv := range g.FreeVars {
				if fv != x {
					continue
				}
				for _, mc := range w.mcs[g] {
					if j < len(mc.Bindings) {
						walk(mc.Bindings[j], stack)
					}
				}
			}
			return
		case *ssa.Alloc:
			mem(x, stack)
			return
		case *ssa.UnOp:
			if x.Op == token.MUL {
				if root := c19LocalRoot(x.X); root != nil {
					mem(root, stack)
					return
				}
				if name := c19PkgStringField(x.X, w.pkgPath); name != "" {
					out.fields[name] = true
					return
				}
			}
		case *ssa.Call:
			if w.stop != nil && w.stop(x) {
				return
			}
			switch core.Short(core.CalleeName(x)) {
			case "time.Now":
				out.clock = true
				return
			case "path/filepath.Glob":
				out.glob = true
				return
			}
			if callee := x.Call.StaticCallee(); w.inPkg(callee) {
				results(callee, -1, push(stack, x))
				return
			}
		case *ssa.Extract:
			if c, ok := x.Tuple.(*ssa.Call); ok {
				if callee := c.Call.StaticCallee(); w.inPkg(callee) {
					results(callee, x.Index, push(stack, c))
					return
				}
			}
		}
		if in, ok := v.(ssa.Instruction); ok {
			for _, op := range in.Operands(nil) {
				if *op != nil {
					walk(*op, stack)
				}
			}
		}
	}
	walk(v, nil)
	return out
}

// c19Reachable: f, its function literals and the in-package functions it calls, to the given depth.
func (w *c19IngWalker) reachable(f *ssa.Function, depth int) []*ssa.Function {
	var out []*ssa.Function
	seen := map[*ssa.Function]bool{}
	var rec func(g *ssa.Function, d int)
	rec = func(g *ssa.Function, d int) {
		if !w.inPkg(g) || seen[g] || d > depth {
			return
		}
		seen[g] = true
		out = append(out, g)
		for _, b := range g.Blocks {
			for _, in := range b.Instrs {
				if c, ok := in.(ssa.CallInstruction); ok {
					rec(c.Common().StaticCallee(), d+1)
				}
				if mc, ok := in.(*ssa.MakeClosure); ok {
					if h, _ := mc.Fn.(*ssa.Function); h != nil {
						rec(h, d)
					}
				}
			}
		}
	}
	rec(f, 0)
	return out
}

// c19RuleTypes: the named types of the package whose pointer implements every method of the
// exported interface RotateRule, with the functions that run for BackupFilename and OutdatedFiles
// (the declared method, also when it is promoted from an embedded rule).
type c19RuleType struct {
	name             string
	backup, outdated *ssa.Function
}

func c19RuleTypes(p *core.Prog, pkg string) []c19RuleType {
	sp := p.Pkg(pkg)
	if sp == nil {
		return nil
	}
	var out []c19RuleType
	scope := sp.Pkg.Scope()
	for _, name := range scope.Names() {
		tn, ok := scope.Lookup(name).(*types.TypeName)
		if !ok || tn.IsAlias() {
			continue
		}
		if _, isStruct := tn.Type().Underlying().(*types.Struct); !isStruct {
			continue
		}
		ms := types.NewMethodSet(types.NewPointer(tn.Type()))
		fn := func(m string) *ssa.Function {
			sel := ms.Lookup(sp.Pkg, m)
			if sel == nil {
				sel = ms.Lookup(nil, m)
			}
			if sel == nil {
				return nil
			}
			tf, ok := sel.Obj().(*types.Func)
			if !ok {
				return nil
			}
			f := p.SSA.FuncValue(tf)
			if f == nil || f.Blocks == nil {
				return nil
			}
			return f
		}
		b, od := fn("BackupFilename"), fn("OutdatedFiles")
		if b == nil || od == nil || fn("ShallRotate") == nil || fn("MarkRotated") == nil {
			continue
		}
		out = append(out, c19RuleType{name, b, od})
	}
	return out
}

func c19R8(r *core.Run, pkg string) {
	p := r.P

	r.Check("D4/K9/backup-names-agree", "per rotate rule, the name given to a backup (BackupFilename), the pattern the backups are listed with (filepath.Glob in OutdatedFiles) and the retention boundary the listed names are compared with are built from the same configured name parts – the same string fields of the rule (file name, delimiter), none replaced by a constant in one of them [clean-up clause: names are compared as strings, so a boundary spelled with another delimiter than the backups orders all of them before (every backup, the newest included, is deleted) or after it (none ever is); a pattern without the delimiter lists the current file]", func(o *core.O) {
		w := c19NewIngWalker(p, pkg)
		rules := c19RuleTypes(p, pkg)
		if !o.Need(len(rules) > 0, "a struct type of "+pkg+" implementing RotateRule") {
			return
		}
		isOrder := func(op token.Token) bool {
			return op == token.LSS || op == token.GTR || op == token.LEQ || op == token.GEQ
		}
		isString := func(v ssa.Value) bool {
			b, ok := v.Type().Underlying().(*types.Basic)
			return ok && b.Info()&types.IsString != 0
		}
		for _, rt := range rules {
			r.Fn(core.FuncName(rt.backup), core.FuncName(rt.outdated))
			type part struct {
				what string
				at   string
				ing  *c19Ing
			}
			var parts []part
			// the name created
			nC := 0
			for _, ret := range core.Returns(rt.backup) {
				if len(ret.Results) != 1 {
					continue
				}
				for _, leaf := range gxPhiLeaves(core.Result(ret, 0)) {
					nC++
					parts = append(parts, part{"the backup name made by " + core.FuncName(rt.backup), p.InstrPos(ret), w.of(leaf)})
				}
			}
			// the pattern listed and the boundary compared with
			nL, nB := 0, 0
			for _, g := range w.reachable(rt.outdated, 3) {
				for _, c := range core.Calls(g, core.CallTo("path/filepath.Glob")) {
					for _, leaf := range gxPhiLeaves(core.Forward(core.Args(c)[0])) {
						nL++
						parts = append(parts, part{"the pattern the backups are listed with", p.InstrPos(c), w.of(leaf)})
					}
				}
				for _, in := range core.Instrs(g, func(in ssa.Instruction) bool {
					b, ok := in.(*ssa.BinOp)
					return ok && isOrder(b.Op) && isString(b.X) && isString(b.Y)
				}) {
					b := in.(*ssa.BinOp)
					x, y := w.of(b.X), w.of(b.Y)
					var bound ssa.Value
					switch {
					case x.glob && !x.clock && y.clock && !y.glob:
						bound = b.Y
					case y.glob && !y.clock && x.clock && !x.glob:
						bound = b.X
					default:
						continue
					}
					for _, leaf := range gxPhiLeaves(core.Forward(bound)) {
						nB++
						parts = append(parts, part{"the retention boundary the listed backups are compared with", p.InstrPos(in), w.of(leaf)})
					}
				}
			}
			o.Site(nC+nL+nB, rt.name)
			if nC == 0 || nL == 0 {
				o.Unres("%s: no backup name returned by BackupFilename (%d) or no filepath.Glob reachable from OutdatedFiles (%d)", rt.name, nC, nL)
				continue
			}
			if nB == 0 {
				o.Unres("%s: no comparison of a listed backup name with a retention boundary derived from the clock was found in OutdatedFiles", rt.name)
				continue
			}
			all := map[string]bool{}
			for _, pt := range parts {
				for f := range pt.ing.fields {
					all[f] = true
				}
			}
			if len(all) == 0 {
				o.Unres("%s: none of the three names is built from a string field of the rule", rt.name)
				continue
			}
			for _, pt := range parts {
				var missing []string
				for f := range all {
					if !pt.ing.fields[f] {
						missing = append(missing, f)
					}
				}
				if len(missing) == 0 {
					continue
				}
				sort.Strings(missing)
				var others []string
				for _, q := range parts {
					if q.ing.fields[missing[0]] {
						others = append(others, q.what+" ("+q.at+")")
						break
					}
				}
				o.Fail(pt.at, "%s: %s is built from {%s} and not from %s, which %s contains: with a configured value other than the one spelled here the backups and what they are matched against or compared with differ – the listed backups all order below the boundary (every backup, the one just made included, is deleted), or above it (none is ever deleted), or the pattern lists files that are no backups", rt.name, pt.what, strings.Join(pt.ing.names(), ", "), strings.Join(missing, ", "), strings.Join(others, ""))
			}
		}
	})

	r.Check("D2/K1/backup-name-set-when-open", "as long as rotate renames the current file only when l.backup is non-empty (and re-creates, i.e. truncates, it either way), every function that leaves a RotateLogger with a file opened by os.Create/os.OpenFile in l.fp has set l.backup from RotateRule.BackupFilename() on that path, itself or in each of its callers [first clause: a logger re-opened on an existing file with l.backup unset skips the rename at its first rotation and os.Create truncates the file – every record written before and since the restart is lost]", func(o *core.O) {
		var loggerFns []*ssa.Function
		for _, f := range p.PkgFuncs(pkg) {
			root := f
			for root.Parent() != nil {
				root = root.Parent()
			}
			if c19IsRecvOf(root, "RotateLogger") {
				loggerFns = append(loggerFns, f)
			}
		}
		isRename := core.CallTo("os.Rename")
		isOpenW := core.CallTo("os.Create", "os.OpenFile")
		backupLoad := core.FieldLoad("RotateLogger.backup")
		isEmptyStr := func(v ssa.Value) bool { c, ok := core.ConstString(v); return ok && c == "" }
		nonEmpty := core.AnyOf(
			core.Cmp(token.GTR, core.IsLenOf(backupLoad), core.IsConstInt(0)),
			core.Cmp(token.GEQ, core.IsLenOf(backupLoad), core.IsConstInt(1)),
			core.Cmp(token.NEQ, core.IsLenOf(backupLoad), core.IsConstInt(0)),
			core.Cmp(token.NEQ, backupLoad, isEmptyStr))
		renames, guarded := 0, 0
		for _, f := range loggerFns {
			rn := core.Calls(f, isRename)
			if len(rn) == 0 {
				continue
			}
			renames += len(rn)
			if core.EdgeCount(f, nonEmpty) > 0 && core.Requires(f, isRename, nonEmpty) == nil {
				guarded++
			}
		}
		if !o.Need(renames > 0, "a RotateLogger function calling os.Rename (rotate)") {
			return
		}
		o.Site(renames, pkg)
		if guarded == 0 {
			// rotate renames whatever l.backup holds (it then has to find a name itself): nothing to require here
			return
		}

		isBackupName := func(v ssa.Value) bool {
			c, ok := v.(*ssa.Call)
			return ok && core.CallMethod("logx.RotateRule", "BackupFilename")(c)
		}
		isBk := func(in ssa.Instruction) bool {
			st, ok := in.(*ssa.Store)
			if !ok || core.FieldAddrName(st.Addr) != "RotateLogger.backup" {
				return false
			}
			for _, leaf := range gxPhiLeaves(core.Forward(st.Val)) {
				if !core.DependsOn(leaf, isBackupName) {
					return false
				}
			}
			return true
		}
		isClear := func(in ssa.Instruction) bool {
			st, ok := in.(*ssa.Store)
			if !ok || core.FieldAddrName(st.Addr) != "RotateLogger.backup" {
				return false
			}
			for _, leaf := range gxPhiLeaves(core.Forward(st.Val)) {
				if isEmptyStr(leaf) {
					return true
				}
			}
			return false
		}
		// static call sites of the functions of the package, anywhere in the package
		sites := map[*ssa.Function][]ssa.CallInstruction{}
		usedAsValue := map[*ssa.Function]bool{}
		for _, g := range p.PkgFuncs(pkg) {
			for _, b := range g.Blocks {
				for _, in := range b.Instrs {
					c, isCall := in.(ssa.CallInstruction)
					if isCall {
						if f := c.Common().StaticCallee(); f != nil {
							sites[f] = append(sites[f], c)
						}
					}
					for _, op := range in.Operands(nil) {
						if f, ok := (*op).(*ssa.Function); ok && (!isCall || c.Common().Value != ssa.Value(f)) {
							usedAsValue[f] = true
						}
					}
				}
			}
		}
		errIndex := func(f *ssa.Function) int {
			res := f.Signature.Results()
			for i := 0; i < res.Len(); i++ {
				if res.At(i).Type().String() == "error" {
					return i
				}
			}
			return -1
		}
		// unset reports a normal return of f (or of a caller f leaves it to) that is reached through
		// site with its failure edges cut, with no store of a backup name before or after site.
		var unset func(f *ssa.Function, site ssa.Instruction, failed []core.Edge, depth int) ssa.Instruction
		unset = func(f *ssa.Function, site ssa.Instruction, failed []core.Edge, depth int) ssa.Instruction {
			if _, ok := core.Reach(core.Q{From: []core.At{core.Entry(f)}, Target: core.Is(site), Blocked: isBk}); !ok {
				return nil
			}
			ret, ok := core.Reach(core.Q{From: []core.At{core.After(site)}, Target: core.IsReturn, Blocked: isBk, Cut: core.CutSet(failed)})
			if !ok {
				return nil
			}
			liftable := depth < 3 && f.Parent() == nil && f.Object() != nil && !f.Object().Exported() && !usedAsValue[f] && len(sites[f]) > 0
			if !liftable {
				return ret
			}
			for _, cs := range sites[f] {
				g := cs.Parent()
				var failedHere []core.Edge
				if call, isCall := cs.(*ssa.Call); isCall {
					if i := errIndex(f); i >= 0 {
						_, failedHere = core.EdgesOf(g, core.ErrNil(i, core.Is(call)))
					}
				}
				if w := unset(g, cs, failedHere, depth+1); w != nil {
					return w
				}
			}
			return nil
		}
		n := 0
		for _, f := range loggerFns {
			for _, c := range core.Calls(f, isOpenW) {
				call, ok := c.(*ssa.Call)
				if !ok {
					continue
				}
				var handle ssa.Value
				for _, ref := range *call.Referrers() {
					if e, ok := ref.(*ssa.Extract); ok && e.Index == 0 {
						handle = e
					}
				}
				if handle == nil {
					continue
				}
				kept := core.Instrs(f, func(in ssa.Instruction) bool {
					st, ok := in.(*ssa.Store)
					return ok && core.FieldAddrName(st.Addr) == "RotateLogger.fp" && (st.Val == handle || core.Forward(st.Val) == handle)
				})
				if len(kept) == 0 {
					continue
				}
				n++
				r.Fn(core.FuncName(f))
				_, failed := core.EdgesOf(f, core.ErrNil(1, core.Is(call)))
				// a backup name that was set is not taken back: no store of "" into l.backup lies on a path
				// through the open and reaches a successful return without a name being stored again
				for _, k := range core.Instrs(f, isClear) {
					cut := core.CutSet(failed)
					var ret ssa.Instruction
					if _, after := core.Reach(core.Q{From: []core.At{core.After(call)}, Target: core.Is(k), Cut: cut}); after {
						// emptied after the open
						ret, _ = core.Reach(core.Q{From: []core.At{core.After(k)}, Target: core.IsReturn, Blocked: isBk, Cut: cut})
					}
					if _, before := core.Reach(core.Q{From: []core.At{core.After(k)}, Target: core.Is(call), Blocked: isBk}); before && ret == nil {
						// emptied before the open and not set again up to it
						ret, _ = core.Reach(core.Q{From: []core.At{core.After(call)}, Target: core.IsReturn, Blocked: isBk, Cut: cut})
					}
					if ret != nil {
						o.Fail(p.InstrPos(k), "%s empties l.backup on a path on which it keeps the file opened by %s in l.fp and returns (%s): rotate renames the current file only when l.backup is non-empty, so the next rotation skips the rename and os.Create truncates the file", core.FuncName(f), core.Short(core.CalleeName(call)), p.InstrPos(ret))
					}
				}
				if w := unset(f, call, failed, 0); w != nil {
					o.Fail(p.InstrPos(call), "%s keeps the file opened by %s in l.fp, and %s returns (%s) without l.backup having been set from the rule's BackupFilename(): rotate renames the current file only when l.backup is non-empty, so the first rotation of this logger skips the rename and os.Create truncates the file – every record in it is lost and no backup appears", core.FuncName(f), core.Short(core.CalleeName(call)), core.FuncName(w.Parent()), p.InstrPos(w))
				}
			}
		}
		o.Site(n)
		if n == 0 {
			o.Unres("no RotateLogger function stores a file opened by os.Create/os.OpenFile into l.fp")
		}
	})
}
