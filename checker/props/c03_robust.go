package props

// Round-3 robustness helpers of the C03 rule table: guards stated on what they
// establish rather than on how they are spelled.

import (
	"go/token"
	"go/types"
	"strings"

	"godcheck/core"

	"golang.org/x/tools/go/ssa"
)

// ---- "s starts with '/'" / "s is not empty" in their equivalent spellings ----

// c03ConstPrefixCall matches the boolean calls that establish, when true, that
// the string matched by s starts with a constant prefix accepted by okPrefix:
// strings.HasPrefix(s, "<const>") and path.IsAbs(s) (= len(s) > 0 && s[0] == '/').
func c03ConstPrefixCall(s func(ssa.Value) bool, okPrefix func(string) bool) func(ssa.Value) bool {
	return func(v ssa.Value) bool {
		c, ok := v.(*ssa.Call)
		if !ok || c.Call.IsInvoke() {
			return false
		}
		switch core.Short(core.CalleeName(c)) {
		case "strings.HasPrefix":
			if len(c.Call.Args) != 2 || !s(c.Call.Args[0]) {
				return false
			}
			pre, ok := core.ConstString(c.Call.Args[1])
			return ok && okPrefix(pre)
		case "path.IsAbs":
			return len(c.Call.Args) == 1 && s(c.Call.Args[0]) && okPrefix("/")
		}
		return false
	}
}

// c03Rooted is the atom "s[0] == '/'" (s matched by pred): the byte comparison,
// or a prefix test against a constant that starts with '/'.
func c03Rooted(pred func(ssa.Value) bool) core.Atom {
	return core.AnyOf(
		core.Cmp(token.EQL, b2Index0(pred), core.IsConstInt('/')),
		core.BoolVal(c03ConstPrefixCall(pred, func(p string) bool { return strings.HasPrefix(p, "/") })),
	)
}

// c03NonEmpty is the atom "len(s) != 0": a length comparison, or a successful
// prefix test against a non-empty constant.
func c03NonEmpty(pred func(ssa.Value) bool) core.Atom {
	return core.AnyOf(
		b2NonEmpty(pred),
		core.BoolVal(c03ConstPrefixCall(pred, func(p string) bool { return len(p) > 0 })),
	)
}

// ---- "x[idx] == '/' is established wherever x[:idx] is taken" ----

// c03SameVal: the two operands denote the same value. Identical SSA values do;
// values that mention a φ-node are compared structurally down to identical
// φ-nodes (a φ's descriptor is only its source name); everything else by its
// structural access path (two loads of n.f), as the table does elsewhere.
func c03SameVal(a, b ssa.Value) bool {
	a, b = core.Strip(a), core.Strip(b)
	if a == b {
		return true
	}
	da, db := core.Describe(a), core.Describe(b)
	if !strings.Contains(da, "phi:") && !strings.Contains(db, "phi:") {
		return da == db
	}
	switch x := a.(type) {
	case *ssa.BinOp:
		y, ok := b.(*ssa.BinOp)
		if !ok || x.Op != y.Op {
			return false
		}
		if c03SameVal(x.X, y.X) && c03SameVal(x.Y, y.Y) {
			return true
		}
		return (x.Op == token.ADD || x.Op == token.MUL) && c03SameVal(x.X, y.Y) && c03SameVal(x.Y, y.X)
	case *ssa.Const:
		y, ok := b.(*ssa.Const)
		return ok && da == db && types.Identical(x.Type(), y.Type())
	}
	return false
}

// c03Tgt is a program point to be guarded: an instruction, or a CFG edge.
type c03Tgt struct {
	in   ssa.Instruction
	edge *core.Edge
}

// c03DefPoints are the program points just after the definition(s) of v: after
// the instruction for an SSA register, after every store for a load of a local
// variable held in memory (captured by a closure), the function entry for
// parameters, constants, globals, captured variables and other loads.
func c03DefPoints(f *ssa.Function, v ssa.Value) []core.At {
	if u, ok := v.(*ssa.UnOp); ok && u.Op == token.MUL {
		var out []core.At
		if al, ok := u.X.(*ssa.Alloc); ok && al.Parent() == f && al.Referrers() != nil {
			for _, r := range *al.Referrers() {
				if st, ok := r.(*ssa.Store); ok && st.Addr == ssa.Value(al) {
					out = append(out, core.After(st))
				}
			}
		}
		if len(out) == 0 {
			out = append(out, core.Entry(f))
		}
		return out
	}
	if in, ok := v.(ssa.Instruction); ok && in.Block() != nil && in.Parent() == f {
		return []core.At{core.After(in)}
	}
	return []core.At{core.Entry(f)}
}

// c03SepAt reports whether, on every path to tgt, `x[idx] == '/'` has been
// established for the values x and idx have at tgt:
//
//   - idx not a φ: no path from the definition of idx (or of x) to tgt avoids
//     every edge on which the comparison x[idx] == '/' holds (starting at the
//     definitions rather than at the entry makes a test on an earlier loop
//     iteration's value of the same SSA name not count);
//   - idx = φ(e1 … en) (`end := -1; for … { if x[i] == '/' { end = i; break } }`):
//     per incoming edge, a constant c must make tgt unreachable from the φ
//     (the conditions on the φ are evaluated for c; re-entering the φ's block
//     redefines it), and a non-constant e must satisfy the claim at that edge;
//     x must be the same value there (defined outside the φ's block and
//     dominating it).
//
// The empty string is returned when the claim holds, else a reason.
func c03SepAt(f *ssa.Function, x, idx ssa.Value, tgt c03Tgt, depth int) string {
	if depth > 3 {
		return "index defined through too many merges"
	}
	tin := tgt.in
	if tgt.edge != nil {
		tin = tgt.edge.From.Instrs[len(tgt.edge.From.Instrs)-1]
	}
	reach := func(from []core.At, cut func(core.Edge) bool) bool {
		if tgt.edge != nil && cut(*tgt.edge) {
			return false
		}
		_, ok := core.Reach(core.Q{From: from, Target: core.Is(tin), Cut: cut})
		return ok
	}
	sep := core.Cmp(token.EQL, func(v ssa.Value) bool {
		switch lk := v.(type) {
		case *ssa.Lookup:
			return !lk.CommaOk && c03SameVal(lk.Index, idx) && c03SameVal(lk.X, x)
		case *ssa.Index:
			return c03SameVal(lk.Index, idx) && c03SameVal(lk.X, x)
		}
		return false
	}, core.IsConstInt('/'))
	holds, _ := core.EdgesOf(f, sep)
	from := append(c03DefPoints(f, core.Strip(idx)), c03DefPoints(f, core.Strip(x))...)
	if !reach(from, core.CutSet(holds)) {
		return ""
	}
	if phi, ok := idx.(*ssa.Phi); ok {
		pb := phi.Block()
		_, isLoad := core.Strip(x).(*ssa.UnOp) // a variable held in memory: same access path, as elsewhere in the table
		if in, ok := core.Strip(x).(ssa.Instruction); ok && in.Block() != nil && !isLoad {
			if in.Block() == pb || !in.Block().Dominates(pb) {
				return "the string changes together with the index"
			}
		}
		for k, e := range phi.Edges {
			if c, ok := core.ConstInt(e); ok {
				concrete := core.ConcreteCut(f, func(v ssa.Value) bool { return v == ssa.Value(phi) }, c)
				cut := func(ed core.Edge) bool { return ed.To == pb || concrete(ed) }
				if tgt.edge != nil && tgt.edge.To == pb {
					cut = concrete // the guarded edge itself enters the φ's block
				}
				if reach([]core.At{core.Head(pb)}, cut) {
					return "reachable with the index " + core.Describe(e) + " (no separator was found)"
				}
				continue
			}
			ed := core.Edge{From: pb.Preds[k], To: pb}
			if why := c03SepAt(f, x, e, c03Tgt{edge: &ed}, depth+1); why != "" {
				return why
			}
		}
		return ""
	}
	return "without having established that a '/' sits at that index"
}
