package props

import (
	"godcheck/core"

	"golang.org/x/tools/go/ssa"
)

// Rule added for the seeded change C19-vm1 (round 9).
//
//  D4/K2 current-file-compared-in-listed-form
//        filepath.Glob lists names in cleaned form (every match is filepath.Join(dir, name), and
//        Join cleans), whereas the rule's file name is whatever the configuration spelled
//        ("./logs/app.log", "logs//app.log"). The comparison by which OutdatedFiles recognises the
//        current log file among the listed names (the one D4/K2/current-file-never-outdated asks
//        for) therefore has to take the rule's file name through filepath.Clean (at the comparison,
//        or at every place the field is written): compared as configured, a name that is not in
//        cleaned form equals no listed name, the guard never recognises the current file and, with
//        an empty delimiter, the clean-up unlinks the file being written.
//        Which comparisons these are is decided by the scan of D4/K2/current-file-never-outdated
//        (c19ListedScan): the ==/!= tests of a name derived from the Glob result with a value
//        derived from DailyRotateRule.filename that guard a place where the name is handed on,
//        directly or in an in-package helper the name is passed to.

// c19IsCleanCall: a call whose result is a path in cleaned form.
func c19IsCleanCall(v ssa.Value) (*ssa.Call, bool) {
	c, ok := v.(*ssa.Call)
	if !ok {
		return nil, false
	}
	switch core.Short(core.CalleeName(c)) {
	case "path/filepath.Clean", "path.Clean", "path/filepath.Join":
		return c, true
	}
	return c, false
}

// c19CleanedOnTheWay: between the field load and the comparison operand v the name passes a
// cleaning call (only local slots, conversions and cleaning calls are looked through – the same
// steps c19ElemNorm takes, so that v was recognised as the rule's file name at all).
func c19CleanedOnTheWay(v ssa.Value) bool {
	_, clean := c19IsCleanCall(core.Strip(core.Forward(v)))
	return clean
}

// c19FieldAlwaysCleaned: the field is written somewhere in the package and every value written to
// it is the result of a cleaning call (the constructors normalise the configured name).
func c19FieldAlwaysCleaned(p *core.Prog, pkg, field string) (stores int, raw *ssa.Store) {
	for _, f := range p.PkgFuncs(pkg) {
		for _, st := range core.StoresToField(f, field) {
			stores++
			ok := true
			for _, leaf := range gxPhiLeaves(core.Strip(core.Forward(st.Val))) {
				if _, clean := c19IsCleanCall(core.Strip(core.Forward(leaf))); !clean {
					ok = false
				}
			}
			if !ok && raw == nil {
				raw = st
			}
		}
	}
	return
}

func c19R10(r *core.Run, pkg string) {
	p := r.P
	const field = "DailyRotateRule.filename"

	r.Check("D4/K2/current-file-compared-in-listed-form", "per rotate rule, the comparison by which OutdatedFiles tells the current log file from the names listed by filepath.Glob compares the rule's own file name in the form Glob lists names in – cleaned: the file-name operand has passed filepath.Clean (or Join) on its way from the rule field to the comparison, or every value written to the field has [clean-up clause – never the current file, for every configured file name: Glob returns filepath.Join(dir, match), a cleaned path, so a file name configured as ./logs/app.log or logs//app.log compared as it is equals none of the listed names; the guard never recognises the current file, with an empty delimiter it is listed as outdated – it orders below every boundary and before every backup – and the clean-up unlinks the file being written, every later record is in no file]", func(o *core.O) {
		rules := c19RuleTypes(p, pkg)
		if !o.Need(len(rules) > 0, "a struct type of "+pkg+" implementing RotateRule") {
			return
		}
		w := c19NewIngWalker(p, pkg)
		mcSites, _ := c19ClosureSites(p.PkgFuncs(pkg))
		nStores, rawStore := c19FieldAlwaysCleaned(p, pkg, field)
		fieldClean := nStores > 0 && rawStore == nil
		reported := map[*ssa.BinOp]bool{}
		for _, rt := range rules {
			type cmp struct {
				at   *ssa.BinOp
				name ssa.Value
			}
			var cmps []cmp
			seen := map[*ssa.BinOp]bool{}
			globs, _, _ := c19ListedScan(w, mcSites, rt, func(at *ssa.BinOp, name, listed ssa.Value) {
				if !seen[at] {
					seen[at] = true
					cmps = append(cmps, cmp{at, name})
				}
			})
			if globs == 0 {
				o.Unres("%s: no filepath.Glob reachable from OutdatedFiles", rt.name)
				continue
			}
			if len(cmps) == 0 {
				o.Unres("%s: no comparison of a name listed by filepath.Glob with the rule's own file name guards what OutdatedFiles hands on", rt.name)
				continue
			}
			o.Site(len(cmps), rt.name)
			for _, c := range cmps {
				r.Fn(core.FuncName(c.at.Parent()))
				if c19CleanedOnTheWay(c.name) || fieldClean || reported[c.at] {
					continue
				}
				reported[c.at] = true
				why := "no function of the package writes the field"
				if rawStore != nil {
					why = core.FuncName(rawStore.Parent()) + " stores the name as configured (" + p.InstrPos(rawStore) + ")"
				}
				o.Fail(p.InstrPos(c.at), "%s: %s compares the names listed by filepath.Glob with the rule's file name as it was configured, not in cleaned form (%s): Glob lists filepath.Join(dir, match), a cleaned path, so for a file name such as ./logs/app.log or logs//app.log the comparison is never true – the current log file is not recognised, with an empty delimiter OutdatedFiles lists it (below every boundary, before every backup) and the clean-up after a rotation unlinks the file that is being written; every later record is lost", rt.name, core.FuncName(c.at.Parent()), why)
			}
		}
	})
}
