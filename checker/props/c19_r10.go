package props

import (
	"go/token"
	"go/types"

	"godcheck/core"

	"golang.org/x/tools/go/ssa"
)

// Rule added for the seeded change C19-vm1 (round 9).
//
//  D4/K2 current-file-compared-in-listed-form
//        filepath.Glob lists names in cleaned form (every match is filepath.Join(dir, name), and
//        Join cleans), whereas the rule's file name is whatever the configuration spelled
//        ("./logs/app.log", "logs//app.log"). The comparison by which OutdatedFiles recognises the
//        current log file among the listed names (the one D4/K2/current-file-never-outdated asks
//        for) therefore has to take the rule's file name through filepath.Clean (at the comparison,
//        or at every place the field is written): compared as configured, a name that is not in
//        cleaned form equals no listed name, the guard never recognises the current file and, with
//        an empty delimiter, the clean-up unlinks the file being written.
//        Which comparisons these are is decided by the scan of D4/K2/current-file-never-outdated
//        (c19ListedScan): the ==/!= tests of a name derived from the Glob result with a value
//        derived from DailyRotateRule.filename that guard a place where the name is handed on,
//        directly or in an in-package helper the name is passed to.

//  D4/K9 boundary-in-listed-form
//        the same fact on the other comparison OutdatedFiles makes with the listed names: the
//        retention boundary they are ordered against (names are compared as strings) must be in
//        cleaned form too, as far as it is made of the rule's file name – otherwise, for a file
//        name that is not in cleaned form, the order is decided by the differing prefix and not by
//        the date: every backup is outdated (the newest included) or none ever is. The boundary is
//        found as in D4/K9/backup-names-agree (the operand of a string order comparison that
//        derives from the clock while the other derives from filepath.Glob); "made of the file name
//        without cleaning" is the ingredient walk of that rule stopped at cleaning calls.

// c19IsCleanCall: a call whose result is a path in cleaned form.
func c19IsCleanCall(v ssa.Value) (*ssa.Call, bool) {
	c, ok := v.(*ssa.Call)
	if !ok {
		return nil, false
	}
	switch core.Short(core.CalleeName(c)) {
	case "path/filepath.Clean", "path.Clean", "path/filepath.Join":
		return c, true
	}
	return c, false
}

// c19CleanedOnTheWay: between the field load and the comparison operand v the name passes a
// cleaning call (only local slots, conversions and cleaning calls are looked through – the same
// steps c19ElemNorm takes, so that v was recognised as the rule's file name at all).
func c19CleanedOnTheWay(v ssa.Value) bool {
	_, clean := c19IsCleanCall(core.Strip(core.Forward(v)))
	return clean
}

// c19FieldAlwaysCleaned: the field is written somewhere in the package and every value written to
// it is the result of a cleaning call (the constructors normalise the configured name).
func c19FieldAlwaysCleaned(p *core.Prog, pkg, field string) (stores int, raw *ssa.Store) {
	for _, f := range p.PkgFuncs(pkg) {
		for _, st := range core.StoresToField(f, field) {
			stores++
			ok := true
			for _, leaf := range gxPhiLeaves(core.Strip(core.Forward(st.Val))) {
				if _, clean := c19IsCleanCall(core.Strip(core.Forward(leaf))); !clean {
					ok = false
				}
			}
			if !ok && raw == nil {
				raw = st
			}
		}
	}
	return
}

func c19R10(r *core.Run, pkg string) {
	p := r.P
	const field = "DailyRotateRule.filename"

	r.Check("D4/K9/boundary-in-listed-form", "per rotate rule, the retention boundary the names listed by filepath.Glob are ordered against (string comparison) is, as far as it is built from the rule's file name, in the form Glob lists names in – cleaned: no path from the file-name field to the boundary operand avoids filepath.Clean/Join, or every value written to the field has passed one [clean-up clause – only backups older than the retention days, never the newest, for every configured file name: Glob returns filepath.Join(dir, match); against a boundary that starts with the file name as configured (./logs/app.log, logs//app.log, z/../logs/app.log) the comparison is decided by the differing prefix, not by the date – every listed backup orders below the boundary and the clean-up removes all of them, the one just made included, or every one orders above it and none is ever removed]", func(o *core.O) {
		rules := c19RuleTypes(p, pkg)
		if !o.Need(len(rules) > 0, "a struct type of "+pkg+" implementing RotateRule") {
			return
		}
		w := c19NewIngWalker(p, pkg)
		raw := c19NewIngWalker(p, pkg)
		raw.stop = func(c *ssa.Call) bool { _, clean := c19IsCleanCall(c); return clean }
		nStores, rawStore := c19FieldAlwaysCleaned(p, pkg, field)
		fieldClean := nStores > 0 && rawStore == nil
		isOrder := func(op token.Token) bool {
			return op == token.LSS || op == token.GTR || op == token.LEQ || op == token.GEQ
		}
		isString := func(v ssa.Value) bool {
			b, ok := v.Type().Underlying().(*types.Basic)
			return ok && b.Info()&types.IsString != 0
		}
		reported := map[ssa.Instruction]bool{}
		for _, rt := range rules {
			n, named := 0, 0
			for _, g := range w.reachable(rt.outdated, 3) {
				for _, in := range core.Instrs(g, func(in ssa.Instruction) bool {
					b, ok := in.(*ssa.BinOp)
					return ok && isOrder(b.Op) && isString(b.X) && isString(b.Y)
				}) {
					b := in.(*ssa.BinOp)
					x, y := w.of(b.X), w.of(b.Y)
					var bound ssa.Value
					switch {
					case x.glob && !x.clock && y.clock && !y.glob:
						bound = b.Y
					case y.glob && !y.clock && x.clock && !x.glob:
						bound = b.X
					default:
						continue
					}
					n++
					if !w.of(bound).fields[field] {
						continue // not made of the file name at all: D4/K9/backup-names-agree
					}
					named++
					r.Fn(core.FuncName(g))
					if fieldClean || reported[in] || !raw.of(bound).fields[field] {
						continue
					}
					reported[in] = true
					why := "no function of the package writes the field"
					if rawStore != nil {
						why = core.FuncName(rawStore.Parent()) + " stores the name as configured, " + p.InstrPos(rawStore)
					}
					o.Fail(p.InstrPos(in), "%s: %s orders the names listed by filepath.Glob against a retention boundary that is built from the rule's file name as it was configured, without filepath.Clean on the way (%s): Glob lists cleaned paths, so for a file name such as ./logs/app.log or z/../logs/app.log the comparison is decided by the prefix and not by the date – no backup is ever outdated, or every backup is, the one made by this rotation included, and the clean-up removes it", rt.name, core.FuncName(g), why)
				}
			}
			o.Site(named, rt.name)
			if n == 0 {
				o.Unres("%s: no comparison of a listed backup name with a retention boundary derived from the clock was found in OutdatedFiles", rt.name)
			} else if named == 0 {
				o.Unres("%s: no retention boundary built from the rule's file name", rt.name)
			}
		}
	})

	r.Check("D4/K2/current-file-compared-in-listed-form", "per rotate rule, the comparison by which OutdatedFiles tells the current log file from the names listed by filepath.Glob compares the rule's own file name in the form Glob lists names in – cleaned: the file-name operand has passed filepath.Clean (or Join) on its way from the rule field to the comparison, or every value written to the field has [clean-up clause – never the current file, for every configured file name: Glob returns filepath.Join(dir, match), a cleaned path, so a file name configured as ./logs/app.log or logs//app.log compared as it is equals none of the listed names; the guard never recognises the current file, with an empty delimiter it is listed as outdated – it orders below every boundary and before every backup – and the clean-up unlinks the file being written, every later record is in no file]", func(o *core.O) {
		rules := c19RuleTypes(p, pkg)
		if !o.Need(len(rules) > 0, "a struct type of "+pkg+" implementing RotateRule") {
			return
		}
		w := c19NewIngWalker(p, pkg)
		mcSites, _ := c19ClosureSites(p.PkgFuncs(pkg))
		nStores, rawStore := c19FieldAlwaysCleaned(p, pkg, field)
		fieldClean := nStores > 0 && rawStore == nil
		reported := map[*ssa.BinOp]bool{}
		for _, rt := range rules {
			type cmp struct {
				at   *ssa.BinOp
				name ssa.Value
			}
			var cmps []cmp
			seen := map[*ssa.BinOp]bool{}
			globs, _, _ := c19ListedScan(w, mcSites, rt, func(at *ssa.BinOp, name, listed ssa.Value) {
				if !seen[at] {
					seen[at] = true
					cmps = append(cmps, cmp{at, name})
				}
			})
			if globs == 0 {
				o.Unres("%s: no filepath.Glob reachable from OutdatedFiles", rt.name)
				continue
			}
			if len(cmps) == 0 {
				o.Unres("%s: no comparison of a name listed by filepath.Glob with the rule's own file name guards what OutdatedFiles hands on", rt.name)
				continue
			}
			o.Site(len(cmps), rt.name)
			for _, c := range cmps {
				r.Fn(core.FuncName(c.at.Parent()))
				if c19CleanedOnTheWay(c.name) || fieldClean || reported[c.at] {
					continue
				}
				reported[c.at] = true
				why := "no function of the package writes the field"
				if rawStore != nil {
					why = core.FuncName(rawStore.Parent()) + " stores the name as configured (" + p.InstrPos(rawStore) + ")"
				}
				o.Fail(p.InstrPos(c.at), "%s: %s compares the names listed by filepath.Glob with the rule's file name as it was configured, not in cleaned form (%s): Glob lists filepath.Join(dir, match), a cleaned path, so for a file name such as ./logs/app.log or logs//app.log the comparison is never true – the current log file is not recognised, with an empty delimiter OutdatedFiles lists it (below every boundary, before every backup) and the clean-up after a rotation unlinks the file that is being written; every later record is lost", rt.name, core.FuncName(c.at.Parent()), why)
			}
		}
	})
}
