package props

import (
	"go/token"

	"godcheck/core"

	"golang.org/x/tools/go/ssa"
)

// c15RemovedKeyLeavesList: a key that the container forgets leaves the key list of its value.
//
// container.values maps a published value to the keys that carry it; getValues lists the values that have an
// entry. The entry of a value therefore has to go exactly when its last key goes, which the container decides
// from the LENGTH of the list it keeps in the map. A slice kept in a map is a header (pointer, length): filtering
// the elements through the shared backing array does not shorten the header in the map. So once the remover met
// the key in the list of its value, the entry values[value] has to be written again (with the filtered list) or
// deleted before the remover returns - else the list keeps its length, still names a key without a mapping entry
// (or one key twice), and is found non-empty when the last key of the value is removed.
func c15RemovedKeyLeavesList(r *core.Run, pkg string) {
	p := r.P
	r.Explanation += " The function that forgets a key settles values[mapping[key]] on every path after it met the key in the value's list: the entry is stored again with another list than the one read, or deleted."
	r.NotDecided += " Not decided for the key removal: that the list stored back is the filtered one element by element, and that the entry is deleted exactly when the remaining list is empty."
	r.Check("D3/K3/removed-key-leaves-its-list", "the function that forgets a key (deletes it from container.mapping) settles the entry of the key's value in container.values before it returns: on every path after it met the key in the value's key list (after the mapping lookup succeeded, where it compares no element itself), values[mapping[key]] is stored again with a list other than the one just read, or deleted; filtering the shared backing array alone leaves the stored slice header at its old length, so the list still names the forgotten key and is found non-empty when the value's last key goes [clause: the value list equals the set of distinct values of the keys currently present - keys sharing a value, deletes in any order]", func(o *core.O) {
		isMapping := func(v ssa.Value) bool { return core.IsFieldLoad(core.Forward(v), "container.mapping") }
		isValues := func(v ssa.Value) bool { return core.IsFieldLoad(core.Forward(v), "container.values") }
		// lookupOn: v is what a lookup m[..] yields (plain, or component #0 of the comma-ok form), m matched by isMap
		lookupOn := func(v ssa.Value, isMap func(ssa.Value) bool) *ssa.Lookup {
			v = core.Strip(core.Forward(v))
			if e, ok := v.(*ssa.Extract); ok && e.Index == 0 {
				v = e.Tuple
			}
			l, ok := v.(*ssa.Lookup)
			if !ok || !isMap(l.X) {
				return nil
			}
			return l
		}
		// the value the forgotten key published: read from container.mapping
		isServer := func(v ssa.Value) bool { return lookupOn(v, isMapping) != nil }
		isBuiltin := func(in ssa.Instruction, name string) *ssa.Call {
			c, ok := in.(*ssa.Call)
			if !ok {
				return nil
			}
			if b, ok := c.Call.Value.(*ssa.Builtin); !ok || b.Name() != name {
				return nil
			}
			return c
		}
		// settles: values[server] = <a list other than the one just read>, or delete(values, server)
		settles := func(in ssa.Instruction) bool {
			if mu, ok := in.(*ssa.MapUpdate); ok {
				return isValues(mu.Map) && isServer(mu.Key) && lookupOn(mu.Value, isValues) == nil
			}
			if c := isBuiltin(in, "delete"); c != nil {
				return isValues(c.Call.Args[0]) && isServer(c.Call.Args[1])
			}
			return false
		}
		n := 0
		for _, f := range p.PkgFuncs(pkg) {
			var forgets []*ssa.Call
			for _, in := range core.Instrs(f, func(in ssa.Instruction) bool {
				c := isBuiltin(in, "delete")
				return c != nil && isMapping(c.Call.Args[0])
			}) {
				forgets = append(forgets, in.(*ssa.Call))
			}
			if len(forgets) == 0 {
				continue
			}
			r.Fn(core.FuncName(f))
			for _, fg := range forgets {
				n++
				key := core.Describe(core.Forward(fg.Call.Args[1]))
				isKey := func(v ssa.Value) bool { return core.Describe(core.Forward(v)) == key }
				// an element of a key list: a string computed from what values[..] yields
				isElem := func(v ssa.Value) bool {
					if isKey(v) {
						return false
					}
					return core.DependsOn(v, func(x ssa.Value) bool {
						l, ok := x.(*ssa.Lookup)
						return ok && isValues(l.X)
					})
				}
				met, _ := core.EdgesOf(f, core.Cmp(token.EQL, isElem, isKey))
				var from []core.At
				var cut func(core.Edge) bool
				if len(met) > 0 {
					for _, e := range met {
						from = append(from, core.Head(e.To))
					}
				} else {
					// no comparison of its own (the filtering is left to a callee): every path on which the key is known
					_, unknown := core.EdgesOf(f, core.BoolVal(func(v ssa.Value) bool {
						e, ok := v.(*ssa.Extract)
						if !ok || e.Index != 1 {
							return false
						}
						l, ok := e.Tuple.(*ssa.Lookup)
						return ok && isMapping(l.X)
					}))
					from = []core.At{core.Entry(f)}
					cut = core.CutSet(unknown)
				}
				o.Site(len(from)+len(core.Instrs(f, settles)), core.FuncName(f))
				if w, _ := core.Reach(core.Q{From: from, Target: core.IsReturn, Blocked: settles, Cut: cut}); w != nil {
					o.Fail(p.InstrPos(w), "%s can return after it dropped a key from container.mapping and met it in the key list of its value without storing the shortened list into (or deleting) values[value]: the stored list keeps its length and still names the key, so the value keeps an entry after its last key was removed and Values() lists a value that no key carries", core.FuncName(f))
				}
			}
		}
		if n == 0 {
			o.Unres("no function of %s deletes from container.mapping", pkg)
		}
	})
}
