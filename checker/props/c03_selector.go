package props

import (
	"go/token"

	"godcheck/core"

	"golang.org/x/tools/go/ssa"
)

// ---- D3/K6/selector: the outcomes of the child selector ----
//
// The selector answers one of the two slots of node.children. How the slot is
// chosen is a matter of style: `if c { return n.children[1] }; return n.children[0]`,
// `k := 0; if c { k = 1 }; return n.children[k]` (the index is a φ of constants) and
// `m := n.children[0]; if c { m = n.children[1] }; return m` (the map is a φ of two
// loads) are the same function. An OUTCOME is one (return, slot) pair together with the
// CFG edge through which that slot enters the φ (nil when the return names the slot
// directly); the rule is stated on outcomes.

type c03Outcome struct {
	ret  *ssa.Return
	slot int64
	edge *core.Edge // edge into the φ-block that selects this slot; nil = the return itself
	ok   bool       // slot is a known constant
	desc string
}

// c03ChildAccess decomposes v = load of n.children[idx] and returns idx.
func c03ChildAccess(v ssa.Value) (ssa.Value, bool) {
	var idx, base ssa.Value
	switch x := v.(type) {
	case *ssa.UnOp:
		if x.Op != token.MUL {
			return nil, false
		}
		ia, ok := x.X.(*ssa.IndexAddr)
		if !ok {
			return nil, false
		}
		idx, base = ia.Index, ia.X
	case *ssa.Index:
		idx, base = x.Index, x.X
	default:
		return nil, false
	}
	if core.FieldAddrName(base) != "node.children" && core.FieldAddrNameOfLoad(base) != "node.children" {
		return nil, false
	}
	return idx, true
}

// c03FoldInt evaluates an integer expression built from constants (`0`, `0 + 1`, `1 - 1`, …).
func c03FoldInt(v ssa.Value) (int64, bool) {
	if n, ok := core.ConstInt(v); ok {
		return n, true
	}
	b, ok := core.Strip(v).(*ssa.BinOp)
	if !ok {
		return 0, false
	}
	x, ok1 := c03FoldInt(b.X)
	y, ok2 := c03FoldInt(b.Y)
	if !ok1 || !ok2 {
		return 0, false
	}
	switch b.Op {
	case token.ADD:
		return x + y, true
	case token.SUB:
		return x - y, true
	case token.MUL:
		return x * y, true
	case token.AND:
		return x & y, true
	case token.OR:
		return x | y, true
	case token.XOR:
		return x ^ y, true
	}
	return 0, false
}

// c03SelectorOutcomes lists the outcomes of one return of the selector.
func c03SelectorOutcomes(ret *ssa.Return) []c03Outcome {
	var out []c03Outcome
	gxLeavesWithEdges(core.Result(ret, 0), func(leaf ssa.Value, e1 *core.Edge) {
		idx, ok := c03ChildAccess(leaf)
		if !ok {
			out = append(out, c03Outcome{ret: ret, edge: e1, desc: core.Describe(leaf)})
			return
		}
		if n, ok := c03FoldInt(idx); ok {
			out = append(out, c03Outcome{ret: ret, slot: n, edge: e1, ok: true})
			return
		}
		if _, isPhi := core.Forward(idx).(*ssa.Phi); !isPhi || e1 != nil {
			// a computed index, or a choice of maps each with a choice of indices: not decided
			out = append(out, c03Outcome{ret: ret, edge: e1, desc: core.Describe(leaf)})
			return
		}
		gxLeavesWithEdges(idx, func(l2 ssa.Value, e2 *core.Edge) {
			if n, ok := c03FoldInt(l2); ok {
				out = append(out, c03Outcome{ret: ret, slot: n, edge: e2, ok: true})
				return
			}
			out = append(out, c03Outcome{ret: ret, edge: e2, desc: core.Describe(leaf)})
		})
	})
	return out
}

// c03OutcomeNeeds reports whether the outcome can happen only after one of the edges of
// `hold` was taken (the atom was established): with those edges cut, either the return or the
// edge selecting the slot is unreachable from the entry.
func c03OutcomeNeeds(f *ssa.Function, oc c03Outcome, hold []core.Edge) bool {
	if _, ok := core.Reach(core.Q{From: []core.At{core.Entry(f)}, Target: core.Is(oc.ret), Cut: core.CutSet(hold)}); !ok {
		return true
	}
	return oc.edge != nil && !gxEdgeReachable(f, *oc.edge, hold)
}

// c03OutcomeAfter reports whether the outcome can happen after one of the edges of `hold`
// was taken: the return is reachable from there and so is the edge selecting the slot
// (which may be the hold edge itself).
func c03OutcomeAfter(oc c03Outcome, hold []core.Edge) bool {
	if len(hold) == 0 {
		return false
	}
	heads := b2Heads(hold)
	if _, ok := core.Reach(core.Q{From: heads, Target: core.Is(oc.ret)}); !ok {
		return false
	}
	if oc.edge == nil {
		return true
	}
	if core.CutSet(hold)(*oc.edge) {
		return true
	}
	_, ok := core.Reach(core.Q{From: heads, Target: core.Is(gxLast(oc.edge.From))})
	return ok
}
