package props

import (
	"go/token"
	"go/types"
	"strings"

	"godcheck/core"

	"golang.org/x/tools/go/ssa"
)

func init() { register("C11", c11) }

const sqlx = "lib/store/sqlx"

func isRecoverResult(v ssa.Value) bool {
	c, ok := v.(*ssa.Call)
	if !ok {
		return false
	}
	b, ok := c.Call.Value.(*ssa.Builtin)
	return ok && b.Name() == "recover"
}

func c11(r *core.Run) {
	p := r.P
	defer c11Extra(r)
	r.Explanation = "Decides, on every control-flow path (incl. the arm for a body that did not return) of the transaction finaliser in lib/store/sqlx, that exactly one of Commit/Rollback runs, Commit only when the body is known to have returned normally (a flag the runner sets after the body call, never recover()!=nil, which misses panic(nil) and runtime.Goexit) and the body's error is nil, and a body that did not return is rolled back and reported; that the finaliser is deferred before the body runs and only after a successful begin; strict/partial and row/rows agreement of the query method families; the ErrNotFound and strict column-count guards of the row mapper."
	r.NotDecided = "row mapping over all destination shapes and result sets; driver faults; behaviour of database/sql."

	isCommit := core.CallMethod("sqlx.trans", "Commit")
	isRollback := core.CallMethod("sqlx.trans", "Rollback")
	errNil := core.Cmp(token.EQL, c11ErrVarLoad(p), core.IsNil) // the shared error variable (see c11_util.go), read in any form

	// role: the finalisers are the functions of the package that call trans.Commit
	var finalisers []*ssa.Function
	for _, f := range p.PkgFuncs(sqlx) {
		if len(core.Calls(f, isCommit)) > 0 {
			finalisers = append(finalisers, f)
		}
	}
	r.Check("D1/K5/commit-owner", "trans.Commit is called only by transaction finalisers, each a deferred closure of a function that also calls the body", func(o *core.O) {
		if !o.Need(len(finalisers) > 0, "a function in lib/store/sqlx calling trans.Commit") {
			return
		}
		for _, f := range finalisers {
			r.Fn(core.FuncName(f))
			o.Site(1, core.FuncName(f))
			par := f.Parent()
			if par == nil {
				o.Fail(p.Pos(f.Pos()), "%s calls Commit but is not a closure deferred by the transaction runner", core.FuncName(f))
				continue
			}
			// deferred in parent, before any call of a function-typed parameter (the body), and
			// only after begin succeeded
			isDeferOfF := func(in ssa.Instruction) bool {
				d, ok := in.(*ssa.Defer)
				if !ok {
					return false
				}
				mc, ok := d.Call.Value.(*ssa.MakeClosure)
				return ok && mc.Fn == f
			}
			defs := core.Instrs(par, isDeferOfF)
			if len(defs) == 0 {
				o.Fail(p.Pos(f.Pos()), "%s is not deferred by %s", core.FuncName(f), core.FuncName(par))
				continue
			}
			isBody := core.CallOfValue(func(v ssa.Value) bool {
				pa, ok := v.(*ssa.Parameter)
				if !ok {
					return false
				}
				sig, ok := pa.Type().Underlying().(*types.Signature)
				return ok && sig.Params().Len() == 2 && sig.Results().Len() == 1 && strings.HasSuffix(sig.Params().At(1).Type().String(), "sqlx.Session")
			})
			bodies := core.Instrs(par, isBody)
			if len(bodies) == 0 {
				o.Fail(p.Pos(par.Pos()), "%s never calls the transaction body", core.FuncName(par))
			}
			if w := core.Precedes(par, isDeferOfF, isBody); w != nil {
				o.Fail(p.InstrPos(w), "the transaction body can run before the finaliser is deferred")
			}
		}
	})

	for _, f := range finalisers {
		f := f
		name := core.FuncName(f)
		// "the body returned normally": a captured flag the runner sets only after the body call (c11_util.go).
		// recover()!=nil is NOT that fact: it is nil for panic(nil) (go.mod says go 1.19) and for runtime.Goexit.
		finished, flags, flagWhy := c11BodyReturned(p, f)
		r.Check("D1/K2/commit-guard/"+name, "Commit is reachable only where the body is known to have returned normally – a flag that the runner sets after the body call and nowhere else, tested by the finaliser – and the body's error is nil [Transact commits iff the function returns nil; a panic is rolled back: recover()==nil does not establish the former, it also holds after panic(nil) and runtime.Goexit]", func(o *core.O) {
			cs := core.Instrs(f, isCommit)
			o.Site(len(cs), name)
			if flags == 0 {
				for _, c := range cs {
					o.Fail(p.InstrPos(c), "Commit reachable although the body may not have returned: the finaliser tests no flag set by the runner after the body call%s (a body that panics with nil, or ends the goroutine, is committed and nil is returned)", c11Because(flagWhy))
				}
			} else if w := core.Requires(f, isCommit, finished); w != nil {
				o.Fail(p.InstrPos(w), "Commit reachable although the body may not have returned normally (panic, also panic(nil), or runtime.Goexit)")
			}
			if w := core.Requires(f, isCommit, errNil); w != nil {
				o.Fail(p.InstrPos(w), "Commit reachable although the body returned an error")
			}
		})
		r.Check("D1/K1/exactly-one-finalisation/"+name, "on every path of the finaliser exactly one of Commit/Rollback is executed", func(o *core.O) {
			fin := core.Or(isCommit, isRollback)
			o.Site(len(core.Instrs(f, fin)), name)
			if w := core.MustPass(core.Entry(f), fin, core.IsExit); w != nil {
				o.Fail(p.InstrPos(w), "a path through the finaliser reaches its end with neither Commit nor Rollback (transaction left open)")
			}
			if w := core.AtMostOnce(f, fin); w != nil {
				o.Fail(p.InstrPos(w), "a path finalises the transaction twice")
			}
		})
		r.Check("D1/K8/commit-error-returned/"+name, "the error returned by Commit reaches the caller: after Commit every path to the finaliser's end stores a value derived from Commit's result into the named result", func(o *core.O) {
			cs := core.Instrs(f, isCommit)
			o.Site(len(cs), name)
			for _, c := range cs {
				fromCommit := func(v ssa.Value) bool { return core.IsResult(v, 0, core.Is(c)) }
				storesIt := func(in ssa.Instruction) bool {
					st, ok := c11ErrVarStore(p, in)
					return ok && core.DependsOn(st.Val, fromCommit)
				}
				// paths on which Commit's error is known to be nil need no store
				okEdges, _ := core.EdgesOf(f, core.Cmp(token.EQL, fromCommit, core.IsNil))
				if w, ok := core.Reach(core.Q{From: []core.At{core.After(c)}, Target: core.IsExit, Blocked: storesIt, Cut: core.CutSet(okEdges)}); ok {
					if _, isPanic := w.(*ssa.Panic); !isPanic {
						o.Fail(p.InstrPos(c), "Commit's error can be lost: a path from Commit to the finaliser's end never stores it into the named result (a failed commit would be reported as success)")
					}
				}
			}
		})
		r.Check("D1/K1/panic-rolled-back-and-reported/"+name, "on the arm for a body that did not return normally (the runner's flag is unset) Rollback is called and the caller learns of it: a non-nil error is stored to the named result, or the finaliser re-panics, or it never calls recover() so that the panic goes on", func(o *core.O) {
			if flags == 0 {
				o.Site(1, name)
				o.Fail(p.Pos(f.Pos()), "finaliser has no arm for a body that did not return normally%s", c11Because(flagWhy))
				return
			}
			_, arm := core.EdgesOf(f, finished)
			o.Site(len(arm), name)
			if len(arm) == 0 {
				o.Fail(p.Pos(f.Pos()), "finaliser has no arm for a body that did not return normally")
				return
			}
			var from []core.At
			for _, e := range arm {
				from = append(from, core.Head(e.To))
			}
			if w, ok := core.Reach(core.Q{From: from, Target: core.IsExit, Blocked: isRollback}); ok {
				o.Fail(p.InstrPos(w), "body did not return (panic): a path ends without Rollback")
			}
			recovers := core.Instrs(f, func(in ssa.Instruction) bool { v, ok := in.(ssa.Value); return ok && isRecoverResult(v) })
			if len(recovers) == 0 {
				return // the panic is not stopped here: it reaches the caller by itself
			}
			reports := func(in ssa.Instruction) bool {
				switch x := in.(type) {
				case *ssa.Panic:
					return true
				case *ssa.Store:
					st, ok := c11ErrVarStore(p, x)
					return ok && !core.IsNil(st.Val)
				}
				return false
			}
			if w, ok := core.Reach(core.Q{From: from, Target: core.IsReturn, Blocked: reports}); ok {
				o.Fail(p.InstrPos(w), "recovered panic: the finaliser returns without reporting it (the caller receives the body's nil error)")
			}
		})
	}

	// ---- D2: method families ----
	families := []string{"commonConn", "statement", "txSession"}
	r.Check("D2/K9/strict-and-rows-agree-with-name", "every Query…Ctx method scans with unmarshalRows iff its name says Rows, strict=false iff its name says Partial, into its own destination", func(o *core.O) {
		n := 0
		for _, typ := range families {
			for _, m := range p.Methods(sqlx, typ) {
				name := m.Name()
				if !strings.HasPrefix(name, "Query") || !strings.HasSuffix(name, "Ctx") {
					continue
				}
				r.Fn(core.FuncName(m))
				var calls []ssa.CallInstruction
				for _, f := range core.WithAnon(m) {
					calls = append(calls, core.Calls(f, core.CallTo("lib/store/sqlx.unmarshalRow", "lib/store/sqlx.unmarshalRows"))...)
				}
				if len(calls) != 1 {
					o.Fail(p.Pos(m.Pos()), "%s: expected exactly one row-mapper call, found %d", core.FuncName(m), len(calls))
					continue
				}
				n++
				c := calls[0]
				callee := core.Short(core.CalleeName(c))
				wantRows := strings.Contains(name, "Rows")
				if wantRows != strings.HasSuffix(callee, "unmarshalRows") {
					o.Fail(p.InstrPos(c), "%s scans with %s", core.FuncName(m), callee)
				}
				args := core.Args(c)
				strict := core.Describe(args[2])
				wantStrict := "const:true"
				if strings.Contains(name, "Partial") {
					wantStrict = "const:false"
				}
				if strict != wantStrict {
					o.Fail(p.InstrPos(c), "%s passes strict=%s, its name requires %s", core.FuncName(m), strict, wantStrict)
				}
				if !core.DependsOn(args[0], core.ParamOrCaptured(m, 2)) {
					o.Fail(p.InstrPos(c), "%s does not scan into its destination argument", core.FuncName(m))
				}
				if _, ok := core.Strip(args[1]).(*ssa.Parameter); !ok {
					o.Fail(p.InstrPos(c), "%s does not scan the rows it was handed", core.FuncName(m))
				}
			}
		}
		o.Site(n)
		if n < 12 {
			o.Fail("lib/store/sqlx", "only %d query methods found (12 confirmed on the pinned tree)", n)
		}
	})
	r.Check("D2/K9/context-free-twins", "every context-free session method delegates to its …Ctx twin with context.Background() and its parameters in order, returning its results", func(o *core.O) {
		n := 0
		for _, typ := range families {
			ms := p.Methods(sqlx, typ)
			byName := map[string]*ssa.Function{}
			for _, m := range ms {
				byName[m.Name()] = m
			}
			for _, m := range ms {
				twin := byName[m.Name()+"Ctx"]
				if twin == nil {
					continue
				}
				n++
				r.Fn(core.FuncName(m))
				checkTwin(o, p, m, twin)
			}
		}
		o.Site(n)
		if n < 18 {
			o.Fail("lib/store/sqlx", "only %d twin pairs found (18 confirmed on the pinned tree)", n)
		}
	})
	r.Check("D2/K2/transact-under-breaker", "TransactCtx runs the transaction inside brk.DoWithAcceptable(…, db.acceptable), passes the caller's body through and returns the breaker's error", func(o *core.O) {
		f := p.Func(sqlx, "commonConn", "TransactCtx")
		if !o.Need(f != nil, "sqlx.commonConn.TransactCtx") {
			return
		}
		r.Fn(core.FuncName(f))
		brk := core.Calls(f, core.CallMethod("breaker.Breaker", "DoWithAcceptable"))
		o.Site(len(brk), core.FuncName(f))
		if len(brk) != 1 {
			o.Fail(p.Pos(f.Pos()), "expected one DoWithAcceptable call, found %d", len(brk))
			return
		}
		args := core.Args(brk[0])
		acc := p.Func(sqlx, "commonConn", "acceptable")
		if mc, ok := core.Strip(args[2]).(*ssa.MakeClosure); !ok || acc == nil || mc.Fn.(*ssa.Function).Object() != acc.Object() {
			o.Fail(p.InstrPos(brk[0]), "the acceptable predicate is %s, expected db.acceptable", core.Describe(args[2]))
		}
		mc, ok := core.Strip(args[1]).(*ssa.MakeClosure)
		if !ok {
			o.Fail(p.InstrPos(brk[0]), "the protected function is not a closure")
			return
		}
		body := mc.Fn.(*ssa.Function)
		// by role: the transaction runners are the functions that defer a finaliser; the protected
		// closure must call (possibly through in-package hand-over functions) one of them
		runners := map[*ssa.Function]bool{}
		for _, fin := range finalisers {
			if fin.Parent() != nil {
				runners[fin.Parent()] = true
			}
		}
		var reaches func(g *ssa.Function, depth int) bool
		reaches = func(g *ssa.Function, depth int) bool {
			if g == nil || depth > 3 {
				return false
			}
			if runners[g] {
				return true
			}
			for _, c := range core.Calls(g, func(in ssa.Instruction) bool { _, ok := in.(*ssa.Call); return ok }) {
				if callee := c.Common().StaticCallee(); callee != nil && callee.Pkg == g.Pkg && callee != g && reaches(callee, depth+1) {
					return true
				}
			}
			return false
		}
		isRun := func(in ssa.Instruction) bool {
			c, ok := in.(*ssa.Call)
			if !ok {
				return false
			}
			callee := c.Call.StaticCallee()
			return callee != nil && callee.Pkg == body.Pkg && reaches(callee, 0)
		}
		tc := core.Calls(body, isRun)
		if len(tc) == 0 {
			o.Fail(p.Pos(body.Pos()), "the protected closure does not run the transaction")
		}
		passesBody := func(c ssa.CallInstruction, pred func(ssa.Value) bool) bool {
			for _, a := range c.Common().Args {
				if pred(a) {
					return true
				}
			}
			return false
		}
		for _, c := range tc {
			if !passesBody(c, core.CapturedParam(f, 2)) {
				o.Fail(p.InstrPos(c), "the caller's transaction body is not passed through")
			}
			for _, ret := range core.Returns(body) {
				if !core.IsResult(core.Result(ret, 0), 0, core.Is(c)) {
					o.Fail(p.InstrPos(ret), "the transaction's error is not returned to the breaker")
				}
			}
		}
		for _, ret := range core.Returns(f) {
			if !core.DependsOn(ret.Results[0], func(v ssa.Value) bool { return core.IsResult(v, 0, core.Is(brk[0])) }) &&
				!core.IsResult(core.Result(ret, 0), 0, core.Is(brk[0])) {
				o.Fail(p.InstrPos(ret), "TransactCtx does not return the breaker's result")
			}
		}
		// every hand-over function between the closure and the runner passes one of its own
		// function-typed parameters on (the body)
		for _, c := range tc {
			g := c.Common().StaticCallee()
			for depth := 0; g != nil && !runners[g] && depth < 3; depth++ {
				r.Fn(core.FuncName(g))
				var next *ssa.Function
				for _, cc := range core.Calls(g, isRun) {
					o.Site(1)
					ok := passesBody(cc, func(v ssa.Value) bool {
						pa, isP := core.Strip(core.Forward(core.Strip(v))).(*ssa.Parameter)
						if !isP || pa.Parent() != g {
							return false
						}
						_, isF := pa.Type().Underlying().(*types.Signature)
						return isF
					})
					if !ok {
						o.Fail(p.InstrPos(cc), "%s does not pass the body through", core.FuncName(g))
					}
					next = cc.Common().StaticCallee()
				}
				g = next
			}
		}
	})

	// ---- D3: row mapper guards ----
	r.Check("D3/K2/not-found-iff-empty", "unmarshalRow returns ErrNotFound only when Next() is false and Err() is nil, and never scans in that case", func(o *core.O) {
		f := p.Func(sqlx, "", "unmarshalRow")
		if !o.Need(f != nil, "sqlx.unmarshalRow") {
			return
		}
		r.Fn(core.FuncName(f))
		isNext := core.CallMethod("sqlx.rowsScanner", "Next")
		isErr := core.CallMethod("sqlx.rowsScanner", "Err")
		isScan := core.CallMethod("sqlx.rowsScanner", "Scan")
		retNF := func(in ssa.Instruction) bool {
			ret, ok := in.(*ssa.Return)
			return ok && core.IsGlobal(sqlx, "ErrNotFound")(core.Result(ret, 0))
		}
		nf := core.Instrs(f, retNF)
		o.Site(len(nf), core.FuncName(f))
		if len(nf) == 0 {
			o.Fail(p.Pos(f.Pos()), "unmarshalRow never returns ErrNotFound")
			return
		}
		hasNext := core.BoolVal(func(v ssa.Value) bool { return core.IsResult(v, 0, isNext) })
		if w := core.Requires(f, retNF, core.Not(hasNext)); w != nil {
			o.Fail(p.InstrPos(w), "ErrNotFound returned although Next() reported a row")
		}
		if w := core.Requires(f, retNF, core.ErrNil(0, isErr)); w != nil {
			o.Fail(p.InstrPos(w), "ErrNotFound returned although Err() reported an iteration error (or Err() is not consulted)")
		}
		_, empty := core.EdgesOf(f, hasNext)
		if w := core.ReachableFromEdges(empty, isScan, nil); w != nil {
			o.Fail(p.InstrPos(w), "Scan reachable although Next() was false")
		}
		var from []core.At
		for _, e := range empty {
			from = append(from, core.Head(e.To))
		}
		core.Reach(core.Q{From: from, Target: func(in ssa.Instruction) bool {
			if ret, ok := in.(*ssa.Return); ok {
				v := core.Result(ret, 0)
				if !core.IsGlobal(sqlx, "ErrNotFound")(v) && !core.IsResult(v, 0, isErr) {
					o.Fail(p.InstrPos(in), "empty result returns %s instead of ErrNotFound / the iteration error", core.Describe(v))
				}
			}
			return false
		}})
	})
	r.Check("D3/K2/strict-column-count", "mapStructFieldsIntoSlice rejects len(columns) < len(fields) exactly in strict mode, before any mapping; the only other rejection with ErrNotMatchDestination is that of a result with more columns than fields, and only when mapping by position (no tags); tagged fields are looked up by column name", func(o *core.O) {
		f := p.Func(sqlx, "", "mapStructFieldsIntoSlice")
		if !o.Need(f != nil, "sqlx.mapStructFieldsIntoSlice") {
			return
		}
		r.Fn(core.FuncName(f))
		isFields := func(v ssa.Value) bool { return core.IsResult(v, 0, core.CallTo("lib/store/sqlx.unwrapFields")) }
		// len(fields) − len(columns) > 0 in any spelling (`len(columns) < len(fields)`, `len(fields) > len(columns)`,
		// `missing := len(fields)-len(columns); missing > 0`, …); the non-strict form (≥, which would also reject an
		// exactly matching result) is not accepted
		// (c11ColumnsAlg, c11_r9.go: "columns" is also a slice made with len(columns) elements – `len(values)`)
		alg := c11ColumnsAlg(f, isFields, nil)
		fewer := core.CmpPoly(alg, core.ParsePoly("len(fields) - len(columns)"), false)
		// since fix 43ca335: more columns than fields cannot be mapped by position; that rejection is
		// not the strict one (it applies to Partial queries too) and is recognised by its own guard
		surplus := core.CmpPoly(alg, core.ParsePoly("len(columns) - len(fields)"), false)
		untagged := core.EmptyLen(func(v ssa.Value) bool {
			return core.IsResult(core.Strip(core.Forward(v)), 0, core.CallTo("lib/store/sqlx.getTaggedFieldValueMap"))
		})
		strict := core.BoolVal(core.ParamAt(f, 2))
		isNM := func(in ssa.Instruction) bool {
			ret, ok := in.(*ssa.Return)
			return ok && core.IsGlobal(sqlx, "ErrNotMatchDestination")(core.Result(ret, 1))
		}
		var surplusRets []ssa.Instruction
		for _, in := range core.Instrs(f, isNM) {
			if core.EdgeCount(f, surplus) > 0 && core.Requires(f, core.Is(in), surplus) == nil {
				surplusRets = append(surplusRets, in)
				if w := core.Requires(f, core.Is(in), untagged); w != nil {
					o.Fail(p.InstrPos(w), "a result with more columns than fields is rejected although the destination is tagged (surplus columns of a tagged destination are discarded, not an error)")
				}
			}
		}
		retNM := func(in ssa.Instruction) bool { return isNM(in) && !core.Is(surplusRets...)(in) }
		rs := core.Instrs(f, retNM)
		o.Site(len(rs)+core.EdgeCount(f, fewer), core.FuncName(f))
		if len(rs) == 0 || core.EdgeCount(f, fewer) == 0 {
			o.Fail(p.Pos(f.Pos()), "no rejection of len(columns) < len(fields) with ErrNotMatchDestination")
			return
		}
		if w := core.Requires(f, retNM, strict); w != nil {
			o.Fail(p.InstrPos(w), "ErrNotMatchDestination reachable in non-strict (Partial) mode")
		}
		if w := core.Requires(f, retNM, fewer); w != nil {
			o.Fail(p.InstrPos(w), "ErrNotMatchDestination reachable although the result has enough columns")
		}
		// in strict mode with fewer columns nothing is mapped: from the edges where both hold only the error return is reachable
		sh, _ := core.EdgesOf(f, strict)
		fh, _ := core.EdgesOf(f, fewer)
		_ = sh
		isMapping := core.Or(core.CallTo("lib/store/sqlx.getTaggedFieldValueMap"), func(in ssa.Instruction) bool { _, ok := in.(*ssa.MakeSlice); return ok })
		// the `fewer` edge is only taken after `strict` held (short-circuit) – require that some fewer-edge leads to nothing but the error
		okEdge := false
		for _, e := range fh {
			if w := core.ReachableFromEdges([]core.Edge{e}, isMapping, nil); w == nil {
				okEdge = true
			}
		}
		if !okEdge {
			o.Fail(p.Pos(f.Pos()), "mapping continues after the strict column-count test failed")
		}
		// the strict test precedes all mapping work
		if w := core.Precedes(f, func(in ssa.Instruction) bool {
			iff, ok := in.(*ssa.If)
			if !ok {
				return false
			}
			m, _ := strict(iff.Cond)
			return m
		}, isMapping); w != nil {
			o.Fail(p.InstrPos(w), "mapping work starts before the strict column-count test")
		}
		// tagged lookup by column name
		look := core.Instrs(f, func(in ssa.Instruction) bool {
			l, ok := in.(*ssa.Lookup)
			return ok && core.IsResult(l.X, 0, core.CallTo("lib/store/sqlx.getTaggedFieldValueMap"))
		})
		if len(look) == 0 {
			o.Fail(p.Pos(f.Pos()), "tagged fields are not looked up in the tag map")
		}
		for _, l := range look {
			if !core.DependsOn(l.(*ssa.Lookup).Index, core.ParamAt(f, 1)) {
				o.Fail(p.InstrPos(l), "tag map lookup key does not come from the column names")
			}
		}
	})
}

// checkTwin decides that m is a pure delegation to twin: twin(recv, context.Background(), params in order).
func checkTwin(o *core.O, p *core.Prog, m, twin *ssa.Function) {
	isTwin := func(in ssa.Instruction) bool {
		c := core.AsCall(in)
		return c != nil && c.Common().StaticCallee() == twin
	}
	cs := core.Calls(m, isTwin)
	if len(cs) != 1 {
		o.Fail(p.Pos(m.Pos()), "%s does not delegate to %s exactly once (calls: %d)", core.FuncName(m), twin.Name(), len(cs))
		return
	}
	c := cs[0]
	args := c.Common().Args
	// args[0] receiver, args[1] context, then m's params after its receiver
	if len(args) != len(m.Params)+1 {
		o.Fail(p.InstrPos(c), "%s passes %d arguments to %s, expected %d", core.FuncName(m), len(args), twin.Name(), len(m.Params)+1)
		return
	}
	if pa, ok := core.Strip(core.Forward(args[0])).(*ssa.Parameter); !ok || pa != m.Params[0] {
		o.Fail(p.InstrPos(c), "%s delegates on a different receiver", core.FuncName(m))
	}
	if cc, ok := args[1].(*ssa.Call); !ok || core.CalleeName(cc) != "context.Background" {
		o.Fail(p.InstrPos(c), "%s does not pass context.Background()", core.FuncName(m))
	}
	for i := 1; i < len(m.Params); i++ {
		a := core.Strip(core.Forward(args[i+1]))
		if mc, ok := a.(*ssa.MakeClosure); ok {
			// adapter closure (e.g. func(ctx, s) → fn(s)): must call the original parameter
			fn := mc.Fn.(*ssa.Function)
			if len(core.Instrs(fn, core.CallOfValue(core.IsFreeVar(m.Params[i].Name())))) == 0 {
				o.Fail(p.InstrPos(c), "%s: adapter for parameter %s does not call it", core.FuncName(m), m.Params[i].Name())
			}
			continue
		}
		if pa, ok := a.(*ssa.Parameter); !ok || pa != m.Params[i] {
			o.Fail(p.InstrPos(c), "%s passes %s where parameter %s belongs (arguments permuted or replaced)", core.FuncName(m), core.Describe(args[i+1]), m.Params[i].Name())
		}
	}
	for _, ret := range core.Returns(m) {
		for i := range ret.Results {
			v := core.Result(ret, i)
			cc, idx := core.ResultOf(v)
			if cc == nil || ssa.Instruction(cc) != ssa.Instruction(c.(*ssa.Call)) || idx != i {
				o.Fail(p.InstrPos(ret), "%s does not return result #%d of %s", core.FuncName(m), i, twin.Name())
			}
		}
	}
}
