package props

import (
	"go/token"
	"go/types"
	"strings"

	"godcheck/core"

	"golang.org/x/tools/go/ssa"
)

func init() { register("C11", c11) }

const sqlx = "lib/store/sqlx"

func isErrPtrFreeVarLoad(v ssa.Value) bool {
	u, ok := v.(*ssa.UnOp)
	if !ok || u.Op != token.MUL {
		return false
	}
	fv, ok := u.X.(*ssa.FreeVar)
	if !ok {
		return false
	}
	p, ok := fv.Type().(*types.Pointer)
	return ok && p.Elem().String() == "error"
}

func isRecoverResult(v ssa.Value) bool {
	c, ok := v.(*ssa.Call)
	if !ok {
		return false
	}
	b, ok := c.Call.Value.(*ssa.Builtin)
	return ok && b.Name() == "recover"
}

func c11(r *core.Run) {
	p := r.P
	r.Explanation = "Decides, on every control-flow path (incl. the recover arm) of the transaction finaliser in lib/store/sqlx, that exactly one of Commit/Rollback runs, Commit only when no panic was recovered and the body's error is nil, and a recovered panic is rolled back and reported; that the finaliser is deferred before the body runs and only after a successful begin; strict/partial and row/rows agreement of the query method families; the ErrNotFound and strict column-count guards of the row mapper."
	r.NotDecided = "row mapping over all destination shapes and result sets; driver faults; behaviour of database/sql."

	isCommit := core.CallMethod("sqlx.trans", "Commit")
	isRollback := core.CallMethod("sqlx.trans", "Rollback")
	recoverNil := core.Cmp(token.EQL, isRecoverResult, core.IsNil)
	errNil := core.Cmp(token.EQL, isErrPtrFreeVarLoad, core.IsNil)

	// role: the finalisers are the functions of the package that call trans.Commit
	var finalisers []*ssa.Function
	for _, f := range p.PkgFuncs(sqlx) {
		if len(core.Calls(f, isCommit)) > 0 {
			finalisers = append(finalisers, f)
		}
	}
	r.Check("D1/K5/commit-owner", "trans.Commit is called only by transaction finalisers, each a deferred closure of a function that also calls the body", func(o *core.O) {
		if !o.Need(len(finalisers) > 0, "a function in lib/store/sqlx calling trans.Commit") {
			return
		}
		for _, f := range finalisers {
			r.Fn(core.FuncName(f))
			o.Site(1, core.FuncName(f))
			par := f.Parent()
			if par == nil {
				o.Fail(p.Pos(f.Pos()), "%s calls Commit but is not a closure deferred by the transaction runner", core.FuncName(f))
				continue
			}
			// deferred in parent, before any call of a function-typed parameter (the body), and
			// only after begin succeeded
			isDeferOfF := func(in ssa.Instruction) bool {
				d, ok := in.(*ssa.Defer)
				if !ok {
					return false
				}
				mc, ok := d.Call.Value.(*ssa.MakeClosure)
				return ok && mc.Fn == f
			}
			defs := core.Instrs(par, isDeferOfF)
			if len(defs) == 0 {
				o.Fail(p.Pos(f.Pos()), "%s is not deferred by %s", core.FuncName(f), core.FuncName(par))
				continue
			}
			isBody := core.CallOfValue(func(v ssa.Value) bool {
				pa, ok := v.(*ssa.Parameter)
				if !ok {
					return false
				}
				sig, ok := pa.Type().Underlying().(*types.Signature)
				return ok && sig.Params().Len() == 2 && sig.Results().Len() == 1 && strings.HasSuffix(sig.Params().At(1).Type().String(), "sqlx.Session")
			})
			bodies := core.Instrs(par, isBody)
			if len(bodies) == 0 {
				o.Fail(p.Pos(par.Pos()), "%s never calls the transaction body", core.FuncName(par))
			}
			if w := core.Precedes(par, isDeferOfF, isBody); w != nil {
				o.Fail(p.InstrPos(w), "the transaction body can run before the finaliser is deferred")
			}
		}
	})

	for _, f := range finalisers {
		f := f
		name := core.FuncName(f)
		r.Check("D1/K2/commit-guard/"+name, "Commit is reachable only when recover()==nil and the body's error is nil", func(o *core.O) {
			cs := core.Instrs(f, isCommit)
			o.Site(len(cs), name)
			if core.EdgeCount(f, recoverNil) == 0 {
				o.Fail(p.Pos(f.Pos()), "finaliser never tests recover()")
			}
			if w := core.Requires(f, isCommit, recoverNil); w != nil {
				o.Fail(p.InstrPos(w), "Commit reachable although a panic was recovered (or recover() is not tested)")
			}
			if w := core.Requires(f, isCommit, errNil); w != nil {
				o.Fail(p.InstrPos(w), "Commit reachable although the body returned an error")
			}
		})
		r.Check("D1/K1/exactly-one-finalisation/"+name, "on every path of the finaliser exactly one of Commit/Rollback is executed", func(o *core.O) {
			fin := core.Or(isCommit, isRollback)
			o.Site(len(core.Instrs(f, fin)), name)
			if w := core.MustPass(core.Entry(f), fin, core.IsExit); w != nil {
				o.Fail(p.InstrPos(w), "a path through the finaliser reaches its end with neither Commit nor Rollback (transaction left open)")
			}
			if w := core.AtMostOnce(f, fin); w != nil {
				o.Fail(p.InstrPos(w), "a path finalises the transaction twice")
			}
		})
		r.Check("D1/K1/panic-rolled-back-and-reported/"+name, "on the recover()!=nil arm Rollback is called and the caller learns of it (non-nil error stored to the named result, or re-panic)", func(o *core.O) {
			_, arm := core.EdgesOf(f, recoverNil)
			o.Site(len(arm), name)
			if len(arm) == 0 {
				o.Fail(p.Pos(f.Pos()), "finaliser has no recover()!=nil arm")
				return
			}
			var from []core.At
			for _, e := range arm {
				from = append(from, core.Head(e.To))
			}
			if w, ok := core.Reach(core.Q{From: from, Target: core.IsExit, Blocked: isRollback}); ok {
				o.Fail(p.InstrPos(w), "recovered panic: a path ends without Rollback")
			}
			reports := func(in ssa.Instruction) bool {
				switch x := in.(type) {
				case *ssa.Panic:
					return true
				case *ssa.Store:
					fv, ok := x.Addr.(*ssa.FreeVar)
					if !ok {
						return false
					}
					pt, ok := fv.Type().(*types.Pointer)
					return ok && pt.Elem().String() == "error" && !core.IsNil(x.Val)
				}
				return false
			}
			if w, ok := core.Reach(core.Q{From: from, Target: core.IsReturn, Blocked: reports}); ok {
				o.Fail(p.InstrPos(w), "recovered panic: the finaliser returns without reporting it (the caller receives the body's nil error)")
			}
		})
	}
}
