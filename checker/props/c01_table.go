package props

import (
	"go/token"
	"go/types"
	"strings"

	"godcheck/core"

	"golang.org/x/tools/go/ssa"
)

// ---- constant package-level lookup tables in finite predicates (K6/K13) ----
//
// A predicate over a finite set of constants may be spelled as a lookup in a
// package-level map literal instead of a switch (`return !bad[code]`,
// `_, hit := bad[code]; return !hit`). boolEval decides such a lookup exactly
// like a comparison with a constant: for one concrete choice of the subject the
// lookup has one value, provided the map is provably the literal it is
// initialised with.

// c01Table is the content of a provably constant package-level map: keys by
// their token (tokenOf of the key constant), the element as "true"/"false" for
// boolean elements and "" for anything else (only presence is meaningful then).
type c01Table struct {
	elem map[string]string
}

var c01TableCache = map[*ssa.Global]*c01Table{}

// c01TableOf returns the content of the package-level map variable g when g is
// stored to exactly once, in its package initialiser, with a fresh make(map…)
// that is filled before that store, in the same block, by updates with constant
// keys and constant (or empty-struct) elements and is used for nothing else;
// and every other mention of g — in its package, or in the whole program when g
// is exported — is a load whose value is only looked up, ranged over or measured
// with len (no update, no delete, no hand-over to a call, no copy, no address
// taken). nil otherwise. Same conditions as core.Eval's constant map globals.
func c01TableOf(g *ssa.Global) *c01Table {
	if t, ok := c01TableCache[g]; ok {
		return t
	}
	t := c01TableOf1(g)
	c01TableCache[g] = t
	return t
}

func c01TableOf1(g *ssa.Global) *c01Table {
	if g == nil || g.Pkg == nil {
		return nil
	}
	pt, ok := g.Type().Underlying().(*types.Pointer)
	if !ok {
		return nil
	}
	if _, ok := pt.Elem().Underlying().(*types.Map); !ok {
		return nil
	}
	initFn := g.Pkg.Func("init")
	if initFn == nil {
		return nil
	}
	pkgs := []*ssa.Package{g.Pkg}
	if g.Object() == nil || g.Object().Exported() {
		pkgs = g.Pkg.Prog.AllPackages()
	}
	var out *c01Table
	stores := 0
	for _, sp := range pkgs {
		for _, f := range core.SSAPkgFuncs(g.Pkg.Prog, sp) {
			for _, b := range f.Blocks {
				for _, in := range b.Instrs {
					uses := false
					for _, op := range in.Operands(nil) {
						if *op == ssa.Value(g) {
							uses = true
						}
					}
					if !uses {
						continue
					}
					switch x := in.(type) {
					case *ssa.Store:
						if x.Addr != ssa.Value(g) || f != initFn {
							return nil
						}
						stores++
						if out = c01LiteralTable(x); out == nil {
							return nil
						}
					case *ssa.UnOp:
						if x.Op != token.MUL || !c01TableReadOnly(x) {
							return nil
						}
					case *ssa.DebugRef:
					default:
						return nil
					}
				}
			}
		}
	}
	if stores != 1 {
		return nil
	}
	return out
}

// c01TableReadOnly: the loaded map value is only looked up, ranged over or measured.
func c01TableReadOnly(v ssa.Value) bool {
	refs := v.Referrers()
	if refs == nil {
		return false
	}
	for _, r := range *refs {
		switch x := r.(type) {
		case *ssa.Lookup:
			if x.X != v || x.Index == v {
				return false
			}
		case *ssa.Range, *ssa.DebugRef:
		case *ssa.Call:
			bi, ok := x.Call.Value.(*ssa.Builtin)
			if !ok || bi.Name() != "len" {
				return false
			}
		default:
			return false
		}
	}
	return true
}

// c01LiteralTable reads `map[K]V{k0: v0, …}` as lowered into the block of the store st.
func c01LiteralTable(st *ssa.Store) *c01Table {
	mk, ok := st.Val.(*ssa.MakeMap)
	if !ok || mk.Block() != st.Block() || mk.Referrers() == nil {
		return nil
	}
	pos := map[ssa.Instruction]int{}
	for i, in := range st.Block().Instrs {
		pos[in] = i
	}
	out := &c01Table{elem: map[string]string{}}
	for _, r := range *mk.Referrers() {
		switch x := r.(type) {
		case *ssa.MapUpdate:
			k, isC := x.Key.(*ssa.Const)
			if x.Map != ssa.Value(mk) || x.Block() != st.Block() || pos[x] > pos[st] || !isC || k.Value == nil {
				return nil
			}
			key := tokenOf(k)
			if _, dup := out.elem[key]; dup || key == "" {
				return nil
			}
			v, isC := x.Value.(*ssa.Const)
			if !isC {
				return nil
			}
			switch {
			case v.Value == nil:
				// the unique value of an empty struct type (a set); any other non-constant element is not modelled
				s, isStruct := v.Type().Underlying().(*types.Struct)
				if !isStruct || s.NumFields() != 0 {
					return nil
				}
				out.elem[key] = ""
			case v.Value.String() == bTrue || v.Value.String() == bFalse:
				out.elem[key] = v.Value.String()
			default:
				out.elem[key] = ""
			}
		case *ssa.Store:
			if x != st {
				return nil
			}
		case *ssa.DebugRef:
		default:
			return nil
		}
	}
	return out
}

// tableLookup decides v when it is (a result of) a lookup of the subject in a
// constant package-level map: `m[s]` of a map with boolean elements, or the
// element / presence of `e, ok := m[s]`. For the choice "other" the lookup
// misses, which is only known when every key of the table is one of the tokens
// the rule enumerates (e.domain): a table with a further key distinguishes a
// value the rule does not try. ok=false: not such a lookup, or not decidable.
func (e *boolEval) tableLookup(v ssa.Value) (string, bool) {
	res := 0
	lk, isLk := v.(*ssa.Lookup)
	if ex, isEx := v.(*ssa.Extract); isEx {
		l, ok := ex.Tuple.(*ssa.Lookup)
		if !ok || !l.CommaOk {
			return "", false
		}
		lk, isLk, res = l, true, ex.Index
	} else if isLk && lk.CommaOk {
		return "", false // the tuple itself
	}
	if !isLk || !e.subject(lk.Index) {
		return "", false
	}
	mt, isMap := lk.X.Type().Underlying().(*types.Map)
	if !isMap {
		return "", false
	}
	ld, ok := core.Forward(lk.X).(*ssa.UnOp)
	if !ok || ld.Op != token.MUL {
		return "", false
	}
	g, ok := ld.X.(*ssa.Global)
	if !ok {
		return "", false
	}
	tab := c01TableOf(g)
	if tab == nil {
		return "", false
	}
	val, present := tab.elem[e.choice]
	switch {
	case strings.HasPrefix(e.choice, "const:"):
		// a constant is a key of the table or it is not
	case e.choice == "other":
		if e.domain == nil {
			return "", false
		}
		for k := range tab.elem {
			if !e.domain[k] {
				return "", false
			}
		}
		present = false
	default:
		return "", false // nil, the run-time value of a variable: may or may not equal a key
	}
	if res == 1 {
		if present {
			return bTrue, true
		}
		return bFalse, true
	}
	bt, isBasic := mt.Elem().Underlying().(*types.Basic)
	if !isBasic || bt.Info()&types.IsBoolean == 0 {
		return "", false
	}
	if !present {
		return bFalse, true // zero value of a boolean element
	}
	if val == "" {
		return "", false
	}
	return val, true
}
