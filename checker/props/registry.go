// Package props holds one rule table per property.
package props

import "godcheck/core"

// Rule is the rule table of one property.
type Rule struct {
	Run      func(r *core.Run)
	NeedsAll bool // thorough tier wants dependency bodies (VTA call graph)
}

// Registry maps property ids to their rule tables.
var Registry = map[string]Rule{}

func register(id string, f func(r *core.Run)) { Registry[id] = Rule{Run: f} }
