// Package props holds one rule table per property.
package props

import (
	"strings"

	"godcheck/core"
)

// Rule is the rule table of one property.
type Rule struct {
	Run      func(r *core.Run)
	NeedsAll bool // thorough tier wants dependency bodies (VTA call graph)
}

// Registry maps property ids to their rule tables.
var Registry = map[string]Rule{}

func register(id string, f func(r *core.Run)) { Registry[id] = Rule{Run: f} }

// imp names obligations of another property's table that are also evaluated
// under a property because its behaviour rests on that mechanism.
type imp struct {
	From, Prefix string
	Keep         func(key string) bool
	Why          string
}

var imports = map[string][]imp{
	"C01": {{From: "C09", Prefix: "W/", Keep: func(k string) bool { return strings.HasPrefix(k, "D1/") },
		Why: "the breaker's history is a RollingWindow: its lock discipline and bucket-exact advance/expiry/reduce formulas (C09-D1) are necessary for 'outcomes over the trailing 10 s'"}},
	"C06": {{From: "C18", Prefix: "SF/", Keep: func(k string) bool { return strings.HasSuffix(k, "flightGroup") },
		Why: "'at most one DB query at a time' rests on syncx.SingleFlight (C18 flight-group rules)"}},
	"C08": {{From: "C12", Prefix: "RD/", Keep: func(k string) bool { return k == "D2/K6/acceptable-set" },
		Why: "the limiters run their scripts through the Redis wrapper's breaker: a redis.Nil reply (every refused take) must stay a benign outcome, or sustained refusals trip the breaker and the token limiter falls back to its full in-process bucket (C12 acceptable-set rule)"}},
	"C13": {{From: "C12", Prefix: "KV/", Keep: func(k string) bool {
		return k == "D5/K8/kv-routing-key" || k == "D5/K1/kv-del-every-key" || k == "D1/K9/twins/kv.kvStore"
	},
		Why: "'the same node every time while membership is unchanged' is observed at the node kv.NewStore chooses for a key: every kv.Store operation on key K must run on the node the ring returns for K itself (not for a field, value or constant), through the context-free twins as well, or one key is served by two nodes of an unchanged membership (C12 kv routing rules)"}},
	"C17": {{From: "C18", Prefix: "SF/", Keep: func(k string) bool { return strings.HasSuffix(k, "flightGroup") },
		Why: "Take's single flight rests on syncx.SingleFlight (C18 flight-group rules)"},
		{From: "C10", Prefix: "TW/", Keep: func(k string) bool { return true },
			Why: "expiry rests on the timing wheel (all C10 rules)"}},
}

// RunAll evaluates the property's own table and its imports.
func RunAll(id string, r *core.Run) {
	Registry[id].Run(r)
	for _, im := range imports[id] {
		if t, ok := Registry[im.From]; ok {
			r.Import(t.Run, im.Prefix, im.Keep)
			r.Explanation += " Also evaluated here (prefix " + im.Prefix + ", rules of " + im.From + "): " + im.Why + "."
		}
	}
}
