package props

import (
	"go/token"
	"go/types"
	"strings"

	"godcheck/core"

	"golang.org/x/tools/go/ssa"
)

// C17-D5: the timing wheel finds a key's timer through an index
// (TimingWheel.timers, a lib/collection.SafeMap: two generations of builtin
// maps that are compacted on deletions). The C10/C17 tables trust that index to
// behave as a map; the rules here decide the necessary conditions of that which
// are visible on every path of the index's own methods.

// c17Index is the anchor: the type behind TimingWheel.timers and the methods the
// wheel invokes on it, by role (signature), not by name.
type c17Index struct {
	typ     *types.Named
	builtin bool            // the index is a builtin map: nothing to decide
	gens    map[int]string  // struct field index → field name of every map-typed field (a generation)
	get     []*ssa.Function // (key) → (value, found)
	put     []*ssa.Function // (key, value)
	del     []*ssa.Function // (key)
	calls   int
}

func c17FindIndex(p *core.Prog) *c17Index {
	ix := &c17Index{gens: map[int]string{}}
	seen := map[*ssa.Function]bool{}
	for _, f := range p.PkgFuncs(f10CollPkg) {
		for _, b := range f.Blocks {
			for _, in := range b.Instrs {
				if fa, ok := in.(*ssa.FieldAddr); ok && core.FieldAddrName(fa) == "TimingWheel.timers" {
					if pt, ok := fa.Type().Underlying().(*types.Pointer); ok {
						if _, ok := pt.Elem().Underlying().(*types.Map); ok {
							ix.builtin = true
						}
					}
				}
				c := core.AsCall(in)
				if c == nil || c.Common().IsInvoke() {
					continue
				}
				callee := c.Common().StaticCallee()
				if callee == nil || callee.Signature.Recv() == nil || len(c.Common().Args) == 0 {
					continue
				}
				if !core.IsFieldLoad(core.Forward(c.Common().Args[0]), "TimingWheel.timers") {
					continue
				}
				ix.calls++
				if seen[callee] || callee.Blocks == nil {
					continue
				}
				seen[callee] = true
				if n := c17NamedOf(callee.Signature.Recv().Type()); n != nil {
					ix.typ = n
				}
				sig := callee.Signature
				switch {
				case sig.Params().Len() == 1 && sig.Results().Len() == 2 && c17IsBool(sig.Results().At(1).Type()):
					ix.get = append(ix.get, callee)
				case sig.Params().Len() == 2 && sig.Results().Len() == 0:
					ix.put = append(ix.put, callee)
				case sig.Params().Len() == 1 && sig.Results().Len() == 0:
					ix.del = append(ix.del, callee)
				}
			}
		}
	}
	if ix.typ != nil {
		if st, ok := ix.typ.Underlying().(*types.Struct); ok {
			for i := 0; i < st.NumFields(); i++ {
				if _, ok := st.Field(i).Type().Underlying().(*types.Map); ok {
					ix.gens[i] = st.Field(i).Name()
				}
			}
		}
	}
	return ix
}

func c17NamedOf(t types.Type) *types.Named {
	if p, ok := t.(*types.Pointer); ok {
		t = p.Elem()
	}
	n, _ := t.(*types.Named)
	return n
}

func c17IsBool(t types.Type) bool {
	b, ok := t.Underlying().(*types.Basic)
	return ok && b.Kind() == types.Bool
}

// genOfAddr: addr is &x.F with x of the index type and F a generation → field index.
func (ix *c17Index) genOfAddr(addr ssa.Value) (int, bool) {
	fa, ok := addr.(*ssa.FieldAddr)
	if !ok || c17NamedOf(fa.X.Type()) != ix.typ || ix.typ == nil {
		return 0, false
	}
	_, ok = ix.gens[fa.Field]
	return fa.Field, ok
}

// genOfLoad: v is a load of a generation field.
func (ix *c17Index) genOfLoad(v ssa.Value) (int, bool) {
	u, ok := core.Forward(core.Strip(v)).(*ssa.UnOp)
	if !ok || u.Op != token.MUL {
		return 0, false
	}
	return ix.genOfAddr(u.X)
}

// ownBase: the index object whose field is addressed is the method's own receiver
// (a parameter, or the variable a closure of the method captured) — not a second
// index or one under construction.
func c17OwnBase(fa *ssa.FieldAddr) bool {
	switch core.Forward(fa.X).(type) {
	case *ssa.Parameter, *ssa.FreeVar:
		return true
	}
	return false
}

// mutators: the put/del methods and the methods of the index type they call on
// the same receiver (each is analysed on its own), with their closures.
func (ix *c17Index) mutators() []*ssa.Function {
	var out []*ssa.Function
	seen := map[*ssa.Function]bool{}
	var add func(f *ssa.Function)
	add = func(f *ssa.Function) {
		if f == nil || seen[f] || f.Blocks == nil {
			return
		}
		seen[f] = true
		out = append(out, f)
		for _, g := range core.WithAnon(f) {
			if !seen[g] {
				seen[g] = true
				if g != f {
					out = append(out, g)
				}
			}
			for _, b := range g.Blocks {
				for _, in := range b.Instrs {
					if c := core.AsCall(in); c != nil {
						if callee := c.Common().StaticCallee(); callee != nil && callee.Signature.Recv() != nil && c17NamedOf(callee.Signature.Recv().Type()) == ix.typ {
							add(callee)
						}
					}
				}
			}
		}
	}
	for _, f := range ix.put {
		add(f)
	}
	for _, f := range ix.del {
		add(f)
	}
	return out
}

// ---- complete copy loops ----

// c17CopyLoop describes `for k, v := range src { dst[k] = v }`: every iteration
// stores the ranged pair, and the loop is left only when the iteration is exhausted.
type c17CopyLoop struct {
	rng    *ssa.Range
	header *ssa.BasicBlock
	done   *ssa.BasicBlock
	update *ssa.MapUpdate
}

func c17CopyLoops(f *ssa.Function) []c17CopyLoop {
	var out []c17CopyLoop
	for _, b := range f.Blocks {
		for _, in := range b.Instrs {
			rg, ok := in.(*ssa.Range)
			if !ok {
				continue
			}
			if _, ok := rg.X.Type().Underlying().(*types.Map); !ok {
				continue
			}
			var next *ssa.Next
			n := 0
			for _, ref := range *rg.Referrers() {
				if nx, ok := ref.(*ssa.Next); ok {
					next = nx
					n++
				}
			}
			if n != 1 {
				continue
			}
			h := next.Block()
			iff, ok := gxLast(h).(*ssa.If)
			if !ok {
				continue
			}
			cond, ok := iff.Cond.(*ssa.Extract)
			if !ok || cond.Tuple != next || cond.Index != 0 {
				continue
			}
			body, done := h.Succs[0], h.Succs[1]
			// blocks of the loop: reachable from body without entering the header
			loop := map[*ssa.BasicBlock]bool{}
			work := []*ssa.BasicBlock{body}
			for len(work) > 0 {
				x := work[len(work)-1]
				work = work[:len(work)-1]
				if x == h || loop[x] {
					continue
				}
				loop[x] = true
				work = append(work, x.Succs...)
			}
			closed := !loop[done]
			for x := range loop {
				if _, ok := gxLast(x).(*ssa.Return); ok {
					closed = false
				}
				for _, s := range x.Succs {
					if s != h && !loop[s] {
						closed = false
					}
				}
			}
			if !closed {
				continue
			}
			isPair := func(mu *ssa.MapUpdate) bool {
				k, ok := core.Strip(mu.Key).(*ssa.Extract)
				if !ok || k.Tuple != next || k.Index != 1 {
					return false
				}
				switch v := core.Strip(mu.Value).(type) {
				case *ssa.Extract:
					return v.Tuple == next && v.Index == 2
				case *ssa.Lookup: // dst[k] = src[k]
					ik, ok := core.Strip(v.Index).(*ssa.Extract)
					return ok && !v.CommaOk && ik.Tuple == next && ik.Index == 1 && c17SameMap(v.X, rg.X)
				}
				return false
			}
			var ups []*ssa.MapUpdate
			for x := range loop {
				for _, in := range x.Instrs {
					if mu, ok := in.(*ssa.MapUpdate); ok && isPair(mu) {
						ups = append(ups, mu)
					}
				}
			}
			for _, mu := range ups {
				// every iteration passes an update of the same destination
				same := func(in ssa.Instruction) bool {
					o, ok := in.(*ssa.MapUpdate)
					return ok && isPair(o) && c17SameMap(o.Map, mu.Map)
				}
				if _, escapes := core.Reach(core.Q{From: []core.At{core.Head(body)}, Target: core.Is(h.Instrs[0]), Blocked: same}); !escapes {
					out = append(out, c17CopyLoop{rng: rg, header: h, done: done, update: mu})
					break
				}
			}
		}
	}
	return out
}

func c17SameMap(a, b ssa.Value) bool {
	a, b = core.Forward(core.Strip(a)), core.Forward(core.Strip(b))
	if a == b {
		return true
	}
	fa, fb := core.FieldAddrNameOfLoad(a), core.FieldAddrNameOfLoad(b)
	if fa == "" || fa != fb {
		return false
	}
	return gxSame(gxFieldBase(a.(*ssa.UnOp).X), gxFieldBase(b.(*ssa.UnOp).X))
}

// ---- which map object does each generation field hold? ----

// c17Flow is a forward value numbering of the generation fields over one function.
// A name stands for one map object: the map a field holds at entry, the result of
// one make, an unknown value, or the merge of different names at a join. copied
// holds the pairs (a, b) for which every entry of a has been stored into b.
type c17Flow struct {
	ix      *c17Index
	f       *ssa.Function
	fields  []int
	names   map[any]int
	valName map[ssa.Value]int
	in      map[*ssa.BasicBlock]*c17State
	loops   []c17CopyLoop
	unknown []ssa.Instruction // stores to a generation of another object
	stores  int
}

type c17State struct {
	env     map[int]int
	copied  map[[2]int]bool
	pending map[int]ssa.Instruction // maps no generation holds any more and whose entries are not known to be kept, with the store that dropped them
}

func (s *c17State) clone() *c17State {
	n := &c17State{env: map[int]int{}, copied: map[[2]int]bool{}, pending: map[int]ssa.Instruction{}}
	for k, v := range s.pending {
		n.pending[k] = v
	}
	for k, v := range s.env {
		n.env[k] = v
	}
	for k := range s.copied {
		n.copied[k] = true
	}
	return n
}

func (s *c17State) equal(t *c17State) bool {
	if len(s.env) != len(t.env) || len(s.copied) != len(t.copied) || len(s.pending) != len(t.pending) {
		return false
	}
	for k := range s.pending {
		if _, ok := t.pending[k]; !ok {
			return false
		}
	}
	for k, v := range s.env {
		if t.env[k] != v {
			return false
		}
	}
	for k := range s.copied {
		if !t.copied[k] {
			return false
		}
	}
	return true
}

func (fl *c17Flow) name(key any) int {
	if n, ok := fl.names[key]; ok {
		return n
	}
	n := len(fl.names) + 1
	fl.names[key] = n
	return n
}

type c17InitKey struct{ field int }
type c17JoinKey struct {
	block, field int
}
type c17HavocKey struct {
	in    ssa.Instruction
	field int
}

// nameOf: the map object an SSA value denotes, in state st.
func (fl *c17Flow) nameOf(v ssa.Value, st *c17State) int {
	v = core.Strip(v)
	if n, ok := fl.valName[v]; ok {
		if _, isPhi := v.(*ssa.Phi); !isPhi {
			return n
		}
	}
	switch x := v.(type) {
	case *ssa.UnOp:
		if x.Op == token.MUL {
			if g, ok := fl.ix.genOfAddr(x.X); ok && c17OwnBase(x.X.(*ssa.FieldAddr)) {
				// only evaluated when the load executes (see transfer)
				return st.env[g]
			}
			if w := core.Forward(x); w != ssa.Value(x) {
				return fl.nameOf(w, st)
			}
		}
	case *ssa.Phi:
		first, same := 0, true
		for _, e := range x.Edges {
			n, ok := fl.valName[core.Strip(e)]
			if !ok {
				if _, isInstr := core.Strip(e).(ssa.Instruction); isInstr {
					continue // not computed yet (back edge)
				}
				n = fl.name(core.Strip(e))
			}
			if self, ok := fl.names[ssa.Value(x)]; ok && n == self {
				continue // φ(a, self) is a
			}
			if first == 0 {
				first = n
			} else if n != first {
				same = false
			}
		}
		if first != 0 && same {
			return first
		}
	}
	return fl.name(v)
}

func c17IsMapsFunc(c ssa.CallInstruction, fn string) bool {
	callee := c.Common().StaticCallee()
	if callee == nil {
		return false
	}
	o := callee
	if callee.Origin() != nil {
		o = callee.Origin()
	}
	return o.Pkg != nil && (o.Pkg.Pkg.Path() == "maps" || strings.HasSuffix(o.Pkg.Pkg.Path(), "/maps")) && o.Name() == fn
}

// transfer runs the instructions of b on st; at a return it calls visit with the state there.
func (fl *c17Flow) transfer(b *ssa.BasicBlock, st *c17State, visit func(ret *ssa.Return, st *c17State)) {
	for _, in := range b.Instrs {
		switch x := in.(type) {
		case *ssa.UnOp:
			if x.Op == token.MUL {
				if g, ok := fl.ix.genOfAddr(x.X); ok && c17OwnBase(x.X.(*ssa.FieldAddr)) {
					fl.valName[x] = st.env[g]
				}
			}
		case *ssa.Phi:
			fl.valName[x] = fl.nameOf(x, st)
		case *ssa.MakeMap:
			fl.valName[x] = fl.name(x)
		case *ssa.Store:
			if g, ok := fl.ix.genOfAddr(x.Addr); ok {
				if !c17OwnBase(x.Addr.(*ssa.FieldAddr)) {
					fl.unknown = append(fl.unknown, x)
					continue
				}
				old := st.env[g]
				st.env[g] = fl.nameOf(x.Val, st)
				fl.stores++
				if _, was := st.pending[old]; !was {
					st.pending[old] = x
				}
				fl.settle(st)
			}
		case *ssa.Return:
			if visit != nil {
				visit(x, st)
			}
		case *ssa.MapUpdate:
			// a has a new entry: earlier copies of a no longer cover it
			a := fl.nameOf(x.Map, st)
			for k := range st.copied {
				if k[0] == a {
					delete(st.copied, k)
				}
			}
		case ssa.CallInstruction:
			if c17IsMapsFunc(x, "Copy") && len(x.Common().Args) == 2 {
				dst, src := fl.nameOf(x.Common().Args[0], st), fl.nameOf(x.Common().Args[1], st)
				for k := range st.copied {
					if k[0] == dst {
						delete(st.copied, k)
					}
				}
				st.copied[[2]int{src, dst}] = true
				fl.settle(st)
				continue
			}
			if v, ok := in.(ssa.Value); ok && c17IsMapsFunc(x, "Clone") && len(x.Common().Args) == 1 {
				n := fl.name(v)
				fl.valName[v] = n
				st.copied[[2]int{fl.nameOf(x.Common().Args[0], st), n}] = true
				continue
			}
			// a call that is handed the index object may replace its generations
			if _, isDefer := in.(*ssa.Defer); isDefer {
				continue
			}
			for _, a := range x.Common().Args {
				if c17NamedOf(a.Type()) == fl.ix.typ && fl.ix.typ != nil {
					for _, g := range fl.fields {
						st.env[g] = fl.name(c17HavocKey{in, g})
					}
				}
			}
			if mc, ok := x.Common().Value.(*ssa.MakeClosure); ok {
				for _, bnd := range mc.Bindings {
					if c17NamedOf(bnd.Type()) == fl.ix.typ && fl.ix.typ != nil {
						for _, g := range fl.fields {
							st.env[g] = fl.name(c17HavocKey{in, g})
						}
					}
				}
			}
		}
	}
}

// edge applies what is established on the CFG edge from → to: leaving a complete
// copy loop by exhaustion, every entry of the ranged map is in the destination.
func (fl *c17Flow) edge(from, to *ssa.BasicBlock, st *c17State) {
	for _, l := range fl.loops {
		if l.header == from && l.done == to {
			src, ok1 := fl.valName[core.Strip(l.rng.X)]
			if !ok1 {
				src = fl.nameOf(l.rng.X, st)
			}
			dst, ok2 := fl.valName[core.Strip(l.update.Map)]
			if !ok2 {
				continue // body not evaluated yet
			}
			if src != dst {
				st.copied[[2]int{src, dst}] = true
				fl.settle(st)
			}
		}
	}
}

func (fl *c17Flow) join(b *ssa.BasicBlock, outs map[*ssa.BasicBlock]*c17State) *c17State {
	var st *c17State
	merged := map[int]map[int]bool{} // field → names arriving, the block's own merge name excluded
	for _, pr := range b.Preds {
		o, ok := outs[pr]
		if !ok {
			continue
		}
		e := o.clone()
		fl.edge(pr, b, e)
		for _, g := range fl.fields {
			if n := e.env[g]; n != fl.name(c17JoinKey{b.Index, g}) {
				if merged[g] == nil {
					merged[g] = map[int]bool{}
				}
				merged[g][n] = true
			}
		}
		if st == nil {
			st = e
			continue
		}
		for k := range st.copied {
			if !e.copied[k] {
				delete(st.copied, k)
			}
		}
		for k, v := range e.pending {
			if _, ok := st.pending[k]; !ok {
				st.pending[k] = v
			}
		}
	}
	if st == nil {
		return nil
	}
	for _, g := range fl.fields {
		// φ(x, self) is x; different names merge into the block's own name
		if len(merged[g]) == 1 {
			for n := range merged[g] {
				st.env[g] = n
			}
		} else {
			st.env[g] = fl.name(c17JoinKey{b.Index, g})
		}
	}
	return st
}

// run iterates to a fixpoint; ok=false when it did not converge.
func (fl *c17Flow) run() bool {
	entry := &c17State{env: map[int]int{}, copied: map[[2]int]bool{}, pending: map[int]ssa.Instruction{}}
	for _, g := range fl.fields {
		entry.env[g] = fl.name(c17InitKey{g})
	}
	outs := map[*ssa.BasicBlock]*c17State{}
	for pass := 0; pass < 40; pass++ {
		changed := false
		for _, b := range fl.f.Blocks {
			if b == fl.f.Recover {
				continue
			}
			var st *c17State
			if b.Index == 0 {
				st = entry.clone()
			} else if st = fl.join(b, outs); st == nil {
				continue
			}
			if old, ok := fl.in[b]; !ok || !old.equal(st) {
				changed = true
			}
			fl.in[b] = st.clone()
			fl.transfer(b, st, nil)
			if old, ok := outs[b]; !ok || !old.equal(st) {
				changed = true
			}
			outs[b] = st
		}
		if !changed {
			return true
		}
	}
	return false
}

func c17NewFlow(ix *c17Index, f *ssa.Function) *c17Flow {
	fl := &c17Flow{ix: ix, f: f, names: map[any]int{}, valName: map[ssa.Value]int{}, in: map[*ssa.BasicBlock]*c17State{}, loops: c17CopyLoops(f)}
	for g := range ix.gens {
		fl.fields = append(fl.fields, g)
	}
	return fl
}

// kept: is the map named d held by the index in state st — by a generation, or
// through a chain of complete copies into a map a generation holds?
func (fl *c17Flow) kept(d int, st *c17State) bool {
	seen := map[int]bool{}
	var walk func(d int) bool
	walk = func(d int) bool {
		if seen[d] {
			return false
		}
		seen[d] = true
		for _, h := range fl.fields {
			if st.env[h] == d {
				return true
			}
		}
		for k := range st.copied {
			if k[0] == d && walk(k[1]) {
				return true
			}
		}
		return false
	}
	return walk(d)
}

// settle discharges the dropped maps that are kept again: stored back into a
// generation, or completely copied into a map that is held.
func (fl *c17Flow) settle(st *c17State) {
	for d := range st.pending {
		if fl.kept(d, st) {
			delete(st.pending, d)
		}
	}
}

// ---- lookups ----

// c17GenLookupOK matches the comma-ok flag of a lookup of `key` in generation g.
func (ix *c17Index) lookupFound(g int, isKey func(ssa.Value) bool) func(ssa.Value) bool {
	return func(v ssa.Value) bool {
		e, ok := core.Forward(v).(*ssa.Extract)
		if !ok || e.Index != 1 {
			return false
		}
		l, ok := e.Tuple.(*ssa.Lookup)
		if !ok || !l.CommaOk || !isKey(core.Strip(l.Index)) {
			return false
		}
		h, ok := ix.genOfLoad(l.X)
		return ok && h == g
	}
}

func c17IsConstBool(v ssa.Value) (val, ok bool) {
	c, isC := v.(*ssa.Const)
	if !isC || c.Value == nil || !c17IsBool(c.Type()) {
		return false, false
	}
	return c.Value.String() == "true", true
}

// c17Reaches: can the return (through the given φ-edge, when the leaf enters through
// one) be reached from the entry without using an edge of cut?
func c17Reaches(f *ssa.Function, ret *ssa.Return, edge *core.Edge, cut []core.Edge) bool {
	if edge != nil {
		return gxEdgeReachable(f, *edge, cut)
	}
	_, ok := core.Reach(core.Q{From: []core.At{core.Entry(f)}, Target: core.Is(ret), Cut: core.CutSet(cut)})
	return ok
}

func c17SafeMap(r *core.Run) {
	p := r.P
	r.Explanation += " The wheel's key→timer index (the type behind TimingWheel.timers, a two-generation SafeMap) keeps its entries: on every path of the methods the wheel uses to write it, a generation map that is replaced is still held by another generation or was copied entry by entry into a map that is; its lookup reports a key absent only after every generation missed; a put stores (key, value) on every path and, where it names the generation it writes, leaves no older value in a generation the lookup prefers."
	r.NotDecided += " For the timer index: that deletions remove the right key and the deletion counters/thresholds (memory reclamation only); entries deleted from the destination after a compaction copy; the shadowing clause of a put whose target generation is chosen through a merged variable; histories of puts and deletes."

	var ix *c17Index
	index := func(o *core.O) *c17Index {
		if ix == nil {
			ix = c17FindIndex(p)
		}
		if ix.builtin {
			o.Site(1, "TimingWheel.timers is a builtin map")
			return nil
		}
		if !o.Need(ix.typ != nil && len(ix.gens) > 0, "the type of TimingWheel.timers with its map-typed fields, through the wheel's calls on it") {
			return nil
		}
		if !o.Need(len(ix.get) > 0 && len(ix.put) > 0 && len(ix.del) > 0, "the lookup (key)→(value, found), put (key, value) and delete (key) methods the wheel calls on TimingWheel.timers") {
			return nil
		}
		return ix
	}

	r.Check("D5/K8/index-keeps-entries", "in the methods through which the wheel writes its key→timer index (put, delete, and what they call on it), a generation map is replaced only when it is still held by another generation or every entry of it has been copied — a loop over that map storing each pair, left only by exhaustion — into a map the index keeps [second sentence: a key whose index entry is lost keeps its old timer: MoveTimer on a re-Set and RemoveTimer on Del find nothing, and the key expires at the time computed from an earlier Set]", func(o *core.O) {
		ix := index(o)
		if ix == nil {
			return
		}
		for _, f := range ix.mutators() {
			r.Fn(core.FuncName(f))
			o.Site(1, core.FuncName(f))
			fl := c17NewFlow(ix, f)
			if !fl.run() {
				o.Unres("%s: the generation maps could not be followed (no fixpoint)", core.FuncName(f))
				continue
			}
			reported := map[ssa.Instruction]bool{}
			fl.stores, fl.unknown = 0, nil
			for _, b := range f.Blocks {
				st, ok := fl.in[b]
				if !ok {
					continue
				}
				fl.transfer(b, st.clone(), func(ret *ssa.Return, at *c17State) {
					for _, s := range at.pending {
						if reported[s] {
							continue
						}
						reported[s] = true
						g, _ := ix.genOfAddr(s.(*ssa.Store).Addr)
						o.Fail(p.InstrPos(s), "%s replaces the map in %s.%s and can return (%s) with that map held by no generation and its entries not all copied into a map the index keeps: every key stored there vanishes from the index — the wheel no longer finds those timers, MoveTimer on a re-Set and RemoveTimer on Del do nothing, and a re-set key expires at the time computed from its earlier Set", core.FuncName(f), ix.typ.Obj().Name(), ix.gens[g], p.InstrPos(ret))
					}
				})
			}
			o.Site(fl.stores)
			for _, s := range fl.unknown {
				o.Unres("%s: %s stores a generation of an index object other than its receiver", p.InstrPos(s), core.FuncName(f))
			}
		}
	})

	r.Check("D5/K2/index-lookup-every-generation", "the index lookup the wheel uses reports a key absent only after the lookup of that key missed in every generation, and reports it present only after a lookup found it [second sentence: a key that is present but reported absent gets a second timer on re-Set instead of a moved one, and its old timer fires early]", func(o *core.O) {
		ix := index(o)
		if ix == nil {
			return
		}
		for _, f := range ix.get {
			r.Fn(core.FuncName(f))
			if !o.Need(len(f.Params) == 2, "the lookup's key parameter") {
				continue
			}
			isKey := paramIs(f.Params[1])
			found := map[int]func(ssa.Value) bool{}
			miss := map[int][]core.Edge{}
			var hitAny []core.Edge
			for g := range ix.gens {
				found[g] = ix.lookupFound(g, isKey)
				h, fails := core.EdgesOf(f, core.BoolVal(found[g]))
				miss[g] = fails
				hitAny = append(hitAny, h...)
			}
			for _, ret := range core.Returns(f) {
				if len(ret.Results) != 2 {
					o.Unres("%s: a return without (value, found)", core.FuncName(f))
					continue
				}
				o.Site(1, core.FuncName(f))
				gxLeavesWithEdges(core.Result(ret, 1), func(leaf ssa.Value, edge *core.Edge) {
					leaf = core.Forward(leaf)
					own := -1
					for g := range ix.gens {
						if found[g](leaf) {
							own = g
						}
					}
					cv, isConst := c17IsConstBool(leaf)
					switch {
					case isConst && cv:
						if c17Reaches(f, ret, edge, hitAny) {
							o.Fail(p.InstrPos(ret), "%s can report a key present although no generation's lookup found it", core.FuncName(f))
						}
					case isConst || own >= 0:
						for g, name := range ix.gens {
							if g == own {
								continue
							}
							cut := append([]core.Edge{}, miss[g]...)
							if own >= 0 {
								// returning G's own flag while G found the key needs nothing from the others
								h, _ := core.EdgesOf(f, core.BoolVal(found[own]))
								cut = append(cut, h...)
							}
							if c17Reaches(f, ret, edge, cut) {
								o.Fail(p.InstrPos(ret), "%s can report a key absent without its lookup in %s.%s having missed: a timer indexed there is not found, so a re-Set adds a second timer instead of moving the first (which fires at the earlier time) and a Del leaves it armed", core.FuncName(f), ix.typ.Obj().Name(), name)
							}
						}
					default:
						o.Unres("%s: the found result %s at %s is not a generation lookup's flag or a constant", core.FuncName(f), core.Describe(leaf), p.InstrPos(ret))
					}
				})
			}
		}
	})

	r.Check("D5/K1/index-put-visible", "the index put the wheel uses stores (key, value) into a generation on every path, and on no path leaves the key's older value in a generation the lookup answers from without that generation's later ones having missed: there the key is rewritten, deleted, or was looked up and missed [second sentence: after a re-Set the wheel records the timer's new slot in the index; a lookup that still answers the old slot makes the next MoveTimer/RemoveTimer act on the dead entry while the live one fires at the earlier time]", func(o *core.O) {
		ix := index(o)
		if ix == nil {
			return
		}
		// F shadows G: the lookup can answer from F without G having missed.
		shadows := map[[2]int]bool{}
		for _, f := range ix.get {
			if len(f.Params) != 2 {
				continue
			}
			isKey := paramIs(f.Params[1])
			for fg := range ix.gens {
				hit, _ := core.EdgesOf(f, core.BoolVal(ix.lookupFound(fg, isKey)))
				for g := range ix.gens {
					if g == fg {
						continue
					}
					_, missG := core.EdgesOf(f, core.BoolVal(ix.lookupFound(g, isKey)))
					for _, e := range hit {
						if gxEdgeReachable(f, e, missG) {
							shadows[[2]int{fg, g}] = true
						}
					}
				}
			}
		}
		for _, f := range ix.put {
			r.Fn(core.FuncName(f))
			if !o.Need(len(f.Params) == 3, "the put's key and value parameters") {
				continue
			}
			isKey, isVal := paramIs(f.Params[1]), paramIs(f.Params[2])
			storeIn := func(g int) func(ssa.Instruction) bool {
				return func(in ssa.Instruction) bool {
					mu, ok := in.(*ssa.MapUpdate)
					if !ok || !isKey(core.Strip(mu.Key)) || !isVal(core.Strip(mu.Value)) {
						return false
					}
					if h, ok := ix.genOfLoad(mu.Map); ok {
						return g < 0 || h == g
					}
					// the generation chosen beforehand (φ of generation loads): a store into some generation
					all, n := g < 0, 0
					gxLeavesWithEdges(core.Strip(mu.Map), func(leaf ssa.Value, _ *core.Edge) {
						n++
						if _, ok := ix.genOfLoad(leaf); !ok {
							all = false
						}
					})
					return all && n > 1
				}
			}
			deleteIn := func(g int) func(ssa.Instruction) bool {
				return func(in ssa.Instruction) bool {
					c, ok := in.(*ssa.Call)
					if !ok || core.CalleeName(c) != "builtin:delete" || len(c.Call.Args) != 2 || !isKey(core.Strip(c.Call.Args[1])) {
						return false
					}
					h, ok := ix.genOfLoad(c.Call.Args[0])
					return ok && h == g
				}
			}
			stores := core.Instrs(f, storeIn(-1))
			o.Site(len(stores), core.FuncName(f))
			if w := core.MustPass(core.Entry(f), storeIn(-1), core.IsReturn); w != nil {
				o.Fail(p.InstrPos(w), "%s can return without having stored (key, value) in a generation: the wheel's record of the timer's slot is lost", core.FuncName(f))
			}
			for _, s := range stores {
				g, direct := ix.genOfLoad(s.(*ssa.MapUpdate).Map)
				if !direct {
					continue // which generation is written depends on the path: the shadowing clause is not decided for this store
				}
				for fg, name := range ix.gens {
					if fg == g || !shadows[[2]int{fg, g}] {
						continue
					}
					_, missF := core.EdgesOf(f, core.BoolVal(ix.lookupFound(fg, isKey)))
					clean := core.Or(storeIn(fg), deleteIn(fg))
					_, dirtyBefore := core.Reach(core.Q{From: []core.At{core.Entry(f)}, Target: core.Is(s), Blocked: clean, Cut: core.CutSet(missF)})
					_, dirtyAfter := core.Reach(core.Q{From: []core.At{core.After(s)}, Target: core.IsReturn, Blocked: clean, Cut: core.CutSet(missF)})
					if dirtyBefore && dirtyAfter {
						o.Fail(p.InstrPos(s), "%s stores the new value in %s.%s on a path that neither deletes the key from %s nor saw its lookup there miss, and the index lookup answers from %s first: the wheel keeps reading the key's old slot record, so the next move/remove acts on the dead entry and the live timer fires at the earlier time", core.FuncName(f), ix.typ.Obj().Name(), ix.gens[g], name, name)
					}
				}
			}
		}
	})
}
