package props

import (
	"go/token"
	"sort"
	"strings"

	"godcheck/core"

	"golang.org/x/tools/go/ssa"
)

func init() { register("C15", c15) }

const (
	discovPkg = "lib/discov"
	discovInt = "lib/discov/internal"
)

// c15HasParamType reports the parameter of f whose type string ends in suffix.
func c15ParamOfType(f *ssa.Function, suffix string) *ssa.Parameter {
	for _, pa := range f.Params {
		if suffix == "string" {
			if pa.Type().String() == "string" {
				return pa
			}
			continue
		}
		if strings.HasSuffix(pa.Type().String(), suffix) {
			return pa
		}
	}
	return nil
}

// c15ResolveField looks through a struct temporary: a read of field i of a
// local struct variable denotes the value of the unique store to that field
// (`kv := KV{Key: a, Val: b}; … kv.Key` ≡ a).
func c15ResolveField(v ssa.Value) ssa.Value {
	for n := 0; n < 4; n++ {
		v = core.Forward(v)
		var al *ssa.Alloc
		idx := -1
		switch x := v.(type) {
		case *ssa.Field:
			if u, ok := x.X.(*ssa.UnOp); ok && u.Op == token.MUL {
				if a, ok := u.X.(*ssa.Alloc); ok {
					al, idx = a, x.Field
				}
			}
		case *ssa.UnOp:
			if fa, ok := x.X.(*ssa.FieldAddr); ok && x.Op == token.MUL {
				if a, ok := fa.X.(*ssa.Alloc); ok {
					al, idx = a, fa.Field
				}
			}
		}
		if al == nil {
			return v
		}
		var val ssa.Value
		cnt := 0
		for hop := 0; hop < 3 && al != nil; hop++ {
			var whole []*ssa.Store
			val, cnt = nil, 0
			for _, r := range *al.Referrers() {
				switch y := r.(type) {
				case *ssa.FieldAddr:
					if y.Field != idx {
						continue
					}
					for _, r2 := range *y.Referrers() {
						if st, ok := r2.(*ssa.Store); ok && st.Addr == ssa.Value(y) {
							val, cnt = st.Val, cnt+1
						}
					}
				case *ssa.Store:
					if y.Addr == ssa.Value(al) {
						whole = append(whole, y)
					}
				}
			}
			if len(whole) == 0 {
				break
			}
			// a by-value copy of another struct variable (spilled parameter of an inlined helper)
			al2 := (*ssa.Alloc)(nil)
			if cnt == 0 && len(whole) == 1 {
				if u, ok := whole[0].Val.(*ssa.UnOp); ok && u.Op == token.MUL {
					al2, _ = u.X.(*ssa.Alloc)
				}
			}
			if al2 == nil {
				cnt = 0
				break
			}
			al = al2
		}
		if cnt != 1 {
			return v
		}
		v = val
	}
	return v
}

// c15Describes returns the sorted set of structural descriptors of vs.
func c15Describes(vs []ssa.Value) []string {
	set := map[string]bool{}
	for _, v := range vs {
		set[core.Describe(c15ResolveField(v))] = true
	}
	var out []string
	for k := range set {
		out = append(out, k)
	}
	sort.Strings(out)
	return out
}

func c15(r *core.Run) {
	p := r.P
	defer c15Extra(r, discovInt)
	defer c15ExtraSub(r, discovPkg)
	r.Explanation = "Decides on the current source: every path through the reload diff (cluster.handleChanges) stores, under the lock, a fresh map filled from the loaded key/values into c.values[key]; cluster, container and Registry maps are touched only under their locks; watch events update the snapshot before the listeners of the key are called, Put ⇒ OnAdd and Delete ⇒ OnDelete with the event's own key and value; container.OnAdd/OnDelete mutate and then always notify, values is keyed by the published value and mapping by the key, dirty is set before any mutation, with the container lock held in the same hold of the lock as the mutation (or else after it), and cleared only after the snapshot was stored; exclusive mode removes earlier keys only when exclusive is set; reload closes done, waits for the watchers, installs a new channel and group under the lock and then loads-and-watches every listened key; Registry.Monitor replays getCurrent(key) to a listener joining an existing cluster before monitoring."
	r.NotDecided = "convergence over event/fault histories, the revision arithmetic of load/watch, etcd client behaviour, races between reload and a concurrently running watch callback."

	isValuesLoad := core.FieldLoad("cluster.values")
	// the per-key map obtained from c.values[key]
	innerMap := func(v ssa.Value) bool {
		if e, ok := v.(*ssa.Extract); ok && e.Index == 0 {
			v = e.Tuple
		}
		l, ok := v.(*ssa.Lookup)
		return ok && isValuesLoad(l.X)
	}
	isOuterStore := func(in ssa.Instruction) bool {
		mu, ok := in.(*ssa.MapUpdate)
		return ok && isValuesLoad(mu.Map)
	}
	isValuesUpdate := func(in ssa.Instruction) bool {
		mu, ok := in.(*ssa.MapUpdate)
		return ok && (isValuesLoad(mu.Map) || innerMap(mu.Map))
	}
	isValuesDelete := func(in ssa.Instruction) bool {
		c, ok := in.(*ssa.Call)
		if !ok {
			return false
		}
		b, ok := c.Call.Value.(*ssa.Builtin)
		return ok && b.Name() == "delete" && innerMap(c.Call.Args[0])
	}
	onAdd := core.CallMethod("internal.UpdateListener", "OnAdd")
	onDelete := core.CallMethod("internal.UpdateListener", "OnDelete")

	// roles in lib/discov/internal
	var diffFns, eventFns, reloadFns []*ssa.Function
	for _, f := range p.PkgFuncs(discovInt) {
		if f.Parent() != nil {
			continue
		}
		if c15ParamOfType(f, "internal.KV") != nil && strings.HasPrefix(c15ParamOfType(f, "internal.KV").Type().String(), "[]") &&
			len(core.Instrs(f, core.Or(onAdd, onDelete))) > 0 {
			diffFns = append(diffFns, f)
		}
		if c15ParamOfType(f, "client/v3.Event") != nil && len(core.Instrs(f, core.Or(onAdd, onDelete))) > 0 {
			eventFns = append(eventFns, f)
		}
		for _, c := range core.Calls(f, core.CallTo("builtin:close")) {
			if core.IsFieldLoad(c.Common().Args[0], "cluster.done") {
				reloadFns = append(reloadFns, f)
				break
			}
		}
	}

	r.Check("D1/K1/snapshot-stored", "every path through the reload diff stores into c.values[key] a map created in the function and filled from the freshly loaded kvs (the base of the next diff and the source of getCurrent)", func(o *core.O) {
		if !o.Need(len(diffFns) > 0, "a cluster method taking []KV and notifying listeners (handleChanges)") {
			return
		}
		for _, f := range diffFns {
			r.Fn(core.FuncName(f))
			kvs := c15ParamOfType(f, "internal.KV")
			var keyParam *ssa.Parameter
			for _, pa := range f.Params {
				if pa.Type().String() == "string" {
					keyParam = pa
				}
			}
			if !o.Need(keyParam != nil, "the key parameter of "+core.FuncName(f)) {
				return
			}
			fromKvs := func(m ssa.Value) bool {
				if _, ok := m.(*ssa.MakeMap); !ok {
					return false
				}
				for _, in := range core.Instrs(f, func(in ssa.Instruction) bool {
					mu, ok := in.(*ssa.MapUpdate)
					return ok && mu.Map == m
				}) {
					mu := in.(*ssa.MapUpdate)
					isKvs := func(v ssa.Value) bool { return v == ssa.Value(kvs) }
					if core.DependsOn(mu.Key, isKvs) && core.DependsOn(mu.Value, isKvs) &&
						core.FieldAddrNameOfLoad(core.Forward(mu.Key)) == "KV.Key" && core.FieldAddrNameOfLoad(core.Forward(mu.Value)) == "KV.Val" {
						return true
					}
				}
				return false
			}
			good := func(in ssa.Instruction) bool {
				if !isOuterStore(in) {
					return false
				}
				mu := in.(*ssa.MapUpdate)
				if core.Forward(mu.Key) != ssa.Value(keyParam) {
					return false
				}
				for _, l := range gxPhiLeaves(core.Forward(mu.Value)) {
					if !fromKvs(l) {
						return false
					}
				}
				return true
			}
			stores := core.Instrs(f, isOuterStore)
			o.Site(len(stores)+1, core.FuncName(f))
			for _, st := range stores {
				if !good(st) {
					o.Fail(p.InstrPos(st), "%s stores into c.values something other than a fresh map of the loaded kvs under the watched key", core.FuncName(f))
				}
			}
			if w := core.MustPass(core.Entry(f), good, core.IsExit); w != nil {
				o.Fail(p.InstrPos(w), "a path through %s ends without storing the loaded snapshot into c.values[key]: the next reload diffs against a stale base (a key added and removed while disconnected is never reported deleted) and getCurrent replays stale pairs", core.FuncName(f))
			}
		}
	})

	r.Check("D1/K8/diff-direction", "in the reload diff OnDelete is fed from the old snapshot and OnAdd from the new one", func(o *core.O) {
		if !o.Need(len(diffFns) > 0, "handleChanges") {
			return
		}
		for _, f := range diffFns {
			kvs := c15ParamOfType(f, "internal.KV")
			isKvs := func(v ssa.Value) bool { return v == ssa.Value(kvs) }
			isOld := func(v ssa.Value) bool { return innerMap(v) }
			for _, c := range core.Calls(f, onAdd) {
				o.Site(1, core.FuncName(f))
				a := core.Args(c)[1]
				if !core.DependsOn(a, isKvs) {
					o.Fail(p.InstrPos(c), "OnAdd is not fed from the loaded kvs")
				}
			}
			for _, c := range core.Calls(f, onDelete) {
				o.Site(1, core.FuncName(f))
				a := core.Args(c)[1]
				if !core.DependsOn(a, isOld) {
					o.Fail(p.InstrPos(c), "OnDelete is not fed from the previous snapshot c.values[key]")
				}
			}
			if len(core.Calls(f, onAdd)) == 0 || len(core.Calls(f, onDelete)) == 0 {
				o.Fail(p.Pos(f.Pos()), "%s does not report both additions and removals", core.FuncName(f))
			}
		}
	})

	r.Check("D1/K2/diff-conditions", "reload diff: a pair of the old snapshot is reported deleted iff its key is missing from the new one or carries another value; a pair of the new snapshot is reported added iff its key is missing from the old one or carried another value", func(o *core.O) {
		if !o.Need(len(diffFns) > 0, "handleChanges") {
			return
		}
		for _, f := range diffFns {
			isNew := func(v ssa.Value) bool { _, ok := v.(*ssa.MakeMap); return ok }
			isOld := innerMap
			isNext := func(in ssa.Instruction) bool { _, ok := in.(*ssa.Next); return ok }
			for _, dir := range []struct {
				what        string
				from, other func(ssa.Value) bool
			}{{"deleted", isOld, isNew}, {"added", isNew, isOld}} {
				dir := dir
				// records built from a range over `from`
				fromRange := func(v ssa.Value) bool {
					return core.DependsOn(v, func(x ssa.Value) bool {
						rg, ok := x.(*ssa.Range)
						return ok && dir.from(rg.X)
					})
				}
				recs := core.Instrs(f, func(in ssa.Instruction) bool {
					st, ok := in.(*ssa.Store)
					return ok && core.FieldAddrName(st.Addr) == "KV.Key" && fromRange(st.Val)
				})
				lookups := core.Instrs(f, func(in ssa.Instruction) bool {
					l, ok := in.(*ssa.Lookup)
					return ok && l.CommaOk && dir.other(l.X) && fromRange(l.Index)
				})
				o.Site(len(recs)+len(lookups), core.FuncName(f))
				if len(recs) == 0 || len(lookups) != 1 {
					o.Fail(p.Pos(f.Pos()), "%s: no record of %s pairs (%d) or no single membership test against the other snapshot (%d)", core.FuncName(f), dir.what, len(recs), len(lookups))
					continue
				}
				lk := lookups[0].(*ssa.Lookup)
				found := core.BoolVal(func(v ssa.Value) bool {
					e, ok := v.(*ssa.Extract)
					return ok && e.Index == 1 && e.Tuple == ssa.Value(lk)
				})
				differs := core.Cmp(token.NEQ, func(v ssa.Value) bool { return fromRange(v) }, func(v ssa.Value) bool {
					e, ok := v.(*ssa.Extract)
					return ok && e.Index == 0 && e.Tuple == ssa.Value(lk)
				})
				missingE, _ := core.EdgesOf(f, core.Not(found))
				differsE, _ := core.EdgesOf(f, differs)
				if len(missingE) == 0 || len(differsE) == 0 {
					o.Fail(p.InstrPos(lk), "the %s test lacks the `key missing` or the `value differs` case", dir.what)
					continue
				}
				isRec := core.Is(recs...)
				if w, ok := core.Reach(core.Q{From: []core.At{core.After(lk)}, Target: isRec, Blocked: isNext, Cut: core.CutSet(missingE, differsE)}); ok {
					o.Fail(p.InstrPos(w), "a pair is reported %s although its key is present with the same value in the other snapshot", dir.what)
				}
				if w := core.ReachableFromEdges(append(append([]core.Edge{}, missingE...), differsE...), core.Or(isNext, core.IsExit), isRec); w != nil {
					o.Fail(p.InstrPos(lk), "a pair whose key is missing from (or differs in) the other snapshot is not reported %s", dir.what)
				}
			}
		}
	})

	r.Check("D2/K4/discov-guarded", "cluster.{values,listeners}, container.{values,mapping,listeners} and Registry.clusters are touched only with the owner's lock held (or before the object escapes its constructor); lock balance", func(o *core.O) {
		la := core.NewLockAnalysis(p, discovInt, discovPkg)
		acc := la.CheckGuards([]core.Guard{
			{Type: "cluster", Field: "values", Lock: "lock"},
			{Type: "cluster", Field: "listeners", Lock: "lock"},
			{Type: "container", Field: "values", Lock: "lock"},
			{Type: "container", Field: "mapping", Lock: "lock"},
			{Type: "container", Field: "listeners", Lock: "lock"},
			{Type: "Registry", Field: "clusters", Lock: "lock"},
		}, nil, map[string]string{discovInt + ".init": "package initialisation of the global registry"})
		core.ReportAccesses(o, p, acc)
		gxReportImbalance(o, p, la)
	})

	r.Check("D3/K3/event-update-then-notify", "watch events: Put ⇒ snapshot updated, then OnAdd; Delete ⇒ key deleted from the snapshot (when known), then OnDelete; listeners are those registered for the key; the pair passed on is the event's own key and value", func(o *core.O) {
		isType := core.FieldLoad("Event.Type")
		put := core.Cmp(token.EQL, isType, core.IsConstInt(0))
		del := core.Cmp(token.EQL, isType, core.IsConstInt(1))
		known := core.BoolVal(func(v ssa.Value) bool {
			e, ok := v.(*ssa.Extract)
			if !ok || e.Index != 1 {
				return false
			}
			l, ok := e.Tuple.(*ssa.Lookup)
			return ok && isValuesLoad(l.X)
		})
		// events handed to a handler that is read from a constant table indexed by the event type
		// (`handlers[event.Type](c, key, event, listeners)` instead of a switch): c15_util.go
		consts := &c20Consts{all: p.PkgFuncs(discovInt)}
		var dispatches []c15Dispatch
		tableHandler := map[*ssa.Function]bool{}
		for _, f := range p.PkgFuncs(discovInt) {
			if f.Parent() != nil || c15ParamOfType(f, "client/v3.Event") == nil {
				continue
			}
			ds, why := c15Dispatches(f, consts)
			if why != "" {
				o.Unres(p.Pos(f.Pos()) + ": " + core.FuncName(f) + ": " + why)
			}
			for _, d := range ds {
				for k := int64(-1); k <= 3; k++ {
					if e := d.entry(k); e != nil {
						tableHandler[d.handler(e).fn] = true
					}
				}
			}
			dispatches = append(dispatches, ds...)
		}
		if !o.Need(len(eventFns)+len(dispatches) > 0, "a cluster method taking []*clientv3.Event and notifying listeners (handleWatchEvents)") {
			return
		}
		// listeners, payload and keys: the same requirements wherever the event is applied.
		// isListeners: the value is (derived from) c.listeners[key]; keyParam: the watched key in f.
		applied := func(f *ssa.Function, keyParam *ssa.Parameter, isListeners func(ssa.Value) bool) {
			adds, dels := core.Instrs(f, onAdd), core.Instrs(f, onDelete)
			// listeners: receivers derive from c.listeners[key]
			for _, in := range append(append([]ssa.Instruction{}, adds...), dels...) {
				recv := core.Args(in.(ssa.CallInstruction))[0]
				if !core.DependsOn(recv, isListeners) {
					o.Fail(p.InstrPos(in), "the notified listeners are not c.listeners[key]")
				}
			}
			// payload: one key expression and one value expression everywhere
			var keys, vals []ssa.Value
			for _, st := range core.StoresToField(f, "KV.Key") {
				keys = append(keys, st.Val)
			}
			for _, st := range core.StoresToField(f, "KV.Val") {
				vals = append(vals, st.Val)
			}
			for _, in := range core.Instrs(f, func(in ssa.Instruction) bool { return isValuesDelete(in) }) {
				keys = append(keys, in.(*ssa.Call).Call.Args[1])
			}
			for _, in := range core.Instrs(f, func(in ssa.Instruction) bool {
				mu, ok := in.(*ssa.MapUpdate)
				return ok && !isValuesLoad(mu.Map)
			}) {
				mu := in.(*ssa.MapUpdate)
				keys = append(keys, mu.Key)
				vals = append(vals, mu.Value)
			}
			dk, dv := c15Describes(keys), c15Describes(vals)
			if len(dk) != 1 || !strings.HasSuffix(dk[0], ".Kv.Key") {
				o.Fail(p.Pos(f.Pos()), "the key recorded / passed to listeners is not uniformly event.Kv.Key: %v", dk)
			}
			if len(dv) != 1 || !strings.HasSuffix(dv[0], ".Kv.Value") {
				o.Fail(p.Pos(f.Pos()), "the value recorded / passed to listeners is not uniformly event.Kv.Value: %v", dv)
			}
			for _, in := range core.Instrs(f, isOuterStore) {
				if keyParam == nil || core.Forward(in.(*ssa.MapUpdate).Key) != ssa.Value(keyParam) {
					o.Fail(p.InstrPos(in), "c.values is updated under a key other than the watched key")
				}
			}
		}
		listenersOf := func(keyParam *ssa.Parameter) func(ssa.Value) bool {
			return func(v ssa.Value) bool {
				l, ok := v.(*ssa.Lookup)
				return ok && core.IsFieldLoad(l.X, "cluster.listeners") && keyParam != nil && core.Forward(l.Index) == ssa.Value(keyParam)
			}
		}
		for _, f := range eventFns {
			if tableHandler[f] && core.EdgeCount(f, put)+core.EdgeCount(f, del) == 0 {
				continue // runs for one event type only, chosen by the table: decided below
			}
			r.Fn(core.FuncName(f))
			adds, dels := core.Instrs(f, onAdd), core.Instrs(f, onDelete)
			o.Site(len(adds)+len(dels), core.FuncName(f))
			if len(adds) == 0 || len(dels) == 0 {
				o.Fail(p.Pos(f.Pos()), "%s does not forward both Put and Delete events", core.FuncName(f))
				continue
			}
			if w := core.Requires(f, onAdd, put); w != nil {
				o.Fail(p.InstrPos(w), "OnAdd reachable for an event that is not a Put")
			}
			if w := core.Requires(f, onDelete, del); w != nil {
				o.Fail(p.InstrPos(w), "OnDelete reachable for an event that is not a Delete")
			}
			putE, _ := core.EdgesOf(f, put)
			delE, _ := core.EdgesOf(f, del)
			if w := core.ReachableFromEdges(putE, onAdd, isValuesUpdate); w != nil {
				o.Fail(p.InstrPos(w), "Put event: listeners are notified before (or without) updating c.values — a listener joining now is replayed a stale set")
			}
			_, unknownE := core.EdgesOf(f, known)
			var from []core.At
			for _, e := range delE {
				from = append(from, core.Head(e.To))
			}
			if w, ok := core.Reach(core.Q{From: from, Target: onDelete, Blocked: isValuesDelete, Cut: core.CutSet(unknownE)}); ok {
				o.Fail(p.InstrPos(w), "Delete event: listeners are notified before (or without) deleting the key from c.values")
			}
			// a Delete must not re-add, a Put must not delete
			nextEvent := func(in ssa.Instruction) bool {
				u, ok := in.(*ssa.UnOp)
				return ok && core.FieldAddrNameOfLoad(u) == "Event.Type"
			}
			if w := core.ReachableFromEdges(delE, isValuesUpdate, core.Or(onDelete, nextEvent)); w != nil {
				o.Fail(p.InstrPos(w), "Delete event writes a value into c.values")
			}
			if w := core.ReachableFromEdges(putE, isValuesDelete, core.Or(onAdd, nextEvent)); w != nil {
				o.Fail(p.InstrPos(w), "Put event deletes from c.values")
			}
			keyParam := c15ParamOfType(f, "string")
			applied(f, keyParam, listenersOf(keyParam))
		}
		// table dispatch: the handler that runs for a Put is entry 0 of the table, for a Delete entry 1;
		// each is decided as the code of that one event type; no other type reaches a notifying handler
		for _, d := range dispatches {
			d := d
			F := d.fn
			r.Fn(core.FuncName(F))
			o.Site(1, core.FuncName(F))
			keyF := c15ParamOfType(F, "string")
			for _, k := range []int64{-1, 2, 3} {
				if e := d.entry(k); e != nil && d.reached(k) && c15Notifies(d.handler(e).fn, core.Or(onAdd, onDelete), 0) {
					o.Fail(p.InstrPos(d.call), "%s notifies listeners for an event of type %d, which is neither a Put nor a Delete", core.FuncName(F), k)
				}
			}
			for _, k := range []int64{0, 1} {
				what := map[int64]string{0: "Put", 1: "Delete"}[k]
				if !d.reached(k) {
					o.Fail(p.InstrPos(d.call), "%s does not forward both Put and Delete events: the handler call is not reached for a %s", core.FuncName(F), what)
					continue
				}
				e := d.entry(k)
				if e == nil {
					o.Fail(p.InstrPos(d.call), "%s does not forward both Put and Delete events: the handler table has no entry for a %s", core.FuncName(F), what)
					continue
				}
				h := d.handler(e)
				g := h.fn
				r.Fn(core.FuncName(g))
				// what the handler's parameters denote at the call
				var keyParam *ssa.Parameter
				var lis []*ssa.Parameter
				for _, pa := range g.Params {
					v, bound := h.bind[pa]
					if !bound {
						continue
					}
					switch {
					case pa.Type().String() == "string":
						if keyF != nil && core.Forward(v) == ssa.Value(keyF) {
							keyParam = pa
						}
					case c15IsEventPtr(pa.Type()):
						var base ssa.Value
						if u, ok := d.typeLoad.(*ssa.UnOp); ok {
							if fa, ok := u.X.(*ssa.FieldAddr); ok {
								base = core.Forward(fa.X)
							}
						}
						if base == nil || core.Forward(v) != base {
							o.Fail(p.InstrPos(d.call), "the handler is chosen by the type of one event and handed another")
						}
					case strings.HasSuffix(pa.Type().String(), "internal.cluster"):
						if F.Signature.Recv() != nil && len(F.Params) > 0 && core.Forward(v) != ssa.Value(F.Params[0]) {
							o.Fail(p.InstrPos(d.call), "the handler is run on another cluster than the one that received the event")
						}
					default:
						if core.DependsOn(v, listenersOf(keyF)) {
							lis = append(lis, pa)
						}
					}
				}
				if core.EdgeCount(g, put)+core.EdgeCount(g, del) > 0 {
					// the handler tests the type itself: decided above like every function that switches over it
					inline := false
					for _, f := range eventFns {
						inline = inline || f == g
					}
					if !inline {
						o.Fail(p.Pos(g.Pos()), "%s, the handler of %s events, never notifies the listeners", core.FuncName(g), what)
					}
					continue
				}
				adds, dels := core.Instrs(g, onAdd), core.Instrs(g, onDelete)
				o.Site(len(adds)+len(dels), core.FuncName(g))
				entry := []core.At{core.Entry(g)}
				if k == 0 {
					if len(adds) == 0 {
						o.Fail(p.Pos(g.Pos()), "%s, the handler of Put events, never calls OnAdd (%s does not forward both Put and Delete events)", core.FuncName(g), core.FuncName(F))
					}
					if len(dels) > 0 {
						o.Fail(p.InstrPos(dels[0]), "OnDelete reachable for an event that is not a Delete")
					}
					if w, ok := core.Reach(core.Q{From: entry, Target: onAdd, Blocked: isValuesUpdate}); ok {
						o.Fail(p.InstrPos(w), "Put event: listeners are notified before (or without) updating c.values — a listener joining now is replayed a stale set")
					}
					if w, ok := core.Reach(core.Q{From: entry, Target: isValuesDelete}); ok {
						o.Fail(p.InstrPos(w), "Put event deletes from c.values")
					}
				} else {
					if len(dels) == 0 {
						o.Fail(p.Pos(g.Pos()), "%s, the handler of Delete events, never calls OnDelete (%s does not forward both Put and Delete events)", core.FuncName(g), core.FuncName(F))
					}
					if len(adds) > 0 {
						o.Fail(p.InstrPos(adds[0]), "OnAdd reachable for an event that is not a Put")
					}
					_, unknownE := core.EdgesOf(g, known)
					if w, ok := core.Reach(core.Q{From: entry, Target: onDelete, Blocked: isValuesDelete, Cut: core.CutSet(unknownE)}); ok {
						o.Fail(p.InstrPos(w), "Delete event: listeners are notified before (or without) deleting the key from c.values")
					}
					if w, ok := core.Reach(core.Q{From: entry, Target: isValuesUpdate}); ok {
						o.Fail(p.InstrPos(w), "Delete event writes a value into c.values")
					}
				}
				applied(g, keyParam, func(v ssa.Value) bool {
					for _, pa := range lis {
						if v == ssa.Value(pa) {
							return true
						}
					}
					return false
				})
			}
		}
	})

	// ---- container (subscriber side) ----
	isContMap := func(v ssa.Value) bool {
		return core.IsFieldLoad(v, "container.values") || core.IsFieldLoad(v, "container.mapping")
	}
	isDirectMut := func(in ssa.Instruction) bool {
		switch x := in.(type) {
		case *ssa.MapUpdate:
			return isContMap(x.Map)
		case *ssa.Call:
			if b, ok := x.Call.Value.(*ssa.Builtin); ok && b.Name() == "delete" {
				return isContMap(x.Call.Args[0])
			}
		}
		return false
	}
	direct := map[*ssa.Function]bool{}
	for _, f := range p.PkgFuncs(discovPkg) {
		if len(core.Instrs(f, isDirectMut)) > 0 {
			direct[f] = true
		}
	}
	callsDirect := func(in ssa.Instruction) bool {
		c, ok := in.(*ssa.Call)
		return ok && c.Call.StaticCallee() != nil && direct[c.Call.StaticCallee()]
	}
	isMut := core.Or(isDirectMut, callsDirect)
	isDirtySet := func(val bool) func(ssa.Instruction) bool {
		return func(in ssa.Instruction) bool {
			c, ok := in.(*ssa.Call)
			if !ok || core.Short(core.CalleeName(c)) != "(*lib/syncx.AtomicBool).Set" {
				return false
			}
			a := core.Args(c)
			return core.IsFieldLoad(a[0], "container.dirty") && core.Describe(a[1]) == map[bool]string{true: "const:true", false: "const:false"}[val]
		}
	}
	// role: notify = functions calling the elements of container.listeners
	var notifiers []*ssa.Function
	for _, f := range p.PkgFuncs(discovPkg) {
		for _, c := range core.Calls(f, core.CallOfValue(func(v ssa.Value) bool {
			return core.DependsOn(v, core.FieldLoad("container.listeners"))
		})) {
			_ = c
			notifiers = append(notifiers, f)
			break
		}
	}
	callsNotify := func(in ssa.Instruction) bool {
		c, ok := in.(*ssa.Call)
		if !ok || c.Call.StaticCallee() == nil {
			return false
		}
		for _, n := range notifiers {
			if c.Call.StaticCallee() == n {
				return true
			}
		}
		return false
	}
	onAddFn := p.Func(discovPkg, "container", "OnAdd")
	onDelFn := p.Func(discovPkg, "container", "OnDelete")

	r.Check("D3/K1/mutate-then-notify", "container.OnAdd and container.OnDelete change the maps first and then call every registered listener, on every path", func(o *core.O) {
		if !o.Need(onAddFn != nil && onDelFn != nil, "container.OnAdd / container.OnDelete") || !o.Need(len(notifiers) > 0, "a function calling the elements of container.listeners") {
			return
		}
		// a mutation reachable through one more call level (OnAdd → addKv → maps)
		reachMut := func(in ssa.Instruction) bool {
			if isMut(in) {
				return true
			}
			c, ok := in.(*ssa.Call)
			if !ok || c.Call.StaticCallee() == nil || c.Call.StaticCallee().Blocks == nil {
				return false
			}
			return len(core.Instrs(c.Call.StaticCallee(), isMut)) > 0
		}
		for _, f := range []*ssa.Function{onAddFn, onDelFn} {
			r.Fn(core.FuncName(f))
			ms, ns := core.Instrs(f, reachMut), core.Instrs(f, callsNotify)
			o.Site(len(ms)+len(ns), core.FuncName(f))
			if len(ms) == 0 {
				o.Fail(p.Pos(f.Pos()), "%s does not change the container", core.FuncName(f))
			}
			if w := core.MustPass(core.Entry(f), callsNotify, core.IsExit); w != nil {
				o.Fail(p.InstrPos(w), "%s can return without notifying the change listeners", core.FuncName(f))
			}
			if w := core.MustPass(core.Entry(f), reachMut, core.IsExit); w != nil {
				o.Fail(p.InstrPos(w), "%s can return without changing the container", core.FuncName(f))
			}
			if w := core.Precedes(f, reachMut, callsNotify); w != nil {
				o.Fail(p.InstrPos(w), "%s notifies the listeners before the change is applied (they read the old values)", core.FuncName(f))
			}
		}
		for _, n := range notifiers {
			r.Fn(core.FuncName(n))
		}
	})

	r.Check("D3/K8/values-keyed-by-value", "OnAdd records mapping[key] = val and appends key to values[val] (values is keyed by the published value, which getValues lists); OnDelete removes by the event's key", func(o *core.O) {
		if !o.Need(onAddFn != nil && onDelFn != nil, "container.OnAdd / container.OnDelete") {
			return
		}
		// the adder: callee of OnAdd that updates container.mapping
		n := 0
		for _, c := range core.Calls(onAddFn, func(in ssa.Instruction) bool { return callsDirect(in) }) {
			callee := c.Common().StaticCallee()
			var pKey, pVal *ssa.Parameter
			for i, a := range c.Common().Args {
				switch core.FieldAddrNameOfLoad(core.Forward(a)) {
				case "KV.Key":
					pKey = callee.Params[i]
				case "KV.Val":
					pVal = callee.Params[i]
				}
			}
			if pKey == nil || pVal == nil {
				o.Fail(p.InstrPos(c), "OnAdd does not pass both kv.Key and kv.Val on")
				continue
			}
			r.Fn(core.FuncName(callee))
			is := func(pa *ssa.Parameter) func(ssa.Value) bool {
				return func(v ssa.Value) bool { return core.IsParam(pa.Name())(v) }
			}
			for _, in := range core.Instrs(callee, func(in ssa.Instruction) bool { _, ok := in.(*ssa.MapUpdate); return ok && isDirectMut(in) }) {
				mu := in.(*ssa.MapUpdate)
				n++
				if core.IsFieldLoad(mu.Map, "container.mapping") {
					if !is(pKey)(mu.Key) || !is(pVal)(mu.Value) {
						o.Fail(p.InstrPos(in), "mapping[%s] = %s, expected mapping[key] = value", core.Describe(mu.Key), core.Describe(mu.Value))
					}
				} else {
					if !is(pVal)(mu.Key) || !core.DependsOn(mu.Value, is(pKey)) {
						o.Fail(p.InstrPos(in), "values[%s] is updated with %s, expected values[value] = append(…, key)", core.Describe(mu.Key), core.Describe(mu.Value))
					}
				}
			}
			for _, m := range []string{"container.mapping", "container.values"} {
				m := m
				site := func(in ssa.Instruction) bool {
					mu, ok := in.(*ssa.MapUpdate)
					return ok && core.IsFieldLoad(mu.Map, m)
				}
				if w := core.MustPass(core.Entry(callee), site, core.IsReturn); w != nil {
					o.Fail(p.InstrPos(w), "%s can return without recording the pair in %s", core.FuncName(callee), m)
				}
			}
		}
		for _, c := range core.Calls(onDelFn, func(in ssa.Instruction) bool {
			cc, ok := in.(*ssa.Call)
			return ok && cc.Call.StaticCallee() != nil && len(core.Instrs(cc.Call.StaticCallee(), isMut)) > 0
		}) {
			n++
			ok := false
			for _, a := range c.Common().Args {
				if core.FieldAddrNameOfLoad(core.Forward(a)) == "KV.Key" {
					ok = true
				}
			}
			if !ok {
				o.Fail(p.InstrPos(c), "OnDelete does not remove by kv.Key")
			}
		}
		o.Site(n, core.FuncName(onAddFn), core.FuncName(onDelFn))
	})

	r.Check("D3/K3/dirty-before-mutation", "every mutation of container.values/mapping is preceded by dirty.Set(true) (in the function or at every call site of the helper); getValues stores the snapshot before clearing dirty, both under the lock", func(o *core.O) {
		n := 0
		var fs []*ssa.Function
		for f := range direct {
			fs = append(fs, f)
		}
		sort.Slice(fs, func(i, j int) bool { return core.FuncName(fs[i]) < core.FuncName(fs[j]) })
		for _, f := range fs {
			r.Fn(core.FuncName(f))
			n++
			w := core.Precedes(f, isDirtySet(true), isDirectMut)
			if w == nil {
				continue
			}
			// helper: every call site must be preceded by dirty.Set(true)
			sites := 0
			for _, g := range p.PkgFuncs(discovPkg) {
				isCallF := func(in ssa.Instruction) bool {
					c, ok := in.(ssa.CallInstruction)
					return ok && c.Common().StaticCallee() == f
				}
				cs := core.Instrs(g, isCallF)
				sites += len(cs)
				if len(cs) > 0 {
					if w2 := core.Precedes(g, isDirtySet(true), isCallF); w2 != nil {
						o.Fail(p.InstrPos(w2), "%s changes the container through %s without first setting dirty: getValues keeps serving the cached snapshot", core.FuncName(g), core.FuncName(f))
					}
				}
			}
			if sites == 0 || f.Object() == nil || f.Object().Exported() {
				o.Fail(p.InstrPos(w), "%s changes container.values/mapping without first setting dirty: getValues keeps serving the cached snapshot", core.FuncName(f))
			}
		}
		o.Site(n)
		// getValues: snapshot.Store ≺ dirty.Set(false)
		isSnapStore := func(in ssa.Instruction) bool {
			c, ok := in.(*ssa.Call)
			return ok && core.CalleeName(c) == "(*sync/atomic.Value).Store" && core.FieldAddrName(core.Args(c)[0]) == "container.snapshot"
		}
		la := core.NewLockAnalysis(p, discovPkg)
		m := 0
		for _, f := range p.PkgFuncs(discovPkg) {
			clears := core.Instrs(f, isDirtySet(false))
			if len(clears) == 0 {
				continue
			}
			m += len(clears)
			r.Fn(core.FuncName(f))
			if w := core.Precedes(f, isSnapStore, isDirtySet(false)); w != nil {
				o.Fail(p.InstrPos(w), "%s clears dirty before the new snapshot is stored: a concurrent reader sees dirty == false and loads the old (or no) snapshot", core.FuncName(f))
			}
			for _, in := range append(clears, core.Instrs(f, isSnapStore)...) {
				held := false
				for k := range la.Held(in) {
					if strings.HasSuffix(k, ".lock") {
						held = true
					}
				}
				if !held {
					o.Fail(p.InstrPos(in), "%s publishes the snapshot / clears dirty outside the container lock", core.FuncName(f))
				}
			}
			// the snapshot lists the keys of container.values
			for _, in := range core.Instrs(f, isSnapStore) {
				if !core.DependsOn(core.Args(in.(ssa.CallInstruction))[1], core.FieldLoad("container.values")) {
					o.Fail(p.InstrPos(in), "the stored snapshot is not computed from container.values")
				}
			}
		}
		o.Site(m)
		if m == 0 {
			o.Fail("lib/discov", "no function clears container.dirty")
		}
	})

	r.Check("D4/K2/exclusive-guard", "earlier keys of a value are removed on add only in exclusive mode", func(o *core.O) {
		n := 0
		for _, f := range p.PkgFuncs(discovPkg) {
			isAdd := func(in ssa.Instruction) bool {
				mu, ok := in.(*ssa.MapUpdate)
				return ok && core.IsFieldLoad(mu.Map, "container.mapping")
			}
			if len(core.Instrs(f, isAdd)) == 0 {
				continue
			}
			r.Fn(core.FuncName(f))
			isRemoval := func(in ssa.Instruction) bool {
				if c, ok := in.(*ssa.Call); ok {
					if b, ok := c.Call.Value.(*ssa.Builtin); ok && b.Name() == "delete" {
						return isContMap(c.Call.Args[0])
					}
					if cal := c.Call.StaticCallee(); cal != nil && cal.Blocks != nil {
						return len(core.Instrs(cal, func(in ssa.Instruction) bool {
							cc, ok := in.(*ssa.Call)
							if !ok {
								return false
							}
							b, ok := cc.Call.Value.(*ssa.Builtin)
							return ok && b.Name() == "delete" && isContMap(cc.Call.Args[0])
						})) > 0
					}
				}
				return false
			}
			rs := core.Instrs(f, isRemoval)
			n += len(rs)
			o.Site(len(rs), core.FuncName(f))
			excl := core.BoolVal(core.FieldLoad("container.exclusive"))
			if len(rs) > 0 && core.EdgeCount(f, excl) == 0 {
				o.Fail(p.Pos(f.Pos()), "%s removes earlier keys without testing c.exclusive", core.FuncName(f))
			} else if w := core.Requires(f, isRemoval, excl); w != nil {
				o.Fail(p.InstrPos(w), "%s removes the earlier keys of a value although the subscriber is not exclusive (values shared by several keys lose their other keys)", core.FuncName(f))
			}
		}
		if n == 0 {
			o.Fail("lib/discov", "exclusive mode never removes the earlier keys of a value")
		}
	})

	r.Check("D4/K3/reload-order", "reload: close(done) ≺ watchGroup.Wait ≺ new done channel and new group; done is closed and done/watchGroup are replaced under c.lock; afterwards every key of c.listeners is loaded and then watched from the loaded revision", func(o *core.O) {
		if !o.Need(len(reloadFns) > 0, "a cluster method closing c.done (reload)") {
			return
		}
		la := core.NewLockAnalysis(p, discovInt)
		for _, f := range reloadFns {
			r.Fn(core.FuncName(f))
			isClose := func(in ssa.Instruction) bool {
				c, ok := in.(*ssa.Call)
				return ok && core.CalleeName(c) == "builtin:close" && core.IsFieldLoad(c.Call.Args[0], "cluster.done")
			}
			isWait := func(in ssa.Instruction) bool {
				c, ok := in.(*ssa.Call)
				return ok && core.Short(core.CalleeName(c)) == "(*lib/threading.RoutineGroup).Wait" && core.IsFieldLoad(core.Forward(core.Args(c)[0]), "cluster.watchGroup")
			}
			newDone, newGroup := core.IsStoreToField("cluster.done"), core.IsStoreToField("cluster.watchGroup")
			isRun := func(in ssa.Instruction) bool {
				c, ok := in.(*ssa.Call)
				return ok && core.Short(core.CalleeName(c)) == "(*lib/threading.RoutineGroup).Run" && core.IsFieldLoad(core.Args(c)[0], "cluster.watchGroup")
			}
			sites := core.Instrs(f, core.Or(isClose, isWait, newDone, newGroup))
			o.Site(len(sites), core.FuncName(f))
			for name, m := range map[string]func(ssa.Instruction) bool{"watchGroup.Wait": isWait, "a new done channel": newDone, "a new watch group": newGroup, "watchGroup.Run": isRun} {
				if w := core.MustPass(core.Entry(f), m, core.IsReturn); w != nil && name != "watchGroup.Run" {
					o.Fail(p.InstrPos(w), "%s can return without %s", core.FuncName(f), name)
				}
			}
			if w := core.Precedes(f, isClose, isWait); w != nil {
				o.Fail(p.InstrPos(w), "reload waits for the watchers before closing done: they never stop (deadlock)")
			}
			if w := core.Precedes(f, isWait, core.Or(newDone, newGroup)); w != nil {
				o.Fail(p.InstrPos(w), "reload replaces done / the watch group before the old watchers have stopped")
			}
			if w := core.Precedes(f, core.Or(newDone, newGroup), isRun); w != nil {
				o.Fail(p.InstrPos(w), "watchers are started on the old group / old done channel")
			}
			if w, ok := core.Reach(core.Q{From: afterAll(core.Instrs(f, isRun)), Target: core.Or(newDone, newGroup, isClose)}); ok {
				o.Fail(p.InstrPos(w), "done / the watch group is replaced after watchers were started on them")
			}
			for _, in := range sites {
				if isWait(in) {
					continue // the join must NOT hold the lock the watchers take: D4/K4/no-join-under-watcher-lock
				}
				held := false
				for k := range la.Held(in) {
					if strings.HasSuffix(k, ".lock") {
						held = true
					}
				}
				if !held {
					o.Fail(p.InstrPos(in), "reload touches done / watchGroup outside c.lock")
				}
			}
			// the restarted work
			runs := core.Calls(f, isRun)
			o.Site(len(runs))
			if len(runs) == 0 {
				o.Fail(p.Pos(f.Pos()), "reload starts no watcher")
			}
			for _, run := range runs {
				body, bind := gxClosureOf(core.Args(run)[1])
				if body == nil {
					o.Unres("the function run by reload is not a closure")
					continue
				}
				r.Fn(core.FuncName(body))
				c15LoadThenWatch(o, p, body, nil)
				keyed := false
				for _, v := range bind {
					if v.Type().String() == "string" || v.Type().String() == "*string" {
						if core.DependsOn(v, core.FieldLoad("cluster.listeners")) {
							keyed = true
						} else {
							o.Fail(p.InstrPos(run), "the reloaded key %s is not taken from c.listeners", core.Describe(v))
						}
					}
				}
				if !keyed {
					o.Fail(p.InstrPos(run), "reload does not iterate over the keys of c.listeners")
				}
			}
		}
	})

	r.Check("D4/K4/no-join-under-watcher-lock", "no function of lib/discov/internal waits for the watcher goroutines (RoutineGroup.Wait on cluster.watchGroup) on a path on which it holds a mutex that those goroutines lock (load → handleChanges and watch → handleWatchEvents lock cluster.lock): the watcher blocks on the mutex, the join on the watcher", func(o *core.O) {
		isWatchGroup := func(v ssa.Value) bool { return core.IsFieldLoad(core.Forward(v), "cluster.watchGroup") }
		mutexOf := func(in ssa.Instruction, method string) string {
			c := core.AsCall(in)
			if c == nil {
				return ""
			}
			n := core.CalleeName(c)
			if n != "(*sync.Mutex)."+method && n != "(*sync.RWMutex)."+method {
				return ""
			}
			return core.FieldAddrName(core.Args(c)[0])
		}
		// the mutexes the watcher goroutines take: Lock calls reachable (static calls inside the package, depth 5)
		// from the functions run on cluster.watchGroup
		taken := map[string]bool{}
		seen := map[*ssa.Function]bool{}
		home := p.Pkg(discovInt)
		var visit func(f *ssa.Function, d int)
		visit = func(f *ssa.Function, d int) {
			if f == nil || seen[f] || d > 5 || f.Blocks == nil {
				return
			}
			seen[f] = true
			for _, b := range f.Blocks {
				for _, in := range b.Instrs {
					if m := mutexOf(in, "Lock"); m != "" {
						taken[m] = true
					}
					if c := core.AsCall(in); c != nil {
						// the package is fixed by role, not taken from f: a bound method value whose
						// method the variant inlined is a synthetic function without package
						if callee := c.Common().StaticCallee(); callee != nil && callee.Pkg != nil && callee.Pkg == home {
							visit(callee, d+1)
						}
					}
					if mc, ok := in.(*ssa.MakeClosure); ok {
						visit(mc.Fn.(*ssa.Function), d+1)
					}
				}
			}
		}
		nRun := 0
		for _, f := range p.PkgFuncs(discovInt) {
			for _, c := range core.Calls(f, core.CallTo("(*lib/threading.RoutineGroup).Run")) {
				if a := core.Args(c); len(a) == 2 && isWatchGroup(a[0]) {
					nRun++
					if body, _ := gxClosureOf(a[1]); body != nil {
						visit(body, 0)
					}
				}
			}
		}
		if !o.Need(nRun > 0 && len(taken) > 0, "functions run on cluster.watchGroup that lock a mutex") {
			return
		}
		n := 0
		for _, f := range p.PkgFuncs(discovInt) {
			for _, w := range core.Calls(f, core.CallTo("(*lib/threading.RoutineGroup).Wait")) {
				if !isWatchGroup(core.Args(w)[0]) {
					continue
				}
				n++
				r.Fn(core.FuncName(f))
				for m := range taken {
					var locks []core.At
					for _, in := range core.Instrs(f, func(in ssa.Instruction) bool { _, plain := in.(*ssa.Call); return plain && mutexOf(in, "Lock") == m }) {
						locks = append(locks, core.After(in))
					}
					unlock := func(in ssa.Instruction) bool { _, plain := in.(*ssa.Call); return plain && mutexOf(in, "Unlock") == m }
					if hit, ok := core.Reach(core.Q{From: locks, Target: core.Is(w), Blocked: unlock}); ok {
						o.Fail(p.InstrPos(hit), "%s waits for the watcher goroutines while it holds %s, which they lock themselves (load → handleChanges, watch → handleWatchEvents): a reconnect during a load or an event dead-locks the cluster for good", core.FuncName(f), m)
					}
				}
			}
		}
		o.Site(n, discovInt)
	})

	r.Check("D4/K1/reloads-serialised", "from closing done to installing the new done channel and watch group, reload holds one mutex throughout (two overlapping reloads would close the closed channel, or start two generations of watchers)", func(o *core.O) {
		if !o.Need(len(reloadFns) > 0, "a cluster method closing c.done (reload)") {
			return
		}
		la := core.NewLockAnalysis(p, discovInt)
		for _, f := range reloadFns {
			r.Fn(core.FuncName(f))
			sites := core.Instrs(f, func(in ssa.Instruction) bool {
				if c, ok := in.(*ssa.Call); ok {
					n := core.CalleeName(c)
					if n == "builtin:close" && core.IsFieldLoad(c.Call.Args[0], "cluster.done") {
						return true
					}
					return core.Short(n) == "(*lib/threading.RoutineGroup).Wait" && core.IsFieldLoad(core.Forward(core.Args(c)[0]), "cluster.watchGroup")
				}
				return core.IsStoreToField("cluster.done")(in) || core.IsStoreToField("cluster.watchGroup")(in)
			})
			o.Site(len(sites), core.FuncName(f))
			var common map[string]bool
			for _, in := range sites {
				h := map[string]bool{}
				for k := range la.Held(in) {
					h[k] = true
				}
				if common == nil {
					common = h
					continue
				}
				for k := range common {
					if !h[k] {
						delete(common, k)
					}
				}
			}
			if len(sites) > 0 && len(common) == 0 {
				o.Fail(p.Pos(f.Pos()), "%s holds no single mutex from close(done) to the new done channel / watch group: overlapping reloads close a closed channel (panic) or start the watchers twice", core.FuncName(f))
			}
		}
	})

	r.Check("D4/K1/monitor-loads-then-watches", "cluster.monitor registers the listener under the lock, then loads the key and starts a watcher from the loaded revision", func(o *core.O) {
		n := 0
		for _, f := range p.PkgFuncs(discovInt) {
			if f.Parent() != nil || c15ParamOfType(f, "internal.UpdateListener") == nil {
				continue
			}
			isReg := func(in ssa.Instruction) bool {
				mu, ok := in.(*ssa.MapUpdate)
				return ok && core.IsFieldLoad(mu.Map, "cluster.listeners")
			}
			regs := core.Instrs(f, isReg)
			if len(regs) == 0 {
				continue
			}
			n++
			r.Fn(core.FuncName(f))
			o.Site(len(regs), core.FuncName(f))
			l := c15ParamOfType(f, "internal.UpdateListener")
			key := c15ParamOfType(f, "string")
			for _, in := range regs {
				mu := in.(*ssa.MapUpdate)
				if key == nil || core.Forward(mu.Key) != ssa.Value(key) || !core.DependsOn(mu.Value, func(v ssa.Value) bool { return v == ssa.Value(l) }) {
					o.Fail(p.InstrPos(in), "the listener is not appended to c.listeners[key]")
				}
				if !core.DependsOn(mu.Value, func(v ssa.Value) bool {
					lk, ok := v.(*ssa.Lookup)
					return ok && core.IsFieldLoad(lk.X, "cluster.listeners")
				}) {
					o.Fail(p.InstrPos(in), "registering a listener drops the listeners already registered for the key")
				}
			}
			c15LoadThenWatch(o, p, f, regs)
		}
		if n == 0 {
			o.Unres("anchor not found: the cluster method registering a listener (monitor)")
		}
	})

	r.Check("D4/K2/monitor-replay", "Registry.Monitor replays getCurrent(key) to a listener that joins an already existing cluster, before calling monitor with the same key and listener", func(o *core.O) {
		f := p.Func(discovInt, "Registry", "Monitor")
		if !o.Need(f != nil, "Registry.Monitor") {
			return
		}
		r.Fn(core.FuncName(f))
		l := c15ParamOfType(f, "internal.UpdateListener")
		key := c15ParamOfType(f, "string")
		if !o.Need(l != nil && key != nil, "key and listener parameters of Monitor") {
			return
		}
		// role: getCurrent = callee returning []KV; monitor = callee taking the listener
		isCurrent := func(in ssa.Instruction) bool {
			c, ok := in.(*ssa.Call)
			return ok && c.Call.StaticCallee() != nil && c.Type().String() == "[]"+core.Mod+"/"+discovInt+".KV"
		}
		isMonitor := func(in ssa.Instruction) bool {
			c, ok := in.(*ssa.Call)
			if !ok || c.Call.StaticCallee() == nil {
				return false
			}
			for _, a := range c.Call.Args {
				if a == ssa.Value(l) {
					return true
				}
			}
			return false
		}
		exists := core.BoolVal(func(v ssa.Value) bool {
			e, ok := core.Forward(v).(*ssa.Extract)
			if !ok || e.Index != 1 {
				return false
			}
			c, ok := e.Tuple.(*ssa.Call)
			return ok && strings.HasSuffix(c.Call.Signature().Results().At(0).Type().String(), "internal.cluster")
		})
		cur, mon := core.Calls(f, isCurrent), core.Calls(f, isMonitor)
		replays := core.Instrs(f, func(in ssa.Instruction) bool {
			return onAdd(in) && core.Args(in.(ssa.CallInstruction))[0] == ssa.Value(l)
		})
		o.Site(len(cur)+len(mon)+len(replays), core.FuncName(f))
		if len(cur) == 0 || len(mon) == 0 || len(replays) == 0 {
			o.Fail(p.Pos(f.Pos()), "Monitor lacks the replay (getCurrent: %d, OnAdd on the new listener: %d) or the monitor call (%d)", len(cur), len(replays), len(mon))
			return
		}
		existsE, _ := core.EdgesOf(f, exists)
		if len(existsE) == 0 {
			o.Fail(p.Pos(f.Pos()), "Monitor does not test whether the cluster already existed")
		}
		if w := core.ReachableFromEdges(existsE, isMonitor, isCurrent); w != nil {
			o.Fail(p.InstrPos(w), "a listener joining an existing cluster is not replayed the current values (it only learns of later changes)")
		}
		for _, c := range cur {
			if a := core.Args(c); len(a) < 2 || core.Forward(a[1]) != ssa.Value(key) {
				o.Fail(p.InstrPos(c), "the replay reads another key than the monitored one")
			}
		}
		for _, in := range replays {
			if !core.DependsOn(core.Args(in.(ssa.CallInstruction))[1], func(v ssa.Value) bool {
				c, ok := v.(*ssa.Call)
				return ok && isCurrent(c)
			}) {
				o.Fail(p.InstrPos(in), "the replayed pair does not come from getCurrent")
			}
		}
		if w, ok := core.Reach(core.Q{From: afterAll(mon), Target: core.Is(replays...)}); ok {
			o.Fail(p.InstrPos(w), "the replay happens after monitor registered the listener (pairs are delivered twice or out of order)")
		}
		if w := core.MustPass(core.Entry(f), isMonitor, core.IsReturn); w != nil {
			o.Fail(p.InstrPos(w), "Monitor can return without monitoring the key")
		}
		for _, c := range mon {
			ok := false
			for _, a := range c.Common().Args {
				if core.Forward(a) == ssa.Value(key) {
					ok = true
				}
			}
			if !ok {
				o.Fail(p.InstrPos(c), "monitor is not called with the requested key")
			}
		}
		// getCurrent reads c.values[key]
		for _, c := range cur {
			g := c.Common().StaticCallee()
			r.Fn(core.FuncName(g))
			gk := c15ParamOfType(g, "string")
			for _, ret := range core.Returns(g) {
				if !core.DependsOn(core.Result(ret, 0), func(v ssa.Value) bool {
					lk, ok := v.(*ssa.Lookup)
					return ok && isValuesLoad(lk.X) && gk != nil && core.Forward(lk.Index) == ssa.Value(gk)
				}) {
					o.Fail(p.InstrPos(ret), "%s does not return the pairs of c.values[key]", core.FuncName(g))
				}
			}
		}
	})

	r.Check("D4/K8/reload-closure-own-key", "each goroutine started by reload is bound to its own key: a closure handed to an asynchronous runner inside a loop captures a variable allocated per iteration, never the shared loop variable (this module is built with the per-loop semantics of go 1.19)", func(o *core.O) {
		isAsync := func(in ssa.Instruction) bool {
			if _, ok := in.(*ssa.Go); ok {
				return true
			}
			c := core.AsCall(in)
			if c == nil {
				return false
			}
			n := core.Short(core.CalleeName(c))
			return n == "(*lib/threading.RoutineGroup).Run" || n == "(*lib/threading.RoutineGroup).RunSafe" || n == "lib/threading.GoSafe"
		}
		n := 0
		for _, f := range p.PkgFuncs("lib/discov/internal") {
			for _, in := range core.Instrs(f, isAsync) {
				c := in.(ssa.CallInstruction)
				var mcs []*ssa.MakeClosure
				if mc, ok := c.Common().Value.(*ssa.MakeClosure); ok {
					mcs = append(mcs, mc)
				}
				for _, a := range c.Common().Args {
					if mc, ok := a.(*ssa.MakeClosure); ok {
						mcs = append(mcs, mc)
					}
				}
				for _, mc := range mcs {
					// only closures created inside a cycle matter
					if _, inLoop := core.Reach(core.Q{From: []core.At{core.After(mc)}, Target: core.Is(mc)}); !inLoop {
						continue
					}
					n++
					r.Fn(core.FuncName(f))
					for _, b := range mc.Bindings {
						al, ok := b.(*ssa.Alloc)
						if !ok {
							continue
						}
						// an allocation outside the cycle that is written inside it is shared by all iterations
						if _, perIter := core.Reach(core.Q{From: []core.At{core.After(al)}, Target: core.Is(al)}); perIter {
							continue
						}
						written := false
						for _, rf := range *al.Referrers() {
							if st, ok := rf.(*ssa.Store); ok && st.Addr == al {
								if _, again := core.Reach(core.Q{From: []core.At{core.After(st)}, Target: core.Is(st)}); again {
									written = true
								}
							}
						}
						if written {
							o.Fail(p.InstrPos(mc), "%s starts goroutines in a loop that all capture the loop variable %q: after a reconnect every one of them works on the last key, the other keys are never re-loaded or re-watched", core.FuncName(f), al.Comment)
						}
					}
				}
			}
		}
		o.Site(n)
	})

	r.Check("D3/K3/append-to-current-list", "the subscriber container appends a key to the value's current key list: the list is read after the exclusive-mode removals (a list read before them brings removed keys back without a mapping entry)", func(o *core.O) {
		n := 0
		for _, f := range p.PkgFuncs("lib/discov") {
			for _, in := range core.Instrs(f, core.IsMapUpdateOn("container.values")) {
				mu := in.(*ssa.MapUpdate)
				ap, ok := mu.Value.(*ssa.Call)
				if !ok {
					continue
				}
				if b, ok := ap.Call.Value.(*ssa.Builtin); !ok || b.Name() != "append" {
					continue
				}
				n++
				r.Fn(core.FuncName(f))
				base, ok := core.Forward(ap.Call.Args[0]).(*ssa.Lookup)
				if !ok || !core.IsFieldLoad(base.X, "container.values") {
					// appending to a fresh slice is fine; anything else is not the current list
					if _, isConst := ap.Call.Args[0].(*ssa.Const); isConst {
						continue
					}
					o.Fail(p.InstrPos(in), "%s appends to %s, not to the value's current key list", core.FuncName(f), core.Describe(ap.Call.Args[0]))
					continue
				}
				if core.Describe(base.Index) != core.Describe(mu.Key) {
					o.Fail(p.InstrPos(in), "%s appends the key to the list of another value", core.FuncName(f))
				}
				mutates := func(x ssa.Instruction) bool {
					if x == in {
						return false
					}
					if core.IsMapUpdateOn("container.values")(x) {
						return true
					}
					if c, ok := x.(*ssa.Call); ok {
						if b, ok := c.Call.Value.(*ssa.Builtin); ok && b.Name() == "delete" && core.IsFieldLoad(c.Call.Args[0], "container.values") {
							return true
						}
						if callee := c.Call.StaticCallee(); callee != nil && callee != f {
							for _, g := range core.WithAnon(callee) {
								if len(core.Instrs(g, core.IsMapUpdateOn("container.values"))) > 0 {
									return true
								}
								for _, y := range core.Instrs(g, func(y ssa.Instruction) bool {
									cc, ok := y.(*ssa.Call)
									if !ok {
										return false
									}
									b, ok := cc.Call.Value.(*ssa.Builtin)
									return ok && b.Name() == "delete" && core.IsFieldLoad(cc.Call.Args[0], "container.values")
								}) {
									_ = y
									return true
								}
							}
						}
					}
					return false
				}
				if w, ok := core.Reach(core.Q{From: []core.At{core.After(base)}, Target: mutates, Blocked: core.Is(in)}); ok {
					o.Fail(p.InstrPos(w), "%s: the key list it appends to was read before this mutation of container.values (stale list)", core.FuncName(f))
				}
			}
		}
		o.Site(n)
	})

}

// c15LoadThenWatch decides that f (a closure of reload, or monitor) calls the
// loader (the function reaching the reload diff) and then a watcher with the
// revision the loader returned and the same key; when after is given the load
// must follow those instructions.
func c15LoadThenWatch(o *core.O, p *core.Prog, f *ssa.Function, after []ssa.Instruction) {
	invokes := func(g *ssa.Function, method string, depth int) bool {
		var rec func(g *ssa.Function, d int) bool
		seen := map[*ssa.Function]bool{}
		rec = func(g *ssa.Function, d int) bool {
			if g == nil || g.Blocks == nil || seen[g] || d > depth {
				return false
			}
			seen[g] = true
			for _, h := range core.WithAnon(g) {
				for _, c := range core.Calls(h, func(in ssa.Instruction) bool { return core.AsCall(in) != nil }) {
					if strings.HasSuffix(core.CalleeName(c), "internal.EtcdClient)."+method) {
						return true
					}
					if rec(c.Common().StaticCallee(), d+1) {
						return true
					}
				}
			}
			return false
		}
		return rec(g, 0)
	}
	isLoad := func(in ssa.Instruction) bool {
		c, ok := in.(*ssa.Call)
		return ok && c.Call.StaticCallee() != nil && invokes(c.Call.StaticCallee(), "Get", 0) && c.Type().String() == "int64"
	}
	isWatch := func(in ssa.Instruction) bool {
		c := core.AsCall(in)
		if c == nil {
			return false
		}
		if g := c.Common().StaticCallee(); g != nil && invokes(g, "Watch", 2) {
			return true
		}
		// watcher started through a closure handed to RoutineGroup.Run
		if core.Short(core.CalleeName(c)) == "(*lib/threading.RoutineGroup).Run" {
			if body, _ := gxClosureOf(core.Args(c)[1]); body != nil && invokes(body, "Watch", 3) {
				return true
			}
		}
		return false
	}
	loads, watches := core.Calls(f, isLoad), core.Instrs(f, isWatch)
	o.Site(len(loads)+len(watches), core.FuncName(f))
	if len(loads) == 0 || len(watches) == 0 {
		o.Fail(p.Pos(f.Pos()), "%s does not both load the key (%d) and watch it (%d)", core.FuncName(f), len(loads), len(watches))
		return
	}
	if w := core.Precedes(f, isLoad, isWatch); w != nil {
		o.Fail(p.InstrPos(w), "%s starts watching before the key was loaded (changes before the snapshot revision are lost or doubled)", core.FuncName(f))
	}
	if len(after) > 0 {
		if w := core.Precedes(f, core.Is(after...), isLoad); w != nil {
			o.Fail(p.InstrPos(w), "%s loads the key before the listener is registered (the loaded pairs are not delivered to it)", core.FuncName(f))
		}
	}
	// on success paths (those reaching a watch) nothing to check further; every non-error return must pass the watch
	for _, ret := range core.Returns(f) {
		if len(ret.Results) == 1 && !core.IsNil(core.Result(ret, 0)) {
			continue // error return
		}
		if _, ok := core.Reach(core.Q{From: []core.At{core.Entry(f)}, Target: core.Is(ret), Blocked: isWatch}); ok {
			o.Fail(p.InstrPos(ret), "%s can finish without watching the key", core.FuncName(f))
		}
	}
	// the watcher starts from the loaded revision, for the loaded key
	for _, w := range watches {
		c := w.(ssa.CallInstruction)
		args := core.Args(c)
		var free []ssa.Value
		if core.Short(core.CalleeName(c)) == "(*lib/threading.RoutineGroup).Run" {
			_, bind := gxClosureOf(args[1])
			for _, v := range bind {
				free = append(free, v)
			}
			args = free
		}
		rev := false
		for _, a := range args {
			if cl, ok := c15Forward(p, discovInt, a).(*ssa.Call); ok && isLoad(cl) {
				rev = true
			}
		}
		if !rev {
			o.Fail(p.InstrPos(w), "the watcher is not started from the revision returned by the load")
		}
		var lk, wk []ssa.Value
		for _, a := range core.Args(loads[0]) {
			if a.Type().String() == "string" {
				lk = append(lk, a)
			}
		}
		for _, a := range args {
			if a.Type().String() == "string" {
				wk = append(wk, a)
			}
		}
		if len(lk) != 1 || len(wk) != 1 || core.Describe(core.Forward(lk[0])) != core.Describe(core.Forward(wk[0])) {
			o.Fail(p.InstrPos(w), "load and watch are not given the same key")
		}
	}
}
