package props

import (
	"go/constant"
	"go/token"
	"go/types"
	"strings"

	"godcheck/core"

	"golang.org/x/tools/go/ssa"
)

// ---------------------------------------------------------------------------
// Role anchors of the token limiter's state.
//
// The fallback state (redisAlive, monitorStarted, rescueLock, rescueLimiter) is
// anchored by FIELD NAME within the limiter's own state, wherever that state is
// laid out: directly in TokenLimiter or in a struct of the package nested in it
// (embedded or named, by value or by pointer). c08lim computes that set of types
// and answers "T.f" for a field name, so `TokenLimiter.redisAlive` and
// `rescueState.redisAlive` (reached through an embedded rescueState) are the
// same anchor. A name that occurs in two of the types is ambiguous (never
// matches: the obligations using it become unresolved).
// ---------------------------------------------------------------------------

type c08lim struct {
	p     *core.Prog
	types map[string]bool   // base names of the limiter's state types
	owner map[string]string // field name → "T.f" ("" when ambiguous)
	sites map[*ssa.Function][]*ssa.MakeClosure
}

func newC08lim(p *core.Prog, rootType string) *c08lim {
	l := &c08lim{p: p, types: map[string]bool{}, owner: map[string]string{}, sites: map[*ssa.Function][]*ssa.MakeClosure{}}
	sp := p.Pkg(c08pkg)
	if sp == nil {
		return l
	}
	if t := sp.Type(rootType); t != nil {
		if named, ok := t.Type().(*types.Named); ok {
			var visit func(n *types.Named)
			visit = func(n *types.Named) {
				st, ok := n.Underlying().(*types.Struct)
				if !ok || l.types[n.Obj().Name()] {
					return
				}
				l.types[n.Obj().Name()] = true
				for i := 0; i < st.NumFields(); i++ {
					f := st.Field(i)
					tf := n.Obj().Name() + "." + f.Name()
					if prev, dup := l.owner[f.Name()]; dup && prev != tf {
						l.owner[f.Name()] = ""
					} else {
						l.owner[f.Name()] = tf
					}
					ft := f.Type()
					if pt, isP := ft.Underlying().(*types.Pointer); isP {
						ft = pt.Elem()
					}
					if fn, isN := ft.(*types.Named); isN && fn.Obj().Pkg() == n.Obj().Pkg() {
						visit(fn)
					}
				}
			}
			visit(named)
		}
	}
	for _, f := range p.PkgFuncs(c08pkg) {
		for _, b := range f.Blocks {
			for _, in := range b.Instrs {
				if mc, ok := in.(*ssa.MakeClosure); ok {
					fn := mc.Fn.(*ssa.Function)
					l.sites[fn] = append(l.sites[fn], mc)
				}
			}
		}
	}
	return l
}

// fld returns the "T.f" anchor of a state field; a string that matches nothing when
// the field does not exist or is ambiguous.
func (l *c08lim) fld(name string) string {
	if tf := l.owner[name]; tf != "" {
		return tf
	}
	return "?." + name
}

// has reports whether the field anchor resolves.
func (l *c08lim) has(names ...string) bool {
	for _, n := range names {
		if l.owner[n] == "" {
			return false
		}
	}
	return true
}

// ownerType returns the base name of the type declaring the field.
func (l *c08lim) ownerType(name string) string {
	tf := l.fld(name)
	return tf[:strings.Index(tf, ".")]
}

// site is the one MakeClosure instruction creating fn in the (visible) package, nil
// when there is none or more than one.
func (l *c08lim) site(fn *ssa.Function) *ssa.MakeClosure {
	if s := l.sites[fn]; len(s) == 1 {
		return s[0]
	}
	return nil
}

// binding resolves a free variable to the value bound at the closure's creation.
func (l *c08lim) binding(fv *ssa.FreeVar) ssa.Value {
	mc := l.site(fv.Parent())
	if mc == nil {
		return nil
	}
	for i, x := range fv.Parent().FreeVars {
		if x == fv && i < len(mc.Bindings) {
			return mc.Bindings[i]
		}
	}
	return nil
}

// resolve follows what does not change a value: value-preserving wrappers, free
// variables to the value bound at the (single) creation site of their closure, and
// loads of local cells that are stored exactly once (in the owning function and all
// closures capturing the cell).
func (l *c08lim) resolve(v ssa.Value) ssa.Value {
	for i := 0; i < 16 && v != nil; i++ {
		switch x := v.(type) {
		case *ssa.ChangeType:
			v = x.X
		case *ssa.MakeInterface:
			v = x.X
		case *ssa.ChangeInterface:
			v = x.X
		case *ssa.FreeVar:
			b := l.binding(x)
			if b == nil {
				return v
			}
			v = b
		case *ssa.UnOp:
			if x.Op != token.MUL {
				return v
			}
			al, ok := l.resolve(x.X).(*ssa.Alloc)
			if !ok {
				return v
			}
			if sts := (&c12fn{}).cellStores(al); len(sts) == 1 {
				v = sts[0].Val
				continue
			}
			if al == x.X {
				if f := core.Forward(x); f != ssa.Value(x) {
					v = f
					continue
				}
			}
			return v
		default:
			return v
		}
	}
	return v
}

// path decomposes a field address, or a value loaded from one, into the object it
// starts from and the chain of "T.f" steps.
func (l *c08lim) path(v ssa.Value) (root ssa.Value, fields []string) {
	for i := 0; i < 16; i++ {
		v = l.resolve(v)
		switch x := v.(type) {
		case *ssa.UnOp:
			if fa, ok := x.X.(*ssa.FieldAddr); ok && x.Op == token.MUL {
				v = fa
				continue
			}
			return v, fields
		case *ssa.FieldAddr:
			fields = append([]string{core.FieldAddrName(x)}, fields...)
			v = x.X
		case *ssa.Field:
			fields = append([]string{core.FieldAddrName(x)}, fields...)
			v = x.X
		default:
			return v, fields
		}
	}
	return v, fields
}

// stateField reports whether v is (the address of, or a load of) state field name,
// reached through the limiter's state types only; it returns the object the path
// starts from.
func (l *c08lim) stateField(v ssa.Value, name string) (ssa.Value, bool) {
	root, fields := l.path(v)
	if len(fields) == 0 || fields[len(fields)-1] != l.fld(name) {
		return nil, false
	}
	for _, f := range fields {
		if i := strings.Index(f, "."); i < 0 || !l.types[f[:i]] {
			return nil, false
		}
	}
	return root, true
}

// isAddr matches a FieldAddr of state field name (whatever it is reached through).
func (l *c08lim) isAddr(name string) func(ssa.Value) bool {
	return func(v ssa.Value) bool { return core.FieldAddrName(v) == l.fld(name) }
}

// calleeOf resolves the function a call executes, looking through by-value closure
// bindings and bound method values (`f := x.m; … f()` is m on x): it returns the
// function and, for a bound method value, the receiver it was bound to.
func (l *c08lim) calleeOf(c ssa.CallInstruction) (*ssa.Function, ssa.Value) {
	cc := c.Common()
	if cc.IsInvoke() {
		return nil, nil
	}
	if f, ok := cc.Value.(*ssa.Function); ok {
		if f.Signature.Recv() != nil && len(cc.Args) > 0 {
			return f, cc.Args[0]
		}
		return f, nil
	}
	v := l.resolve(cc.Value)
	switch x := v.(type) {
	case *ssa.Function:
		return x, nil
	case *ssa.MakeClosure:
		w := x.Fn.(*ssa.Function)
		if w.Synthetic != "" && w.Object() != nil && len(x.Bindings) == 1 && len(w.FreeVars) == 1 {
			if tf, ok := w.Object().(*types.Func); ok {
				if target := w.Prog.FuncValue(tf); target != nil {
					return target, x.Bindings[0]
				}
			}
		}
		return w, nil
	}
	return nil, nil
}

// executes reports whether running the call c may execute an instruction matching
// pred, in the callee or in functions it calls through resolvable calls (static
// callees of the package, closures, closure values bound by value).
func (l *c08lim) executes(c ssa.CallInstruction, pred func(ssa.Instruction) bool, depth int) bool {
	fn, _ := l.calleeOf(c)
	if fn == nil || fn.Blocks == nil || fn.Pkg == nil || fn.Pkg != c.Parent().Pkg || depth > 4 {
		return false
	}
	for _, b := range fn.Blocks {
		for _, in := range b.Instrs {
			if pred(in) {
				return true
			}
			if cc := core.AsCall(in); cc != nil {
				if _, isGo := in.(*ssa.Go); !isGo && l.executes(cc, pred, depth+1) {
					return true
				}
			}
		}
	}
	return false
}

// closureCalls lists the instructions that call the closure fn, when the value of
// its single MakeClosure is only ever called, bound by value into closures that only
// call it, or handed as an argument to a function of the package whose parameter is
// only called; nil when the closure escapes (stored, returned, deferred or spawned as
// a value: its caller's lock-set is then unknown).
func (l *c08lim) closureCalls(fn *ssa.Function) []ssa.CallInstruction {
	mc := l.site(fn)
	if mc == nil {
		return nil
	}
	var out []ssa.CallInstruction
	ok := true
	seen := map[ssa.Value]bool{}
	var uses func(v ssa.Value)
	uses = func(v ssa.Value) {
		if seen[v] || v.Referrers() == nil {
			ok = ok && v.Referrers() != nil
			return
		}
		seen[v] = true
		for _, r := range *v.Referrers() {
			switch x := r.(type) {
			case *ssa.DebugRef:
			case *ssa.MakeClosure:
				cf := x.Fn.(*ssa.Function)
				for i, b := range x.Bindings {
					if b == v && i < len(cf.FreeVars) {
						uses(cf.FreeVars[i])
					}
				}
			case ssa.CallInstruction:
				cc := x.Common()
				if cc.Value == v {
					if _, isCall := x.(*ssa.Call); isCall {
						out = append(out, x)
					} else {
						ok = false
					}
					continue
				}
				callee := cc.StaticCallee()
				if cc.IsInvoke() || callee == nil || callee.Blocks == nil || callee.Pkg != fn.Pkg {
					ok = false
					continue
				}
				for i, a := range cc.Args {
					if a == v {
						if i < len(callee.Params) {
							uses(callee.Params[i])
						} else {
							ok = false
						}
					}
				}
			default:
				ok = false
			}
		}
	}
	uses(mc)
	if !ok {
		return nil
	}
	return out
}

// c08lockedClosureAccesses re-examines the guarded accesses the lock analysis found
// unprotected inside a closure: such an access is protected when every call of the
// closure (closureCalls) happens with the guarding lock of the SAME object held,
// i.e. a W-held lock whose acquisition in the calling function locks field lock of
// the object the access goes to. (`withLock(func(){ x.f = … })` after the
// higher-order helper was inlined into a deferred wrapper: the wrapper locks and
// calls the closure it captured.)
func (l *c08lim) lockedClosureAccesses(la *core.LockAnalysis, acc []core.Access, lock string) []core.Access {
	out := make([]core.Access, len(acc))
	copy(out, acc)
	for i, a := range out {
		if a.OK || a.Fn == nil || a.Fn.Parent() == nil {
			continue
		}
		var base ssa.Value
		switch x := a.In.(type) {
		case *ssa.FieldAddr:
			base = x.X
		case *ssa.Field:
			base = x.X
		default:
			continue
		}
		rootA, pathA := l.path(base)
		if rootA == nil {
			continue
		}
		calls := l.closureCalls(a.Fn)
		if len(calls) == 0 {
			continue
		}
		all := true
		for _, c := range calls {
			if !l.holdsLockOf(la, c, rootA, pathA, lock) {
				all = false
			}
		}
		if all {
			out[i].OK = true
		}
	}
	return out
}

func (l *c08lim) holdsLockOf(la *core.LockAnalysis, at ssa.Instruction, root ssa.Value, path []string, lock string) bool {
	held := la.Held(at)
	f := at.Parent()
	for _, in := range core.Instrs(f, core.CallTo("(*sync.Mutex).Lock", "(*sync.RWMutex).Lock")) {
		c, ok := in.(*ssa.Call)
		if !ok || !core.Dominates(in, at) {
			continue
		}
		key := core.LockPath(c.Call.Args[0])
		if k, has := held[key]; !has || k != 'W' {
			continue
		}
		r, fs := l.path(c.Call.Args[0])
		if r != root || len(fs) != len(path)+1 || fs[len(fs)-1] != l.fld(lock) {
			continue
		}
		same := true
		for j := range path {
			if path[j] != fs[j] {
				same = false
			}
		}
		if same {
			return true
		}
	}
	return false
}

// ---------------------------------------------------------------------------
// Constant lookup tables (K13 for arrays and maps; core.Eval covers slices).
//
// A package-level array, slice or map variable is a constant table when it is
// initialised once, in the package initialiser, from constants, and nothing else
// in its package writes to it, takes an element address for anything but a
// load, or lets it escape.
// ---------------------------------------------------------------------------

type c08table struct {
	elems map[string]constant.Value // key (exact string of the constant index/key) → value
	n     int64                     // number of elements (array/slice length, map entries)
	isMap bool
	zero  constant.Value // value of an absent map key / unset element
}

func c08key(c constant.Value) string { return c.ExactString() }

func c08zeroOf(t types.Type) constant.Value {
	bt, ok := t.Underlying().(*types.Basic)
	if !ok {
		return nil
	}
	switch {
	case bt.Info()&types.IsInteger != 0:
		return constant.MakeInt64(0)
	case bt.Info()&types.IsBoolean != 0:
		return constant.MakeBool(false)
	case bt.Info()&types.IsString != 0:
		return constant.MakeString("")
	}
	return nil
}

func c08constTable(g *ssa.Global) *c08table {
	if g == nil || g.Pkg == nil {
		return nil
	}
	initFn := g.Pkg.Func("init")
	if initFn == nil {
		return nil
	}
	vt := g.Type().Underlying().(*types.Pointer).Elem().Underlying()
	tab := &c08table{elems: map[string]constant.Value{}}
	var elemT types.Type
	switch t := vt.(type) {
	case *types.Array:
		tab.n, elemT = t.Len(), t.Elem()
	case *types.Slice:
		elemT = t.Elem()
	case *types.Map:
		tab.isMap, elemT = true, t.Elem()
	default:
		return nil
	}
	if tab.zero = c08zeroOf(elemT); tab.zero == nil {
		return nil
	}
	onlyLoaded := func(ia *ssa.IndexAddr) bool {
		if ia.Referrers() == nil {
			return false
		}
		for _, r := range *ia.Referrers() {
			switch x := r.(type) {
			case *ssa.UnOp:
				if x.Op != token.MUL {
					return false
				}
			case *ssa.DebugRef:
			default:
				return false
			}
		}
		return true
	}
	var readOnly func(v ssa.Value) bool
	readOnly = func(v ssa.Value) bool {
		if v.Referrers() == nil {
			return false
		}
		for _, r := range *v.Referrers() {
			switch x := r.(type) {
			case *ssa.IndexAddr:
				if !onlyLoaded(x) {
					return false
				}
			case *ssa.Index, *ssa.DebugRef, *ssa.BinOp:
			case *ssa.Lookup:
				if x.X != v {
					return false
				}
			case *ssa.Call:
				if bi, ok := x.Call.Value.(*ssa.Builtin); !ok || (bi.Name() != "len" && bi.Name() != "cap") {
					return false
				}
			default:
				return false
			}
		}
		return true
	}
	set := func(k ssa.Value, val ssa.Value) bool {
		kc, ok := core.Strip(k).(*ssa.Const)
		vc, ok2 := val.(*ssa.Const)
		if !ok || !ok2 || kc.Value == nil || vc.Value == nil {
			return false
		}
		if _, dup := tab.elems[c08key(kc.Value)]; dup {
			return false
		}
		tab.elems[c08key(kc.Value)] = vc.Value
		return true
	}
	whole := 0
	for _, f := range core.SSAPkgFuncs(g.Pkg.Prog, g.Pkg) {
		for _, b := range f.Blocks {
			for _, in := range b.Instrs {
				uses := false
				for _, op := range in.Operands(nil) {
					if *op == ssa.Value(g) {
						uses = true
					}
				}
				if !uses {
					continue
				}
				switch x := in.(type) {
				case *ssa.DebugRef:
				case *ssa.IndexAddr: // array variable indexed in place
					if onlyLoaded(x) {
						continue
					}
					// the element stores of the initialiser: one store of a constant each
					if f != initFn || x.Referrers() == nil || len(*x.Referrers()) != 1 {
						return nil
					}
					st, ok := (*x.Referrers())[0].(*ssa.Store)
					if !ok || st.Addr != ssa.Value(x) || !set(x.Index, st.Val) {
						return nil
					}
				case *ssa.UnOp:
					if x.Op != token.MUL || !readOnly(x) {
						return nil
					}
				case *ssa.Store:
					if x.Addr != ssa.Value(g) || f != initFn {
						return nil
					}
					whole++
					switch lit := x.Val.(type) {
					case *ssa.Slice:
						al, ok := lit.X.(*ssa.Alloc)
						if !ok || lit.Low != nil || lit.High != nil || tab.isMap {
							return nil
						}
						arr, ok := al.Type().Underlying().(*types.Pointer).Elem().Underlying().(*types.Array)
						if !ok {
							return nil
						}
						tab.n = arr.Len()
						for _, r := range *al.Referrers() {
							switch y := r.(type) {
							case *ssa.IndexAddr:
								if y.Referrers() == nil || len(*y.Referrers()) != 1 {
									return nil
								}
								st, ok := (*y.Referrers())[0].(*ssa.Store)
								if !ok || st.Addr != ssa.Value(y) || !set(y.Index, st.Val) {
									return nil
								}
							case *ssa.Slice, *ssa.DebugRef:
							default:
								return nil
							}
						}
					case *ssa.MakeMap:
						if !tab.isMap || lit.Referrers() == nil {
							return nil
						}
						for _, r := range *lit.Referrers() {
							switch y := r.(type) {
							case *ssa.MapUpdate:
								if y.Map != ssa.Value(lit) || !set(y.Key, y.Value) {
									return nil
								}
							case *ssa.Store, *ssa.DebugRef:
							default:
								return nil
							}
						}
						tab.n = int64(len(tab.elems))
					default:
						return nil
					}
				default:
					return nil
				}
			}
		}
	}
	if _, isArr := vt.(*types.Array); isArr {
		if whole != 0 {
			return nil
		}
	} else if whole != 1 {
		return nil
	}
	return tab
}

// ---------------------------------------------------------------------------
// A path-exploring constant interpreter over one function: some SSA values are
// pinned by an oracle (the scenario: "the script replied 2"), everything else
// that is not a constant computation is unknown; a branch on an unknown
// condition is followed both ways. The result is the set of returns reachable
// in the scenario with their evaluated results, plus the places where the
// scenario would panic (index out of range of a constant table).
// Nothing of the analysed program is executed.
// ---------------------------------------------------------------------------

type c08nilV struct{}    // the nil interface/pointer
type c08nonNilV struct{} // some non-nil interface/pointer

type c08elemPtr struct {
	t   *c08table
	key string
}

type c08outcome struct {
	ret   *ssa.Return
	vals  []any
	trace []ssa.Instruction // the watched instructions executed on the way, in order
}

type c08interp struct {
	oracle  func(ssa.Value) (any, bool)
	watch   func(ssa.Instruction) bool // instructions recorded in the trace of every outcome (nil: none)
	steps   int
	rets    []c08outcome
	panics  []ssa.Instruction
	failed  string
	tabs    map[*ssa.Global]*c08table
	tabDone map[*ssa.Global]bool
}

func c08explore(f *ssa.Function, oracle func(ssa.Value) (any, bool)) *c08interp {
	return c08exploreWatch(f, oracle, nil)
}

// c08exploreWatch is c08explore that also records, for every outcome, which of the
// watched instructions (calls, typically) were passed on the way to the return.
func c08exploreWatch(f *ssa.Function, oracle func(ssa.Value) (any, bool), watch func(ssa.Instruction) bool) *c08interp {
	it := &c08interp{oracle: oracle, watch: watch, steps: 20000, tabs: map[*ssa.Global]*c08table{}, tabDone: map[*ssa.Global]bool{}}
	if f == nil || len(f.Blocks) == 0 {
		it.failed = "no body"
		return it
	}
	it.walk(f.Blocks[0], nil, map[ssa.Value]any{}, map[ssa.Value]any{}, map[*ssa.BasicBlock]int{}, nil)
	return it
}

func c08cloneEnv(m map[ssa.Value]any) map[ssa.Value]any {
	r := make(map[ssa.Value]any, len(m))
	for k, v := range m {
		r[k] = v
	}
	return r
}

func (it *c08interp) table(g *ssa.Global) *c08table {
	if !it.tabDone[g] {
		it.tabDone[g] = true
		it.tabs[g] = c08constTable(g)
	}
	return it.tabs[g]
}

func (it *c08interp) val(env map[ssa.Value]any, v ssa.Value) any {
	if it.oracle != nil {
		if r, ok := it.oracle(v); ok {
			return r
		}
	}
	switch x := v.(type) {
	case *ssa.Const:
		if x.Value == nil {
			switch x.Type().Underlying().(type) {
			case *types.Interface, *types.Pointer, *types.Map, *types.Slice, *types.Signature, *types.Chan:
				return c08nilV{}
			}
			return nil
		}
		return x.Value
	case *ssa.Global:
		if t := it.table(x); t != nil {
			return t
		}
		return nil
	}
	return env[v]
}

func (it *c08interp) walk(b, prev *ssa.BasicBlock, env, mem map[ssa.Value]any, seen map[*ssa.BasicBlock]int, trace []ssa.Instruction) {
	for it.failed == "" {
		seen[b]++
		if seen[b] > 4 {
			it.failed = "a loop whose exit is not decided by constants"
			return
		}
		// φ-nodes read the values of the incoming edge simultaneously
		newPhi := map[ssa.Value]any{}
		for _, in := range b.Instrs {
			phi, ok := in.(*ssa.Phi)
			if !ok {
				break
			}
			for i, pr := range b.Preds {
				if pr == prev && i < len(phi.Edges) {
					newPhi[phi] = it.val(env, phi.Edges[i])
				}
			}
		}
		for k, v := range newPhi {
			env[k] = v
		}
		var next *ssa.BasicBlock
		for _, in := range b.Instrs {
			it.steps--
			if it.steps <= 0 {
				it.failed = "step bound exceeded"
				return
			}
			if it.watch != nil && it.watch(in) {
				trace = append(trace[:len(trace):len(trace)], in)
			}
			switch x := in.(type) {
			case *ssa.Phi, *ssa.DebugRef:
			case *ssa.Return:
				var out []any
				for _, r := range x.Results {
					out = append(out, it.val(env, r))
				}
				it.rets = append(it.rets, c08outcome{x, out, trace})
				return
			case *ssa.Panic:
				it.panics = append(it.panics, in)
				return
			case *ssa.Jump:
				next = b.Succs[0]
			case *ssa.If:
				c, known := it.val(env, x.Cond).(constant.Value)
				if known && c.Kind() == constant.Bool {
					if constant.BoolVal(c) {
						next = b.Succs[0]
					} else {
						next = b.Succs[1]
					}
					break
				}
				s2 := map[*ssa.BasicBlock]int{}
				for k, v := range seen {
					s2[k] = v
				}
				it.walk(b.Succs[0], b, c08cloneEnv(env), c08cloneEnv(mem), s2, trace)
				next = b.Succs[1]
			case *ssa.Store:
				if al, ok := x.Addr.(*ssa.Alloc); ok {
					mem[al] = it.val(env, x.Val)
				}
			case ssa.Value:
				r, panics := it.instr(env, mem, x)
				if panics {
					it.panics = append(it.panics, in)
					return
				}
				env[x] = r
			}
		}
		if next == nil {
			return
		}
		prev, b = b, next
	}
}

// instr evaluates one value instruction; unknown is nil. panics reports an index
// outside a constant table.
func (it *c08interp) instr(env, mem map[ssa.Value]any, v ssa.Value) (res any, panics bool) {
	cv := func(x ssa.Value) constant.Value {
		c, _ := it.val(env, x).(constant.Value)
		return c
	}
	switch x := v.(type) {
	case *ssa.Alloc:
		return nil, false
	case *ssa.BinOp:
		a, b := it.val(env, x.X), it.val(env, x.Y)
		if x.Op == token.EQL || x.Op == token.NEQ {
			_, an := a.(c08nilV)
			_, bn := b.(c08nilV)
			_, ann := a.(c08nonNilV)
			_, bnn := b.(c08nonNilV)
			switch {
			case an && bn:
				return constant.MakeBool(x.Op == token.EQL), false
			case (an && bnn) || (ann && bn):
				return constant.MakeBool(x.Op == token.NEQ), false
			}
		}
		ca, aok := a.(constant.Value)
		cb, bok := b.(constant.Value)
		if !aok || !bok {
			return nil, false
		}
		switch x.Op {
		case token.EQL, token.NEQ, token.LSS, token.LEQ, token.GTR, token.GEQ:
			if ca.Kind() != cb.Kind() {
				return nil, false
			}
			return constant.MakeBool(constant.Compare(ca, x.Op, cb)), false
		case token.ADD, token.SUB, token.MUL:
			if ca.Kind() == constant.Int && cb.Kind() == constant.Int {
				r := constant.BinaryOp(ca, x.Op, cb)
				if _, exact := constant.Int64Val(r); exact { // no wrap-around modelling: give up beyond int64
					return r, false
				}
			}
		case token.QUO, token.REM:
			if ca.Kind() == constant.Int && cb.Kind() == constant.Int && constant.Sign(cb) != 0 {
				op := x.Op
				if op == token.QUO {
					op = token.QUO_ASSIGN // integer (truncated) division
				}
				r := constant.BinaryOp(ca, op, cb)
				if _, exact := constant.Int64Val(r); exact {
					return r, false
				}
			}
		}
		return nil, false
	case *ssa.UnOp:
		switch x.Op {
		case token.NOT:
			if c := cv(x.X); c != nil && c.Kind() == constant.Bool {
				return constant.MakeBool(!constant.BoolVal(c)), false
			}
		case token.SUB:
			if c := cv(x.X); c != nil && c.Kind() == constant.Int {
				return constant.UnaryOp(token.SUB, c, 0), false
			}
		case token.MUL:
			if al, ok := x.X.(*ssa.Alloc); ok {
				return mem[al], false
			}
			switch pt := it.val(env, x.X).(type) {
			case c08elemPtr:
				if e, ok := pt.t.elems[pt.key]; ok {
					return e, false
				}
				return pt.t.zero, false
			case *c08table: // load of the table variable itself
				return pt, false
			}
		}
		return nil, false
	case *ssa.IndexAddr:
		return it.index(env, x.X, x.Index)
	case *ssa.Index:
		r, p := it.index(env, x.X, x.Index)
		if ep, ok := r.(c08elemPtr); ok {
			if e, has := ep.t.elems[ep.key]; has {
				return e, false
			}
			return ep.t.zero, false
		}
		return nil, p
	case *ssa.Lookup:
		t, ok := it.val(env, x.X).(*c08table)
		k := cv(x.Index)
		if !ok || !t.isMap || k == nil {
			return nil, false
		}
		e, has := t.elems[c08key(k)]
		if !has {
			e = t.zero
		}
		if x.CommaOk {
			return []any{e, constant.MakeBool(has)}, false
		}
		return e, false
	case *ssa.Convert:
		if c := cv(x.X); c != nil && c.Kind() == constant.Int {
			if bt, ok := x.Type().Underlying().(*types.Basic); ok && bt.Info()&types.IsInteger != 0 {
				switch bt.Kind() {
				case types.Int, types.Int64, types.Uint64, types.Uint, types.Uintptr:
					if bt.Info()&types.IsUnsigned != 0 && constant.Sign(c) < 0 {
						return nil, false
					}
					return c, false
				}
				if n, exact := constant.Int64Val(c); exact && n >= 0 && n < 128 {
					return c, false // fits every integer type
				}
			}
		}
		return nil, false
	case *ssa.ChangeType:
		return it.val(env, x.X), false
	case *ssa.MakeInterface:
		if _, isC := it.val(env, x.X).(constant.Value); isC {
			return c08nonNilV{}, false
		}
		return nil, false
	case *ssa.Extract:
		if t, ok := it.val(env, x.Tuple).([]any); ok && x.Index < len(t) {
			return t[x.Index], false
		}
		return nil, false
	case *ssa.Call:
		if bi, ok := x.Call.Value.(*ssa.Builtin); ok && bi.Name() == "len" && len(x.Call.Args) == 1 {
			if t, ok := it.val(env, x.Call.Args[0]).(*c08table); ok {
				return constant.MakeInt64(t.n), false
			}
		}
		return nil, false
	}
	return nil, false
}

func (it *c08interp) index(env map[ssa.Value]any, xs, idx ssa.Value) (any, bool) {
	t, ok := it.val(env, xs).(*c08table)
	if !ok || t.isMap {
		return nil, false
	}
	i, ok := it.val(env, idx).(constant.Value)
	if !ok || i.Kind() != constant.Int {
		return nil, false
	}
	n, exact := constant.Int64Val(i)
	if !exact || n < 0 || n >= t.n {
		return nil, true // index out of range: a run-time panic in this scenario
	}
	return c08elemPtr{t, c08key(constant.MakeInt64(n))}, false
}
