package props

import (
	"go/token"
	"go/types"

	"godcheck/core"

	"golang.org/x/tools/go/ssa"
)

// Round 11 (missed change C01-xm1): the sql integration declares its benign outcomes by IDENTITY
// (commonConn.acceptable compares the request's error with sql.ErrNoRows / sql.ErrTxDone /
// context.Canceled by ==). The request of Transact/TransactCtx yields what the transaction
// function returns, and that function yields the error of the caller's transaction body. As long
// as the predicate compares by identity, the body's error must therefore arrive unchanged unless
// something else failed as well (a rollback / commit error): re-wrapping it on the clean-rollback
// path turns every benign sentinel returned from a transaction body into a recorded failure.

// c01IsTxBodySig: func(..., Session, ...) error with Session the session interface of lib/store/sqlx.
func c01IsTxBodySig(t types.Type) bool {
	sig, ok := t.Underlying().(*types.Signature)
	if !ok || sig.Results().Len() != 1 || !c01IsErrorType(sig.Results().At(0).Type()) {
		return false
	}
	for i := 0; i < sig.Params().Len(); i++ {
		n, ok := sig.Params().At(i).Type().(*types.Named)
		if ok && n.Obj().Name() == "Session" && n.Obj().Pkg() != nil && core.Short(n.Obj().Pkg().Path()) == "lib/store/sqlx" {
			return true
		}
	}
	return false
}

func c01IsErrorType(t types.Type) bool {
	return types.Identical(t, types.Universe.Lookup("error").Type())
}

func c01R11(r *core.Run) {
	p := r.P

	r.Check("D5/K6/sqlx-tx-body-error-by-identity", "while commonConn.acceptable recognises the benign sql outcomes by identity (==, no errors.Is), the function that runs a transaction body (calls a func(ctx, Session) error it was handed) replaces the body's error by a value built from it (a re-wrapping) only where another error – the result of a different call, e.g. Rollback/Commit – is known to be non-nil; on the path 'body returned e, rollback succeeded' the request of Transact yields e itself [last clause: 'sql.ErrNoRows / sql.ErrTxDone / context.Canceled never move a breaker towards open', and 'a dependency that has only succeeded is never cut off': a wrapped sql.ErrNoRows from a transaction body is != sql.ErrNoRows, is booked as a failure, and a handful of such transactions open the conn's breaker for every kind of call]", func(o *core.O) {
		accM := p.Func("lib/store/sqlx", "commonConn", "acceptable")
		if !o.Need(accM != nil, "sqlx.commonConn.acceptable") {
			return
		}
		if len(core.Calls(accM, core.CallTo("errors.Is", "errors.As"))) > 0 {
			// the predicate looks through wrappers: wrapping the body's error is not decided here
			// (D5/K6/sql-benign-set decides the predicate itself).
			o.Site(1, "commonConn.acceptable unwraps (errors.Is/As): re-wrapping is not a violation")
			return
		}
		n := 0
		for _, f := range p.PkgFuncs("lib/store/sqlx") {
			for _, bc := range core.Calls(f, func(in ssa.Instruction) bool {
				c, ok := in.(*ssa.Call)
				if !ok || c.Call.IsInvoke() {
					return false
				}
				switch core.Strip(c.Call.Value).(type) {
				case *ssa.Parameter, *ssa.FreeVar:
					return c01IsTxBodySig(c.Call.Value.Type())
				}
				return false
			}) {
				rv := bc.(*ssa.Call)
				n++
				r.Fn(core.FuncName(f))
				c01CheckBodyErrIdentity(p, o, f, rv)
			}
		}
		o.Site(n, "calls of a transaction body")
		if n == 0 {
			o.Unres("no function of lib/store/sqlx calls a transaction body (func(ctx, Session) error parameter)")
		}
	})
}

func c01CheckBodyErrIdentity(p *core.Prog, o *core.O, f *ssa.Function, rv *ssa.Call) {
	// the cell that carries the body's error to f's result
	var cell *ssa.Alloc
	var bodyStore *ssa.Store
	for _, ref := range *rv.Referrers() {
		if st, ok := ref.(*ssa.Store); ok && st.Val == ssa.Value(rv) {
			if al, ok := st.Addr.(*ssa.Alloc); ok && al.Parent() == f {
				cell, bodyStore = al, st
			}
		}
	}
	type site struct {
		fn    *ssa.Function
		st    *ssa.Store
		isOld func(ssa.Value) bool
	}
	var sites []site
	load := func(addr ssa.Value) func(ssa.Value) bool {
		return func(v ssa.Value) bool {
			u, ok := v.(*ssa.UnOp)
			return ok && u.Op == token.MUL && u.X == addr
		}
	}
	if cell == nil {
		// no cell: the body's error is used as an SSA value; every value of f built from it and
		// returned is a re-wrapping
		isOld := func(v ssa.Value) bool { return v == ssa.Value(rv) }
		for _, ret := range core.Returns(f) {
			for _, res := range ret.Results {
				if !c01IsErrorType(res.Type()) {
					continue
				}
				for _, lf := range gxPhiLeaves(res) {
					lf = core.Forward(lf)
					if lf == ssa.Value(rv) || !core.DependsOn(lf, isOld) {
						continue
					}
					in, ok := lf.(ssa.Instruction)
					if !ok {
						continue
					}
					if w := core.Requires(f, core.Is(in), c01OtherErrNonNil(rv)); w != nil {
						o.Fail(p.InstrPos(in), "%s returns %s, built from the transaction body's error, although no other error is known to be non-nil there: commonConn.acceptable compares by identity, so sql.ErrNoRows / sql.ErrTxDone / context.Canceled returned by a transaction body are booked as failures and open the conn's breaker", core.FuncName(f), core.Describe(lf))
					}
				}
			}
		}
		return
	}
	for _, ref := range *cell.Referrers() {
		switch x := ref.(type) {
		case *ssa.Store:
			if x.Addr == ssa.Value(cell) && x != bodyStore {
				if _, after := core.Reach(core.Q{From: []core.At{core.After(rv)}, Target: core.Is(x)}); after {
					c := cell
					sites = append(sites, site{f, x, func(v ssa.Value) bool { return v == ssa.Value(rv) || load(c)(v) }})
				}
			}
		case *ssa.MakeClosure:
			h, _ := x.Fn.(*ssa.Function)
			if h == nil {
				continue
			}
			for j, b := range x.Bindings {
				if b != ssa.Value(cell) || j >= len(h.FreeVars) {
					continue
				}
				fv := h.FreeVars[j]
				for _, r2 := range *fv.Referrers() {
					switch y := r2.(type) {
					case *ssa.Store:
						if y.Addr == ssa.Value(fv) {
							sites = append(sites, site{h, y, load(fv)})
						}
					case *ssa.UnOp, *ssa.DebugRef:
					default:
						o.Unres("%s: the cell of the transaction body's error is handed on by the closure %s: its writes cannot be followed", p.InstrPos(y), core.FuncName(h))
					}
				}
			}
		case *ssa.UnOp, *ssa.DebugRef:
		default:
			o.Unres("%s: the cell of the transaction body's error escapes from %s: its writes cannot be followed", p.InstrPos(ref), core.FuncName(f))
		}
	}
	for _, s := range sites {
		if s.isOld(core.Strip(s.st.Val)) {
			continue // err = err
		}
		if !core.DependsOn(s.st.Val, s.isOld) {
			continue // not built from the body's error (Commit's result, the panic report)
		}
		if w := core.Requires(s.fn, core.Is(s.st), c01OtherErrNonNil(rv)); w != nil {
			o.Fail(p.InstrPos(s.st), "%s replaces the transaction body's error by %s, built from it, although no other error is known to be non-nil there (rollback succeeded): commonConn.acceptable compares by identity, so sql.ErrNoRows / sql.ErrTxDone / context.Canceled returned by a transaction body are booked as failures and open the conn's breaker", core.FuncName(s.fn), core.Describe(s.st.Val))
		}
	}
}

// c01OtherErrNonNil is the atom "the error result of a call other than the transaction body != nil".
func c01OtherErrNonNil(body *ssa.Call) core.Atom {
	return core.Cmp(token.NEQ, func(v ssa.Value) bool {
		if !c01IsErrorType(v.Type()) {
			return false
		}
		c, _ := core.ResultOf(core.Forward(v))
		return c != nil && c != body
	}, core.IsNil)
}
