package props

import (
	"go/token"
	"go/types"
	"sort"
	"strings"

	"godcheck/core"

	"golang.org/x/tools/go/ssa"
)

// D5/K4/caches-under-their-locks, restated by role (round 8).
//
// The rule used to carry a table of names (optionsCache/cacheLock, structRequiredCache/
// structCacheLock, ...). What it means: a map that lives for the whole process and is updated
// after package initialisation - the memo tables of lib/mapping - is touched only under ONE
// mutex, and updated only under its write lock. Which variable holds the map and which mutex
// guards it is now inferred:
//
//   - a guarded location is (a) a package-level variable of map type that is updated outside the
//     package initialiser (MapUpdate/delete/clear on the loaded map, or the variable re-assigned),
//     or (b) a map-typed field T.f of a struct type T of the package that is reachable from the type
//     of a package-level variable (the variable is a T, a *T, or a struct/array/slice/map of such)
//     and that is updated somewhere on an object not created in the same function;
//   - its mutex is the lock path held at the largest number of its accesses - an absolute path for
//     a package-level mutex, a path relative to the object for a sibling field ("<obj>.lock");
//   - the verdict: every access outside the package initialiser (and not on an object created in the
//     same function) holds that mutex, every update holds it for writing (core.LockAnalysis gives
//     the must-hold lock-set at each access, including entry lock-sets of helpers called under the
//     lock and helpers that return with it held). Unlike core's CheckGuards the accesses of
//     functions without an in-package caller are judged too: core counts the calls of a generic
//     method for its instances, not for the generic body, and would skip a generic memo type.
//
// With one mutex held at all accesses every choice of maximal tally is a valid guard, so the
// inference cannot raise an alarm on a consistently locked table; with an access that holds no or
// another mutex, or an update under the read lock, no lock path satisfies all accesses and the
// accesses outside the majority are reported.
func c05CacheLockRule(r *core.Run, o *core.O) {
	p := r.P
	la := core.NewLockAnalysis(p, mapPkg)
	funcs := p.PkgFuncs(mapPkg)
	if !o.Need(len(funcs) > 0, "package "+mapPkg) {
		return
	}
	pkg := funcs[0].Pkg
	shared := c05SharedStructs(pkg)

	type access struct {
		in    ssa.Instruction
		fn    *ssa.Function
		write bool
		held  map[string]byte // candidate guard -> 'R'/'W' ("global:..." absolute, "~.x" relative to the object)
	}
	type location struct {
		acc     []access
		mutated bool
	}
	locs := map[string]*location{}
	loc := func(key string) *location {
		l := locs[key]
		if l == nil {
			l = &location{}
			locs[key] = l
		}
		return l
	}
	heldAt := func(in ssa.Instruction, base string) map[string]byte {
		out := map[string]byte{}
		for path, k := range la.Held(in) {
			kind := byte(k)
			if base != "" && strings.HasPrefix(path, base+".") {
				out["~"+path[len(base):]] = kind
			}
			if strings.HasPrefix(path, "global:") {
				out[path] = kind
			}
		}
		return out
	}
	for _, f := range funcs {
		if c05IsInit(f) {
			continue
		}
		for _, b := range f.Blocks {
			for _, in := range b.Instrs {
				switch x := in.(type) {
				case *ssa.UnOp:
					g, ok := x.X.(*ssa.Global)
					if x.Op != token.MUL || !ok || g.Pkg != pkg || !c05GuardableGlobal(g, shared) {
						continue
					}
					l := loc("global:" + g.Name())
					w := c05MapMutated(x)
					l.mutated = l.mutated || w
					l.acc = append(l.acc, access{in, f, w, heldAt(in, "")})
				case *ssa.Store:
					g, ok := x.Addr.(*ssa.Global)
					if !ok || g.Pkg != pkg || !c05GuardableGlobal(g, shared) {
						continue
					}
					l := loc("global:" + g.Name())
					l.mutated = true
					l.acc = append(l.acc, access{in, f, true, heldAt(in, "")})
				case *ssa.FieldAddr:
					tname, st := c05StructKey(x.X.Type())
					if st == nil || !shared[tname] {
						continue
					}
					fv := st.Field(x.Field)
					if _, isMap := fv.Type().Underlying().(*types.Map); !isMap {
						continue
					}
					if c05FreshObject(x.X) {
						continue
					}
					w := c05FieldWritten(x)
					l := loc("field:" + tname + "." + fv.Name())
					l.mutated = l.mutated || w
					l.acc = append(l.acc, access{in, f, w, heldAt(in, core.LockPath(x.X))})
				}
			}
		}
	}
	var keys []string
	for k, l := range locs {
		if l.mutated {
			keys = append(keys, k)
		}
	}
	sort.Strings(keys)
	n, sites := 0, 0
	fnSet := map[string]bool{}
	for _, k := range keys {
		l := locs[k]
		n++
		// the mutex: the candidate that satisfies the most accesses
		tally := map[string]int{}
		for _, a := range l.acc {
			for c, kind := range a.held {
				if !a.write || kind == 'W' {
					tally[c] += 2
				} else {
					tally[c]++ // held, though only for reading
				}
			}
		}
		best := ""
		for c, t := range tally {
			if best == "" || t > tally[best] || t == tally[best] && c < best {
				best = c
			}
		}
		what := strings.TrimPrefix(strings.TrimPrefix(k, "global:"), "field:")
		if best == "" {
			for _, a := range l.acc {
				rw := "read"
				if a.write {
					rw = "update"
				}
				sites++
				fnSet[core.FuncName(a.fn)] = true
				o.Fail(p.InstrPos(a.in), "%s of %s.%s in %s with no mutex held: the table is updated after package initialisation and no access of it holds a lock", rw, mapPkg, what, core.FuncName(a.fn))
			}
			continue
		}
		lockName := best
		if strings.HasPrefix(best, "~") {
			lockName = "its sibling mutex <object>" + best[1:]
		}
		for _, a := range l.acc {
			sites++
			fnSet[core.FuncName(a.fn)] = true
			kind, has := a.held[best]
			if has && (!a.write || kind == 'W') {
				continue
			}
			rw := "read"
			if a.write {
				rw = "update"
			}
			var hs []string
			for path, k := range la.Held(a.in) {
				hs = append(hs, path+":"+string(rune(byte(k))))
			}
			sort.Strings(hs)
			o.Fail(p.InstrPos(a.in), "%s of %s.%s in %s without %s held%s (held: {%s}) - the mutex that most accesses of this table hold", rw, mapPkg, what, core.FuncName(a.fn), lockName, map[bool]string{true: " for writing", false: ""}[a.write && has], strings.Join(hs, ","))
		}
	}
	if n == 0 {
		o.Unres("no package-level map of %s that is updated after initialisation found (the memo tables of parsed tags, required structs, key paths and defaults)", mapPkg)
		return
	}
	var fns []string
	for f := range fnSet {
		fns = append(fns, f)
	}
	sort.Strings(fns)
	o.Site(sites, fns...)
	r.Fn(fns...)
	var fs []string
	for f, m := range la.Imbalance {
		fs = append(fs, p.Pos(f.Pos())+": "+core.FuncName(f)+": "+m)
	}
	sort.Strings(fs)
	for _, m := range fs {
		o.Fail("", "%s", m)
	}
}

func c05IsInit(f *ssa.Function) bool {
	return f.Parent() == nil && (f.Name() == "init" || strings.HasPrefix(f.Name(), "init#"))
}

// c05GuardableGlobal: a package-level map, or a package-level pointer to a shared struct (only
// interesting when it is re-assigned after initialisation).
func c05GuardableGlobal(g *ssa.Global, shared map[string]bool) bool {
	t := g.Type().(*types.Pointer).Elem()
	if _, ok := t.Underlying().(*types.Map); ok {
		return true
	}
	if pt, ok := t.Underlying().(*types.Pointer); ok {
		if key, _ := c05StructKey(pt.Elem()); key != "" && shared[key] {
			return true
		}
	}
	return false
}

// c05StructKey: the struct type t is or points to, with the name core.FieldAddrName gives it (the
// type name; the type expression for an anonymous struct). A generic type, its instances and the
// type as seen inside its own methods are one type here.
func c05StructKey(t types.Type) (string, *types.Struct) {
	if pt, ok := t.Underlying().(*types.Pointer); ok {
		t = pt.Elem()
	}
	st, ok := t.Underlying().(*types.Struct)
	if !ok {
		return "", nil
	}
	switch x := t.(type) {
	case *types.Named:
		return x.Origin().Obj().Name(), st
	case *types.Struct:
		return x.String(), st
	}
	return "", nil
}

// c05SharedStructs: the named struct types of pkg reachable from the type of a package-level
// variable (objects of these types may be shared by all goroutines of the process).
func c05SharedStructs(pkg *ssa.Package) map[string]bool {
	out := map[string]bool{}
	var walk func(t types.Type, d int)
	walk = func(t types.Type, d int) {
		if d > 6 {
			return
		}
		switch x := t.(type) {
		case *types.Named:
			if x.Obj().Pkg() != pkg.Pkg {
				return
			}
			if st, ok := x.Underlying().(*types.Struct); ok {
				if out[x.Origin().Obj().Name()] {
					return
				}
				out[x.Origin().Obj().Name()] = true
				for i := 0; i < st.NumFields(); i++ {
					walk(st.Field(i).Type(), d+1)
				}
				return
			}
			walk(x.Underlying(), d+1)
		case *types.Pointer:
			walk(x.Elem(), d+1)
		case *types.Slice:
			walk(x.Elem(), d+1)
		case *types.Array:
			walk(x.Elem(), d+1)
		case *types.Map:
			walk(x.Elem(), d+1)
		case *types.Struct:
			if out[x.String()] {
				return
			}
			out[x.String()] = true
			for i := 0; i < x.NumFields(); i++ {
				walk(x.Field(i).Type(), d+1)
			}
		}
	}
	for _, m := range pkg.Members {
		if g, ok := m.(*ssa.Global); ok {
			walk(g.Type().(*types.Pointer).Elem(), 0)
		}
	}
	return out
}

// c05MapMutated: the loaded map value is updated in place (directly or through a φ/conversion).
func c05MapMutated(v ssa.Value) bool {
	refs := v.Referrers()
	if refs == nil {
		return false
	}
	for _, r := range *refs {
		switch x := r.(type) {
		case *ssa.MapUpdate:
			if x.Map == v {
				return true
			}
		case *ssa.Call:
			if b, ok := x.Call.Value.(*ssa.Builtin); ok && (b.Name() == "delete" || b.Name() == "clear") && len(x.Call.Args) > 0 && x.Call.Args[0] == v {
				return true
			}
		case *ssa.ChangeType:
			if c05MapMutated(x) {
				return true
			}
		}
	}
	return false
}

// c05FieldWritten: the map field addressed by fa is re-assigned or its map updated in place.
func c05FieldWritten(fa *ssa.FieldAddr) bool {
	refs := fa.Referrers()
	if refs == nil {
		return false
	}
	for _, r := range *refs {
		switch x := r.(type) {
		case *ssa.Store:
			if x.Addr == ssa.Value(fa) {
				return true
			}
		case *ssa.UnOp:
			if x.Op == token.MUL && c05MapMutated(x) {
				return true
			}
		}
	}
	return false
}

// c05FreshObject: the object whose field is addressed was allocated in this very function (a
// constructor filling in an object nobody else can see yet).
func c05FreshObject(v ssa.Value) bool {
	for i := 0; i < 12; i++ {
		switch x := v.(type) {
		case *ssa.Alloc:
			for _, r := range *x.Referrers() {
				if st, ok := r.(*ssa.Store); ok && st.Addr == ssa.Value(x) {
					if _, isP := st.Val.(*ssa.Parameter); isP {
						return false
					}
				}
			}
			return x.Comment == "complit" || strings.HasPrefix(x.Comment, "new") || x.Heap && x.Comment == ""
		case *ssa.FieldAddr:
			v = x.X
		case *ssa.UnOp:
			if x.Op != token.MUL {
				return false
			}
			al, ok := x.X.(*ssa.Alloc)
			if !ok {
				v = x.X
				continue
			}
			var st *ssa.Store
			cnt := 0
			for _, r := range *al.Referrers() {
				if s, ok := r.(*ssa.Store); ok && s.Addr == ssa.Value(al) {
					st, cnt = s, cnt+1
				}
			}
			if cnt != 1 {
				return false
			}
			v = st.Val
		case *ssa.ChangeType:
			v = x.X
		default:
			return false
		}
	}
	return false
}
