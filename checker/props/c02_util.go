package props

import (
	"go/token"
	"go/types"
	"strings"

	"godcheck/core"

	"golang.org/x/tools/go/ssa"
)

// ---- helpers of the C02 rule table (select arms, captured variables, goroutine hand-over) ----

// c02Makers indexes, for the packages C02 looks at, the MakeClosure
// instructions of the visible functions by the closure they create. A closure
// of a helper that was inlined into its caller (variant programs) is created in
// the caller, not in its syntactic parent; the index finds that site.
var c02Makers map[*ssa.Function][]*ssa.MakeClosure

func c02IndexClosures(p *core.Prog, rels ...string) {
	c02Makers = map[*ssa.Function][]*ssa.MakeClosure{}
	for _, rel := range rels {
		for _, f := range p.PkgFuncs(rel) {
			for _, b := range f.Blocks {
				for _, in := range b.Instrs {
					if m, ok := in.(*ssa.MakeClosure); ok {
						if fn, ok := m.Fn.(*ssa.Function); ok {
							c02Makers[fn] = append(c02Makers[fn], m)
						}
					}
				}
			}
		}
	}
}

// c02MakerOf returns the instruction creating closure fn: the one in a visible
// function (preferring fn's syntactic parent), else the one in the parent.
func c02MakerOf(fn *ssa.Function) *ssa.MakeClosure {
	par := fn.Parent()
	ms := c02Makers[fn]
	for _, m := range ms {
		if m.Parent() == par {
			return m
		}
	}
	if len(ms) > 0 {
		return ms[0]
	}
	if par == nil {
		return nil
	}
	for _, b := range par.Blocks {
		for _, in := range b.Instrs {
			if m, ok := in.(*ssa.MakeClosure); ok && m.Fn == fn {
				return m
			}
		}
	}
	return nil
}

// c02ClosuresOf lists the closures created (transitively) by f.
func c02ClosuresOf(f *ssa.Function) []*ssa.Function {
	var out []*ssa.Function
	seen := map[*ssa.Function]bool{f: true}
	var walk func(g *ssa.Function)
	walk = func(g *ssa.Function) {
		for _, b := range g.Blocks {
			for _, in := range b.Instrs {
				if m, ok := in.(*ssa.MakeClosure); ok {
					if fn, ok := m.Fn.(*ssa.Function); ok && !seen[fn] && fn.Blocks != nil {
						seen[fn] = true
						out = append(out, fn)
						walk(fn)
					}
				}
			}
		}
	}
	walk(f)
	return out
}

// c02WithClosures is f followed by the closures it creates.
func c02WithClosures(f *ssa.Function) []*ssa.Function {
	if f == nil {
		return nil
	}
	return append([]*ssa.Function{f}, c02ClosuresOf(f)...)
}

// c02Home resolves an address (Alloc or FreeVar, through any number of closure
// levels) to the variable's home: the Alloc of the outermost function that
// declares it. Other values are returned unchanged.
func c02Home(addr ssa.Value) ssa.Value {
	for i := 0; i < 8; i++ {
		fv, ok := addr.(*ssa.FreeVar)
		if !ok {
			return addr
		}
		fn := fv.Parent()
		idx := -1
		for j, x := range fn.FreeVars {
			if x == fv {
				idx = j
			}
		}
		mc := c02MakerOf(fn)
		if mc == nil || idx < 0 || idx >= len(mc.Bindings) {
			return addr
		}
		addr = mc.Bindings[idx]
	}
	return addr
}

// c02Var resolves a value to the variable it was read from: a load of a local
// or captured variable gives the variable's home Alloc; a variable assigned
// exactly once from a parameter (spill slot, argument bound at defer time) or
// from another variable is resolved further; anything else is returned stripped
// of conversions.
func c02Var(v ssa.Value) ssa.Value {
	for i := 0; i < 12; i++ {
		v = core.Strip(v)
		if fv, isFV := v.(*ssa.FreeVar); isFV {
			// a value bound into the closure directly (a `go m(x)` / `defer m(x)` argument, a bound
			// receiver): the variable is whatever was bound
			if b := c02Home(fv); b != ssa.Value(fv) {
				v = b
				continue
			}
			return v
		}
		u, ok := v.(*ssa.UnOp)
		if !ok || u.Op != token.MUL {
			return v
		}
		switch u.X.(type) {
		case *ssa.Alloc, *ssa.FreeVar:
		default:
			return v
		}
		home := c02Home(u.X)
		al, ok := home.(*ssa.Alloc)
		if !ok {
			return home
		}
		var st *ssa.Store
		n := 0
		for _, r := range *al.Referrers() {
			if s, ok := r.(*ssa.Store); ok && s.Addr == al {
				st, n = s, n+1
			}
		}
		if n == 1 {
			sv := core.Strip(st.Val)
			if pa, ok := sv.(*ssa.Parameter); ok {
				return pa
			}
			if _, ok := sv.(*ssa.FreeVar); ok {
				v = sv // spill slot of a value bound into the enclosing closure
				continue
			}
			if l, ok := sv.(*ssa.UnOp); ok && l.Op == token.MUL {
				switch l.X.(type) {
				case *ssa.Alloc, *ssa.FreeVar:
					v = l // copy of another variable: keep resolving
					continue
				}
			}
		}
		return al
	}
	return v
}

// selArm is one communication clause of a blocking select.
type selArm struct {
	Sel  *ssa.Select
	Idx  int
	Chan ssa.Value
	Edge core.Edge // the CFG edge taken when this clause was chosen
	Recv ssa.Value // received value (nil when unused or a send clause)
	ok   bool
}

// c02SelectArms decomposes the blocking selects of fn.
func c02SelectArms(fn *ssa.Function) []selArm {
	var out []selArm
	for _, in := range core.Instrs(fn, func(in ssa.Instruction) bool { _, ok := in.(*ssa.Select); return ok }) {
		sel := in.(*ssa.Select)
		var idxVal *ssa.Extract
		exts := map[int]*ssa.Extract{}
		for _, r := range *sel.Referrers() {
			if e, ok := r.(*ssa.Extract); ok {
				if e.Index == 0 {
					idxVal = e
				}
				exts[e.Index] = e
			}
		}
		nrecv := 0
		for i, st := range sel.States {
			arm := selArm{Sel: sel, Idx: i, Chan: st.Chan}
			if st.Dir == types.RecvOnly {
				if e := exts[2+nrecv]; e != nil {
					arm.Recv = e
				}
				nrecv++
			}
			if idxVal != nil {
				for _, r := range *idxVal.Referrers() {
					b, ok := r.(*ssa.BinOp)
					if !ok || b.Op != token.EQL {
						continue
					}
					var c ssa.Value = b.Y
					if b.Y == ssa.Value(idxVal) {
						c = b.X
					}
					if n, ok := core.ConstInt(c); !ok || int(n) != i {
						continue
					}
					for _, rr := range *b.Referrers() {
						if iff, ok := rr.(*ssa.If); ok {
							arm.Edge = core.Edge{From: iff.Block(), To: iff.Block().Succs[0]}
							arm.ok = true
						}
					}
				}
			}
			out = append(out, arm)
		}
	}
	return out
}

func c02IsBuiltinCall(in ssa.Instruction, name string) bool {
	c := core.AsCall(in)
	if c == nil {
		return false
	}
	b, ok := c.Common().Value.(*ssa.Builtin)
	return ok && b.Name() == name
}

// recoverCalls lists the direct recover() calls of f.
func recoverCalls(f *ssa.Function) []ssa.Instruction {
	return core.Instrs(f, func(in ssa.Instruction) bool {
		_, isCall := in.(*ssa.Call)
		return isCall && c02IsBuiltinCall(in, "recover")
	})
}

// c02DeferredFn returns the function run by a defer instruction (closure or static callee).
func c02DeferredFn(d *ssa.Defer) *ssa.Function {
	if mc, ok := d.Call.Value.(*ssa.MakeClosure); ok {
		return mc.Fn.(*ssa.Function)
	}
	return d.Call.StaticCallee()
}

// recoveredNotNil is the atom "recover() != nil" (negated form of recover()==nil).
var recoveredNil = core.Cmp(token.EQL, isRecoverResult, core.IsNil)

// c02Runner describes a function that starts the user's handler in a goroutine
// and waits for it in a select (REST timeoutHandler.ServeHTTP, RPC timeout interceptor).
type c02Runner struct {
	fn    *ssa.Function
	gos   []*ssa.Go
	body  *ssa.Function   // goroutine function
	bodys []*ssa.Function // body and its nested closures
	arms  []selArm

	handlerCalls []ssa.Instruction // calls of the user's handler inside the goroutine
	recDefers    []*ssa.Defer      // defers of body whose function calls recover()
	closes       []ssa.Instruction // close(ch) calls in body (non-deferred and deferred)
	doneArm      *selArm
	panicArm     *selArm
	ctxArm       *selArm
	problem      string
}

func c02NewRunner(fn *ssa.Function, isHandler func(ssa.Instruction) bool) *c02Runner {
	r := &c02Runner{fn: fn}
	for _, in := range core.Instrs(fn, func(in ssa.Instruction) bool { _, ok := in.(*ssa.Go); return ok }) {
		r.gos = append(r.gos, in.(*ssa.Go))
	}
	if len(r.gos) != 1 {
		r.problem = "expected exactly one go statement"
		return r
	}
	g := r.gos[0]
	if mc, ok := g.Call.Value.(*ssa.MakeClosure); ok {
		r.body = mc.Fn.(*ssa.Function)
	} else {
		r.problem = "the goroutine is not a function literal (shape not understood)"
		return r
	}
	r.bodys = c02WithClosures(r.body)
	r.arms = c02SelectArms(fn)
	for _, f := range r.bodys {
		r.handlerCalls = append(r.handlerCalls, core.Instrs(f, isHandler)...)
	}
	for _, in := range core.Instrs(r.body, func(in ssa.Instruction) bool { _, ok := in.(*ssa.Defer); return ok }) {
		d := in.(*ssa.Defer)
		if f := c02DeferredFn(d); f != nil && f.Blocks != nil && len(recoverCalls(f)) > 0 {
			r.recDefers = append(r.recDefers, d)
		}
	}
	for _, f := range r.bodys {
		r.closes = append(r.closes, core.Instrs(f, func(in ssa.Instruction) bool { return c02IsBuiltinCall(in, "close") })...)
	}
	for i := range r.arms {
		a := &r.arms[i]
		if !a.ok {
			r.problem = "a select clause could not be located in the CFG"
			return r
		}
		if c, _ := core.ResultOf(core.Forward(a.Chan)); c != nil && core.Short(core.CalleeName(c)) == "(context.Context).Done" {
			r.ctxArm = a
			continue
		}
		home := c02Var(a.Chan)
		for _, cl := range r.closes {
			if c02Var(core.AsCall(cl).Common().Args[0]) == home {
				r.doneArm = a
			}
		}
		for _, d := range r.recDefers {
			for _, s := range core.Instrs(c02DeferredFn(d), func(in ssa.Instruction) bool { _, ok := in.(*ssa.Send); return ok }) {
				if c02Var(s.(*ssa.Send).Chan) == home {
					r.panicArm = a
				}
			}
		}
	}
	return r
}

// armHead is the program point at which an arm starts.
func armHead(a *selArm) core.At { return core.Head(a.Edge.To) }

// inBody reports whether f is the goroutine function or nested in it.
func (r *c02Runner) inBody(f *ssa.Function) bool {
	for _, b := range r.bodys {
		if b == f {
			return true
		}
	}
	return false
}

// c02HandOver emits the K10 obligations shared by the REST and RPC timeout runners.
func c02HandOver(run *core.Run, pfx, what string, r *c02Runner) {
	p := run.P
	name := core.FuncName(r.fn)
	need := func(o *core.O) bool {
		if r.problem != "" {
			o.Unres("%s: %s", name, r.problem)
			return false
		}
		return true
	}
	run.Check(pfx+"/K10/"+what+"-recover-forwards-panic", "the handler goroutine defers, before calling the handler, a function that calls recover() and on a recovered panic always sends it to the channel the select waits on", func(o *core.O) {
		if !need(o) {
			return
		}
		run.Fn(core.FuncName(r.body))
		o.Site(len(r.recDefers), core.FuncName(r.body))
		if len(r.handlerCalls) == 0 {
			o.Fail(p.Pos(r.body.Pos()), "the goroutine never calls the handler")
		}
		if len(r.recDefers) == 0 {
			o.Fail(p.Pos(r.body.Pos()), "the handler goroutine has no deferred recover(): a panicking handler kills the process")
			return
		}
		if r.panicArm == nil {
			o.Fail(p.Pos(r.body.Pos()), "the recovered panic is not sent to a channel the select receives from (the waiting request never learns of the panic)")
			return
		}
		isRec := func(in ssa.Instruction) bool {
			for _, d := range r.recDefers {
				if in == ssa.Instruction(d) {
					return true
				}
			}
			return false
		}
		for _, h := range r.handlerCalls {
			if h.Parent() != r.body {
				continue
			}
			if w, _ := core.Reach(core.Q{From: []core.At{core.Entry(r.body)}, Target: core.Is(h), Blocked: isRec}); w != nil {
				o.Fail(p.InstrPos(h), "the handler can run before the recover is deferred")
			}
		}
		home := c02Var(r.panicArm.Chan)
		for _, d := range r.recDefers {
			f := c02DeferredFn(d)
			run.Fn(core.FuncName(f))
			// the panic arm of the deferred function: `!finished` (completion flag) and/or `recover() != nil`;
			// that the test cannot miss a panic is the matter of ...-panic-detection-value-independent
			pt := c02PanicTestOf(d)
			arm := pt.arm()
			if len(arm) == 0 {
				o.Fail(p.Pos(f.Pos()), "%s never tests whether the handler panicked", core.FuncName(f))
				continue
			}
			var from []core.At
			for _, e := range arm {
				from = append(from, core.Head(e.To))
			}
			isSend := func(in ssa.Instruction) bool {
				s, ok := in.(*ssa.Send)
				return ok && c02Var(s.Chan) == home
			}
			if w, ok := core.Reach(core.Q{From: from, Target: core.IsExit, Blocked: isSend}); ok {
				o.Fail(p.InstrPos(w), "a recovered panic can leave %s without being sent to the waiting select", core.FuncName(f))
			}
			if w := pt.missed(isSend); w != nil {
				o.Fail(p.InstrPos(w), "%s can end with the completion flag unset and nothing sent: a panic whose value recover() reports as nil is not forwarded", core.FuncName(f))
			}
			// nothing is sent when there was no panic
			if w := core.Requires(f, isSend, pt.panicked); w != nil {
				o.Fail(p.InstrPos(w), "a value is sent to the panic channel although nothing was recovered (the request would panic spuriously)")
			}
		}
	})
	run.Check(pfx+"/K10/"+what+"-panic-detection-value-independent", "whether the handler panicked is decided in the goroutine's deferred function by a completion flag - a bool local of the goroutine (or of the per-request state it is started with) that is false while the handler runs and set only after it returned - and not by the value recover() returns (under this module's go directive recover() is nil for panic(nil), e.g. panic(err) with a nil err: the panic would be stopped but neither forwarded nor followed by close(done), and the request waits out the whole timeout); recover() is called on every path of the panic arm", func(o *core.O) {
		if !need(o) {
			return
		}
		run.Fn(core.FuncName(r.body))
		o.Site(len(r.recDefers), core.FuncName(r.body))
		if len(r.recDefers) == 0 {
			o.Fail(p.Pos(r.body.Pos()), "the handler goroutine has no deferred recover()")
			return
		}
		for _, d := range r.recDefers {
			c02CheckCompletionFlag(o, p, c02PanicTestOf(d), r.handlerCalls, "the handler")
		}
	})
	run.Check(pfx+"/K10/"+what+"-panic-chan-buffered", "the panic hand-over channel has capacity >= 1 (the select may already have left through the deadline arm)", func(o *core.O) {
		if !need(o) {
			return
		}
		if r.panicArm == nil {
			o.Unres("%s: panic arm not found", name)
			return
		}
		if mk, isMk := c02Var(r.panicArm.Chan).(*ssa.MakeChan); isMk {
			// the channel value itself (the variable is never captured by reference)
			o.Site(1, name)
			if c, ok := core.ConstInt(mk.Size); !ok || c < 1 {
				o.Fail(p.InstrPos(mk), "panic channel is unbuffered: a handler that panics after the deadline blocks its goroutine forever")
			}
			return
		}
		home, ok := c02Var(r.panicArm.Chan).(*ssa.Alloc)
		if !ok {
			o.Unres("%s: panic channel is not a local variable", name)
			return
		}
		n := 0
		for _, ref := range *home.Referrers() {
			st, ok := ref.(*ssa.Store)
			if !ok || st.Addr != ssa.Value(home) {
				continue
			}
			n++
			mk, ok := st.Val.(*ssa.MakeChan)
			if !ok {
				o.Fail(p.InstrPos(st), "panic channel assigned from %s (capacity unknown)", core.Describe(st.Val))
				continue
			}
			if c, ok := core.ConstInt(mk.Size); !ok || c < 1 {
				o.Fail(p.InstrPos(mk), "panic channel is unbuffered: a handler that panics after the deadline blocks its goroutine forever")
			}
		}
		o.Site(n, name)
	})
	run.Check(pfx+"/K10/"+what+"-panic-arm-repanics", "the select arm receiving a recovered panic re-panics with the received value and never returns normally", func(o *core.O) {
		if !need(o) {
			return
		}
		if r.panicArm == nil {
			o.Unres("%s: panic arm not found", name)
			return
		}
		o.Site(1, name)
		from := []core.At{armHead(r.panicArm)}
		if w, ok := core.Reach(core.Q{From: from, Target: core.IsReturn}); ok {
			o.Fail(p.InstrPos(w), "the panic arm can return normally: the panic is swallowed and no response is produced")
		}
		w, ok := core.Reach(core.Q{From: from, Target: func(in ssa.Instruction) bool { _, ok := in.(*ssa.Panic); return ok }})
		if !ok {
			o.Fail(p.Pos(r.fn.Pos()), "the panic arm does not panic")
			return
		}
		if r.panicArm.Recv == nil || !core.DependsOn(w.(*ssa.Panic).X, func(v ssa.Value) bool { return v == r.panicArm.Recv }) {
			o.Fail(p.InstrPos(w), "the panic arm does not re-panic with the value received from the goroutine")
		}
	})
	run.Check(pfx+"/K3/"+what+"-done-closed-after-handler", "the completion channel is closed by the goroutine exactly after the handler returned normally: not before it, not on the panic path, and on every normal path", func(o *core.O) {
		if !need(o) {
			return
		}
		if r.doneArm == nil {
			o.Fail(p.Pos(r.fn.Pos()), "no select arm waits on a channel closed by the handler goroutine (a finished handler is never flushed)")
			return
		}
		home := c02Var(r.doneArm.Chan)
		isCloseDone := func(in ssa.Instruction) bool {
			return c02IsBuiltinCall(in, "close") && c02Var(core.AsCall(in).Common().Args[0]) == home
		}
		// closures the goroutine runs exactly once on the spot (`withLock(&lock, func() { resp, err = handler(ctx, req); close(done) })`)
		// are part of its straight-line code
		sync := c02SyncClosures(r.body)
		n := 0
		for _, cl := range r.closes {
			if !isCloseDone(cl) {
				continue
			}
			n++
			if _, isCall := cl.(*ssa.Call); !isCall || (cl.Parent() != r.body && sync[cl.Parent()] == nil) {
				o.Fail(p.InstrPos(cl), "completion channel closed in a deferred call/closure: it is also closed when the handler panicked, so the select may flush a half-written response and lose the panic")
			}
		}
		// in the goroutine function itself, running a closure that closes the channel on every path counts as closing it
		closesIn := func(f *ssa.Function) func(ssa.Instruction) bool {
			if f != r.body {
				return isCloseDone
			}
			var runs []ssa.Instruction
			for c, run := range sync {
				if len(core.Instrs(c, isCloseDone)) > 0 && core.MustPass(core.Entry(c), isCloseDone, core.IsReturn) == nil {
					runs = append(runs, run)
				}
			}
			return core.Or(isCloseDone, core.Is(runs...))
		}
		// closing inside a closure that may not close on every path is still a close for "not before the handler"
		anyCloseIn := func(f *ssa.Function) func(ssa.Instruction) bool {
			if f != r.body {
				return isCloseDone
			}
			var runs []ssa.Instruction
			for c, run := range sync {
				if len(core.Instrs(c, isCloseDone)) > 0 {
					runs = append(runs, run)
				}
			}
			return core.Or(isCloseDone, core.Is(runs...))
		}
		butNot := func(pred func(ssa.Instruction) bool, x ssa.Instruction) func(ssa.Instruction) bool {
			return func(in ssa.Instruction) bool { return in != x && pred(in) }
		}
		o.Site(n+len(r.handlerCalls), core.FuncName(r.body))
		for _, h := range r.handlerCalls {
			hf, hin := h.Parent(), h
			if hf != r.body {
				run := sync[hf]
				if run == nil {
					o.Fail(p.InstrPos(h), "handler called from a nested closure (shape not understood)")
					continue
				}
				if len(core.Instrs(hf, isCloseDone)) == 0 {
					hf, hin = r.body, run // the closure only runs the handler; closing is up to the goroutine function
				} else if w := core.Precedes(r.body, core.Is(run), butNot(anyCloseIn(r.body), run)); w != nil {
					o.Fail(p.InstrPos(w), "completion channel closed before the handler ran")
				}
			}
			if w := core.MustPass(core.After(hin), closesIn(hf), core.IsReturn); w != nil {
				o.Fail(p.InstrPos(w), "the goroutine can return after the handler finished without closing the completion channel (the request then waits for the deadline)")
			}
			if w := core.Precedes(hf, core.Is(hin), butNot(anyCloseIn(hf), hin)); w != nil {
				o.Fail(p.InstrPos(w), "completion channel closed before the handler ran")
			}
		}
	})
}

// edgeReachable reports whether CFG edge target can be traversed starting from
// the given blocks when the edges matching cut are deleted.
func edgeReachable(from []*ssa.BasicBlock, cut func(core.Edge) bool, target core.Edge) bool {
	seen := map[*ssa.BasicBlock]bool{}
	work := append([]*ssa.BasicBlock(nil), from...)
	for len(work) > 0 {
		b := work[len(work)-1]
		work = work[:len(work)-1]
		if seen[b] {
			continue
		}
		seen[b] = true
		for _, s := range b.Succs {
			e := core.Edge{From: b, To: s}
			if cut != nil && cut(e) {
				continue
			}
			if e == target {
				return true
			}
			work = append(work, s)
		}
	}
	return false
}

// isInvokeOn matches interface method calls `x.name(...)` (incl. defer) whose
// receiver is (a load of) the variable/parameter recv.
func isInvokeOn(recv ssa.Value, name string) func(ssa.Instruction) bool {
	return func(in ssa.Instruction) bool {
		c := core.AsCall(in)
		if c == nil || !c.Common().IsInvoke() || c.Common().Method.Name() != name {
			return false
		}
		return c02Var(c.Common().Value) == recv
	}
}

// isRWType reports whether t is net/http.ResponseWriter or a pointer to it.
func isRWType(t types.Type) bool {
	if p, ok := t.(*types.Pointer); ok {
		t = p.Elem()
	}
	return t.String() == "net/http.ResponseWriter"
}

// constArg returns the integer constant passed as argument i (receiver = 0).
func constArg(c ssa.CallInstruction, i int) (int64, bool) {
	as := core.Args(c)
	if i >= len(as) {
		return 0, false
	}
	return core.ConstInt(as[i])
}

// c02Heads converts edges into the program points at their targets.
func c02Heads(es []core.Edge) []core.At {
	var out []core.At
	for _, e := range es {
		out = append(out, core.Head(e.To))
	}
	return out
}

// staticCalleeName is the short name of a call's static callee ("" if none).
func staticCalleeName(v ssa.Value) string {
	switch x := core.Strip(v).(type) {
	case *ssa.Function:
		return strings.TrimPrefix(x.String(), core.Mod+"/")
	case *ssa.Call:
		if f := x.Call.StaticCallee(); f != nil {
			return strings.TrimPrefix(f.String(), core.Mod+"/")
		}
	}
	return ""
}

// sliceLiteralElems returns the elements of a slice built from an array
// literal (`[]T{a, b, c}` / variadic call arguments), by index.
func sliceLiteralElems(v ssa.Value) ([]ssa.Value, bool) {
	sl, ok := v.(*ssa.Slice)
	if !ok {
		return nil, false
	}
	al, ok := sl.X.(*ssa.Alloc)
	if !ok {
		return nil, false
	}
	arr, ok := al.Type().(*types.Pointer).Elem().Underlying().(*types.Array)
	if !ok {
		return nil, false
	}
	out := make([]ssa.Value, arr.Len())
	for _, r := range *al.Referrers() {
		ia, ok := r.(*ssa.IndexAddr)
		if !ok {
			continue
		}
		i, ok := core.ConstInt(ia.Index)
		if !ok || int(i) >= len(out) {
			return nil, false
		}
		for _, rr := range *ia.Referrers() {
			if st, ok := rr.(*ssa.Store); ok && st.Addr == ssa.Value(ia) {
				if out[i] != nil {
					return nil, false
				}
				out[i] = st.Val
			}
		}
	}
	for _, e := range out {
		if e == nil {
			return nil, false
		}
	}
	return out, true
}

// c02FreeVarUsed reports whether the captured variable fv is used by its closure for anything but
// being bound, unused again, into the closures it creates.
func c02FreeVarUsed(fv *ssa.FreeVar, depth int) bool {
	if fv.Referrers() == nil {
		return false
	}
	for _, ref := range *fv.Referrers() {
		switch x := ref.(type) {
		case *ssa.DebugRef:
		case *ssa.MakeClosure:
			fn, ok := x.Fn.(*ssa.Function)
			if !ok || depth > 6 {
				return true
			}
			for i, b := range x.Bindings {
				if b == ssa.Value(fv) && (i >= len(fn.FreeVars) || c02FreeVarUsed(fn.FreeVars[i], depth+1)) {
					return true
				}
			}
		default:
			return true
		}
	}
	return false
}

// c02CallsOfParam lists the call instructions of h (call, defer, go) whose callee is its parameter pa.
func c02CallsOfParam(h *ssa.Function, pa *ssa.Parameter) []ssa.Instruction {
	return core.Instrs(h, func(in ssa.Instruction) bool {
		c := core.AsCall(in)
		if c == nil || c.Common().IsInvoke() {
			return false
		}
		if _, isFn := c.Common().Value.(*ssa.Function); isFn {
			return false
		}
		return c02Var(c.Common().Value) == ssa.Value(pa)
	})
}

// c02RunsOnce reports whether the in-package function h runs its parameter #idx exactly once and
// synchronously: a plain call on every path to a return, never twice, never deferred, spawned or handed
// on, and h recovers no panic (`withLock(mu, fn)`: lock, defer unlock, fn()).
func c02RunsOnce(h *ssa.Function, idx int) bool {
	if h == nil || h.Blocks == nil || idx < 0 || idx >= len(h.Params) || h.Params[idx].Referrers() == nil {
		return false
	}
	pa := h.Params[idx]
	var calls []ssa.Instruction
	for _, ref := range *pa.Referrers() {
		switch x := ref.(type) {
		case *ssa.DebugRef:
		case *ssa.Call:
			if x.Call.Value != ssa.Value(pa) {
				return false
			}
			for _, a := range x.Call.Args {
				if a == ssa.Value(pa) {
					return false
				}
			}
			calls = append(calls, x)
		default:
			return false
		}
	}
	if len(calls) == 0 {
		return false
	}
	isRun := core.Is(calls...)
	if core.MustPass(core.Entry(h), isRun, core.IsReturn) != nil || core.AtMostOnce(h, isRun) != nil {
		return false
	}
	for _, g := range c02WithClosures(h) {
		if len(recoverCalls(g)) > 0 {
			return false
		}
	}
	return true
}

// c02SyncClosures maps the closures created in f that are run exactly once, synchronously, where they
// are created - called on the spot, or handed to an in-package helper that runs its argument once
// (c02RunsOnce) - to the call in f that runs them.
func c02SyncClosures(f *ssa.Function) map[*ssa.Function]*ssa.Call {
	out := map[*ssa.Function]*ssa.Call{}
	for _, in := range core.Instrs(f, func(in ssa.Instruction) bool { _, ok := in.(*ssa.MakeClosure); return ok }) {
		mc := in.(*ssa.MakeClosure)
		fn, ok := mc.Fn.(*ssa.Function)
		if !ok || mc.Referrers() == nil {
			continue
		}
		var run *ssa.Call
		n := 0
		for _, ref := range *mc.Referrers() {
			if _, dbg := ref.(*ssa.DebugRef); dbg {
				continue
			}
			n++
			if c, ok := ref.(*ssa.Call); ok {
				run = c
			}
		}
		if n != 1 || run == nil {
			continue
		}
		if run.Call.Value == ssa.Value(mc) {
			out[fn] = run
			continue
		}
		h := run.Call.StaticCallee()
		if h == nil || h.Pkg != f.Pkg {
			continue
		}
		idx, cnt := -1, 0
		for i, a := range run.Call.Args {
			if a == ssa.Value(mc) {
				idx, cnt = i, cnt+1
			}
		}
		if cnt == 1 && c02RunsOnce(h, idx) {
			out[fn] = run
		}
	}
	return out
}

// c02ThroughSync resolves a value read in fn from a local variable that is assigned only inside a
// closure run synchronously before the read (`withLock(&mu, func() { result = resp })`; `return result`)
// to the variable the closure copies from; nil when v is not of that shape.
func c02ThroughSync(fn *ssa.Function, v ssa.Value) ssa.Value {
	ld, ok := core.Strip(v).(*ssa.UnOp)
	if !ok || ld.Op != token.MUL {
		return nil
	}
	al, ok := ld.X.(*ssa.Alloc)
	if !ok || al.Parent() != fn {
		return nil
	}
	var mc *ssa.MakeClosure
	for _, ref := range *al.Referrers() {
		switch x := ref.(type) {
		case *ssa.DebugRef:
		case *ssa.UnOp:
			if x.Op != token.MUL {
				return nil
			}
		case *ssa.MakeClosure:
			if mc != nil {
				return nil
			}
			mc = x
		default:
			return nil
		}
	}
	if mc == nil {
		return nil
	}
	c := mc.Fn.(*ssa.Function)
	run := c02SyncClosures(fn)[c]
	if run == nil || !core.Dominates(run, ld) {
		return nil
	}
	var st *ssa.Store
	for i, b := range mc.Bindings {
		if b != ssa.Value(al) || i >= len(c.FreeVars) {
			continue
		}
		fv := c.FreeVars[i]
		for _, ref := range *fv.Referrers() {
			switch x := ref.(type) {
			case *ssa.DebugRef:
			case *ssa.UnOp:
			case *ssa.Store:
				if x.Addr != ssa.Value(fv) || st != nil {
					return nil
				}
				st = x
			default:
				return nil
			}
		}
	}
	if st == nil || core.MustPass(core.Entry(c), core.Is(st), core.IsReturn) != nil {
		return nil
	}
	return c02Var(st.Val)
}
