package props

import (
	"fmt"
	"go/constant"
	"go/token"
	"go/types"
	"math"
	"sort"
	"strings"

	"godcheck/core"

	"golang.org/x/tools/go/ssa"
)

func init() { register("C01", c01) }

const (
	brkPkg   = "lib/breaker"
	rwAdd    = "(*lib/collection.RollingWindow).Add"
	rwReduce = "(*lib/collection.RollingWindow).Reduce"
	rwNew    = "lib/collection.NewRollingWindow"
)

type markKind int

const (
	markNone markKind = iota
	markSuccess
	markFailure
	markBad
	markSplit // success on some paths, failure on others: the value is chosen by a branch (φ)
)

// c01ctx holds the anchors of the breaker package, resolved by role.
type c01ctx struct {
	p        *core.Prog
	typ      string // the throttle struct holding the rolling window ("googleBreaker")
	stat     string // "googleBreaker.stat"
	kField   string // "googleBreaker.k"
	accept   *ssa.Function
	doReq    *ssa.Function
	helpers  map[*ssa.Function]markKind
	problems []string
}

func newC01ctx(p *core.Prog) *c01ctx {
	c := &c01ctx{p: p, helpers: map[*ssa.Function]markKind{}}
	sp := p.Pkg(brkPkg)
	if sp == nil {
		c.problems = append(c.problems, "package "+brkPkg)
		return c
	}
	// role: the struct of the package that owns a *collection.RollingWindow
	var names []string
	for n := range sp.Members {
		names = append(names, n)
	}
	sort.Strings(names)
	for _, n := range names {
		t, ok := sp.Members[n].(*ssa.Type)
		if !ok {
			continue
		}
		st, ok := t.Type().Underlying().(*types.Struct)
		if !ok {
			continue
		}
		var floats []string
		stat := ""
		for i := 0; i < st.NumFields(); i++ {
			f := st.Field(i)
			if strings.HasSuffix(f.Type().String(), "lib/collection.RollingWindow") {
				stat = f.Name()
			}
			if b, ok := f.Type().Underlying().(*types.Basic); ok && b.Kind() == types.Float64 {
				floats = append(floats, f.Name())
			}
		}
		if stat != "" && c.typ == "" {
			c.typ, c.stat = n, n+"."+stat
			if len(floats) == 1 {
				c.kField = n + "." + floats[0]
			}
		}
	}
	if c.typ == "" {
		c.problems = append(c.problems, "the breaker struct owning a *collection.RollingWindow")
		return c
	}
	// mark helpers: functions that do nothing but record one outcome
	for _, f := range p.PkgFuncs(brkPkg) {
		if f.Parent() != nil {
			continue
		}
		adds := core.Instrs(f, c.isStatAdd)
		if len(adds) == 0 {
			continue
		}
		calls := core.Instrs(f, func(in ssa.Instruction) bool { return core.AsCall(in) != nil })
		if len(calls) != len(adds) {
			continue
		}
		kind := c.directMark(adds[0])
		for _, a := range adds[1:] {
			if c.directMark(a) != kind {
				kind = markBad
			}
		}
		if core.MustPass(core.Entry(f), c.isStatAdd, core.IsExit) != nil || core.AtMostOnce(f, c.isStatAdd) != nil {
			continue
		}
		c.helpers[f] = kind
	}
	// role: the admission test is the function that draws from the Proba
	isProba := core.CallTo("(*lib/mathx.Proba).TrueOnProba")
	for _, f := range p.PkgFuncs(brkPkg) {
		if len(core.Instrs(f, isProba)) > 0 {
			if c.accept != nil {
				c.problems = append(c.problems, "more than one function draws from Proba.TrueOnProba")
			}
			c.accept = f
		}
	}
	if c.accept == nil {
		c.problems = append(c.problems, "the function of lib/breaker calling Proba.TrueOnProba")
		return c
	}
	// role: the accounting function calls the admission test and a func() error parameter
	for _, f := range p.PkgFuncs(brkPkg) {
		if f.Parent() != nil || len(core.Instrs(f, c.isAccept)) == 0 {
			continue
		}
		if ps := paramsOfType(f, "func() error"); len(ps) == 1 && len(core.Instrs(f, callOfParam(ps[0]))) > 0 {
			c.doReq = f
		}
	}
	if c.doReq == nil {
		c.doReq = p.Func(brkPkg, c.typ, "doReq")
	}
	return c
}

func (c *c01ctx) isStatAdd(in ssa.Instruction) bool {
	cc := core.AsCall(in)
	if cc == nil || core.Short(core.CalleeName(cc)) != rwAdd {
		return false
	}
	return core.IsFieldLoad(core.Args(cc)[0], c.stat)
}

func (c *c01ctx) isAccept(in ssa.Instruction) bool {
	cc := core.AsCall(in)
	return cc != nil && c.accept != nil && cc.Common().StaticCallee() == c.accept
}

func (c *c01ctx) directMark(in ssa.Instruction) markKind {
	if !c.isStatAdd(in) {
		return markNone
	}
	kind := markNone
	for _, cs := range c.markCases(in) {
		switch {
		case cs.kind == markBad:
			return markBad
		case kind == markNone:
			kind = cs.kind
		case kind != cs.kind:
			kind = markSplit
		}
	}
	if kind == markNone {
		return markBad
	}
	return kind
}

// markCase is one alternative of the value an Add on the breaker's window records.
type markCase struct {
	kind markKind // markSuccess (1), markFailure (0) or markBad
	via  []core.Edge
}

// markCases evaluates the value added to the window: the constant 1 or 0, written
// literally, chosen by a branch, or looked up in a constant package-level table
// (`outcomeValues[o]`) — what is decided is the value, not its spelling.
func (c *c01ctx) markCases(in ssa.Instruction) []markCase {
	var out []markCase
	for _, cs := range constCases(core.Args(core.AsCall(in))[1]) {
		k := markBad
		if cs.val != nil && (cs.val.Kind() == constant.Int || cs.val.Kind() == constant.Float) {
			switch {
			case constant.Compare(cs.val, token.EQL, constant.MakeInt64(1)):
				k = markSuccess
			case constant.Compare(cs.val, token.EQL, constant.MakeInt64(0)):
				k = markFailure
			}
		}
		out = append(out, markCase{k, cs.via})
	}
	return out
}

// markOf classifies an instruction as an outcome-recording site: a direct
// stat.Add or a call of a mark helper.
func (c *c01ctx) markOf(in ssa.Instruction) markKind {
	if k := c.directMark(in); k != markNone {
		return k
	}
	if cc := core.AsCall(in); cc != nil {
		if callee := cc.Common().StaticCallee(); callee != nil {
			if k, ok := c.helpers[callee]; ok {
				return k
			}
		}
	}
	return markNone
}

func (c *c01ctx) isMark(in ssa.Instruction) bool    { return c.markOf(in) != markNone }
func (c *c01ctx) isSuccess(in ssa.Instruction) bool { return c.markOf(in) == markSuccess }
func (c *c01ctx) isFailure(in ssa.Instruction) bool {
	k := c.markOf(in)
	return k == markFailure || k == markBad
}

// isSplit: a site that records success on some paths and failure on others.
func (c *c01ctx) isSplit(in ssa.Instruction) bool { return c.markOf(in) == markSplit }

// accumulator classifies a local captured by the closure handed to
// stat.Reduce: "accepts" when the closure adds Bucket.Sum to it, "total" when
// it adds Bucket.Count (and nothing else is ever stored into it).
func (c *c01ctx) accumulator(al *ssa.Alloc, use ssa.Instruction) string {
	kind := ""
	for _, ref := range *al.Referrers() {
		switch x := ref.(type) {
		case *ssa.MakeClosure:
			// the closure must be the argument of stat.Reduce
			var red ssa.Instruction
			for _, u := range *x.Referrers() {
				if cc := core.AsCall(u); cc != nil && core.Short(core.CalleeName(cc)) == rwReduce &&
					core.IsFieldLoad(core.Args(cc)[0], c.stat) {
					red = u
				}
			}
			if red == nil {
				return ""
			}
			if use != nil && use.Parent() == red.Parent() && !core.Dominates(red, use) {
				return ""
			}
			g := x.Fn.(*ssa.Function)
			var fv *ssa.FreeVar
			for i, b := range x.Bindings {
				if b == al && i < len(g.FreeVars) {
					fv = g.FreeVars[i]
				}
			}
			if fv == nil {
				return ""
			}
			a := &core.Alg{Name: func(v ssa.Value) string {
				if u, ok := v.(*ssa.UnOp); ok && u.Op == token.MUL && u.X == fv {
					return "acc"
				}
				switch core.FieldAddrNameOfLoad(v) {
				case "Bucket.Sum":
					return "Sum"
				case "Bucket.Count":
					return "Count"
				}
				return ""
			}}
			n := 0
			for _, in := range core.Instrs(g, func(in ssa.Instruction) bool {
				st, ok := in.(*ssa.Store)
				return ok && st.Addr == fv
			}) {
				n++
				got := a.Norm(in.(*ssa.Store).Val)
				k := ""
				switch {
				case got.Equal(core.ParsePoly("acc + int(Sum)")), got.Equal(core.ParsePoly("acc + Sum")):
					k = "accepts"
				case got.Equal(core.ParsePoly("acc + Count")):
					k = "total"
				}
				if k == "" || (kind != "" && kind != k) {
					return ""
				}
				kind = k
				// once per bucket
				if core.MustPass(core.Entry(g), core.Is(in), core.IsReturn) != nil {
					return ""
				}
			}
			if n != 1 {
				return ""
			}
		case *ssa.Store:
			if x.Addr == al {
				if z, ok := core.ConstInt(x.Val); !ok || z != 0 {
					return ""
				}
			}
		}
	}
	return kind
}

// historyName names the leaves `accepts` / `total` of the threshold formula:
// loads of an accumulator, directly or as result #i of an in-package helper
// that returns its accumulators.
func (c *c01ctx) historyName(v ssa.Value) string {
	if u, ok := v.(*ssa.UnOp); ok && u.Op == token.MUL {
		if al, ok := u.X.(*ssa.Alloc); ok {
			return c.accumulator(al, u)
		}
		return ""
	}
	call, idx := core.ResultOf(v)
	if call == nil {
		return ""
	}
	g := call.Call.StaticCallee()
	if g == nil || g.Blocks == nil || g.Pkg != c.p.Pkg(brkPkg) {
		return ""
	}
	rets := core.Returns(g)
	if len(rets) != 1 || idx >= len(rets[0].Results) {
		return ""
	}
	if u, ok := core.Result(rets[0], idx).(*ssa.UnOp); ok && u.Op == token.MUL {
		if al, ok := u.X.(*ssa.Alloc); ok {
			return c.accumulator(al, u)
		}
	}
	return ""
}

func isErrUnavailable(v ssa.Value) bool {
	return core.IsGlobal(brkPkg, "ErrServiceUnavailable")(core.Forward(v))
}

// grpcCode returns the value of a constant of google.golang.org/grpc/codes as seen by the analysed package.
func importedConst(pk *types.Package, path, name string) (*types.Const, bool) {
	for _, im := range pk.Imports() {
		if im.Path() == path {
			if c, ok := im.Scope().Lookup(name).(*types.Const); ok {
				return c, true
			}
		}
	}
	return nil, false
}

func c01(r *core.Run) {
	p := r.P
	r.Explanation = "Decides on every path: the rejection probability handed to the random draw is max(0,(total-5-k*accepts)/(total+1)) with k written once as 1.5, accepts/total summed from Bucket.Sum/Bucket.Count of a 10 s window that includes the current bucket; a non-nil admission error is returned only when the draw succeeded; in the accounting function the request runs only after a nil admission result, the rejected path calls neither the request nor a mark and hands the admission error to the fallback (if any), every normal path after the request records exactly one outcome (success iff the acceptable-predicate applied to the request's error is true), the deferred accounting closure is registered before the request on the admitted path only, tells a request that did not return (any panic, also panic(nil), or Goexit) from one that returned by a completion flag that is set only after the request returned and on every normal path – never by recover()'s value –, records exactly one failure in the first case and nothing in the second, and no deferred closure stops the panic (none returns normally after recover() on the 'not returned' arm); success adds 1, failure adds 0 and outcomes are recorded only by the accounting functions and the promises; Accept/Reject of both promise types delegate to the like-named operation; Allow hands out a promise only when admitted; the logging wrapper, the Do* family and the named registry pass request, fallback and predicate through unchanged; BreakerHandler reports Accept only when the next handler returned normally (same completion-flag discipline) with a status below 500 and Reject otherwise, exactly once; the four benign-outcome predicates (gRPC codes, sql, redis, HTTP status) compute exactly the declared finite sets and every breaker call of the sql/redis/gRPC integrations passes its package's predicate; registry map and error window are touched only under their locks; a breaker is inserted into the registry only on the not-found outcome of a lookup of the same name made under the write lock that is still held (one breaker per name for all goroutines), and what the registry returns is the breaker found or inserted under the name."
	r.NotDecided = "a panic raised by the accounting itself between a recorded outcome and the assignment of the completion flag (the window's Add does not panic); recover() called in a helper of a deferred closure rather than in the closure (only the closures deferred by the accounting function / the HTTP handler closure are inspected); a completion signal that is not a bool local captured by reference (reported as a violation, not accepted); ageing of outcomes out of the 10 s window and the limit 'probability approaching 1' (functions of the clock and of values; the RollingWindow arithmetic is not decided here nor under C09); behaviour under concurrent histories beyond lock discipline and the atomic check-then-insert of the registry (an inserting helper that itself releases and re-takes the lock before storing is not looked into; functions that overwrite an entry without lookup and without handing a breaker back, such as NoBreakerFor, are taken as deliberate replacement); that the random source is uniform."
	c := newC01ctx(p)
	need := func(o *core.O) bool {
		for _, pr := range c.problems {
			o.Unres("anchor not found: %s", pr)
		}
		return len(c.problems) == 0
	}

	// ---------------- D1 threshold ----------------
	isProba := core.CallTo("(*lib/mathx.Proba).TrueOnProba")
	r.Check("D1/K7/threshold-formula", "the probability handed to Proba.TrueOnProba ≡ max(0, (total − 5 − k·accepts)/(total + 1)), accepts/total being the sums of Bucket.Sum / Bucket.Count over the breaker's window", func(o *core.O) {
		if !need(o) || !o.Need(c.kField != "", "the float64 multiplier field of "+c.typ) {
			return
		}
		f := c.accept
		r.Fn(core.FuncName(f))
		a := c.thresholdAlg()
		want := core.ParsePoly("max(0, (total - 5 - k*accepts)/(total + 1))")
		draws := core.Calls(f, isProba)
		o.Site(len(draws), core.FuncName(f))
		for _, d := range draws {
			got := a.Norm(core.Args(d)[1])
			if got.Equal(want) {
				continue
			}
			// the clamp is optional when the draw is guarded by ratio > 0: accept the bare quotient
			if got.Equal(core.ParsePoly("(total - 5 - k*accepts)/(total + 1)")) {
				continue
			}
			o.Fail(p.InstrPos(d), "rejection probability is %s, expected %s", got, want)
		}
	})
	r.Check("D1/K2/reject-only-on-draw", "the admission test returns a non-nil error only on the true arm of the random draw, and that error is ErrServiceUnavailable", func(o *core.O) {
		if !need(o) {
			return
		}
		f := c.accept
		drawTrue := core.BoolVal(func(v ssa.Value) bool {
			cl, ok := v.(*ssa.Call)
			return ok && isProba(cl)
		})
		n := 0
		nonNil := func(in ssa.Instruction) bool {
			ret, ok := in.(*ssa.Return)
			return ok && len(ret.Results) == 1 && !core.IsNil(core.Result(ret, 0))
		}
		for _, ret := range core.Returns(f) {
			if len(ret.Results) != 1 {
				o.Unres("%s does not return a single error", core.FuncName(f))
				return
			}
			if nonNil(ret) {
				n++
				if !isErrUnavailable(ret.Results[0]) {
					o.Fail(p.InstrPos(ret), "the admission test rejects with %s instead of ErrServiceUnavailable", core.Describe(core.Result(ret, 0)))
				}
			}
		}
		o.Site(n, core.FuncName(f))
		if n == 0 {
			o.Fail(p.Pos(f.Pos()), "the admission test never rejects")
		}
		if w := core.Requires(f, nonNil, drawTrue); w != nil {
			o.Fail(p.InstrPos(w), "a rejection is reachable without a successful random draw against the drop ratio")
		}
		// the draw may be skipped only when the ratio is ≤ 0. What "ratio ≤ 0" is tested on is
		// decided on normal forms, not on the value handed to the draw: for ratio ≡ max(0, q)
		// the tests on the ratio and on q are the same test, and for q ≡ n/d with d provably
		// positive (d = total + 1, total a sum of bucket counts ≥ 0) so is the test on the
		// numerator n, however it is spelled (`n <= 0`, `0 >= n`, `x <= y` with x − y ≡ n, …).
		draws := core.Calls(f, isProba)
		a := c.thresholdAlg()
		var ratioLE []core.Edge
		for _, d := range draws {
			for _, form := range c.ratioSignForms(a, core.Args(d)[1]) {
				// edges on which form ≤ 0 (or < 0) is established
				_, le := core.EdgesOf(f, core.CmpPoly(a, form, true))
				ratioLE = append(ratioLE, le...)
			}
		}
		if w, ok := core.Reach(core.Q{From: []core.At{core.Entry(f)}, Target: core.IsReturn, Blocked: isProba, Cut: core.CutSet(ratioLE)}); ok {
			o.Fail(p.InstrPos(w), "the admission test can return without drawing although the drop ratio is positive (a failing dependency would never be cut off)")
		}
		// the draw itself: random < probability
		tp := p.Func("lib/mathx", "Proba", "TrueOnProba")
		if o.Need(tp != nil && len(tp.Params) == 2, "mathx.Proba.TrueOnProba") {
			r.Fn(core.FuncName(tp))
			lt := core.Cmp(token.LSS, isCallValue(core.CallTo("(*math/rand.Rand).Float64")), isValueOf(tp.Params[1]))
			for _, ret := range core.Returns(tp) {
				o.Site(1, core.FuncName(tp))
				if m, pos := lt(core.Result(ret, 0)); !m || !pos {
					o.Fail(p.InstrPos(ret), "TrueOnProba returns %s, expected rand.Float64() < proba", core.Describe(core.Result(ret, 0)))
				}
			}
		}
	})
	r.Check("D1/K6/k-and-window", "the multiplier field is written only with the constant 1.5; the window handed to the breaker is size × interval ≡ 10 s, built without options (the current bucket counts)", func(o *core.O) {
		if !need(o) || !o.Need(c.kField != "", "the float64 multiplier field of "+c.typ) {
			return
		}
		nk, nw := 0, 0
		for _, f := range p.PkgFuncs(brkPkg) {
			for _, st := range core.StoresToField(f, c.kField) {
				nk++
				r.Fn(core.FuncName(f))
				if v, ok := core.ConstFloat(st.Val); !ok || math.Abs(v-1.5) > 1e-15 {
					o.Fail(p.InstrPos(st), "%s is set to %s, expected the constant 1.5", c.kField, core.Describe(st.Val))
				}
			}
			for _, st := range core.StoresToField(f, c.stat) {
				nw++
				call, _ := core.ResultOf(core.Forward(st.Val))
				if call == nil || core.Short(core.CalleeName(call)) != rwNew {
					o.Fail(p.InstrPos(st), "%s is not built by collection.NewRollingWindow", c.stat)
					continue
				}
				args := core.Args(call)
				size, ok1 := core.ConstInt(args[0])
				iv, ok2 := core.ConstInt(args[1])
				if !ok1 || !ok2 {
					o.Fail(p.InstrPos(call), "window size/interval are not constants")
					continue
				}
				if size <= 0 || size*iv != 10_000_000_000 {
					o.Fail(p.InstrPos(call), "the breaker window covers %d × %dns = %.3fs, expected 10 s", size, iv, float64(size*iv)/1e9)
				}
				if len(args) > 2 && !core.IsNil(args[2]) {
					o.Fail(p.InstrPos(call), "the breaker window is built with options (IgnoreCurrentBucket would hide the most recent outcomes from the threshold)")
				}
			}
		}
		o.Site(nk+nw, c.kField, c.stat)
		if nk == 0 {
			o.Fail("lib/breaker", "%s is never initialised", c.kField)
		}
		if nw == 0 {
			o.Fail("lib/breaker", "%s is never initialised", c.stat)
		}
	})

	// ---------------- D2 accounting ----------------
	var reqP, fbP, accP *ssa.Parameter
	var isReq, isFb, isPred func(ssa.Instruction) bool
	var deferred []*ssa.Function // deferred closures of doReq that recover
	d2 := func(o *core.O) bool {
		if !need(o) || !o.Need(c.doReq != nil, "the accounting function (calls the admission test and its func() error parameter)") {
			return false
		}
		f := c.doReq
		r.Fn(core.FuncName(f))
		if ps := paramsOfType(f, "func() error"); len(ps) == 1 {
			reqP = ps[0]
		}
		if ps := paramsOfType(f, "func(error) error"); len(ps) == 1 {
			fbP = ps[0]
		}
		if ps := paramsOfType(f, "lib/breaker.Acceptable"); len(ps) == 1 {
			accP = ps[0]
		}
		if !o.Need(reqP != nil && fbP != nil && accP != nil, "request / fallback / acceptable parameters of "+core.FuncName(f)) {
			return false
		}
		isReq, isFb, isPred = callOfParam(reqP), callOfParam(fbP), callOfParam(accP)
		deferred = nil
		for _, a := range f.AnonFuncs {
			if len(core.Instrs(f, deferOfClosure(a))) > 0 {
				deferred = append(deferred, a)
			}
		}
		return true
	}
	acceptNil := core.ErrNil(0, c.isAccept)
	r.Check("D2/K2/request-only-when-admitted", "the protected function is called only after the admission test returned nil", func(o *core.O) {
		if !d2(o) {
			return
		}
		f := c.doReq
		reqs := core.Instrs(f, isReq)
		o.Site(len(reqs), core.FuncName(f))
		if len(reqs) == 0 {
			o.Fail(p.Pos(f.Pos()), "the protected function is never called")
		}
		if core.EdgeCount(f, acceptNil) == 0 {
			o.Fail(p.Pos(f.Pos()), "the admission result is never tested")
		}
		if w := core.Requires(f, isReq, acceptNil); w != nil {
			o.Fail(p.InstrPos(w), "the protected function is reachable although the call was rejected (or the admission result is not tested)")
		}
		for _, a := range f.AnonFuncs {
			for _, w := range core.Instrs(a, core.CallOfValue(core.IsFreeVar(reqP.Name()))) {
				o.Fail(p.InstrPos(w), "the protected function is called from a closure, outside the admission guard")
			}
		}
	})
	r.Check("D2/K1/rejected-path", "on the rejected path: no request, no recorded outcome; the fallback is called iff it is non-nil, with the admission error; the result is the fallback's result or the admission error", func(o *core.O) {
		if !d2(o) {
			return
		}
		f := c.doReq
		_, rej := core.EdgesOf(f, acceptNil)
		o.Site(len(rej), core.FuncName(f))
		if len(rej) == 0 {
			o.Fail(p.Pos(f.Pos()), "no rejected arm found")
			return
		}
		from := headsOf(rej)
		if w, ok := core.Reach(core.Q{From: from, Target: core.Or(isReq, c.isMark)}); ok {
			o.Fail(p.InstrPos(w), "on the rejected path the request runs or an outcome is recorded")
		}
		isRejErr := func(v ssa.Value) bool {
			return core.IsResult(v, 0, c.isAccept) || isErrUnavailable(v)
		}
		fbNil := core.Cmp(token.EQL, isValueOf(fbP), core.IsNil)
		fbIsNil, _ := core.EdgesOf(f, fbNil)
		fbs := core.Calls(f, isFb)
		for _, fb := range fbs {
			if !isRejErr(core.Args(fb)[0]) {
				o.Fail(p.InstrPos(fb), "the fallback receives %s instead of the admission error", core.Describe(core.Args(fb)[0]))
			}
		}
		if w := core.Requires(f, isFb, core.Not(acceptNil)); w != nil {
			o.Fail(p.InstrPos(w), "the fallback can run for an admitted call")
		}
		if w := core.Requires(f, isFb, core.Not(fbNil)); w != nil {
			o.Fail(p.InstrPos(w), "the fallback is called without the nil test")
		}
		if w, ok := core.Reach(core.Q{From: from, Target: core.IsReturn, Blocked: isFb, Cut: core.CutSet(fbIsNil)}); ok {
			o.Fail(p.InstrPos(w), "a rejected call with a fallback returns without running the fallback")
		}
		core.Reach(core.Q{From: from, Target: func(in ssa.Instruction) bool {
			if ret, ok := in.(*ssa.Return); ok && in.Block() != f.Recover {
				v := core.Result(ret, 0)
				if !isRejErr(v) && !core.IsResult(v, 0, isFb) {
					o.Fail(p.InstrPos(in), "a rejected call returns %s: neither the admission error nor the fallback's result", core.Describe(v))
				}
			}
			return false
		}})
	})
	r.Check("D2/K1/exactly-one-outcome", "from the request to every normal return exactly one outcome is recorded, and none before the request", func(o *core.O) {
		if !d2(o) {
			return
		}
		f := c.doReq
		reqs := core.Instrs(f, isReq)
		marks := core.Instrs(f, c.isMark)
		o.Site(len(marks), core.FuncName(f))
		if len(marks) == 0 {
			o.Fail(p.Pos(f.Pos()), "the accounting function records no outcome")
		}
		for _, rq := range reqs {
			if w := core.MustPass(core.After(rq), c.isMark, core.IsReturn); w != nil {
				o.Fail(p.InstrPos(w), "an admitted call returns without recording an outcome")
			}
		}
		if w := core.AtMostOnce(f, c.isMark); w != nil {
			o.Fail(p.InstrPos(w), "a path records two outcomes for one call")
		}
		if w := core.Precedes(f, isReq, c.isMark); w != nil {
			o.Fail(p.InstrPos(w), "an outcome is recorded before the protected function ran")
		}
	})
	r.Check("D2/K2/success-iff-acceptable", "success is recorded only on the true arm, failure only on the false arm, of acceptable(err) applied to the request's own error", func(o *core.O) {
		if !d2(o) {
			return
		}
		f := c.doReq
		preds := core.Calls(f, isPred)
		o.Site(len(preds), core.FuncName(f))
		if len(preds) == 0 {
			o.Fail(p.Pos(f.Pos()), "the acceptable-predicate is never consulted")
			return
		}
		for _, pc := range preds {
			if !core.IsResult(core.Args(pc)[0], 0, isReq) {
				o.Fail(p.InstrPos(pc), "the acceptable-predicate is applied to %s, not to the request's error", core.Describe(core.Args(pc)[0]))
			}
		}
		ok := core.BoolVal(func(v ssa.Value) bool {
			cl, isC := v.(*ssa.Call)
			return isC && isPred(cl)
		})
		if w := core.Requires(f, c.isSuccess, ok); w != nil {
			o.Fail(p.InstrPos(w), "success is recorded although the error was not acceptable (or without consulting the predicate)")
		}
		if w := core.Requires(f, c.isFailure, core.Not(ok)); w != nil {
			o.Fail(p.InstrPos(w), "failure is recorded although the error was acceptable (a benign outcome moves the breaker towards open)")
		}
		// one recording site whose value is chosen by the verdict (`mark(outcomeOf(acceptable(err)))`,
		// `v := 0.0; if acceptable(err) { v = 1 }; Add(v)`): each alternative of the value must be
		// chosen through an edge taken only on the matching arm of the predicate
		for _, in := range core.Instrs(f, c.isSplit) {
			if c.directMark(in) != markSplit {
				o.Fail(p.InstrPos(in), "the outcome recorded here is decided inside a helper, not by the acceptable-predicate of this call")
				continue
			}
			for _, cs := range c.markCases(in) {
				at, what := ok, "success is recorded although the error was not acceptable (or without consulting the predicate)"
				if cs.kind != markSuccess {
					at, what = core.Not(ok), "failure is recorded although the error was acceptable (a benign outcome moves the breaker towards open)"
				}
				guarded := false
				for _, e := range cs.via {
					guarded = guarded || edgeGuarded(f, e, at)
				}
				if !guarded {
					o.Fail(p.InstrPos(in), "%s", what)
				}
			}
		}
	})
	r.Check("D2/K1/panic-recorded-and-reraised", "on every path on which the protected function did not return normally – any panic, also panic(nil), for which recover() answers nil under this module's go directive, and runtime.Goexit – exactly one failure is recorded and the panic is not swallowed; when it returned normally the deferred closure records nothing: one deferred closure, registered before the request on the admitted path only, records exactly one failure on the 'not returned' arm of a completion flag (a bool local it captures by reference, written by constants only, given its 'returned' value only after the request returned and on every path from the request to a normal return) and nothing on the other arm; no deferred closure returns normally after calling recover() while the flag says 'not returned', and whatever it panics with is the recovered value [clause 'every admitted call records exactly one outcome … failure on a panic, which is re-raised to the caller': a closure that decides from recover() != nil records nothing for panic(nil) and turns it into a normal nil return; a flag set early misses the panic; a flag not set on a normal path books a second outcome]", func(o *core.O) {
		if !d2(o) {
			return
		}
		f := c.doReq
		var rec, marking []*ssa.Function
		for _, a := range deferred {
			if len(core.Instrs(a, c01IsRecoverInstr)) > 0 {
				rec = append(rec, a)
			}
			if len(core.Instrs(a, c.isMark)) > 0 {
				marking = append(marking, a)
			}
		}
		o.Site(len(marking), core.FuncName(f))
		if len(marking) != 1 {
			o.Fail(p.Pos(f.Pos()), "expected exactly one deferred closure that records the failure of a call that did not return, found %d (a panic of the protected function would not be recorded, or recorded twice)", len(marking))
			return
		}
		g := marking[0]
		r.Fn(core.FuncName(g))
		if w := core.Precedes(f, deferOfClosure(g), isReq); w != nil {
			o.Fail(p.InstrPos(w), "the protected function can run before the accounting closure is deferred")
		}
		if w := core.Requires(f, deferOfClosure(g), acceptNil); w != nil {
			o.Fail(p.InstrPos(w), "the accounting closure is deferred on the rejected path too (a panicking fallback would be recorded as a failure)")
		}
		if w := core.AtMostOnce(g, c.isMark); w != nil {
			o.Fail(p.InstrPos(w), "call that did not return: two outcomes recorded")
		}
		for _, in := range core.Instrs(g, core.Or(c.isSuccess, c.isSplit)) {
			o.Fail(p.InstrPos(in), "the deferred closure records a success")
		}
		fl := c01PickFlag(g, c01CompletionFlags(f, g, isReq))
		var returned []core.Edge
		if fl == nil {
			if len(core.Instrs(g, c01IsRecoverInstr)) > 0 {
				o.Fail(p.Pos(g.Pos()), "the deferred closure decides from recover()'s value whether the protected function panicked: recover() answers nil for panic(nil) (go directive below 1.21) and for runtime.Goexit, so such a call records no outcome and panic(nil) is turned into a normal return")
			} else {
				o.Fail(p.Pos(g.Pos()), "the deferred closure does not branch on a completion flag (a bool local captured by reference and set once the protected function returned): it cannot tell a call that returned from one that panicked")
			}
		} else {
			c01ReportFlagIssues(o, p, fl)
			var notReturned []core.Edge
			returned, notReturned = core.EdgesOf(g, fl.returned())
			if w, ok := core.Reach(core.Q{From: headsOf(notReturned), Target: core.IsExit, Blocked: c.isFailure}); ok {
				o.Fail(p.InstrPos(w), "call that did not return: a path of the deferred closure ends without recording a failure")
			}
			if w := core.Requires(g, c.isMark, core.Not(fl.returned())); w != nil {
				o.Fail(p.InstrPos(w), "the deferred closure records an outcome although the protected function returned normally (second outcome for a normal call)")
			}
			if w := core.ReachableFromEdges(returned, c.isMark, nil); w != nil {
				o.Fail(p.InstrPos(w), "the deferred closure records an outcome on the arm on which the protected function returned normally")
			}
		}
		// the panic is not swallowed
		for _, a := range rec {
			cut := returned
			if a != g {
				cut = nil
			}
			if w := c01Swallows(a, cut); w != nil {
				o.Fail(p.InstrPos(w), "the deferred closure %s returns normally after calling recover(): the panic of the protected function is swallowed (always for panic(nil), whose recovered value is nil) and the caller sees a normal return", core.FuncName(a))
			}
			c01Repanics(o, p, a)
		}
	})

	// ---------------- D3 marks, owners, promises ----------------
	r.Check("D3/K6/mark-values", "every Add on the breaker's window adds the constant 1 (success) or 0 (failure); both occur", func(o *core.O) {
		if !need(o) {
			return
		}
		ns, nf := 0, 0
		for _, f := range p.PkgFuncs(brkPkg) {
			for _, in := range core.Instrs(f, c.isStatAdd) {
				r.Fn(core.FuncName(f))
				for _, cs := range c.markCases(in) {
					switch cs.kind {
					case markSuccess:
						ns++
					case markFailure:
						nf++
					default:
						o.Fail(p.InstrPos(in), "%s adds %s to the breaker window (Sum must count successes, Count all outcomes)", core.FuncName(f), core.Describe(core.Args(core.AsCall(in))[1]))
					}
				}
			}
		}
		o.Site(ns + nf)
		if ns == 0 || nf == 0 {
			o.Fail("lib/breaker", "found %d success-adds and %d failure-adds: one kind of outcome is never recorded", ns, nf)
		}
	})
	r.Check("D3/K5/mark-owners", "outcomes are recorded only by the accounting function, its deferred closure and the promises' Accept/Reject", func(o *core.O) {
		if !need(o) {
			return
		}
		n := 0
		for _, f := range p.PkgFuncs(brkPkg) {
			if _, isHelper := c.helpers[f]; isHelper {
				continue
			}
			ms := core.Instrs(f, c.isMark)
			if len(ms) == 0 {
				continue
			}
			n += len(ms)
			r.Fn(core.FuncName(f))
			o.Site(0, core.FuncName(f))
			okOwner := f == c.doReq || (f.Parent() != nil && f.Parent() == c.doReq) ||
				(f.Parent() == nil && f.Signature.Recv() != nil && (f.Name() == "Accept" || f.Name() == "Reject"))
			if !okOwner {
				o.Fail(p.InstrPos(ms[0]), "%s records an outcome: only admitted calls (accounting function, promise) may move the window", core.FuncName(f))
			}
		}
		o.Site(n)
	})
	r.Check("D3/K9/promise-delegation", "on every promise type Accept performs exactly one success operation and no failure operation, Reject the converse", func(o *core.O) {
		if !need(o) {
			return
		}
		sp := p.Pkg(brkPkg)
		var names []string
		for n := range sp.Members {
			if _, ok := sp.Members[n].(*ssa.Type); ok {
				names = append(names, n)
			}
		}
		sort.Strings(names)
		found := 0
		for _, tn := range names {
			acc, rej := p.Func(brkPkg, tn, "Accept"), p.Func(brkPkg, tn, "Reject")
			if acc == nil || rej == nil || acc.Blocks == nil || rej.Blocks == nil {
				continue
			}
			anyCall := func(f *ssa.Function) int {
				return len(core.Instrs(f, func(in ssa.Instruction) bool { return core.AsCall(in) != nil }))
			}
			if anyCall(acc) == 0 && anyCall(rej) == 0 {
				continue // the no-op promise of the disabled breaker
			}
			found++
			isAcc := core.Or(c.isSuccess, core.CallMethod("", "Accept"))
			isRej := core.Or(c.isFailure, core.CallMethod("", "Reject"))
			mayAcc, mayRej := core.Or(isAcc, c.isSplit), core.Or(isRej, c.isSplit)
			for _, m := range []struct {
				f         *ssa.Function
				want, bad func(ssa.Instruction) bool
				w, b      string
			}{{acc, isAcc, mayRej, "success", "failure"}, {rej, isRej, mayAcc, "failure", "success"}} {
				r.Fn(core.FuncName(m.f))
				o.Site(1, core.FuncName(m.f))
				if w := core.MustPass(core.Entry(m.f), m.want, core.IsExit); w != nil {
					o.Fail(p.InstrPos(w), "%s can return without recording a %s", core.FuncName(m.f), m.w)
				}
				if w := core.AtMostOnce(m.f, m.want); w != nil {
					o.Fail(p.InstrPos(w), "%s records two outcomes", core.FuncName(m.f))
				}
				for _, in := range core.Instrs(m.f, m.bad) {
					o.Fail(p.InstrPos(in), "%s records a %s", core.FuncName(m.f), m.b)
				}
			}
		}
		if found < 2 {
			o.Fail("lib/breaker", "expected the breaker's promise and its logging wrapper, found %d promise types", found)
		}
	})

	// ---------------- D4 allow / wrappers ----------------
	r.Check("D4/K2/promise-only-when-admitted", "allow returns a promise only when the admission test returned nil, and the admission error otherwise", func(o *core.O) {
		if !need(o) {
			return
		}
		n := 0
		for _, f := range p.PkgFuncs(brkPkg) {
			if f == c.doReq || f.Parent() != nil || len(core.Instrs(f, c.isAccept)) == 0 {
				continue
			}
			if f.Signature.Results().Len() != 2 {
				continue
			}
			n++
			r.Fn(core.FuncName(f))
			o.Site(1, core.FuncName(f))
			withPromise := func(in ssa.Instruction) bool {
				ret, ok := in.(*ssa.Return)
				return ok && in.Block() != f.Recover && !core.IsNil(core.Result(ret, 0))
			}
			if len(core.Instrs(f, withPromise)) == 0 {
				o.Fail(p.Pos(f.Pos()), "%s never returns a promise", core.FuncName(f))
			}
			if w := core.Requires(f, withPromise, acceptNil); w != nil {
				o.Fail(p.InstrPos(w), "%s hands out a promise although the call was rejected", core.FuncName(f))
			}
			_, rej := core.EdgesOf(f, acceptNil)
			if len(rej) == 0 {
				o.Fail(p.Pos(f.Pos()), "%s never tests the admission result", core.FuncName(f))
			}
			core.Reach(core.Q{From: headsOf(rej), Target: func(in ssa.Instruction) bool {
				if ret, ok := in.(*ssa.Return); ok {
					if v := core.Result(ret, 1); !core.IsResult(v, 0, c.isAccept) && !isErrUnavailable(v) {
						o.Fail(p.InstrPos(in), "%s reports %s for a rejected call instead of the admission error", core.FuncName(f), core.Describe(v))
					}
				}
				return false
			}})
			// the promise marks this breaker's window
			for _, in := range core.Instrs(f, withPromise) {
				if !core.DependsOn(core.Result(in.(*ssa.Return), 0), isValueOf(f.Params[0])) {
					o.Fail(p.InstrPos(in), "the promise is not bound to the breaker that admitted the call")
				}
			}
		}
		if n == 0 {
			o.Unres("no allow-style function (calls the admission test, returns (promise, error))")
		}
	})
	isInnerDoReq := func(in ssa.Instruction) bool {
		cc := core.AsCall(in)
		return cc != nil && cc.Common().IsInvoke() && cc.Common().Method.Name() == "doReq"
	}
	passThrough := func(h *ssa.Function, idx int) bool {
		if h == nil || h.Blocks == nil || idx >= len(h.Params) {
			return false
		}
		for _, ret := range core.Returns(h) {
			if len(ret.Results) != 1 || !isValueOf(h.Params[idx])(core.Result(ret, 0)) {
				return false
			}
		}
		return true
	}
	r.Check("D4/K8/wrappers-pass-through", "the logging throttle hands request and fallback through, wraps the predicate by a closure returning the predicate's own verdict on the same error, and returns the inner result; Do/DoWith* pass their arguments (nil fallback, err==nil predicate by default)", func(o *core.O) {
		if !need(o) {
			return
		}
		n := 0
		for _, f := range p.PkgFuncs(brkPkg) {
			if f.Parent() != nil {
				continue
			}
			calls := core.Calls(f, isInnerDoReq)
			if len(calls) == 0 {
				continue
			}
			r.Fn(core.FuncName(f))
			n++
			o.Site(len(calls), core.FuncName(f))
			if len(calls) != 1 {
				o.Fail(p.Pos(f.Pos()), "%s calls the inner doReq %d times", core.FuncName(f), len(calls))
				continue
			}
			call := calls[0]
			args := core.Args(call) // recv, req, fallback, acceptable
			if len(args) != 4 {
				o.Unres("%s: unexpected doReq arity", core.FuncName(f))
				continue
			}
			reqs := paramsOfType(f, "func() error")
			fbs := paramsOfType(f, "func(error) error")
			accs := paramsOfType(f, "lib/breaker.Acceptable")
			if len(reqs) != 1 || !isValueOf(reqs[0])(args[1]) {
				o.Fail(p.InstrPos(call), "%s does not pass its request on", core.FuncName(f))
			}
			switch {
			case len(fbs) == 1:
				if !isValueOf(fbs[0])(args[2]) {
					o.Fail(p.InstrPos(call), "%s drops its fallback (a rejected call would not reach it)", core.FuncName(f))
				}
			case !core.IsNil(args[2]):
				o.Fail(p.InstrPos(call), "%s passes a fallback it was not given", core.FuncName(f))
			}
			// result: the inner result, possibly through an in-package pass-through helper
			for _, ret := range core.Returns(f) {
				v := core.Result(ret, 0)
				if core.IsResult(v, 0, core.Is(call)) {
					continue
				}
				if cl, ok := v.(*ssa.Call); ok {
					h := cl.Call.StaticCallee()
					okPass := false
					for i, a := range cl.Call.Args {
						if core.IsResult(a, 0, core.Is(call)) && passThrough(h, i) {
							okPass = true
						}
					}
					if okPass {
						continue
					}
				}
				o.Fail(p.InstrPos(ret), "%s does not return the inner doReq's result", core.FuncName(f))
			}
			// predicate
			av := core.Strip(core.Forward(core.Strip(args[3])))
			switch x := av.(type) {
			case *ssa.Parameter:
				if len(accs) != 1 || x != accs[0] {
					o.Fail(p.InstrPos(call), "%s passes a foreign predicate", core.FuncName(f))
				}
			case *ssa.Function:
				if len(accs) != 0 {
					o.Fail(p.InstrPos(call), "%s ignores the caller's acceptable-predicate", core.FuncName(f))
				}
				// default predicate ≡ err == nil
				ep := errorParam(x)
				if ep == nil || x.Blocks == nil {
					o.Fail(p.InstrPos(call), "default predicate %s is not a func(error) bool with a body", core.FuncName(x))
					break
				}
				r.Fn(core.FuncName(x))
				for _, ch := range []string{"nil", "other"} {
					e := &boolEval{fn: x, subject: isValueOf(ep), token: tokenOf, choice: ch}
					e.run()
					want := bFalse
					if ch == "nil" {
						want = bTrue
					}
					if e.aborted || !onlyOutcome(e, want) {
						o.Fail(p.Pos(x.Pos()), "default predicate %s yields %v for err=%s, expected %s", core.FuncName(x), e.outcomeList(), ch, want)
					}
				}
			case *ssa.MakeClosure:
				// a closure, or a method value of a small struct holding the captured state
				g := x.Fn.(*ssa.Function)
				if g.Synthetic != "" {
					if mo, ok := g.Object().(*types.Func); ok {
						if m := p.SSA.FuncValue(mo); m != nil && m.Blocks != nil {
							g = m
						}
					}
				}
				r.Fn(core.FuncName(g))
				if len(accs) != 1 {
					o.Fail(p.InstrPos(call), "%s wraps a predicate it was not given", core.FuncName(f))
					break
				}
				captured := false
				for _, b := range x.Bindings {
					if isValueOf(accs[0])(b) || spillOf(b, accs[0]) || core.DependsOn(b, isValueOf(accs[0])) {
						captured = true
					}
				}
				ep := errorParam(g)
				if !captured || ep == nil {
					o.Fail(p.InstrPos(call), "the wrapping predicate does not capture the caller's predicate")
					break
				}
				// the captured predicate: a dynamic call of a func(error) bool value held in the
				// captured state (free variable, or field of the bound receiver)
				isInner := core.CallOfValue(func(v ssa.Value) bool {
					if k := typeKey(v.Type().Underlying()); k != "func(error) bool" {
						return false
					}
					return core.DependsOn(v, func(x ssa.Value) bool {
						switch y := x.(type) {
						case *ssa.FreeVar:
							return true
						case *ssa.Parameter:
							return g.Signature.Recv() != nil && len(g.Params) > 0 && y == g.Params[0]
						}
						return false
					})
				})
				inner := core.Calls(g, isInner)
				if len(inner) == 0 {
					o.Fail(p.Pos(g.Pos()), "the wrapping predicate never consults the caller's predicate")
				}
				for _, ic := range inner {
					if !isValueOf(ep)(core.Args(ic)[0]) {
						o.Fail(p.InstrPos(ic), "the caller's predicate is applied to a different error")
					}
				}
				// the wrapper's verdict is the caller's predicate's verdict, for a nil and a non-nil error
				for _, ch := range []string{"nil", "other"} {
					for _, verdict := range []string{bTrue, bFalse} {
						verdict := verdict
						e := &boolEval{fn: g, subject: isValueOf(ep), token: tokenOf, choice: ch,
							assume: func(v ssa.Value) (string, bool) {
								if cl, ok := v.(*ssa.Call); ok && isInner(cl) {
									return verdict, true
								}
								return "", false
							}}
						e.run()
						if e.aborted {
							o.Unres("%s: evaluation aborted", core.FuncName(g))
							continue
						}
						if !onlyOutcome(e, verdict) {
							o.Fail(p.Pos(g.Pos()), "the wrapping predicate yields %v when the caller's predicate says %s (err=%s): not the caller's verdict", e.outcomeList(), verdict, ch)
						}
					}
				}
			default:
				o.Fail(p.InstrPos(call), "%s passes predicate %s", core.FuncName(f), core.Describe(av))
			}
		}
		if n < 2 {
			o.Fail("lib/breaker", "expected the logging throttle and the Do* methods to delegate to doReq, found %d delegating functions", n)
		}
		// Allow wrappers: the inner promise and the inner error are handed on
		isInnerAllow := func(in ssa.Instruction) bool {
			cc := core.AsCall(in)
			return cc != nil && cc.Common().IsInvoke() && cc.Common().Method.Name() == "allow"
		}
		na := 0
		for _, f := range p.PkgFuncs(brkPkg) {
			calls := core.Calls(f, isInnerAllow)
			if f.Parent() != nil || len(calls) == 0 {
				continue
			}
			na++
			r.Fn(core.FuncName(f))
			o.Site(len(calls), core.FuncName(f))
			if len(calls) != 1 || f.Signature.Results().Len() != 2 {
				o.Fail(p.Pos(f.Pos()), "%s: expected one inner allow and a (promise, error) result", core.FuncName(f))
				continue
			}
			for _, ret := range core.Returns(f) {
				pr, er := core.Result(ret, 0), core.Result(ret, 1)
				if !core.DependsOn(pr, func(v ssa.Value) bool { return core.IsResult(v, 0, core.Is(calls[0])) }) {
					o.Fail(p.InstrPos(ret), "%s does not hand the inner promise on (Accept/Reject would not reach the window)", core.FuncName(f))
				}
				okErr := core.IsResult(er, 1, core.Is(calls[0]))
				if cl, isC := er.(*ssa.Call); isC && !okErr {
					for i, a := range cl.Call.Args {
						if core.IsResult(a, 1, core.Is(calls[0])) && passThrough(cl.Call.StaticCallee(), i) {
							okErr = true
						}
					}
				}
				if !okErr {
					o.Fail(p.InstrPos(ret), "%s does not return the inner allow's error (a rejected caller would believe it was admitted)", core.FuncName(f))
				}
			}
		}
		if na < 1 {
			o.Fail("lib/breaker", "expected the logging throttle's allow to delegate to the inner allow, found %d delegating functions", na)
		}
	})
	r.Check("D4/K9/registry-delegation", "breaker.Do/DoWithAcceptable/DoWithFallback/DoWithFallbackAcceptable call the like-named method of the named breaker with their own arguments in order", func(o *core.O) {
		for _, name := range []string{"Do", "DoWithAcceptable", "DoWithFallback", "DoWithFallbackAcceptable"} {
			f := p.Func(brkPkg, "", name)
			if !o.Need(f != nil, "breaker."+name) {
				return
			}
			var calls []ssa.CallInstruction
			for _, g := range core.WithAnon(f) {
				r.Fn(core.FuncName(g))
				calls = append(calls, core.Calls(g, func(in ssa.Instruction) bool {
					cc := core.AsCall(in)
					return cc != nil && cc.Common().IsInvoke() && strings.HasSuffix(core.Short(core.CalleeName(cc)), "lib/breaker.Breaker)."+cc.Common().Method.Name()) &&
						strings.HasPrefix(cc.Common().Method.Name(), "Do")
				})...)
			}
			o.Site(len(calls), "breaker."+name)
			if len(calls) != 1 {
				o.Fail(p.Pos(f.Pos()), "breaker.%s makes %d Breaker.Do* calls, expected 1", name, len(calls))
				continue
			}
			cc := calls[0].Common()
			if cc.Method.Name() != name {
				o.Fail(p.InstrPos(calls[0]), "breaker.%s delegates to Breaker.%s (fallback/predicate semantics differ)", name, cc.Method.Name())
				continue
			}
			var want, got []string
			for _, pa := range f.Params[1:] {
				want = append(want, pa.Name())
			}
			for _, a := range cc.Args {
				d := core.Describe(core.Forward(a))
				d = strings.TrimPrefix(strings.TrimPrefix(d, "freevar:"), "param:")
				got = append(got, d)
			}
			if strings.Join(got, ",") != strings.Join(want, ",") {
				o.Fail(p.InstrPos(calls[0]), "breaker.%s passes (%s), expected (%s)", name, strings.Join(got, ","), strings.Join(want, ","))
			}
			// the breaker is the one registered under the given name: name flows into Get,
			// directly or through an in-package helper that looks its own parameter up
			isGet := core.CallTo("lib/breaker.Get")
			looksUp := func(g *ssa.Function, pa *ssa.Parameter) bool {
				for _, h := range core.WithAnon(g) {
					for _, gc := range core.Calls(h, isGet) {
						a := core.Forward(core.Args(gc)[0])
						if isValueOf(pa)(a) || core.IsFreeVar(pa.Name())(a) {
							return true
						}
					}
				}
				return false
			}
			okName := looksUp(f, f.Params[0])
			for _, g := range core.WithAnon(f) {
				for _, hc := range core.Calls(g, func(in ssa.Instruction) bool {
					cc := core.AsCall(in)
					if cc == nil {
						return false
					}
					h := cc.Common().StaticCallee()
					return h != nil && h.Pkg == p.Pkg(brkPkg) && h.Blocks != nil && h.Parent() == nil
				}) {
					h := hc.Common().StaticCallee()
					for i, a := range hc.Common().Args {
						a = core.Forward(a)
						if (isValueOf(f.Params[0])(a) || core.IsFreeVar(f.Params[0].Name())(a)) && i < len(h.Params) && looksUp(h, h.Params[i]) {
							okName = true
						}
					}
				}
			}
			if !okName {
				o.Fail(p.Pos(f.Pos()), "breaker.%s does not look the breaker up under the caller's name", name)
			}
		}
	})

	r.Check("D4/K1/registry-get-stores", "Get returns the registered breaker, or registers the one it creates under the given name before returning it (outcomes of one name accumulate in one window)", func(o *core.O) {
		f := p.Func(brkPkg, "", "Get")
		if !o.Need(f != nil && len(f.Params) == 1, "breaker.Get(name)") {
			return
		}
		r.Fn(core.FuncName(f))
		isNew := core.CallTo("lib/breaker.New")
		news := core.Calls(f, isNew)
		o.Site(len(news), core.FuncName(f))
		if len(news) == 0 {
			o.Fail(p.Pos(f.Pos()), "Get never creates a breaker")
		}
		isReg := func(nw ssa.CallInstruction) func(ssa.Instruction) bool {
			return func(in ssa.Instruction) bool {
				mu, ok := in.(*ssa.MapUpdate)
				return ok && core.IsGlobal(brkPkg, "breakers")(mu.Map) && isValueOf(f.Params[0])(mu.Key) && core.IsResult(mu.Value, 0, core.Is(nw))
			}
		}
		for _, nw := range news {
			// a created breaker that is returned was registered on the way: decided per returned value
			// and the edge it enters the result through (a breaker built before the lock is taken and
			// dropped when the name turns out to be registered is never returned)
			for _, ret := range core.Returns(f) {
				c01LeavesWithEdges(core.Result(ret, 0), func(leaf ssa.Value, edge *core.Edge) {
					if !core.IsResult(leaf, 0, core.Is(nw)) {
						return
					}
					var target ssa.Instruction = ret
					if edge != nil {
						target = gxLast(edge.From)
					}
					if _, bad := core.Reach(core.Q{From: []core.At{core.After(nw)}, Target: core.Is(target), Blocked: isReg(nw)}); bad {
						o.Fail(p.InstrPos(ret), "a breaker created by Get is returned without being registered under its name (every call would get a fresh, empty window)")
					}
				})
			}
			if !core.DependsOn(core.Args(nw)[0], isValueOf(f.Params[0])) {
				o.Fail(p.InstrPos(nw), "the created breaker is not named after the requested name")
			}
		}
		isLookup := func(v ssa.Value) bool {
			l := c01LookupOf(v) // `b, ok := m[name]` or `b := m[name]`
			return l != nil && core.IsGlobal(brkPkg, "breakers")(l.X) && isValueOf(f.Params[0])(l.Index)
		}
		for _, ret := range core.Returns(f) {
			c01LeavesWithEdges(core.Result(ret, 0), func(x ssa.Value, _ *core.Edge) {
				if !isLookup(x) && !core.IsResult(x, 0, isNew) {
					o.Fail(p.InstrPos(ret), "Get returns %s: neither the breaker registered under the name nor the one just created", core.Describe(x))
				}
			})
		}
	})

	// ---------------- D5 benign sets ----------------
	r.Check("D5/K6/grpc-codes", "codes.Acceptable(err) is false exactly for status codes {DeadlineExceeded, Internal, Unavailable, DataLoss, Unimplemented}", func(o *core.O) {
		f := p.Func("rpc/internal/codes", "", "Acceptable")
		if !o.Need(f != nil && errorParam(f) != nil, "rpc/internal/codes.Acceptable(err error)") {
			return
		}
		r.Fn(core.FuncName(f))
		ep := errorParam(f)
		isCode := func(v ssa.Value) bool {
			cl, ok := core.Forward(v).(*ssa.Call)
			return ok && core.Short(core.CalleeName(cl)) == "google.golang.org/grpc/status.Code" && isValueOf(ep)(cl.Call.Args[0])
		}
		pk := p.Pkgs[core.Mod+"/rpc/internal/codes"]
		bad := map[string]bool{}
		for _, n := range []string{"DeadlineExceeded", "Internal", "Unavailable", "DataLoss", "Unimplemented"} {
			k, ok := importedConst(pk.Types, "google.golang.org/grpc/codes", n)
			if !o.Need(ok, "grpc codes."+n) {
				return
			}
			bad[typesConstToken(k)] = true
		}
		all := []string{"OK", "Canceled", "Unknown", "InvalidArgument", "DeadlineExceeded", "NotFound", "AlreadyExists", "PermissionDenied",
			"ResourceExhausted", "FailedPrecondition", "Aborted", "OutOfRange", "Unimplemented", "Internal", "Unavailable", "DataLoss", "Unauthenticated"}
		o.Site(len(all)+1, core.FuncName(f))
		domain := map[string]bool{}
		for _, n := range all {
			if k, ok := importedConst(pk.Types, "google.golang.org/grpc/codes", n); ok {
				domain[typesConstToken(k)] = true
			}
		}
		check := func(label, tok string, want string) {
			e := &boolEval{fn: f, subject: isCode, token: tokenOf, choice: tok, domain: domain}
			e.run()
			if e.aborted || len(e.forks) > 0 {
				o.Unres("codes.Acceptable is not a finite table over status.Code(err): undecided conditions %v", e.forkList())
				return
			}
			if !onlyOutcome(e, want) {
				o.Fail(p.Pos(f.Pos()), "codes.Acceptable yields %v for code %s, expected %s", e.outcomeList(), label, want)
			}
		}
		for _, n := range all {
			k, ok := importedConst(pk.Types, "google.golang.org/grpc/codes", n)
			if !o.Need(ok, "grpc codes."+n) {
				return
			}
			tok := typesConstToken(k)
			want := bTrue
			if bad[tok] {
				want = bFalse
			}
			check(n, tok, want)
		}
		check("<any other>", "other", bTrue)
	})
	benignErrs := func(o *core.O, f *ssa.Function, members map[string]string, otherOK func(e *boolEval) string) {
		ep := errorParam(f)
		if !o.Need(ep != nil && f.Blocks != nil, core.FuncName(f)+" as func(error) bool") {
			return
		}
		r.Fn(core.FuncName(f))
		var labels []string
		for l := range members {
			labels = append(labels, l)
		}
		sort.Strings(labels)
		o.Site(len(labels)+1, core.FuncName(f))
		for _, l := range labels {
			e := &boolEval{fn: f, subject: isValueOf(ep), token: tokenOf, choice: members[l]}
			e.run()
			if e.aborted {
				o.Unres("%s: evaluation aborted", core.FuncName(f))
				return
			}
			if !onlyOutcome(e, bTrue) {
				o.Fail(p.Pos(f.Pos()), "%s yields %v for err=%s, expected true on every path (a benign outcome would count as a failure)", core.FuncName(f), e.outcomeList(), l)
			}
		}
		e := &boolEval{fn: f, subject: isValueOf(ep), token: tokenOf, choice: "other"}
		e.run()
		if e.aborted {
			o.Unres("%s: evaluation aborted", core.FuncName(f))
			return
		}
		if msg := otherOK(e); msg != "" {
			o.Fail(p.Pos(f.Pos()), "%s for an error outside the benign set: %s", core.FuncName(f), msg)
		}
	}
	r.Check("D5/K6/sql-benign-set", "commonConn.acceptable is true for {nil, sql.ErrNoRows, sql.ErrTxDone, context.Canceled} on every path and, for any other error, false or the user predicate's verdict", func(o *core.O) {
		f := p.Func("lib/store/sqlx", "commonConn", "acceptable")
		if !o.Need(f != nil, "sqlx.commonConn.acceptable") {
			return
		}
		benignErrs(o, f, map[string]string{
			"nil": "nil", "sql.ErrNoRows": "global:database/sql.ErrNoRows", "sql.ErrTxDone": "global:database/sql.ErrTxDone",
			"context.Canceled": "global:context.Canceled",
		}, func(e *boolEval) string {
			for _, oc := range e.outcomeList() {
				if oc == bFalse {
					continue
				}
				if strings.HasPrefix(oc, "sym:call(dyn:") && strings.Contains(oc, ".accept)(param:") {
					continue
				}
				return fmt.Sprintf("yields %s", oc)
			}
			for _, fk := range e.forkList() {
				if !strings.Contains(fk, ".accept") {
					return "depends on " + fk
				}
			}
			return ""
		})
	})
	var redisAcc *ssa.Function
	r.Check("D5/K9/redis-calls-pass-acceptable", "every breaker call in lib/store/redis is DoWithAcceptable/DoWithFallbackAcceptable and passes the package's one benign-error predicate", func(o *core.O) {
		count := map[*ssa.Function]int{}
		type site struct {
			in  ssa.CallInstruction
			fn  *ssa.Function
			arg ssa.Value
		}
		var sites []site
		for _, f := range p.PkgFuncs("lib/store/redis") {
			for _, cc := range core.Calls(f, func(in ssa.Instruction) bool {
				x := core.AsCall(in)
				return x != nil && x.Common().IsInvoke() && strings.HasPrefix(core.Short(core.CalleeName(x)), "(lib/breaker.Breaker).Do")
			}) {
				r.Calls++
				m := cc.Common().Method.Name()
				if m != "DoWithAcceptable" && m != "DoWithFallbackAcceptable" {
					o.Fail(p.InstrPos(cc), "%s uses Breaker.%s: redis.Nil / context.Canceled would count as failures", core.FuncName(f), m)
					continue
				}
				a := core.Strip(core.Forward(cc.Common().Args[len(cc.Common().Args)-1]))
				sites = append(sites, site{cc, f, a})
				if fn, ok := a.(*ssa.Function); ok {
					count[fn]++
				}
			}
		}
		o.Site(len(sites), fmt.Sprintf("%d breaker calls in lib/store/redis", len(sites)))
		for fn, n := range count {
			if redisAcc == nil || n > count[redisAcc] {
				redisAcc = fn
			}
		}
		if len(sites) < 90 || redisAcc == nil {
			o.Fail("lib/store/redis", "found only %d breaker-protected redis calls (expected ≥ 90)", len(sites))
			return
		}
		for _, s := range sites {
			if s.arg != ssa.Value(redisAcc) {
				o.Fail(p.InstrPos(s.in), "%s passes %s instead of %s as acceptable-predicate", core.FuncName(s.fn), core.Describe(s.arg), core.FuncName(redisAcc))
			}
		}
	})
	r.Check("D5/K6/redis-benign-set", "the redis predicate is true exactly for {nil, redis.Nil, context.Canceled}", func(o *core.O) {
		if !o.Need(redisAcc != nil, "the predicate passed by the redis wrappers") {
			return
		}
		pk := p.Pkgs[core.Mod+"/lib/store/redis"]
		nilC, ok := pk.Types.Scope().Lookup("Nil").(*types.Const)
		if !o.Need(ok, "redis.Nil constant") {
			return
		}
		benignErrs(o, redisAcc, map[string]string{"nil": "nil", "redis.Nil": typesConstToken(nilC), "context.Canceled": "global:context.Canceled"},
			func(e *boolEval) string {
				if len(e.forks) > 0 {
					return fmt.Sprintf("depends on %v", e.forkList())
				}
				if !onlyOutcome(e, bFalse) {
					return fmt.Sprintf("yields %v, expected false", e.outcomeList())
				}
				return ""
			})
	})
	r.Check("D5/K9/sqlx-calls-pass-acceptable", "every breaker call in lib/store/sqlx passes db.acceptable, or a closure that returns true whenever db.acceptable(err) does", func(o *core.O) {
		accM := p.Func("lib/store/sqlx", "commonConn", "acceptable")
		if !o.Need(accM != nil, "sqlx.commonConn.acceptable") {
			return
		}
		n := 0
		for _, f := range p.PkgFuncs("lib/store/sqlx") {
			for _, cc := range core.Calls(f, func(in ssa.Instruction) bool {
				x := core.AsCall(in)
				return x != nil && x.Common().IsInvoke() && strings.HasPrefix(core.Short(core.CalleeName(x)), "(lib/breaker.Breaker).Do")
			}) {
				n++
				r.Calls++
				r.Fn(core.FuncName(f))
				m := cc.Common().Method.Name()
				if m != "DoWithAcceptable" && m != "DoWithFallbackAcceptable" {
					o.Fail(p.InstrPos(cc), "%s uses Breaker.%s: sql.ErrNoRows / ErrTxDone / context.Canceled would count as failures", core.FuncName(f), m)
					continue
				}
				a := core.Strip(core.Forward(cc.Common().Args[len(cc.Common().Args)-1]))
				mc, ok := a.(*ssa.MakeClosure)
				if !ok {
					o.Fail(p.InstrPos(cc), "%s passes %s as acceptable-predicate", core.FuncName(f), core.Describe(a))
					continue
				}
				g := mc.Fn.(*ssa.Function)
				if g.Object() != nil && g.Object() == accM.Object() && g.Blocks != nil && g.Parent() == nil {
					continue // bound method value db.acceptable
				}
				ep := errorParam(g)
				if ep == nil || g.Blocks == nil {
					o.Fail(p.InstrPos(cc), "%s passes %s as acceptable-predicate", core.FuncName(f), core.FuncName(g))
					continue
				}
				isAccCall := func(v ssa.Value) bool {
					cl, ok := v.(*ssa.Call)
					return ok && cl.Call.StaticCallee() == accM && len(cl.Call.Args) == 2 && isValueOf(ep)(cl.Call.Args[1])
				}
				reached := false
				e := &boolEval{fn: g, subject: isValueOf(ep), token: func(ssa.Value) string { return "" }, choice: "other",
					assume: func(v ssa.Value) (string, bool) {
						if isAccCall(v) {
							reached = true
							return bTrue, true
						}
						return "", false
					}}
				e.run()
				if e.aborted {
					o.Unres("%s: evaluation aborted", core.FuncName(g))
					continue
				}
				if !reached {
					o.Fail(p.Pos(g.Pos()), "%s never consults db.acceptable on its own error", core.FuncName(g))
				}
				if !onlyOutcome(e, bTrue) {
					o.Fail(p.Pos(g.Pos()), "%s can yield %v although db.acceptable(err) is true (a benign outcome would count as a failure)", core.FuncName(g), e.outcomeList())
				}
			}
		}
		o.Site(n)
		if n < 4 {
			o.Fail("lib/store/sqlx", "found %d breaker-protected sql calls, expected ≥ 4", n)
		}
	})
	r.Check("D5/K9/grpc-interceptors-pass-codes", "every breaker call of the gRPC client/server interceptors passes codes.Acceptable", func(o *core.O) {
		acc := p.Func("rpc/internal/codes", "", "Acceptable")
		if !o.Need(acc != nil, "rpc/internal/codes.Acceptable") {
			return
		}
		n := 0
		for _, rel := range []string{"rpc/internal/clientinterceptors", "rpc/internal/serverinterceptors"} {
			for _, f := range p.PkgFuncs(rel) {
				for _, cc := range core.Calls(f, func(in ssa.Instruction) bool {
					x := core.AsCall(in)
					if x == nil {
						return false
					}
					nm := core.Short(core.CalleeName(x))
					return strings.HasPrefix(nm, "lib/breaker.Do") || strings.HasPrefix(nm, "(lib/breaker.Breaker).Do")
				}) {
					n++
					r.Calls++
					r.Fn(core.FuncName(f))
					nm := core.Short(core.CalleeName(cc))
					if !strings.HasSuffix(nm, "Acceptable") {
						o.Fail(p.InstrPos(cc), "%s uses %s: every non-nil gRPC status (NotFound, InvalidArgument …) would count as a failure", core.FuncName(f), nm)
						continue
					}
					a := core.Strip(core.Forward(cc.Common().Args[len(cc.Common().Args)-1]))
					if a != ssa.Value(acc) {
						o.Fail(p.InstrPos(cc), "%s passes %s instead of codes.Acceptable", core.FuncName(f), core.Describe(a))
					}
				}
			}
		}
		o.Site(n)
		if n < 3 {
			o.Fail("rpc/internal", "found %d breaker-protected interceptors, expected ≥ 3", n)
		}
	})
	r.Check("D5/K2/http-status-below-500", "BreakerHandler: the handler runs only after a successful Allow; the deferred closure (registered before the handler runs) calls exactly one of Accept/Reject; Accept is called only when the handler returned normally – read off a completion flag (a bool local captured by reference, written by constants only, given its 'returned' value only after ServeHTTP returned and on every path from it to a normal return), not off the recorded status, which is 0 for a handler that panicked before writing – and the recorded status is < 500; Reject only when the handler did not return or the status is ≥ 500; the closure does not return normally after calling recover() while the flag says 'not returned' [clauses 'failure on an unacceptable error or on a panic' for the Allow+Accept/Reject integration and 'HTTP status below 500 never moves a breaker towards open': a panicking route booked as success is never cut off]", func(o *core.O) {
		f := p.Func("api/handler", "", "BreakerHandler")
		if !o.Need(f != nil, "api/handler.BreakerHandler") {
			return
		}
		isAllow := core.CallMethod("lib/breaker.Breaker", "Allow")
		isServe := core.CallMethod("net/http.Handler", "ServeHTTP")
		isAccept := core.CallMethod("lib/breaker.Promise", "Accept")
		isReject := core.CallMethod("lib/breaker.Promise", "Reject")
		var h, d *ssa.Function
		for _, g := range core.WithAnon(f) {
			if len(core.Instrs(g, isAllow)) > 0 {
				h = g
			}
			if len(core.Instrs(g, core.Or(isAccept, isReject))) > 0 {
				if d != nil {
					o.Fail(p.Pos(g.Pos()), "more than one function reports to the promise")
				}
				d = g
			}
		}
		if !o.Need(h != nil && d != nil, "the handler closure calling Allow and the closure reporting to the promise") {
			return
		}
		r.Fn(core.FuncName(h), core.FuncName(d))
		o.Site(2, core.FuncName(h), core.FuncName(d))
		allowOK := core.ErrNil(1, isAllow)
		if len(core.Instrs(h, isServe)) == 0 {
			o.Fail(p.Pos(h.Pos()), "the next handler is never called")
		}
		if w := core.Requires(h, isServe, allowOK); w != nil {
			o.Fail(p.InstrPos(w), "the next handler runs although the breaker rejected the request")
		}
		if d.Parent() != h || len(core.Instrs(h, deferOfClosure(d))) == 0 {
			o.Fail(p.Pos(d.Pos()), "the reporting closure is not deferred by the handler (a panicking handler would leave the promise unreported)")
			return
		}
		if w := core.Precedes(h, deferOfClosure(d), isServe); w != nil {
			o.Fail(p.InstrPos(w), "the next handler can run before the reporting closure is deferred")
		}
		if w := core.Requires(h, deferOfClosure(d), allowOK); w != nil {
			o.Fail(p.InstrPos(w), "the reporting closure is deferred on the rejected path (nil promise)")
		}
		rep := core.Or(isAccept, isReject)
		if w := core.MustPass(core.Entry(d), rep, core.IsExit); w != nil {
			o.Fail(p.InstrPos(w), "a path through the reporting closure reports nothing")
		}
		if w := core.AtMostOnce(d, rep); w != nil {
			o.Fail(p.InstrPos(w), "a path reports twice")
		}
		below := thresholdAtom(core.FieldLoad("WithCodeResponseWriter.Code"), 500)
		if core.EdgeCount(d, below) == 0 {
			o.Fail(p.Pos(d.Pos()), "the status code is never compared with 500 (cut between 499 and 500)")
		}
		if w := core.Requires(d, isAccept, below); w != nil {
			o.Fail(p.InstrPos(w), "Accept is reachable for a status ≥ 500")
		}
		fl := c01PickFlag(d, c01CompletionFlags(h, d, isServe))
		if fl == nil {
			o.Fail(p.Pos(d.Pos()), "the reporting closure does not branch on a completion flag (a bool local captured by reference and set once the next handler returned): a handler that panics before writing a status leaves code 0, which is below 500, and the panic is booked as a success")
			if w := core.Requires(d, isReject, core.Not(below)); w != nil {
				o.Fail(p.InstrPos(w), "Reject is reachable for a status < 500 (a benign response moves the breaker towards open)")
			}
		} else {
			c01ReportFlagIssues(o, p, fl)
			ret := fl.returned()
			if w := core.Requires(d, isAccept, ret); w != nil {
				o.Fail(p.InstrPos(w), "Accept is reachable although the next handler did not return normally (a panic is booked as a success)")
			}
			if w := core.Requires(d, isReject, core.Not(ret), core.Not(below)); w != nil {
				o.Fail(p.InstrPos(w), "Reject is reachable for a handler that returned with a status < 500 (a benign response moves the breaker towards open)")
			}
			returned, _ := core.EdgesOf(d, ret)
			if w := c01Swallows(d, returned); w != nil {
				o.Fail(p.InstrPos(w), "the reporting closure returns normally after calling recover(): the handler's panic is swallowed")
			}
			c01Repanics(o, p, d)
		}
		// the code compared is the one the wrapped writer recorded for this request
		wh := p.Func("api/internal/response", "WithCodeResponseWriter", "WriteHeader")
		if o.Need(wh != nil, "response.WithCodeResponseWriter.WriteHeader") {
			// the stores of WriteHeader and of the function literals it creates (a deferred closure may do
			// the recording); the value recorded is the status parameter as any of them sees it – the
			// parameter, the cell it is spilled to when a literal captures it, a literal's own parameter
			// bound to it at the one place the literal is called (c01ValueOfParam)
			var sts []*ssa.Store
			for _, g := range c01ClosureFamily(wh) {
				sts = append(sts, core.StoresToField(g, "WithCodeResponseWriter.Code")...)
			}
			if len(sts) == 0 {
				o.Fail(p.Pos(wh.Pos()), "WriteHeader does not record the status code")
			}
			for _, st := range sts {
				if len(wh.Params) < 2 || !c01ValueOfParam(wh, wh.Params[1])(st.Val) {
					o.Fail(p.InstrPos(st), "WriteHeader records %s, not the status it was given", core.Describe(st.Val))
				}
			}
		}
		for _, sv := range core.Calls(h, isServe) {
			if !core.DependsOn(core.Args(sv)[1], func(v ssa.Value) bool {
				al, ok := v.(*ssa.Alloc)
				return ok && strings.HasSuffix(al.Type().String(), "response.WithCodeResponseWriter")
			}) {
				o.Fail(p.InstrPos(sv), "the next handler does not write through the status-recording writer")
			}
		}
	})

	// ---------------- D6 locks ----------------
	r.Check("D6/K4/registry-and-error-window-guarded", "the breakers map is read under lock (R or W) and written under the write lock; errorWindow.{reasons,index,count} only under its lock; Proba.r only under its lock", func(o *core.O) {
		la := core.NewLockAnalysis(p, brkPkg)
		acc := la.CheckGuards([]core.Guard{
			{Type: "errorWindow", Field: "reasons", Lock: "lock"},
			{Type: "errorWindow", Field: "index", Lock: "lock"},
			{Type: "errorWindow", Field: "count", Lock: "lock"},
		}, []core.GlobalGuard{{Pkg: brkPkg, Var: "breakers", Lock: "lock"}}, nil)
		core.ReportAccesses(o, p, acc)
		for f, m := range la.Imbalance {
			o.Fail(p.Pos(f.Pos()), "%s: %s", core.FuncName(f), m)
		}
		lm := core.NewLockAnalysis(p, "lib/mathx")
		acc2 := lm.CheckGuards([]core.Guard{{Type: "Proba", Field: "r", Lock: "lock"}}, nil, nil)
		core.ReportAccesses(o, p, acc2)
		for f, m := range lm.Imbalance {
			if strings.Contains(core.FuncName(f), "Proba") {
				o.Fail(p.Pos(f.Pos()), "%s: %s", core.FuncName(f), m)
			}
		}
	})

	c01Extra(r)
}

// spillOf reports whether al is the local slot into which parameter p was spilled.
func spillOf(v ssa.Value, p *ssa.Parameter) bool {
	al, ok := v.(*ssa.Alloc)
	if !ok {
		return false
	}
	n := 0
	isP := false
	for _, ref := range *al.Referrers() {
		if st, ok := ref.(*ssa.Store); ok && st.Addr == al {
			n++
			isP = st.Val == ssa.Value(p)
		}
	}
	return n == 1 && isP
}

func isZero(v ssa.Value) bool {
	f, ok := core.ConstFloat(v)
	return ok && f == 0
}

func flipCmp(op token.Token) token.Token {
	switch op {
	case token.LSS:
		return token.GTR
	case token.GTR:
		return token.LSS
	case token.LEQ:
		return token.GEQ
	case token.GEQ:
		return token.LEQ
	}
	return op
}
