package props

import (
	"godcheck/core"

	"golang.org/x/tools/go/ssa"
)

// c10Extra: rules added after the fourth independent seeding round.
func c10Extra(r *core.Run) {
	p := r.P
	const pkg = "lib/collection"
	// the user's callback is the function value kept in TimingWheel.execute
	isExecute := core.CallOfValue(func(v ssa.Value) bool { return core.IsFieldLoad(core.Forward(v), "TimingWheel.execute") })
	isTimersDel := func(in ssa.Instruction) bool {
		c := core.AsCall(in)
		return c != nil && core.CallMethod("collection.SafeMap", "Del")(in) && core.IsFieldLoad(core.Forward(core.Args(c)[0]), "TimingWheel.timers")
	}

	r.Check("D3/K2/tombstone-keeps-index", "discarding a tombstone does not touch the timers index: in a function that branches on timingEntry.removed, no timers.Del is reachable from the removed arm (a move-earlier leaves the key's index entry pointing at the new, live entry: deleting it makes the live task unreachable for Remove/Move and lets Set add a second one)", func(o *core.O) {
		n := 0
		for _, f := range c10Funcs(p, pkg) {
			removed := core.BoolVal(core.FieldLoad("timingEntry.removed"))
			edges, _ := core.EdgesOf(f, removed)
			dels := core.Instrs(f, isTimersDel)
			if len(edges) == 0 || len(dels) == 0 {
				continue
			}
			n++
			r.Fn(core.FuncName(f))
			// the removed arm ends where the next entry is examined: stop at the next test of `removed`
			isTest := func(in ssa.Instruction) bool {
				iff, ok := in.(*ssa.If)
				if !ok {
					return false
				}
				m, _ := removed(iff.Cond)
				return m
			}
			if w := core.ReachableFromEdges(edges, isTimersDel, isTest); w != nil {
				o.Fail(p.InstrPos(w), "%s deletes the key's index entry while discarding a tombstone: a task moved earlier (old entry tombstoned, index pointing at the new one) loses its index entry – it can no longer be removed or moved, and a later SetTimer adds a second entry", core.FuncName(f))
			}
		}
		o.Site(n, pkg)
	})

	r.Check("D5/K7/immediate-arm-strict", "a pending task is executed at once (instead of being re-scheduled) only for a delay strictly below one interval: the call site that runs execute right away is reachable only through interval − delay > 0 (a move by exactly one interval fires one tick later)", func(o *core.O) {
		alg := &core.Alg{Name: func(v ssa.Value) string {
			switch core.FieldAddrNameOfLoad(core.Strip(core.Forward(v))) {
			case "baseEntry.delay":
				return "d"
			case "TimingWheel.interval":
				return "I"
			}
			return ""
		}}
		strict := core.CmpPoly(alg, core.ParsePoly("I - d"), false)
		n := 0
		for _, f := range c10Funcs(p, pkg) {
			if f.Parent() != nil {
				continue
			}
			for _, c := range core.Calls(f, core.CallTo("lib/threading.GoSafe")) {
				body, _ := gxClosureOf(core.Args(c)[0])
				if body == nil || len(core.Instrs(body, isExecute)) == 0 {
					continue
				}
				// only the arm that depends on the requested delay (the re-scheduling operations)
				if core.EdgeCount(f, core.CmpPoly(alg, core.ParsePoly("I - d"), true)) == 0 {
					continue
				}
				n++
				r.Fn(core.FuncName(f))
				if w := core.Requires(f, core.Is(c), strict); w != nil {
					o.Fail(p.InstrPos(c), "%s executes the task immediately although its new delay may be a full interval (delay ≤ interval instead of delay < interval): it fires at the call instead of one tick later, and again at its old slot", core.FuncName(f))
				}
			}
		}
		o.Site(n, pkg)
	})

	r.Check("D3/K10/per-task-panic-isolation", "each due task is executed in its own recover scope: every call of TimingWheel.execute sits in a function literal handed to threading.RunSafe/GoSafe and is not inside a loop of that literal (a panicking callback must not swallow the other tasks of the tick, which were already unlinked and un-indexed)", func(o *core.O) {
		// the literals handed to RunSafe/GoSafe
		safe := map[*ssa.Function]bool{}
		for _, f := range c10Funcs(p, pkg) {
			for _, c := range core.Calls(f, core.CallTo("lib/threading.RunSafe", "lib/threading.GoSafe")) {
				if body, _ := gxClosureOf(core.Args(c)[0]); body != nil {
					safe[body] = true
				}
			}
		}
		n := 0
		for _, f := range c10Funcs(p, pkg) {
			for _, in := range core.Instrs(f, isExecute) {
				if _, plain := in.(*ssa.Call); !plain {
					continue
				}
				n++
				r.Fn(core.FuncName(f))
				if !safe[f] {
					o.Fail(p.InstrPos(in), "%s calls the user's callback outside a RunSafe/GoSafe literal: a panicking callback kills the goroutine", core.FuncName(f))
					continue
				}
				if _, loops := core.Reach(core.Q{From: []core.At{core.After(in)}, Target: core.Is(in)}); loops {
					o.Fail(p.InstrPos(in), "%s runs several tasks inside one recover scope: when one callback panics the remaining tasks of the tick never fire (they were already removed from their slot and from the index)", core.FuncName(f))
				}
			}
		}
		o.Site(n, pkg)
	})

	// detection round 8: the runner the drain handler uses gives its slot back also when the drain function panics
	c10Round8(r)
	c10Round9(r, pkg)
	// detection round 9: a move resets the whole pending schedule; the replacement inherits nothing; the due batch is private to its tick
	c10Round10(r, pkg)
	// detection round 10: a replaced index map keeps its entries
	c10Round11(r, pkg)
}
