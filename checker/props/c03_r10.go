package props

import (
	"go/token"
	"go/types"
	"strconv"
	"strings"

	"godcheck/core"

	"golang.org/x/tools/go/ssa"
)

// Rules added after the ninth detection round (missed change C03-vm3).
//
// The registered (method, pattern) set is the one the caller declared at each
// AddRoutes/AddRoute call.  A route table ([]Route) that package api did not
// allocate itself shares its backing array with the caller's slice (and with the
// groups queued by earlier AddRoutes calls of the same table), so rewriting an
// element in place changes what another registration of that table declares.

// c03IsRouteSlice: []api.Route (or *[N]api.Route, the backing array of a literal).
func c03IsRouteSlice(t types.Type) bool {
	isRoute := func(e types.Type) bool {
		n, ok := e.(*types.Named)
		return ok && n.Obj().Name() == "Route" && n.Obj().Pkg() != nil && n.Obj().Pkg().Path() == core.Mod+"/api"
	}
	switch u := t.Underlying().(type) {
	case *types.Slice:
		return isRoute(u.Elem())
	case *types.Pointer:
		if a, ok := u.Elem().Underlying().(*types.Array); ok {
			return isRoute(a.Elem())
		}
	}
	return false
}

// c03Fresh decides whether a route table is backed by storage that package api
// allocated itself on the way to this value (so that nobody else holds it yet).
type c03Fresh struct {
	p      *core.Prog
	funcs  []*ssa.Function
	field  map[string]int // "struct type#index" -> 0 unknown, 1 in progress/fresh, 2 not fresh
	fnMemo map[*ssa.Function]int
}

func newC03Fresh(p *core.Prog) *c03Fresh {
	return &c03Fresh{p: p, funcs: b2PkgFuncs(p, "api"), field: map[string]int{}, fnMemo: map[*ssa.Function]int{}}
}

func c03FieldKey(structPtrOrVal types.Type, idx int) string {
	t := structPtrOrVal
	if pt, ok := t.Underlying().(*types.Pointer); ok {
		t = pt.Elem()
	}
	return t.String() + "#" + strconv.Itoa(idx)
}

// fieldFresh: every store into this struct field anywhere in package api stores a fresh
// table (the field then never aliases a caller's slice); coinductive over the field itself.
func (c *c03Fresh) fieldFresh(key string) bool {
	switch c.field[key] {
	case 1:
		return true
	case 2:
		return false
	}
	c.field[key] = 1
	ok := true
	for _, f := range c.funcs {
		for _, b := range f.Blocks {
			for _, in := range b.Instrs {
				st, isSt := in.(*ssa.Store)
				if !isSt {
					continue
				}
				fa, isFA := st.Addr.(*ssa.FieldAddr)
				if !isFA || c03FieldKey(fa.X.Type(), fa.Field) != key {
					continue
				}
				if !c.fresh(st.Val, map[ssa.Value]bool{}, 0) {
					ok = false
				}
			}
		}
	}
	if !ok {
		c.field[key] = 2
	}
	return ok
}

func (c *c03Fresh) fresh(v ssa.Value, seen map[ssa.Value]bool, depth int) bool {
	if v == nil || depth > 12 {
		return false
	}
	if seen[v] {
		return true
	}
	seen[v] = true
	switch x := v.(type) {
	case *ssa.MakeSlice:
		return true
	case *ssa.Alloc:
		_, isArr := x.Type().Underlying().(*types.Pointer).Elem().Underlying().(*types.Array)
		return isArr
	case *ssa.Const:
		return x.IsNil()
	case *ssa.Slice:
		return c.fresh(x.X, seen, depth+1)
	case *ssa.ChangeType:
		return c.fresh(x.X, seen, depth+1)
	case *ssa.Phi:
		for _, e := range x.Edges {
			if !c.fresh(e, seen, depth+1) {
				return false
			}
		}
		return true
	case *ssa.Field:
		return c.fieldFresh(c03FieldKey(x.X.Type(), x.Field))
	case *ssa.UnOp:
		if x.Op != token.MUL {
			return false
		}
		if fa, ok := x.X.(*ssa.FieldAddr); ok {
			return c.fieldFresh(c03FieldKey(fa.X.Type(), fa.Field))
		}
		if w := core.Forward(x); w != v {
			return c.fresh(w, seen, depth+1)
		}
		return false
	case *ssa.Call:
		name := core.CalleeName(x)
		switch {
		case name == "builtin:append":
			return len(x.Call.Args) > 0 && c.fresh(x.Call.Args[0], seen, depth+1)
		case strings.HasSuffix(name, "slices.Clone"):
			return true
		}
		if g := x.Call.StaticCallee(); g != nil && g.Blocks != nil && b2CalleeIn(x, "api") {
			return c.returnsFresh(g, depth+1)
		}
		return false
	}
	return false
}

// returnsFresh: every slice-of-Route result of g is fresh on every return.
func (c *c03Fresh) returnsFresh(g *ssa.Function, depth int) bool {
	switch c.fnMemo[g] {
	case 1:
		return true
	case 2:
		return false
	}
	c.fnMemo[g] = 1
	ok := true
	for _, ret := range core.Returns(g) {
		for i := range ret.Results {
			rv := core.Result(ret, i)
			if rv == nil || !c03IsRouteSlice(rv.Type()) {
				continue
			}
			if !c.fresh(rv, map[ssa.Value]bool{}, depth+1) {
				ok = false
			}
		}
	}
	if !ok {
		c.fnMemo[g] = 2
	}
	return ok
}

// c03ElemBase: the table whose element the address points into (&t[i], &t[i].f, ...).
func c03ElemBase(addr ssa.Value) ssa.Value {
	for i := 0; i < 6; i++ {
		switch a := addr.(type) {
		case *ssa.FieldAddr:
			addr = a.X
		case *ssa.IndexAddr:
			if c03IsRouteSlice(a.X.Type()) {
				return a.X
			}
			return nil
		default:
			return nil
		}
	}
	return nil
}

// c03TruncatedForeign: the value is (or, through φ/append, grows out of) a re-slice
// t[:k] of a table that is not fresh — appending to it overwrites t's elements.
func (c *c03Fresh) truncatedForeign(v ssa.Value, seen map[ssa.Value]bool) *ssa.Slice {
	if v == nil || seen[v] {
		return nil
	}
	seen[v] = true
	switch x := v.(type) {
	case *ssa.Slice:
		if x.High == nil || (x.Max != nil && x.Max == x.High) {
			return nil
		}
		if !c.fresh(x.X, map[ssa.Value]bool{}, 0) {
			return x
		}
	case *ssa.Phi:
		for _, e := range x.Edges {
			if s := c.truncatedForeign(e, seen); s != nil {
				return s
			}
		}
	case *ssa.Call:
		if core.CalleeName(x) == "builtin:append" && len(x.Call.Args) > 0 {
			return c.truncatedForeign(x.Call.Args[0], seen)
		}
	case *ssa.UnOp:
		if w := core.Forward(x); w != v {
			return c.truncatedForeign(w, seen)
		}
	}
	return nil
}

func c03R10(r *core.Run) {
	p := r.P
	r.Explanation += " Package api overwrites no element of a []Route it did not allocate itself (element store, copy into it, append to a truncating re-slice of it): the table declared at one AddRoutes call is what every registration of it binds."
	r.NotDecided += " Route tables: writes through a *Route handed to a helper that existed in the pinned tree, or through unsafe/reflect, are not followed; an in-place rewrite that is idempotent (e.g. cleaning a path) is reported although a second registration would bind the same patterns."
	r.Check("D6/K2/declared-route-table-not-rewritten", "the (method, pattern) set handed to the router is the one declared at each registration: package api never overwrites an element of a route table ([]Route) it did not allocate itself — neither by an element store, nor by copy into it, nor by appending to a re-slice t[:k] of it — because such a table (the AddRoutes argument kept in featuredRoutes.routes) shares its backing array with the caller's table and with the groups other registrations of the same table queued; a route option that changes paths builds a new table [first sentence of the property: otherwise a second AddRoutes of the same table, e.g. under another WithPrefix, registers patterns nobody declared, the declared ones are never routable and non-duplicates are rejected as duplicates]", func(o *core.O) {
		add := p.Func("api", "Server", "AddRoutes")
		if !o.Need(add != nil, "(*api.Server).AddRoutes") {
			return
		}
		takesTable := false
		for _, prm := range add.Params {
			if c03IsRouteSlice(prm.Type()) {
				takesTable = true
			}
		}
		if !o.Need(takesTable, "a []Route parameter of (*api.Server).AddRoutes") {
			return
		}
		r.Fn(core.FuncName(add))
		fr := newC03Fresh(p)
		n := 1
		for _, f := range fr.funcs {
			for _, b := range f.Blocks {
				for _, in := range b.Instrs {
					switch x := in.(type) {
					case *ssa.Store:
						base := c03ElemBase(x.Addr)
						if base == nil {
							continue
						}
						n++
						r.Fn(core.FuncName(f))
						if !fr.fresh(base, map[ssa.Value]bool{}, 0) {
							o.Fail(p.InstrPos(x), "%s overwrites an element of the route table %s, which it did not allocate (it is the caller's []Route, shared with every other registration of that table): registering the same table again — e.g. AddRoutes(rs, WithPrefix(\"/v1\")); AddRoutes(rs, WithPrefix(\"/v2\")) — binds patterns nobody declared, the declared ones are unroutable and bindRoutes reports a duplicate that is none", core.FuncName(f), core.Describe(base))
						}
					case *ssa.Call:
						switch core.CalleeName(x) {
						case "builtin:copy":
							if len(x.Call.Args) != 2 || !c03IsRouteSlice(x.Call.Args[0].Type()) {
								continue
							}
							n++
							r.Fn(core.FuncName(f))
							if !fr.fresh(x.Call.Args[0], map[ssa.Value]bool{}, 0) {
								o.Fail(p.InstrPos(x), "%s copies into the route table %s, which it did not allocate (the caller's []Route is rewritten; another registration of that table binds other patterns than declared)", core.FuncName(f), core.Describe(x.Call.Args[0]))
							}
						case "builtin:append":
							if len(x.Call.Args) == 0 || !c03IsRouteSlice(x.Call.Args[0].Type()) {
								continue
							}
							n++
							r.Fn(core.FuncName(f))
							if s := fr.truncatedForeign(x.Call.Args[0], map[ssa.Value]bool{}); s != nil {
								o.Fail(p.InstrPos(x), "%s appends to a re-slice %s of a route table it did not allocate: the appended routes overwrite the caller's elements in place (another registration of that table binds other patterns than declared)", core.FuncName(f), core.Describe(s))
							}
						}
					}
				}
			}
		}
		o.Site(n, "api")
	})
}
