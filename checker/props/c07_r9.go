package props

import (
	"go/types"

	"godcheck/core"

	"golang.org/x/tools/go/ssa"
)

// c07Consumer is one place where a goroutine of lib/mr hands a receive-only
// channel to a caller-supplied callback (role of the reducer goroutine).
type c07Consumer struct {
	body *ssa.Function   // the goroutine's function
	site ssa.Instruction // the call of the callback
	id   string          // the channel handed over (the collector)
}

// c07Consumers enumerates the consumer goroutines by role (the anchor of
// D4/K1/consumer-goroutine-drains-and-finishes).
func c07Consumers(m *mrCtx) []c07Consumer {
	var out []c07Consumer
	seen := map[ssa.Instruction]bool{}
	for _, g := range m.goStmts() {
		b := goBody(g)
		if b == nil {
			continue
		}
		for _, s := range m.k.userSites(b) {
			if seen[s] {
				continue
			}
			c := core.AsCall(s).Common()
			if g := calleeFn(core.AsCall(s)); g != nil && g.Parent() == nil {
				continue
			}
			sig, ok := c.Value.Type().Underlying().(*types.Signature)
			if !ok {
				continue
			}
			for i, a := range c.Args {
				if i >= sig.Params().Len() {
					break
				}
				ch, ok := sig.Params().At(i).Type().Underlying().(*types.Chan)
				if !ok || ch.Dir() != types.RecvOnly {
					continue
				}
				if id := chanID(a); id != "" {
					seen[s] = true
					out = append(out, c07Consumer{b, s, id})
				}
			}
		}
	}
	return out
}

// c07Events classifies the instructions of the consumer's cleanup code:
// drain events (the channel is received from until it is closed) and finish
// events (the once-only close of done/output). An in-package helper called
// from the cleanup is looked into one level: it is a drain event when it drains
// the channel on every path, and a finish event when it contains a finish that
// is not preceded, inside the helper, by a drain of the channel.
type c07Events struct {
	m  *mrCtx
	id string
}

// helper: the in-package function with a body that a plain call runs (not the drain helper itself).
func (e c07Events) helper(in ssa.Instruction) *ssa.Function {
	c, ok := in.(*ssa.Call)
	if !ok {
		return nil
	}
	h := calleeFn(c)
	if h == nil || !e.m.k.in[h] || len(h.Blocks) == 0 || e.m.drainFns[h] || h == in.Parent() {
		return nil
	}
	return h
}

func (e c07Events) drain(in ssa.Instruction) bool {
	if e.m.isDrainOf(e.id)(in) {
		return true
	}
	if h := e.helper(in); h != nil {
		d := e.m.isDrainOf(e.id)
		return len(core.Instrs(h, d)) > 0 && core.MustPass(core.Entry(h), d, core.IsExit) == nil
	}
	return false
}

// finish: the once-only close in place, or a call of a function that finishes without having
// drained the channel itself (the finish function proper, or a helper around it; a function
// "that runs sync.Once.Do on a closing closure" may, after inlining, be the whole cleanup).
func (e c07Events) finish(in ssa.Instruction) bool {
	c, ok := in.(*ssa.Call)
	if !ok {
		return false
	}
	if e.m.isFinishDo(c) {
		return true
	}
	h := e.helper(in)
	if h == nil {
		return e.m.isFinishCall(in)
	}
	if len(core.Instrs(h, e.m.isFinishCall)) == 0 {
		return false
	}
	return core.Precedes(h, e.m.isDrainOf(e.id), e.m.isFinishCall) != nil
}

// drainedBefore: no path from fn's entry reaches f without a drain event.
func (e c07Events) drainedBefore(fn *ssa.Function, f ssa.Instruction) bool {
	blocked := func(in ssa.Instruction) bool { return in != f && e.drain(in) }
	_, reached := core.Reach(core.Q{From: []core.At{core.Entry(fn)}, Target: core.Is(f), Blocked: blocked})
	return !reached
}

// c07R9: rules added after the ninth detection round (missed change C07-vm3).
func c07R9(r *core.Run) {
	p := r.P
	m := newMrCtx(r)
	if len(m.funcs) == 0 {
		return
	}

	r.Check("D4/K3/consumer-drains-before-finishing", "the goroutine that hands the collector to the reducer never finishes (closes done/output) before it has drained the collector, on any path of its cleanup incl. the recover()!=nil arm: every finish in its deferred closure(s) or after the callback is preceded by a drain of that channel [clauses \"without cancellation every generated item is passed to the mapper exactly once\" and \"no goroutine started by the call is left running\": the collector is closed only when every mapper has ended, so draining it is what makes the reducer wait for the mappers; closing done earlier - the reducer returned early or panicked, which is no cancellation - makes the dispatcher stop taking items, the rest of the source is thrown away unmapped and the caller returns/re-panics while mappers are still running]", func(o *core.O) {
		cons := c07Consumers(m)
		if len(cons) == 0 {
			o.Unres("no goroutine handing a receive-only channel to a callback found (reducer)")
			return
		}
		for _, cn := range cons {
			b, s, ev := cn.body, cn.site, c07Events{m, cn.id}
			var defers []*ssa.Defer
			for _, in := range core.Instrs(b, func(in ssa.Instruction) bool { _, k := in.(*ssa.Defer); return k }) {
				defers = append(defers, in.(*ssa.Defer))
			}
			// a defer of b that drains the channel on every path of its function
			mustDrain := func(d *ssa.Defer) bool {
				g := calleeFn(d)
				if g == nil {
					return false
				}
				if m.drainFns[g] {
					return len(d.Call.Args) == 1 && chanMatches(m, d.Call.Args[0], cn.id)
				}
				if !m.k.in[g] || len(g.Blocks) == 0 {
					return false
				}
				return len(core.Instrs(g, ev.drain)) > 0 && core.MustPass(core.Entry(g), ev.drain, core.IsExit) == nil
			}
			// deferred calls run last-registered first: the finish of defer d is preceded by a drain
			// when a draining defer is registered after d on every path (before the callback can
			// panic and before any exit), and d is never registered after it
			drainedByLaterDefer := func(d *ssa.Defer) bool {
				for _, d2 := range defers {
					if d2 == d || !mustDrain(d2) {
						continue
					}
					if _, again := core.Reach(core.Q{From: []core.At{core.After(d2)}, Target: core.Is(d)}); again {
						continue
					}
					if core.MustPass(core.After(d), core.Is(d2), core.Or(core.IsExit, core.Is(s))) == nil {
						return true
					}
				}
				return false
			}
			nFinish := 0
			bad := func(at ssa.Instruction, where string) {
				o.Fail(p.InstrPos(at), "%s finishes (closes done/output) %s before %s is drained: when the reducer returns early or panics while mappers are still running, the dispatcher sees done closed and stops taking items - the remaining items are drained unmapped - and the caller gets its result / the re-raised panic while goroutines started by the call are still running", core.FuncName(b), where, cn.id)
			}
			for _, d := range defers {
				g := calleeFn(d)
				switch {
				case g != nil && m.k.in[g] && len(g.Blocks) > 0 && !m.drainFns[g]:
					// the deferred function's body (a deferred finish function is the case of one finish and no drain)
					for _, f := range core.Instrs(g, ev.finish) {
						nFinish++
						if !ev.drainedBefore(g, f) && !drainedByLaterDefer(d) {
							bad(f, "on a path of its deferred cleanup")
						}
					}
				case m.isFinishDo(d) || (g != nil && m.finishFns[g]):
					nFinish++
					if !drainedByLaterDefer(d) {
						bad(d, "in a deferred call")
					}
				}
			}
			for _, f := range core.Instrs(b, ev.finish) {
				nFinish++
				if !ev.drainedBefore(b, f) {
					bad(f, "in its body")
				}
			}
			if nFinish == 0 {
				o.Unres("%s: no finish (sync.Once.Do closing channels) found in the cleanup of the goroutine that runs the reducer", core.FuncName(b))
				continue
			}
			o.Site(nFinish, core.FuncName(b))
		}
	})
}
