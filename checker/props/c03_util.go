package props

// Helpers shared by the C03 (routing) and C04 (authentication gates) rule
// tables. All names carry the b2 prefix to stay clear of other tables.

import (
	"fmt"
	"go/constant"
	"go/token"
	"go/types"
	"sort"
	"strings"

	"godcheck/core"

	"golang.org/x/tools/go/ssa"
)

// b2IsValue matches exactly the SSA value want (after looking through spill slots and wrappers).
func b2IsValue(want ssa.Value) func(ssa.Value) bool {
	return func(v ssa.Value) bool {
		if v == want {
			return true
		}
		return core.Strip(core.Forward(core.Strip(v))) == want
	}
}

// b2Param matches the i-th parameter (receiver = 0 for methods) of fn.
func b2Param(fn *ssa.Function, i int) func(ssa.Value) bool {
	if fn == nil || i >= len(fn.Params) {
		return func(ssa.Value) bool { return false }
	}
	return b2IsValue(fn.Params[i])
}

// b2FreeVarLoad matches a load of the captured variable bound to the given
// value of the enclosing function (parameter or local), or the free variable
// itself when it is captured by value.
func b2FreeVar(f *ssa.Function, name string) func(ssa.Value) bool {
	return func(v ssa.Value) bool {
		v = core.Strip(v)
		if u, ok := v.(*ssa.UnOp); ok && u.Op == token.MUL {
			v = u.X
		}
		fv, ok := v.(*ssa.FreeVar)
		return ok && fv.Name() == name && fv.Parent() == f
	}
}

// b2AnyFreeVar matches (a load of) any free variable of type satisfying typ.
func b2FreeVarOfType(typ func(types.Type) bool) func(ssa.Value) bool {
	return func(v ssa.Value) bool {
		v = core.Strip(v)
		if fv, ok := v.(*ssa.FreeVar); ok {
			return typ(fv.Type())
		}
		if u, ok := v.(*ssa.UnOp); ok && u.Op == token.MUL {
			if fv, ok := u.X.(*ssa.FreeVar); ok {
				if pt, ok := fv.Type().(*types.Pointer); ok {
					return typ(pt.Elem())
				}
			}
		}
		return false
	}
}

func b2TypeIs(s string) func(types.Type) bool {
	return func(t types.Type) bool {
		return core.Short(types.TypeString(t, func(p *types.Package) string { return p.Path() })) == s
	}
}

// b2Index0 matches s[0] for a string/slice s satisfying pred.
func b2Index0(pred func(ssa.Value) bool) func(ssa.Value) bool {
	return func(v ssa.Value) bool {
		switch x := v.(type) {
		case *ssa.Lookup:
			n, ok := core.ConstInt(x.Index)
			return ok && n == 0 && pred(x.X)
		case *ssa.Index:
			n, ok := core.ConstInt(x.Index)
			return ok && n == 0 && pred(x.X)
		}
		return false
	}
}

// b2NonEmpty is the atom "len(x) != 0" in its usual spellings.
func b2NonEmpty(pred func(ssa.Value) bool) core.Atom {
	l := core.IsLenOf(pred)
	return core.AnyOf(
		core.Cmp(token.NEQ, l, core.IsConstInt(0)),
		core.Cmp(token.GTR, l, core.IsConstInt(0)),
		core.Cmp(token.GEQ, l, core.IsConstInt(1)),
	)
}

// b2IsConstStr matches the string constant s.
func b2IsConstStr(s string) func(ssa.Value) bool {
	return func(v ssa.Value) bool {
		c, ok := core.ConstString(v)
		return ok && c == s
	}
}

// b2StrConstsCompared lists the string constants that fn compares (==/!=) with a value satisfying isVar.
func b2StrConstsCompared(fn *ssa.Function, isVar func(ssa.Value) bool) []string {
	set := map[string]bool{}
	for _, b := range fn.Blocks {
		for _, in := range b.Instrs {
			bo, ok := in.(*ssa.BinOp)
			if !ok || (bo.Op != token.EQL && bo.Op != token.NEQ) {
				continue
			}
			if c, ok := core.ConstString(bo.Y); ok && isVar(bo.X) {
				set[c] = true
			}
			if c, ok := core.ConstString(bo.X); ok && isVar(bo.Y) {
				set[c] = true
			}
		}
	}
	var out []string
	for c := range set {
		out = append(out, c)
	}
	sort.Strings(out)
	return out
}

// b2AssumeEq returns the CFG edges of fn that cannot be taken when the value
// matched by isVar equals the string s (s must differ from "" only by value:
// every string not among consts behaves alike).
func b2AssumeEq(fn *ssa.Function, isVar func(ssa.Value) bool, consts []string, s string) []core.Edge {
	var cut []core.Edge
	for _, c := range consts {
		h, f := core.EdgesOf(fn, core.Cmp(token.EQL, isVar, b2IsConstStr(c)))
		if c == s {
			cut = append(cut, f...)
		} else {
			cut = append(cut, h...)
		}
	}
	return cut
}

// b2EvalBoolFn concretely evaluates a pure boolean function of one string
// parameter (index pi) built from ==/!= against string constants, !, &&, ||,
// if/switch and constant returns. Anything else is an error (unresolved).
func b2EvalBoolFn(fn *ssa.Function, pi int, s string) (bool, error) {
	if fn == nil || len(fn.Blocks) == 0 || pi >= len(fn.Params) {
		return false, fmt.Errorf("no body")
	}
	env := map[ssa.Value]constant.Value{}
	val := func(v ssa.Value) (constant.Value, error) {
		switch x := v.(type) {
		case *ssa.Const:
			if x.Value == nil {
				return nil, fmt.Errorf("nil constant")
			}
			return x.Value, nil
		case *ssa.Parameter:
			if x == fn.Params[pi] {
				return constant.MakeString(s), nil
			}
			return nil, fmt.Errorf("other parameter %s", x.Name())
		}
		if c, ok := env[v]; ok {
			return c, nil
		}
		return nil, fmt.Errorf("value %s not evaluated", v.Name())
	}
	var prev *ssa.BasicBlock
	b := fn.Blocks[0]
	for steps := 0; steps < 10000; steps++ {
		var next *ssa.BasicBlock
		for _, in := range b.Instrs {
			switch x := in.(type) {
			case *ssa.DebugRef:
			case *ssa.Phi:
				idx := -1
				for i, p := range b.Preds {
					if p == prev {
						idx = i
					}
				}
				if idx < 0 {
					return false, fmt.Errorf("phi without predecessor")
				}
				c, err := val(x.Edges[idx])
				if err != nil {
					return false, err
				}
				env[x] = c
			case *ssa.BinOp:
				l, err := val(x.X)
				if err != nil {
					return false, err
				}
				r, err := val(x.Y)
				if err != nil {
					return false, err
				}
				if x.Op != token.EQL && x.Op != token.NEQ {
					return false, fmt.Errorf("operator %s", x.Op)
				}
				env[x] = constant.MakeBool(constant.Compare(l, x.Op, r))
			case *ssa.UnOp:
				if x.Op != token.NOT {
					return false, fmt.Errorf("operator %s", x.Op)
				}
				c, err := val(x.X)
				if err != nil {
					return false, err
				}
				env[x] = constant.MakeBool(!constant.BoolVal(c))
			case *ssa.If:
				c, err := val(x.Cond)
				if err != nil {
					return false, err
				}
				if constant.BoolVal(c) {
					next = b.Succs[0]
				} else {
					next = b.Succs[1]
				}
			case *ssa.Jump:
				next = b.Succs[0]
			case *ssa.Return:
				if len(x.Results) != 1 {
					return false, fmt.Errorf("result count")
				}
				c, err := val(x.Results[0])
				if err != nil {
					return false, err
				}
				if c.Kind() != constant.Bool {
					return false, fmt.Errorf("non-boolean result")
				}
				return constant.BoolVal(c), nil
			default:
				return false, fmt.Errorf("instruction %T is outside the evaluated subset", in)
			}
		}
		if next == nil {
			return false, fmt.Errorf("block without terminator")
		}
		prev, b = b, next
	}
	return false, fmt.Errorf("evaluation did not terminate")
}

// b2Invoke matches interface method calls named method whose receiver satisfies recv.
func b2Invoke(recv func(ssa.Value) bool, method string) func(ssa.Instruction) bool {
	return func(in ssa.Instruction) bool {
		c := core.AsCall(in)
		if c == nil || !c.Common().IsInvoke() || c.Common().Method.Name() != method {
			return false
		}
		return recv == nil || recv(c.Common().Value)
	}
}

// b2IsCallVal matches SSA values that are calls matched by pred.
func b2IsCallVal(pred func(ssa.Instruction) bool) func(ssa.Value) bool {
	return func(v ssa.Value) bool {
		c, ok := v.(*ssa.Call)
		return ok && pred(c)
	}
}

// b2RetConst matches returns whose i-th result is the constant with the given descriptor ("const:true", "nil").
func b2RetConst(i int, desc string) func(ssa.Instruction) bool {
	return func(in ssa.Instruction) bool {
		r, ok := in.(*ssa.Return)
		return ok && i < len(r.Results) && core.Describe(core.Result(r, i)) == desc
	}
}

// b2MayBeNil reports whether v is, or may (through φ) be, the nil constant.
func b2MayBeNil(v ssa.Value) bool {
	seen := map[ssa.Value]bool{}
	var walk func(v ssa.Value) bool
	walk = func(v ssa.Value) bool {
		v = core.Forward(v)
		if seen[v] {
			return false
		}
		seen[v] = true
		if core.IsNil(v) {
			return true
		}
		if ph, ok := v.(*ssa.Phi); ok {
			for _, e := range ph.Edges {
				if walk(e) {
					return true
				}
			}
		}
		return false
	}
	return walk(v)
}

// b2LoadOfField matches a load of field "T.f" whose base has the given structural descriptor ("" = any base).
func b2LoadOfField(tf, baseDesc string) func(ssa.Value) bool {
	return func(v ssa.Value) bool {
		v = core.Forward(v)
		switch x := v.(type) {
		case *ssa.UnOp:
			if x.Op != token.MUL {
				return false
			}
			fa, ok := x.X.(*ssa.FieldAddr)
			if !ok || core.FieldAddrName(fa) != tf {
				return false
			}
			return baseDesc == "" || core.Describe(fa.X) == baseDesc
		case *ssa.Field:
			if core.FieldAddrName(x) != tf {
				return false
			}
			return baseDesc == "" || core.Describe(x.X) == baseDesc
		}
		return false
	}
}

// b2FieldSuffixLoad matches a load of a field whose "T.f" name equals tf, where the
// value may be wrapped in conversions.
func b2FieldLoadS(tf string) func(ssa.Value) bool {
	f := b2LoadOfField(tf, "")
	return func(v ssa.Value) bool { return f(core.Strip(v)) }
}

// b2Heads turns edges into program points.
func b2Heads(es []core.Edge) []core.At {
	var from []core.At
	for _, e := range es {
		from = append(from, core.Head(e.To))
	}
	return from
}

// b2SameDir reports whether two relative package paths are equal.
func b2CalleeIn(c ssa.CallInstruction, rel string) bool {
	f := c.Common().StaticCallee()
	return f != nil && f.Pkg != nil && f.Pkg.Pkg.Path() == core.Mod+"/"+rel
}

// b2ConstOf returns the value of the package-level constant rel.name.
func b2ConstOf(p *core.Prog, rel, name string) (constant.Value, bool) {
	pk := p.Pkgs[core.Mod+"/"+rel]
	if pk == nil || pk.Types == nil {
		return nil, false
	}
	c, ok := pk.Types.Scope().Lookup(name).(*types.Const)
	if !ok {
		return nil, false
	}
	return c.Val(), true
}

func b2Join(ss []string) string { return strings.Join(ss, ", ") }

// ---- origins: looking through captured variables and in-package helper parameters ----

// b2Bindings returns the values bound to free variable fv wherever its closure
// is created: in the enclosing function and, on an inlined variant of the
// program, in the functions the enclosing helper was inlined into.
func b2Bindings(fv *ssa.FreeVar) []ssa.Value {
	fn := fv.Parent()
	pkg := b2FuncPkg(fn) // a bound-method wrapper x.m carries no package of its own: that of m
	if fn == nil || pkg == nil {
		return nil
	}
	idx := -1
	for i, x := range fn.FreeVars {
		if x == fv {
			idx = i
		}
	}
	var out []ssa.Value
	for _, g := range b2AllPkgFuncs(fn.Prog, pkg) {
		for _, b := range g.Blocks {
			for _, in := range b.Instrs {
				if mc, ok := in.(*ssa.MakeClosure); ok && mc.Fn == fn && idx >= 0 && idx < len(mc.Bindings) {
					out = append(out, mc.Bindings[idx])
				}
			}
		}
	}
	return out
}

// b2AllPkgFuncs lists the functions of an SSA package including closures that
// are only reachable through a MakeClosure (closures of inlined helpers).
func b2AllPkgFuncs(prog *ssa.Program, sp *ssa.Package) []*ssa.Function {
	out := core.SSAPkgFuncs(prog, sp)
	seen := map[*ssa.Function]bool{}
	for _, f := range out {
		seen[f] = true
	}
	for i := 0; i < len(out); i++ {
		for _, b := range out[i].Blocks {
			for _, in := range b.Instrs {
				if mc, ok := in.(*ssa.MakeClosure); ok {
					if g, ok := mc.Fn.(*ssa.Function); ok && !seen[g] && g.Blocks != nil {
						seen[g] = true
						out = append(out, g)
					}
				}
			}
		}
	}
	return out
}

// b2PkgFuncs is Prog.PkgFuncs plus the closures that visible functions create
// although their lexical parent is hidden (on an inlined variant the closures of
// an inlined helper are created by its callers and stay part of the program),
// and the bound method values x.m into whose wrapper a variant has inlined m
// (the wrapper then is m's body over the captured receiver: a closure like any other).
func b2PkgFuncs(p *core.Prog, rel string) []*ssa.Function {
	out := p.PkgFuncs(rel)
	seen := map[*ssa.Function]bool{}
	for _, f := range out {
		seen[f] = true
	}
	for i := 0; i < len(out); i++ {
		for _, b := range out[i].Blocks {
			for _, in := range b.Instrs {
				if mc, ok := in.(*ssa.MakeClosure); ok {
					if g, ok := mc.Fn.(*ssa.Function); ok && !seen[g] && g.Blocks != nil && (g.Synthetic == "" || b2InlinedBound(g)) {
						seen[g] = true
						out = append(out, g)
					}
				}
			}
		}
	}
	return out
}

// b2StaticCallers lists the call sites of fn inside its own package, and
// whether fn is only ever used as the static callee of such calls (it does not
// escape as a value), so that its parameters stand exactly for those arguments.
func b2StaticCallers(p *core.Prog, fn *ssa.Function) (sites []ssa.CallInstruction, closed bool) {
	if fn == nil || fn.Pkg == nil || fn.Parent() != nil {
		return nil, false
	}
	if o := fn.Object(); o == nil || o.Exported() {
		return nil, false // callable from anywhere
	}
	closed = true
	for _, g := range b2PkgFuncs(p, strings.TrimPrefix(fn.Pkg.Pkg.Path(), core.Mod+"/")) {
		for _, b := range g.Blocks {
			for _, in := range b.Instrs {
				if c, ok := in.(ssa.CallInstruction); ok && c.Common().StaticCallee() == fn {
					sites = append(sites, c)
					for _, a := range c.Common().Args {
						if a == ssa.Value(fn) {
							closed = false
						}
					}
					continue
				}
				for _, op := range in.Operands(nil) {
					if *op == ssa.Value(fn) {
						closed = false
					}
				}
			}
		}
	}
	return sites, closed
}

// b2Origins resolves v to the values it stands for: it looks through
// conversions, spill slots, captured variables (the value bound when the
// closure is created; a captured variable assigned once stands for that
// value) and parameters of unexported in-package functions that are only
// called statically (the arguments of all their call sites). Values that
// cannot be resolved further are returned as they are.
func b2Origins(p *core.Prog, v ssa.Value) []ssa.Value {
	var out []ssa.Value
	seen := map[ssa.Value]bool{}
	type fieldOf struct {
		s     ssa.Value
		field int
	}
	seenField := map[fieldOf]bool{}
	var walk func(v ssa.Value, depth int)
	// walkField: field `field` of the struct value s; orig (the load that asked) stands
	// for itself when s cannot be traced to where it was built.
	var walkField func(s ssa.Value, field int, orig ssa.Value, depth int) bool
	walkFieldOfAlloc := func(al *ssa.Alloc, field int, orig ssa.Value, depth int) bool {
		val, whole := b2FieldStoreOfAlloc(al, field)
		switch {
		case val != nil:
			walk(val, depth+1)
			return true
		case whole != nil:
			return walkField(whole, field, orig, depth+1)
		}
		return false
	}
	walkField = func(s ssa.Value, field int, orig ssa.Value, depth int) bool {
		s = core.Strip(s)
		if depth > 8 {
			return false
		}
		if seenField[fieldOf{s, field}] {
			return true
		}
		seenField[fieldOf{s, field}] = true
		switch y := s.(type) {
		case *ssa.UnOp:
			if al, ok := y.X.(*ssa.Alloc); ok && y.Op == token.MUL {
				return walkFieldOfAlloc(al, field, orig, depth)
			}
		case *ssa.Parameter:
			fn := y.Parent()
			idx := -1
			for i, q := range fn.Params {
				if q == y {
					idx = i
				}
			}
			if srcs, closed := b2ParamSources(p, fn, idx); closed && len(srcs) > 0 {
				// every source must resolve, otherwise the field stands for itself
				save := len(out)
				for _, src := range srcs {
					if !walkField(src, field, orig, depth+1) {
						out = out[:save]
						return false
					}
				}
				return true
			}
		case *ssa.FreeVar:
			if _, isPtr := y.Type().Underlying().(*types.Pointer); isPtr {
				return false
			}
			if bs := b2Bindings(y); len(bs) > 0 {
				save := len(out)
				for _, b := range bs {
					if !walkField(b, field, orig, depth+1) {
						out = out[:save]
						return false
					}
				}
				return true
			}
		}
		return false
	}
	walk = func(v ssa.Value, depth int) {
		v = core.Strip(core.Forward(core.Strip(v)))
		if seen[v] {
			return
		}
		seen[v] = true
		if depth > 6 {
			out = append(out, v)
			return
		}
		switch x := v.(type) {
		case *ssa.Field:
			// x.f of a struct value (by-value receiver, by-value capture)
			if walkField(x.X, x.Field, v, depth) {
				return
			}
		case *ssa.UnOp:
			if x.Op == token.MUL {
				if fa, ok := x.X.(*ssa.FieldAddr); ok {
					// a load of a field of a local struct: what was stored into that field
					// where the struct was built
					if al, ok := fa.X.(*ssa.Alloc); ok && walkFieldOfAlloc(al, fa.Field, v, depth) {
						return
					}
				}
				if roots, ok := b2AddrRoots(x.X); ok {
					all := true
					var vals []ssa.Value
					for _, al := range roots {
						var val ssa.Value
						n := 0
						for _, r := range *al.Referrers() {
							if st, ok := r.(*ssa.Store); ok && st.Addr == al {
								val = st.Val
								n++
							}
						}
						if n != 1 {
							all = false
						}
						vals = append(vals, val)
					}
					if all && len(vals) > 0 {
						for _, val := range vals {
							walk(val, depth+1)
						}
						return
					}
				}
			}
		case *ssa.FreeVar:
			if bs := b2Bindings(x); len(bs) > 0 {
				for _, b := range bs {
					walk(b, depth+1)
				}
				return
			}
		case *ssa.Parameter:
			fn := x.Parent()
			idx := -1
			for i, q := range fn.Params {
				if q == x {
					idx = i
				}
			}
			// (a method used as a method value x.m is not dead: its receiver is what was
			// bound there, its other parameters come from callers that are not visible)
			if srcs, closed := b2ParamSources(p, fn, idx); closed {
				if len(srcs) == 0 {
					return // dead helper (inlined everywhere): its parameters stand for nothing
				}
				for _, src := range srcs {
					walk(src, depth+1)
				}
				return
			}
		}
		out = append(out, v)
	}
	walk(v, 0)
	return out
}

// b2AllOrigins reports whether every origin of v satisfies pred.
func b2AllOrigins(p *core.Prog, v ssa.Value, pred func(ssa.Value) bool) bool {
	os := b2Origins(p, v)
	if len(os) == 0 {
		return false
	}
	for _, o := range os {
		if !pred(o) {
			return false
		}
	}
	return true
}

// b2BoolHelperCall decomposes v = h(…, x, …) where h is a static in-package
// function returning one bool and exactly one argument satisfies isVar.
func b2BoolHelperCall(v ssa.Value, isVar func(ssa.Value) bool) (*ssa.Function, int) {
	c, ok := v.(*ssa.Call)
	if !ok {
		return nil, -1
	}
	h := c.Call.StaticCallee()
	if h == nil || h.Blocks == nil || c.Call.IsInvoke() {
		return nil, -1
	}
	if b, ok := c.Type().Underlying().(*types.Basic); !ok || b.Kind() != types.Bool {
		return nil, -1
	}
	idx := -1
	for i, a := range c.Call.Args {
		if isVar(a) {
			if idx >= 0 {
				return nil, -1
			}
			idx = i
		}
	}
	if idx < 0 || idx >= len(h.Params) {
		return nil, -1
	}
	return h, idx
}

// b2StrConstsDeep is b2StrConstsCompared extended by the constants that boolean
// helpers applied to the variable compare it with.
func b2StrConstsDeep(fn *ssa.Function, isVar func(ssa.Value) bool) []string {
	set := map[string]bool{}
	for _, c := range b2StrConstsCompared(fn, isVar) {
		set[c] = true
	}
	for _, b := range fn.Blocks {
		for _, in := range b.Instrs {
			v, ok := in.(ssa.Value)
			if !ok {
				continue
			}
			if h, i := b2BoolHelperCall(v, isVar); h != nil {
				for _, c := range b2StrConstsCompared(h, b2Param(h, i)) {
					set[c] = true
				}
			}
		}
	}
	var out []string
	for c := range set {
		out = append(out, c)
	}
	sort.Strings(out)
	return out
}

// b2AssumeEqDeep returns the CFG edges of fn that cannot be taken when the
// value matched by isVar equals the string s: conditions `x == c`, `x != c`
// and `h(x)` for a boolean helper h that b2EvalBoolFn can evaluate.
func b2AssumeEqDeep(fn *ssa.Function, isVar func(ssa.Value) bool, s string) []core.Edge {
	consistent := core.Atom(func(v ssa.Value) (bool, bool) {
		if bo, ok := v.(*ssa.BinOp); ok && (bo.Op == token.EQL || bo.Op == token.NEQ) {
			var c string
			var okc bool
			if isVar(bo.X) {
				c, okc = core.ConstString(bo.Y)
			} else if isVar(bo.Y) {
				c, okc = core.ConstString(bo.X)
			}
			if !okc {
				return false, false
			}
			return true, (c == s) == (bo.Op == token.EQL)
		}
		if h, i := b2BoolHelperCall(v, isVar); h != nil {
			res, err := b2EvalBoolFn(h, i, s)
			if err != nil {
				return false, false
			}
			return true, res
		}
		return false, false
	})
	_, infeasible := core.EdgesOf(fn, consistent)
	return infeasible
}

// b2AddrRoots resolves the address of a (possibly captured) variable to the
// allocations it can denote; ok=false when it is not a captured/local variable.
func b2AddrRoots(addr ssa.Value) ([]*ssa.Alloc, bool) {
	var out []*ssa.Alloc
	seen := map[ssa.Value]bool{}
	ok := true
	var walk func(a ssa.Value, d int)
	walk = func(a ssa.Value, d int) {
		if seen[a] || d > 6 {
			return
		}
		seen[a] = true
		switch x := a.(type) {
		case *ssa.Alloc:
			out = append(out, x)
		case *ssa.FreeVar:
			bs := b2Bindings(x)
			if len(bs) == 0 {
				ok = false
			}
			for _, b := range bs {
				walk(b, d+1)
			}
		default:
			ok = false
		}
	}
	walk(addr, 0)
	return out, ok && len(out) > 0
}
