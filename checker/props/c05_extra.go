package props

import (
	"go/token"

	"godcheck/core"

	"golang.org/x/tools/go/ssa"
)

// c05Extra: rules added after the fourth independent seeding round.
func c05Extra(r *core.Run) {
	p := r.P
	c05Panics(r)
	c05R9(r)
	c05R10(r)
	c05R11(r)
	c05R12(r)
	r.Check("D4/K6/range-bound-uses-its-own-flag", "every boundary-inclusive comparison of a value with numberRange.left (resp. right) in lib/mapping – the unmarshalling validator and the marshalling one used by httpc – is made only when leftInclude (resp. rightInclude) is false: the bracket of a bound decides that bound", func(o *core.O) {
		n := 0
		for _, f := range p.PkgFuncs("lib/mapping") {
			for _, side := range []struct{ bound, flag string }{{"numberRange.left", "numberRange.leftInclude"}, {"numberRange.right", "numberRange.rightInclude"}} {
				isBound := core.FieldLoad(side.bound)
				for _, in := range core.Instrs(f, func(in ssa.Instruction) bool {
					b, ok := in.(*ssa.BinOp)
					if !ok || !(isBound(b.X) || isBound(b.Y)) {
						return false
					}
					switch b.Op {
					case token.EQL, token.LEQ, token.GEQ:
						return true
					}
					return false
				}) {
					n++
					r.Fn(core.FuncName(f))
					open := core.Not(core.BoolVal(core.FieldLoad(side.flag)))
					if core.EdgeCount(f, open) == 0 || core.Requires(f, core.Is(in), open) != nil {
						o.Fail(p.InstrPos(in), "%s rejects/accepts a value exactly on %s without consulting %s (or consulting the other bound's flag): a value on an inclusive end is refused, one on an exclusive end accepted", core.FuncName(f), side.bound, side.flag)
					}
				}
			}
		}
		o.Site(n, "lib/mapping")
	})
}
