package props

import (
	"godcheck/core"
)

// c04Extra: rules added after the fourth independent seeding round.
func c04Extra(r *core.Run) {
	p := r.P
	defer c04r12(r) // round 12: the token parser admits every HMAC method and validates the claims (c04_r12.go)
	defer c04r11(r) // round 11: the option's SignatureConfig reaches the gate unchanged (c04_r11.go)
	defer c04r10(r) // round 10: the signature option marks every strict group as enabled (c04_r10.go)
	defer c04r9(r)  // round 9: the unauthorized callback cannot commit a status other than 401 (c04_r9.go)
	r.Check("D2/K1/auth-appended-on-every-path", "every route is bound with the authentication gates: in the function of package api that hands a route to Router.Handle, every path to that call passes engine.appendAuthHandler (whatever chain the server was built with)", func(o *core.O) {
		isAppend := core.CallMethod("api.engine", "appendAuthHandler")
		isHandle := core.CallMethod("httpx.Router", "Handle")
		n := 0
		for _, f := range p.PkgFuncs("api") {
			hs := core.Instrs(f, isHandle)
			if len(hs) == 0 || len(core.Instrs(f, isAppend)) == 0 {
				continue
			}
			n += len(hs)
			r.Fn(core.FuncName(f))
			if w := core.MustPass(core.Entry(f), isAppend, isHandle); w != nil {
				o.Fail(p.InstrPos(w), "%s can register a route without appending the JWT / signature gates (e.g. when the server was built with a custom chain): the protected handler runs for unauthenticated requests", core.FuncName(f))
			}
		}
		o.Site(n, "api")
	})
}
