package props

import (
	"go/token"
	"go/types"

	"godcheck/core"

	"golang.org/x/tools/go/ssa"
)

// c07WriterCons is one place where a writer (a struct whose Write method sends
// on one of its channel fields) is built: the channel put into that field and
// the value/object built.
type c07WriterCons struct {
	at   ssa.Instruction // the constructor call, or the store of the field (literal in place)
	ch   ssa.Value       // the channel the writer will send on
	call *ssa.Call       // the constructor call whose result is the writer (nil: built in place)
	obj  ssa.Value       // built in place: the struct object whose field is stored
}

// c07WriterFields: role of guardedWriter.channel - the fields "T.f" that a
// one-argument, no-result method Write of an in-package type sends its
// argument's value on.
func c07WriterFields(m *mrCtx) map[string]bool {
	out := map[string]bool{}
	for _, f := range m.funcs {
		if f.Signature.Recv() == nil || f.Name() != "Write" || f.Signature.Params().Len() != 1 || f.Signature.Results().Len() != 0 {
			continue
		}
		for _, b := range f.Blocks {
			for _, in := range b.Instrs {
				var ch ssa.Value
				switch x := in.(type) {
				case *ssa.Send:
					ch = x.Chan
				case *ssa.Select:
					for _, st := range x.States {
						if st.Dir == types.SendOnly {
							ch = st.Chan
						}
					}
				}
				if ch == nil {
					continue
				}
				if n := core.FieldAddrNameOfLoad(core.Strip(ch)); n != "" {
					out[n] = true
				}
			}
		}
	}
	return out
}

// c07WriterConstructions lists where writers are built: a store of the channel
// field from a parameter of a top-level function makes that function a
// constructor (every static call of it builds a writer on the argument in that
// position); any other store builds one in place.
func c07WriterConstructions(m *mrCtx, fields map[string]bool) []c07WriterCons {
	var out []c07WriterCons
	for _, f := range m.funcs {
		for _, b := range f.Blocks {
			for _, in := range b.Instrs {
				st, ok := in.(*ssa.Store)
				if !ok || !fields[core.FieldAddrName(st.Addr)] {
					continue
				}
				idx := -1
				if pa, isP := core.Strip(st.Val).(*ssa.Parameter); isP && f.Parent() == nil {
					for i, q := range f.Params {
						if q == pa {
							idx = i
						}
					}
				}
				if idx < 0 {
					out = append(out, c07WriterCons{at: st, ch: st.Val, obj: st.Addr.(*ssa.FieldAddr).X})
					continue
				}
				for _, g := range m.funcs {
					for _, c := range core.Instrs(g, func(in ssa.Instruction) bool {
						c, ok := in.(*ssa.Call)
						return ok && c.Call.StaticCallee() == f
					}) {
						call := c.(*ssa.Call)
						if idx < len(call.Call.Args) {
							out = append(out, c07WriterCons{at: call, ch: call.Call.Args[idx], call: call})
						}
					}
				}
			}
		}
	}
	return out
}

// c07WriterOf resolves a value of the Writer interface (or of the writer struct)
// to the construction(s) it comes from.
func c07WriterOf(v ssa.Value, cons []c07WriterCons) []c07WriterCons {
	var out []c07WriterCons
	x := resolve(v)
	for i := 0; i < 4; i++ {
		// a struct value copied through a local (w := newWriter(...); use(w)) or boxed into the interface
		nx := resolve(core.Strip(x))
		if nx == x {
			break
		}
		x = nx
	}
	for _, c := range cons {
		if c.call != nil && x == ssa.Value(c.call) {
			out = append(out, c)
		}
	}
	if len(out) > 0 {
		return out
	}
	// the result of a function that builds the writer in place on a channel of its own choosing
	if c, ok := x.(*ssa.Call); ok {
		if g := c.Call.StaticCallee(); g != nil {
			for _, cn := range cons {
				if cn.call == nil && cn.at.Parent() == g {
					out = append(out, cn)
				}
			}
		}
		if len(out) > 0 {
			return out
		}
	}
	// built in place: x loads (or is the address of) the object whose field was stored
	var obj ssa.Value = x
	if u, ok := x.(*ssa.UnOp); ok && u.Op == token.MUL {
		obj = u.X
	}
	cell := cellOf(obj)
	for _, c := range cons {
		if c.call == nil && (c.obj == obj || (cell != nil && cellOf(c.obj) == cell)) {
			out = append(out, c)
		}
	}
	return out
}

func c07HasWrite(t types.Type) bool {
	it, ok := t.Underlying().(*types.Interface)
	if !ok {
		return false
	}
	for i := 0; i < it.NumMethods(); i++ {
		if it.Method(i).Name() == "Write" {
			return true
		}
	}
	return false
}

// c07ReducerSites: the calls, anywhere in the package, of a function value the package did not
// define (a caller-supplied callback) whose signature takes a receive-only channel and a Writer:
// the reducer's call, whether it sits in the goroutine's body or in an adapter closure handed to it.
func c07ReducerSites(m *mrCtx) []ssa.CallInstruction {
	var out []ssa.CallInstruction
	for _, f := range m.funcs {
		for _, b := range f.Blocks {
			for _, in := range b.Instrs {
				c := core.AsCall(in)
				if c == nil || c.Common().IsInvoke() {
					continue
				}
				if _, isB := c.Common().Value.(*ssa.Builtin); isB {
					continue
				}
				if g := calleeFn(c); g != nil {
					continue
				}
				sig, ok := c.Common().Value.Type().Underlying().(*types.Signature)
				if !ok {
					continue
				}
				hasPipe, hasWriter := false, false
				for i := 0; i < sig.Params().Len(); i++ {
					t := sig.Params().At(i).Type()
					if ch, isCh := t.Underlying().(*types.Chan); isCh && ch.Dir() == types.RecvOnly {
						hasPipe = true
					}
					if c07HasWrite(t) {
						hasWriter = true
					}
				}
				if hasPipe && hasWriter {
					out = append(out, c)
				}
			}
		}
	}
	return out
}

// c07R10: rule added after the report of the robustness round (the writer's channel was tied to nothing).
func c07R10(r *core.Run) {
	p := r.P
	m := newMrCtx(r)
	if len(m.funcs) == 0 {
		return
	}

	r.Check("D5/K6/reducer-writer-feeds-output", "the Writer handed to the reducer sends on the very channel the MapReduce core's final select receives the result from: the channel put into the writer that the reducer goroutine passes to the callback is the channel of the select's result state [clause \"the call returns the single value the reducer wrote\": a writer built on any other channel loses the reducer's value - the reducer blocks in Write or the value is dropped - and the caller hangs or gets ErrReduceNoOutput instead of the value]", func(o *core.O) {
		var coreSel *ssa.Select
		for _, s := range m.panicSelects() {
			if s.Parent().Signature.Results().Len() == 2 {
				coreSel = s
			}
		}
		if !o.Need(coreSel != nil, "the two-result function selecting on the panic channel (MapReduce core)") {
			return
		}
		kOut := stateOf(coreSel, func(st *ssa.SelectState) bool {
			if st.Dir != types.RecvOnly || isCtxDone(st.Chan) {
				return false
			}
			id := chanID(st.Chan)
			return id != "" && id != "field:onceChan.channel"
		})
		if !o.Need(kOut >= 0, "the result state of the final select (a receive that is neither ctx.Done() nor the panic channel)") {
			return
		}
		outID := chanID(coreSel.States[kOut].Chan)
		fields := c07WriterFields(m)
		if !o.Need(len(fields) > 0, "a Write method sending on a channel field of its receiver (the guarded writer)") {
			return
		}
		cons := c07WriterConstructions(m, fields)
		if !o.Need(len(cons) > 0, "a place where the writer's channel field is set") {
			return
		}
		n := 0
		for _, site := range c07ReducerSites(m) {
			cc := site.Common()
			body := site.Parent()
			for _, a := range cc.Args {
				if !c07HasWrite(a.Type()) {
					continue
				}
				ws := c07WriterOf(a, cons)
				if len(ws) == 0 {
					o.Unres("%s: the writer handed to the reducer (%s) could not be traced to the place where it is built", core.FuncName(body), core.Describe(a))
					continue
				}
				for _, w := range ws {
					n++
					if !chanMatches(m, w.ch, outID) {
						id := chanID(w.ch)
						if id == "" {
							id = core.Describe(w.ch)
						}
						o.Fail(p.InstrPos(w.at), "the writer handed to the reducer sends on %s, but %s receives the result from %s: the value the reducer writes never reaches the caller (the reducer blocks in Write or the value is dropped), the call hangs or returns ErrReduceNoOutput instead of the reducer's value", id, core.FuncName(coreSel.Parent()), outID)
					}
				}
			}
		}
		if n == 0 {
			o.Unres("no writer handed to a reducer callback found")
			return
		}
		o.Site(n, core.FuncName(coreSel.Parent()))
	})
}
