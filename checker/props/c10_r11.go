package props

// Detection round 10 (seeded change C10-wm1).
//
//   D4/K8/index-map-replaced-keeps-entries   the timers index (SafeMap) keeps its entries in maps held in
//                                             its map-typed fields; whenever a method replaces the map held
//                                             in such a field, the map that was there is either promoted to
//                                             another map field or range-copied into a map the index keeps
//                                             (wm1: the compaction of the old map re-made the new map without
//                                             merging it: the keys indexed there are lost)

import (
	"go/token"
	"go/types"

	"godcheck/core"

	"golang.org/x/tools/go/ssa"
)

// c10IndexType: the named struct type behind the wheel's key->position index (TimingWheel.timers).
func c10IndexType(p *core.Prog, pkg string) *types.Named {
	for _, f := range p.PkgFuncs(pkg) {
		for _, b := range f.Blocks {
			for _, in := range b.Instrs {
				fa, ok := in.(*ssa.FieldAddr)
				if !ok || core.FieldAddrName(fa) != "TimingWheel.timers" {
					continue
				}
				pt, ok := fa.Type().Underlying().(*types.Pointer) // *(*SafeMap)
				if !ok {
					continue
				}
				t := pt.Elem()
				if q, ok := t.Underlying().(*types.Pointer); ok {
					t = q.Elem()
				}
				if n, ok := t.(*types.Named); ok {
					if _, ok := n.Underlying().(*types.Struct); ok {
						return n
					}
				}
			}
		}
	}
	return nil
}

// c10IndexMapField: addr is the address of a map-typed field of the index type; returns the field index.
func c10IndexMapField(idx *types.Named, addr ssa.Value) (int, bool) {
	fa, ok := addr.(*ssa.FieldAddr)
	if !ok {
		return 0, false
	}
	pt, ok := fa.X.Type().Underlying().(*types.Pointer)
	if !ok {
		return 0, false
	}
	n, ok := pt.Elem().(*types.Named)
	if !ok || n.Obj() != idx.Obj() {
		return 0, false
	}
	st, ok := n.Underlying().(*types.Struct)
	if !ok {
		return 0, false
	}
	if _, ok := st.Field(fa.Field).Type().Underlying().(*types.Map); !ok {
		return 0, false
	}
	return fa.Field, true
}

// c10IndexMapLoad: v is (a local copy of) the map read from a map-typed field of the index type.
func c10IndexMapLoad(idx *types.Named, v ssa.Value) (field int, load *ssa.UnOp, ok bool) {
	u, isU := core.Strip(core.Forward(v)).(*ssa.UnOp)
	if !isU || u.Op != token.MUL {
		return 0, nil, false
	}
	f, ok := c10IndexMapField(idx, u.X)
	return f, u, ok
}

func c10Round11(r *core.Run, pkg string) {
	p := r.P
	r.Explanation += " Round 10: the wheel's key index (the type of TimingWheel.timers) keeps its entries in the maps held in its map-typed fields; a method that replaces the map held in such a field keeps the replaced map's entries: on every path through the replacing store the replaced map is stored into another map field of the index, or ranged over with every (key, value) written to a map that is held in (or stored into) a map field of the index."
	r.NotDecided += " Round 10: entries removed from the index maps key by key (delete) or by other means than replacing the map; whether Get/Del consult every map; copies made by anything else than a range loop in the same function (after inlining of new helpers) with the ranged key and value written unchanged; which index object a field belongs to (one index per method is assumed)."

	r.Check("D4/K8/index-map-replaced-keeps-entries", "a key that was put into the timers index and not deleted stays retrievable: when a method of the index type replaces the map held in one of its map-typed fields, then on every path through that store the replaced map is promoted to another map field of the index or range-copied (every key with its value) into a map the index keeps in a map field (an index entry dropped by a compaction leaves its task live in a slot but unreachable: RemoveTimer/MoveTimer become no-ops – a removed task fires, a moved one fires at its old tick – and SetTimer adds a second entry that fires too)", func(o *core.O) {
		idx := c10IndexType(p, pkg)
		if idx == nil {
			o.Unres("the type of the wheel's key index (TimingWheel.timers) was not found")
			return
		}
		n, methods := 0, 0
		for _, f := range p.PkgFuncs(pkg) {
			if f.Blocks == nil {
				continue
			}
			var stores []*ssa.Store
			for _, in := range core.Instrs(f, func(in ssa.Instruction) bool { _, ok := in.(*ssa.Store); return ok }) {
				s := in.(*ssa.Store)
				if _, ok := c10IndexMapField(idx, s.Addr); ok {
					stores = append(stores, s)
				}
			}
			if len(stores) > 0 {
				methods++
			}
			// kept(v): the map v is held in a map field of the index (read from one) or is stored into one in f
			kept := func(v ssa.Value) bool {
				if _, _, ok := c10IndexMapLoad(idx, v); ok {
					return true
				}
				w := core.Strip(core.Forward(v))
				for _, s := range stores {
					if core.Strip(core.Forward(s.Val)) == w {
						return true
					}
				}
				return false
			}
			for _, s := range stores {
				if freshRoot(s.Addr) {
					continue // the index under construction: nothing was in the field
				}
				fld, _ := c10IndexMapField(idx, s.Addr)
				if g, _, ok := c10IndexMapLoad(idx, s.Val); ok && g == fld {
					continue // the field is assigned to itself
				}
				n++
				r.Fn(core.FuncName(f))
				// the replaced map: a read of the field that cannot happen after the store
				isOld := func(v ssa.Value) bool {
					g, l, ok := c10IndexMapLoad(idx, v)
					if !ok || g != fld {
						return false
					}
					_, after := core.Reach(core.Q{From: []core.At{core.After(s)}, Target: core.Is(l)})
					return !after
				}
				onEveryPath := func(x ssa.Instruction) bool {
					return core.Dominates(x, s) || core.MustPass(core.After(s), core.Is(x), core.IsReturn) == nil
				}
				saved := false
				for _, in := range core.Instrs(f, func(ssa.Instruction) bool { return true }) {
					switch x := in.(type) {
					case *ssa.Store:
						// promotion: the replaced map becomes the map of another field
						if g, ok := c10IndexMapField(idx, x.Addr); ok && g != fld && x != s && isOld(x.Val) && onEveryPath(x) {
							saved = true
						}
					case *ssa.Range:
						if !isOld(x.X) || !onEveryPath(x) {
							continue
						}
						// every ranged (key, value) is written to a map the index keeps
						for _, in2 := range core.Instrs(f, func(in ssa.Instruction) bool { _, ok := in.(*ssa.MapUpdate); return ok }) {
							mu := in2.(*ssa.MapUpdate)
							if c10RangeElem(mu.Key, x, 1) && c10RangeElem(mu.Value, x, 2) && kept(mu.Map) {
								saved = true
							}
						}
					}
					if saved {
						break
					}
				}
				if !saved {
					o.Fail(p.InstrPos(s), "%s replaces the map held in %s.%s although the map that was there is neither kept in another map field nor copied entry by entry into a map the index keeps: the keys indexed there are lost – their tasks stay live in the wheel but can no longer be removed or moved (a removed task fires, a moved one fires at its old tick) and a SetTimer on such a key adds a second entry", core.FuncName(f), idx.Obj().Name(), idx.Underlying().(*types.Struct).Field(fld).Name())
				}
			}
		}
		if methods == 0 {
			o.Unres("no function stores a map into a map field of %s", idx.Obj().Name())
			return
		}
		if n == 0 {
			o.ZeroOK() // the index type and the functions that fill its map fields were found; none replaces a map in use
		}
		o.Site(n, pkg)
	})
}

// c10RangeElem: v is component i (1 key, 2 value) of the element produced by ranging rg.
func c10RangeElem(v ssa.Value, rg *ssa.Range, i int) bool {
	w := core.Strip(core.Forward(v))
	if lk, isLk := w.(*ssa.Lookup); isLk && i == 2 && !lk.CommaOk {
		// `for k := range old { dst[k] = old[k] }`: the value is looked up in the ranged map under the ranged key
		return core.Strip(core.Forward(lk.X)) == core.Strip(core.Forward(rg.X)) && c10RangeElem(lk.Index, rg, 1)
	}
	ex, ok := w.(*ssa.Extract)
	if !ok || ex.Index != i {
		return false
	}
	nx, ok := ex.Tuple.(*ssa.Next)
	return ok && nx.Iter == ssa.Value(rg)
}
