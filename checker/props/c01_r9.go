package props

import (
	"go/constant"
	"go/token"
	"go/types"

	"godcheck/core"

	"golang.org/x/tools/go/ssa"
)

// Round 9 (hunter findings h7 C01 f1/f2): whether the protected call "did not return normally"
// cannot be read off recover()'s value — panic(nil) (the module's go.mod is below 1.21, so
// recover() answers nil for it) and runtime.Goexit both give nil — and not off the recorded HTTP
// status either (a handler that panics before writing leaves 0). The two rules that account for
// the abnormal exit (D2/K1/panic-recorded-and-reraised, D5/K2/http-status-below-500) therefore
// anchor on a *completion flag*: a bool local of the accounting function, captured by reference
// by the deferred closure, that changes its value only after the protected call has returned.

// c01Flag is a completion flag of f as seen by the deferred closure g.
type c01Flag struct {
	cell   *ssa.Alloc   // the local of f
	fv     *ssa.FreeVar // the same cell inside g
	normal bool         // the value the flag holds once the protected call has returned
	bad    []c01FlagIssue
}

type c01FlagIssue struct {
	at    ssa.Instruction
	msg   string
	unres bool
}

func c01IsBoolPtr(t types.Type) bool {
	pt, ok := t.(*types.Pointer)
	if !ok {
		return false
	}
	b, ok := pt.Elem().Underlying().(*types.Basic)
	return ok && b.Kind() == types.Bool
}

func c01ConstBool(v ssa.Value) (val, ok bool) {
	c, isC := core.Strip(v).(*ssa.Const)
	if !isC || c.Value == nil || c.Value.Kind() != constant.Bool {
		return false, false
	}
	return constant.BoolVal(c.Value), true
}

// c01CompletionFlags resolves the completion flags g can see: the bool locals of f that g captures
// by reference and that f writes after the protected call (isCall) returned. For each flag the
// discipline of its writes in f is checked (c01Flag.bad):
//   - every write is a boolean constant, made by f itself (no closure writes it, it does not escape);
//   - the value written after the call (`normal`) is written only after the call returned, on every
//     path from the call to a normal return, and the call cannot run again afterwards;
//   - the opposite value is written only before the call (and on every path to it, when it is not
//     the zero value).
func c01CompletionFlags(f, g *ssa.Function, isCall func(ssa.Instruction) bool) []*c01Flag {
	var out []*c01Flag
	calls := core.Instrs(f, isCall)
	for _, d := range core.Instrs(f, deferOfClosure(g)) {
		mc := d.(*ssa.Defer).Call.Value.(*ssa.MakeClosure)
		for i, bnd := range mc.Bindings {
			if i >= len(g.FreeVars) || !c01IsBoolPtr(g.FreeVars[i].Type()) {
				continue
			}
			cell, ok := bnd.(*ssa.Alloc)
			if !ok || cell.Parent() != f {
				continue
			}
			fl := &c01Flag{cell: cell, fv: g.FreeVars[i]}
			issue := func(at ssa.Instruction, unres bool, msg string) {
				fl.bad = append(fl.bad, c01FlagIssue{at, msg, unres})
			}
			type wr struct {
				st  *ssa.Store
				val bool
			}
			var writes []wr
			for _, ref := range *cell.Referrers() {
				switch x := ref.(type) {
				case *ssa.Store:
					if x.Addr != ssa.Value(cell) {
						issue(x, true, "the completion flag's address is stored away: its writes cannot be followed")
						continue
					}
					v, isConst := c01ConstBool(x.Val)
					if !isConst {
						issue(x, true, "the completion flag is assigned "+core.Describe(x.Val)+", not a boolean constant: its value after the protected call is not decided")
						continue
					}
					writes = append(writes, wr{x, v})
				case *ssa.UnOp, *ssa.DebugRef:
				case *ssa.MakeClosure:
					h, _ := x.Fn.(*ssa.Function)
					for j, b2 := range x.Bindings {
						if b2 != ssa.Value(cell) || h == nil || j >= len(h.FreeVars) {
							continue
						}
						fv := h.FreeVars[j]
						for _, in := range core.Instrs(h, func(in ssa.Instruction) bool {
							st, ok := in.(*ssa.Store)
							return ok && st.Addr == ssa.Value(fv)
						}) {
							issue(in, false, "the completion flag is written inside the closure "+core.FuncName(h)+": whether it is set says nothing about the protected call having returned")
						}
						for _, ref2 := range *fv.Referrers() {
							switch y := ref2.(type) {
							case *ssa.UnOp, *ssa.Store, *ssa.DebugRef:
							default:
								issue(y, true, "the completion flag escapes from the closure "+core.FuncName(h))
							}
						}
					}
				default:
					issue(ref, true, "the completion flag escapes (its address is handed on): its writes cannot be followed")
				}
			}
			// the value written after the call
			var after []wr
			for _, w := range writes {
				for _, c := range calls {
					if _, ok := core.Reach(core.Q{From: []core.At{core.After(c)}, Target: core.Is(w.st)}); ok {
						after = append(after, w)
						break
					}
				}
			}
			if len(after) == 0 {
				continue // never written once the call returned: not a completion flag
			}
			fl.normal = after[0].val
			for _, w := range after[1:] {
				if w.val != fl.normal {
					issue(w.st, false, "the completion flag is set to both true and false after the protected call: the deferred closure cannot tell a normal return from a panic")
				}
			}
			var setNormal, setOther []ssa.Instruction
			for _, w := range writes {
				if w.val == fl.normal {
					setNormal = append(setNormal, w.st)
				} else {
					setOther = append(setOther, w.st)
				}
			}
			isSet := core.Is(setNormal...)
			if w := core.Precedes(f, isCall, isSet); w != nil {
				issue(w, false, "the completion flag is set before the protected call has returned: a call that panics (or exits the goroutine) afterwards is taken for one that returned normally and no failure is recorded")
			}
			for _, s := range setNormal {
				if w, ok := core.Reach(core.Q{From: []core.At{core.After(s)}, Target: isCall}); ok {
					issue(w, false, "the protected call can run again after the completion flag was set: a panic of that run is taken for a normal return")
				}
			}
			for _, c := range calls {
				if w := core.MustPass(core.After(c), isSet, core.IsReturn); w != nil {
					issue(w, false, "a path returns normally from the protected call without setting the completion flag: the deferred closure books a second outcome (a failure) for a call that returned")
				}
			}
			if !fl.normal {
				// inverted flag (`panicked := true … panicked = false`): the zero value means "returned", so the
				// initial assignment is needed on every path to the call
				if len(setOther) == 0 {
					issue(cell, false, "the completion flag is never given its 'not yet returned' value before the protected call")
				} else if w := core.Precedes(f, core.Is(setOther...), isCall); w != nil {
					issue(w, false, "the protected call can run before the completion flag is given its 'not yet returned' value")
				}
			}
			out = append(out, fl)
		}
	}
	return out
}

// returned is the atom "the flag says the protected call returned normally", evaluated in g:
// a load of the captured cell, bare or compared with a boolean constant.
func (fl *c01Flag) returned() core.Atom {
	isLoad := func(v ssa.Value) bool {
		u, ok := v.(*ssa.UnOp)
		return ok && u.Op == token.MUL && u.X == ssa.Value(fl.fv)
	}
	return func(v ssa.Value) (bool, bool) {
		pos := false
		switch x := v.(type) {
		case *ssa.UnOp:
			if !isLoad(x) {
				return false, false
			}
			pos = true
		case *ssa.BinOp:
			if x.Op != token.EQL && x.Op != token.NEQ {
				return false, false
			}
			var c ssa.Value
			switch {
			case isLoad(x.X):
				c = x.Y
			case isLoad(x.Y):
				c = x.X
			default:
				return false, false
			}
			cv, ok := c01ConstBool(c)
			if !ok {
				return false, false
			}
			pos = cv == (x.Op == token.EQL)
		default:
			return false, false
		}
		// pos: the condition is true when the cell holds true
		return true, pos == fl.normal
	}
}

func c01IsRecoverInstr(in ssa.Instruction) bool {
	v, ok := in.(ssa.Value)
	return ok && a1IsRecoverCall(v)
}

// c01Swallows reports a normal return of the deferred closure g that is reachable after g called
// recover() on a path that does not take one of the cut edges (the edges on which the protected
// call is known to have returned normally): on such a path a panic in flight — certainly
// panic(nil), for which recover() answers nil — has been stopped and is not raised again.
func c01Swallows(g *ssa.Function, returnedEdges []core.Edge) ssa.Instruction {
	for _, rc := range core.Instrs(g, c01IsRecoverInstr) {
		// a recover() executed only after the flag said "returned" stops nothing
		if _, ok := core.Reach(core.Q{From: []core.At{core.Entry(g)}, Target: core.Is(rc), Cut: core.CutSet(returnedEdges)}); !ok {
			continue
		}
		if w, ok := core.Reach(core.Q{From: []core.At{core.After(rc)}, Target: core.IsReturn, Cut: core.CutSet(returnedEdges)}); ok {
			return w
		}
	}
	return nil
}

// c01Repanics checks that every panic statement of g raises the value recover() returned.
func c01Repanics(o *core.O, p *core.Prog, g *ssa.Function) {
	for _, in := range core.Instrs(g, func(in ssa.Instruction) bool { _, ok := in.(*ssa.Panic); return ok }) {
		if !a1IsRecoverCall(core.Forward(in.(*ssa.Panic).X)) {
			o.Fail(p.InstrPos(in), "the closure panics with %s, not with the recovered value", core.Describe(in.(*ssa.Panic).X))
		}
	}
}

func c01ReportFlagIssues(o *core.O, p *core.Prog, fl *c01Flag) {
	for _, is := range fl.bad {
		where := p.Pos(fl.cell.Pos())
		if is.at != nil {
			where = p.InstrPos(is.at)
		}
		if is.unres {
			o.Unres("%s: %s", where, is.msg)
		} else {
			o.Fail(where, "%s", is.msg)
		}
	}
}

// c01PickFlag chooses, among the completion flags g can see, the one g branches on.
func c01PickFlag(g *ssa.Function, flags []*c01Flag) *c01Flag {
	for _, fl := range flags {
		h, n := core.EdgesOf(g, fl.returned())
		if len(h) > 0 && len(n) > 0 {
			return fl
		}
	}
	return nil
}
