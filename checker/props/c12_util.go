package props

import (
	"fmt"
	"go/constant"
	"go/token"
	"go/types"
	"sort"
	"strings"

	"godcheck/core"

	"golang.org/x/tools/go/ssa"
)

// c12fn is the analysis context of one top-level method and its closures:
// it resolves values inside closures back to the parameters of the method
// (captured parameters are spilled to cells and reach closures as free
// variables) and computes ordered parameter dependence of call arguments.
type c12fn struct {
	top *ssa.Function
	mcs map[*ssa.Function]*ssa.MakeClosure
}

func newC12fn(top *ssa.Function) *c12fn {
	w := &c12fn{top: top, mcs: map[*ssa.Function]*ssa.MakeClosure{}}
	for _, f := range c12closures(top) {
		for _, b := range f.Blocks {
			for _, in := range b.Instrs {
				if mc, ok := in.(*ssa.MakeClosure); ok {
					w.mcs[mc.Fn.(*ssa.Function)] = mc
				}
			}
		}
	}
	return w
}

// c12closures lists fn and the function literals it creates, transitively: the
// functions named by a MakeClosure (or, for a literal without captures, used as
// a plain function value) in fn or in one of those. Unlike fn.AnonFuncs this
// follows what the code does: a literal that no instruction creates any more
// (it was applied on the spot and inlined by the loader) is not listed, and the
// closure of a helper that was inlined into fn is.
func c12closures(fn *ssa.Function) []*ssa.Function {
	if fn == nil {
		return nil
	}
	out := []*ssa.Function{fn}
	seen := map[*ssa.Function]bool{fn: true}
	for i := 0; i < len(out); i++ {
		for _, b := range out[i].Blocks {
			for _, in := range b.Instrs {
				// A bound method value `x.m` is a closure too: go/ssa creates it with a
				// MakeClosure over the receiver whose function is a synthetic wrapper
				// without a parent (in the loader's variant 2 the wrapper holds the body
				// of a new method m). A named function used as a plain value is not.
				mc, _ := in.(*ssa.MakeClosure)
				for _, op := range in.Operands(nil) {
					g, ok := (*op).(*ssa.Function)
					if !ok || g.Blocks == nil || seen[g] {
						continue
					}
					if g.Parent() != nil || (mc != nil && mc.Fn == ssa.Value(g)) {
						seen[g] = true
						out = append(out, g)
					}
				}
			}
		}
	}
	return out
}

// cellRoot follows a free variable to the cell (Alloc) it is bound to in an enclosing function.
func (w *c12fn) cellRoot(addr ssa.Value) ssa.Value {
	for i := 0; i < 6; i++ {
		fv, ok := addr.(*ssa.FreeVar)
		if !ok {
			return addr
		}
		mc := w.mcs[fv.Parent()]
		if mc == nil {
			return addr
		}
		idx := -1
		for j, x := range fv.Parent().FreeVars {
			if x == fv {
				idx = j
			}
		}
		if idx < 0 || idx >= len(mc.Bindings) {
			return addr
		}
		addr = mc.Bindings[idx]
	}
	return addr
}

// cellStores lists every store to the cell itself (not to sub-addresses),
// in the owning function and in every closure that captures it.
func (w *c12fn) cellStores(cell ssa.Value) []*ssa.Store {
	var out []*ssa.Store
	seen := map[ssa.Value]bool{}
	var visit func(c ssa.Value)
	visit = func(c ssa.Value) {
		if seen[c] || c.Referrers() == nil {
			return
		}
		seen[c] = true
		for _, r := range *c.Referrers() {
			switch x := r.(type) {
			case *ssa.Store:
				if x.Addr == c {
					out = append(out, x)
				}
			case *ssa.MakeClosure:
				fn := x.Fn.(*ssa.Function)
				for i, b := range x.Bindings {
					if b == c && i < len(fn.FreeVars) {
						visit(fn.FreeVars[i])
					}
				}
			}
		}
	}
	visit(cell)
	return out
}

// cellAccesses lists the stores to and the loads of a cell of the top method, in
// the method and in every closure that captures the cell. clean is false when
// the cell's address is used in any other way (passed on, compared, offset):
// then something else may read or write it.
func (w *c12fn) cellAccesses(cell ssa.Value) (stores []*ssa.Store, loads []*ssa.UnOp, clean bool) {
	clean = true
	seen := map[ssa.Value]bool{}
	var visit func(c ssa.Value)
	visit = func(c ssa.Value) {
		if seen[c] {
			return
		}
		seen[c] = true
		if c.Referrers() == nil {
			clean = false
			return
		}
		for _, r := range *c.Referrers() {
			switch x := r.(type) {
			case *ssa.Store:
				if x.Addr == c && x.Val != c {
					stores = append(stores, x)
				} else {
					clean = false
				}
			case *ssa.UnOp:
				if x.Op == token.MUL && x.X == c {
					loads = append(loads, x)
				} else {
					clean = false
				}
			case *ssa.MakeClosure:
				fn := x.Fn.(*ssa.Function)
				for i, b := range x.Bindings {
					if b == c && i < len(fn.FreeVars) {
						visit(fn.FreeVars[i])
					}
				}
			case *ssa.DebugRef:
			default:
				clean = false
			}
		}
	}
	visit(cell)
	return
}

// soleCallOf resolves the one place where the function literal created by mc is
// applied when it is not handed to anyone but called by the method's own code:
// the value is followed through cells that are written once (a parameter of an
// inlined helper that its closure captures) and through by-value captures. nil
// when the value reaches anything but exactly one plain call as the callee
// (passed as an argument, stored elsewhere, deferred, spawned, called twice).
func (w *c12fn) soleCallOf(mc *ssa.MakeClosure) *ssa.Call {
	if mc == nil {
		return nil
	}
	var calls []*ssa.Call
	ok := true
	seen := map[ssa.Value]bool{}
	var follow func(v ssa.Value)
	follow = func(v ssa.Value) {
		if seen[v] || !ok {
			return
		}
		seen[v] = true
		if v.Referrers() == nil {
			ok = false
			return
		}
		for _, r := range *v.Referrers() {
			switch x := r.(type) {
			case *ssa.DebugRef:
			case *ssa.Call:
				if x.Call.Value != v || x.Call.IsInvoke() {
					ok = false
					return
				}
				for _, a := range x.Call.Args {
					if a == v {
						ok = false
						return
					}
				}
				calls = append(calls, x)
			case *ssa.Store:
				cell, isCell := w.cellRoot(x.Addr).(*ssa.Alloc)
				if x.Val != v || !isCell {
					ok = false
					return
				}
				sts, loads, clean := w.cellAccesses(cell)
				if !clean || len(sts) != 1 {
					ok = false
					return
				}
				for _, l := range loads {
					follow(l)
				}
			case *ssa.MakeClosure:
				fn := x.Fn.(*ssa.Function)
				for i, b := range x.Bindings {
					if b == v {
						if i >= len(fn.FreeVars) {
							ok = false
							return
						}
						follow(fn.FreeVars[i])
					}
				}
			default:
				ok = false
				return
			}
		}
	}
	follow(mc)
	if !ok || len(calls) != 1 {
		return nil
	}
	return calls[0]
}

// capturedLoad resolves a load, inside a closure, of a cell of the top method
// (a named result the closure assigns) to the value the closure stored: the
// closure's only store to that cell, which dominates the load. Every other
// store must be in the top method itself (which does not run while the closure
// it handed to a callee runs) and the cell's address must not be used otherwise,
// so nothing can change the cell between that store and the load. Any other
// value, and a load that cannot be resolved, is returned unchanged.
func (w *c12fn) capturedLoad(v ssa.Value) ssa.Value {
	u, ok := v.(*ssa.UnOp)
	if !ok || u.Op != token.MUL || u.Parent() == w.top {
		return v
	}
	cell, ok := w.cellRoot(u.X).(*ssa.Alloc)
	if !ok || cell.Parent() != w.top {
		return v
	}
	sts, _, clean := w.cellAccesses(cell)
	if !clean {
		return v
	}
	var own *ssa.Store
	for _, st := range sts {
		switch st.Parent() {
		case u.Parent():
			if own != nil {
				return v
			}
			own = st
		case w.top:
		default:
			return v
		}
	}
	if own == nil || !core.Dominates(own, u) {
		return v
	}
	return own.Val
}

// paramIndex resolves v to the index of the top method's parameter it denotes
// (receiver = 0): the parameter itself or a load of its never-reassigned spill cell.
func (w *c12fn) paramIndex(v ssa.Value) int {
	idx := func(p *ssa.Parameter) int {
		for i, q := range w.top.Params {
			if q == p {
				return i
			}
		}
		return -1
	}
	if p, ok := v.(*ssa.Parameter); ok {
		return idx(p)
	}
	// a by-value capture (the receiver of a bound method value `r.m`, whose wrapper
	// holds m's body in the loader's variant 2): the free variable IS the value
	// bound at the creation site, and an SSA value never changes.
	if fv, ok := v.(*ssa.FreeVar); ok {
		if _, isPtrCell := fv.Type().(*types.Pointer); isPtrCell {
			if b := w.cellRoot(fv); b != ssa.Value(fv) {
				if _, isCell := b.(*ssa.Alloc); !isCell {
					return w.paramIndex(core.Forward(b))
				}
			}
		}
		return -1
	}
	u, ok := v.(*ssa.UnOp)
	if !ok || u.Op != token.MUL {
		return -1
	}
	al, ok := w.cellRoot(u.X).(*ssa.Alloc)
	if !ok || al.Parent() != w.top {
		return -1
	}
	sts := w.cellStores(al)
	if len(sts) != 1 {
		return -1
	}
	if p, ok := sts[0].Val.(*ssa.Parameter); ok {
		return idx(p)
	}
	return -1
}

// resultCell resolves an address to the top method's named-result (or other
// non-parameter) cell it denotes, nil otherwise.
func (w *c12fn) resultCell(addr ssa.Value) *ssa.Alloc {
	al, ok := w.cellRoot(addr).(*ssa.Alloc)
	if !ok || al.Parent() != w.top {
		return nil
	}
	for _, st := range w.cellStores(al) {
		if _, isP := st.Val.(*ssa.Parameter); isP {
			return nil
		}
	}
	return al
}

// memRoot follows sub-addressing to the allocation / map a load reads from.
func c12memRoot(v ssa.Value) ssa.Value {
	for i := 0; i < 10; i++ {
		switch x := v.(type) {
		case *ssa.FieldAddr:
			v = x.X
		case *ssa.IndexAddr:
			v = x.X
		case *ssa.Slice:
			v = x.X
		default:
			return v
		}
	}
	return v
}

// storesUnder lists the stores to root and to any address derived from it.
func c12storesUnder(root ssa.Value) []*ssa.Store {
	var out []*ssa.Store
	seen := map[ssa.Value]bool{}
	var visit func(v ssa.Value)
	visit = func(v ssa.Value) {
		if seen[v] || v.Referrers() == nil {
			return
		}
		seen[v] = true
		for _, r := range *v.Referrers() {
			switch x := r.(type) {
			case *ssa.Store:
				if x.Addr == v {
					out = append(out, x)
				}
			case *ssa.FieldAddr:
				visit(x)
			case *ssa.IndexAddr:
				visit(x)
			case *ssa.Slice:
				visit(x)
			}
		}
	}
	visit(root)
	return out
}

// deps computes the set of parameters of the top method v is computed from
// (data dependence through conversions, arithmetic, calls on their arguments,
// φ, local memory, locally built maps) and the opaque other sources.
func (w *c12fn) deps(v ssa.Value) (params []int, opaque []string) {
	ps := map[int]bool{}
	op := map[string]bool{}
	seen := map[ssa.Value]bool{}
	var walk func(v ssa.Value)
	walk = func(v ssa.Value) {
		if v == nil || seen[v] {
			return
		}
		seen[v] = true
		if k := w.paramIndex(v); k >= 0 {
			ps[k] = true
			return
		}
		switch x := v.(type) {
		case *ssa.Const, *ssa.Function, *ssa.Builtin:
			return
		case *ssa.Global:
			op["global:"+x.Name()] = true
			return
		case *ssa.Parameter:
			op["closure-param:"+x.Name()] = true
			return
		case *ssa.FreeVar:
			op["captured:"+x.Name()] = true
			return
		case *ssa.Alloc:
			for _, st := range c12storesUnder(x) {
				walk(st.Val)
			}
			return
		case *ssa.MakeMap:
			for _, r := range *x.Referrers() {
				if mu, ok := r.(*ssa.MapUpdate); ok && mu.Map == x {
					walk(mu.Key)
					walk(mu.Value)
				}
			}
			return
		case *ssa.UnOp:
			if x.Op == token.MUL {
				root := w.cellRoot(c12memRoot(x.X))
				switch r := root.(type) {
				case *ssa.Alloc:
					for _, st := range w.cellStores(r) {
						walk(st.Val)
					}
					for _, st := range c12storesUnder(r) {
						walk(st.Val)
					}
					return
				case *ssa.Global:
					op["global:"+r.Name()] = true
					return
				}
			}
		}
		if in, ok := v.(ssa.Instruction); ok {
			for _, o := range in.Operands(nil) {
				if *o != nil {
					walk(*o)
				}
			}
		}
	}
	walk(v)
	for k := range ps {
		params = append(params, k)
	}
	sort.Ints(params)
	for k := range op {
		opaque = append(opaque, k)
	}
	sort.Strings(opaque)
	return
}

// shape is a normal form of v over the top method's parameters ("p<i>"),
// constants and the command's results ("res#i"), insensitive to temporaries,
// value-preserving conversions and operand order of commutative operators.
func (w *c12fn) shape(v ssa.Value, res func(ssa.Value) string) string {
	return w.shapeD(v, res, 0)
}

func (w *c12fn) shapeD(v ssa.Value, res func(ssa.Value) string, d int) string {
	if d > 10 {
		return "…"
	}
	if res != nil {
		if s := res(v); s != "" {
			return s
		}
	}
	if k := w.paramIndex(v); k >= 0 {
		return fmt.Sprintf("p%d", k)
	}
	sh := func(x ssa.Value) string { return w.shapeD(x, res, d+1) }
	switch x := v.(type) {
	case *ssa.Const:
		if x.Value == nil {
			return "nil"
		}
		return x.Value.ExactString()
	case *ssa.Convert:
		return sh(x.X)
	case *ssa.ChangeType:
		return sh(x.X)
	case *ssa.MakeInterface:
		return sh(x.X)
	case *ssa.ChangeInterface:
		return sh(x.X)
	case *ssa.BinOp:
		a, b := sh(x.X), sh(x.Y)
		op := x.Op
		switch op {
		case token.GTR: // normalise a > b to b < a
			a, b, op = b, a, token.LSS
		case token.GEQ:
			a, b, op = b, a, token.LEQ
		}
		switch op {
		case token.MUL, token.ADD, token.EQL, token.NEQ, token.AND, token.OR, token.XOR:
			if bt, isB := x.X.Type().Underlying().(*types.Basic); op == token.ADD && isB && bt.Info()&types.IsString != 0 {
				break // string concatenation is not commutative
			}
			if b < a {
				a, b = b, a
			}
		}
		return "(" + a + op.String() + b + ")"
	case *ssa.Call:
		var as []string
		for _, a := range core.Args(x) {
			as = append(as, sh(a))
		}
		return core.Short(core.CalleeName(x)) + "(" + strings.Join(as, ",") + ")"
	case *ssa.Extract:
		return sh(x.Tuple) + fmt.Sprintf("#%d", x.Index)
	case *ssa.Next:
		return "next(" + sh(x.Iter) + ")"
	case *ssa.Range:
		return "range(" + sh(x.X) + ")"
	case *ssa.Global:
		return "global:" + x.Name()
	case *ssa.UnOp:
		if x.Op == token.MUL {
			if f := core.Forward(x); f != ssa.Value(x) {
				return sh(f)
			}
			switch x.X.(type) {
			case *ssa.IndexAddr, *ssa.FieldAddr:
				return sh(x.X)
			}
			return "*" + sh(x.X)
		}
		return x.Op.String() + sh(x.X)
	case *ssa.IndexAddr:
		return sh(x.X) + "[" + sh(x.Index) + "]"
	case *ssa.Index:
		return sh(x.X) + "[" + sh(x.Index) + "]"
	case *ssa.FieldAddr:
		return sh(x.X) + "." + core.FieldAddrName(x)
	case *ssa.Field:
		return sh(x.X) + "." + core.FieldAddrName(x)
	case *ssa.MakeMap:
		var es []string
		for _, r := range *x.Referrers() {
			if mu, ok := r.(*ssa.MapUpdate); ok && mu.Map == x {
				es = append(es, sh(mu.Key)+":"+sh(mu.Value))
			}
		}
		sort.Strings(es)
		return "map{" + strings.Join(es, ",") + "}"
	case *ssa.Phi:
		return "phi"
	case *ssa.Alloc:
		return "alloc"
	case *ssa.FreeVar:
		return "captured:" + x.Name()
	}
	return fmt.Sprintf("%T", v)
}

// c12leaf is one scalar position of a command call: a plain argument, a field
// of an option-struct literal, or an element of an implicit variadic slice.
type c12leaf struct {
	v     ssa.Value
	label string
}

// flatten expands option-struct literals (fields in declaration order) and
// locally built fixed-size variadic slices (elements in index order).
func (w *c12fn) flatten(v ssa.Value, label string, d int) []c12leaf {
	if d > 4 {
		return []c12leaf{{v, label}}
	}
	switch x := v.(type) {
	case *ssa.MakeInterface:
		return w.flatten(x.X, label, d+1)
	case *ssa.Alloc:
		st, ok := x.Type().Underlying().(*types.Pointer).Elem().Underlying().(*types.Struct)
		if !ok {
			break
		}
		byField := map[int][]*ssa.Store{}
		clean := true
		for _, r := range *x.Referrers() {
			switch fa := r.(type) {
			case *ssa.FieldAddr:
				for _, rr := range *fa.Referrers() {
					if s, ok := rr.(*ssa.Store); ok && s.Addr == fa {
						byField[fa.Field] = append(byField[fa.Field], s)
					} else {
						clean = false
					}
				}
			case ssa.CallInstruction, *ssa.Store, *ssa.MakeInterface, *ssa.DebugRef:
				// passed on / stored into the variadic slice
			default:
				clean = false
			}
		}
		if !clean {
			break
		}
		var out []c12leaf
		for i := 0; i < st.NumFields(); i++ {
			ss := byField[i]
			if len(ss) == 0 {
				continue
			}
			if len(ss) > 1 {
				return []c12leaf{{v, label}}
			}
			if c, ok := ss[0].Val.(*ssa.Const); ok && (c.Value == nil || c12isZeroConst(c)) {
				continue // the field's zero value written out: same as leaving the field unset
			}
			out = append(out, w.flatten(ss[0].Val, label+"."+st.Field(i).Name(), d+1)...)
		}
		return out
	case *ssa.Slice:
		al, ok := x.X.(*ssa.Alloc)
		if !ok || x.Low != nil || x.High != nil {
			break
		}
		arr, ok := al.Type().Underlying().(*types.Pointer).Elem().Underlying().(*types.Array)
		if !ok {
			break
		}
		elems := map[int64]*ssa.Store{}
		clean := true
		for _, r := range *al.Referrers() {
			switch ia := r.(type) {
			case *ssa.IndexAddr:
				k, isC := core.ConstInt(ia.Index)
				if !isC {
					clean = false
					continue
				}
				for _, rr := range *ia.Referrers() {
					if s, ok := rr.(*ssa.Store); ok && s.Addr == ia && elems[k] == nil {
						elems[k] = s
					} else {
						clean = false
					}
				}
			case *ssa.Slice, *ssa.DebugRef:
			default:
				clean = false
			}
		}
		if !clean || int64(len(elems)) != arr.Len() {
			break
		}
		var out []c12leaf
		for i := int64(0); i < arr.Len(); i++ {
			out = append(out, w.flatten(elems[i].Val, fmt.Sprintf("%s[%d]", label, i), d+1)...)
		}
		return out
	}
	return []c12leaf{{v, label}}
}

// returnsResultsOf reports the first return reachable after call whose results
// are not exactly the results of call, in order ("" when all are).
func c12returnsResultsOf(p *core.Prog, fn *ssa.Function, call *ssa.Call) string {
	n := 0
	for _, ret := range core.Returns(fn) {
		if _, ok := core.Reach(core.Q{From: []core.At{core.After(call)}, Target: core.Is(ret)}); !ok {
			continue
		}
		n++
		for i := range ret.Results {
			c, idx := core.ResultOf(core.Result(ret, i))
			if c != call || idx != i {
				return fmt.Sprintf("%s: result #%d is %s, not result #%d of the delegated call", p.InstrPos(ret), i, core.Describe(core.Result(ret, i)), i)
			}
		}
		if tup, ok := call.Type().(*types.Tuple); ok && tup.Len() != len(ret.Results) {
			return fmt.Sprintf("%s: returns %d results of a %d-result call", p.InstrPos(ret), len(ret.Results), tup.Len())
		}
	}
	if n == 0 {
		return p.InstrPos(call) + ": no return after the delegated call"
	}
	return ""
}

// c12staticCallsOn lists the static method calls in fn whose receiver type is *rel.typ (not defer/go).
func c12methodCalls(fn *ssa.Function, recvPrefix string) []*ssa.Call {
	var out []*ssa.Call
	for _, in := range core.Instrs(fn, func(in ssa.Instruction) bool {
		c, ok := in.(*ssa.Call)
		return ok && strings.HasPrefix(core.Short(core.CalleeName(c)), recvPrefix)
	}) {
		out = append(out, in.(*ssa.Call))
	}
	return out
}

func c12methodName(c ssa.CallInstruction) string {
	n := core.CalleeName(c)
	if i := strings.LastIndex(n, ")."); i >= 0 {
		return n[i+2:]
	}
	return n
}

// isCtxBackground matches a call result of context.Background() / context.TODO().
func c12isEmptyCtx(v ssa.Value) bool {
	c, ok := core.Strip(v).(*ssa.Call)
	if !ok {
		return false
	}
	n := core.CalleeName(c)
	return n == "context.Background" || n == "context.TODO"
}

func c12ints(xs []int) string {
	var s []string
	for _, x := range xs {
		s = append(s, fmt.Sprint(x))
	}
	return strings.Join(s, ",")
}

// c12isZeroConst reports whether c is the zero value of its (basic) type.
func c12isZeroConst(c *ssa.Const) bool {
	if c.Value == nil {
		return true
	}
	switch c.Value.Kind() {
	case constant.Int, constant.Float:
		return constant.Sign(c.Value) == 0
	case constant.String:
		return constant.StringVal(c.Value) == ""
	case constant.Bool:
		return !constant.BoolVal(c.Value)
	}
	return false
}
