package props

import (
	"go/token"
	"go/types"
	"strings"

	"godcheck/core"

	"golang.org/x/tools/go/ssa"
)

// Helpers shared by the C14 / C15 / C19 rule tables (prefix gx to avoid clashes).

// gxLast is the terminator of block b.
func gxLast(b *ssa.BasicBlock) ssa.Instruction { return b.Instrs[len(b.Instrs)-1] }

// gxEdgeReachable reports whether the CFG edge e can be taken on a path from
// the entry of fn that uses no edge of cut.
func gxEdgeReachable(fn *ssa.Function, e core.Edge, cut []core.Edge) bool {
	cs := core.CutSet(cut)
	if cs(e) {
		return false
	}
	if e.From == fn.Blocks[0] {
		return true
	}
	// the terminator of e.From is reached iff the head of e.From is
	_, ok := core.Reach(core.Q{From: []core.At{core.Entry(fn)}, Target: core.Is(gxLast(e.From)), Cut: cs})
	return ok
}

// gxPhiLeaves expands φ-nodes: the non-φ values that may flow into v, each with
// the CFG edges (pred → φ-block) through which it enters the outermost φ.
func gxPhiLeaves(v ssa.Value) []ssa.Value {
	var out []ssa.Value
	seen := map[ssa.Value]bool{}
	var walk func(v ssa.Value)
	walk = func(v ssa.Value) {
		if seen[v] {
			return
		}
		seen[v] = true
		if ph, ok := v.(*ssa.Phi); ok {
			for _, e := range ph.Edges {
				walk(e)
			}
			return
		}
		out = append(out, v)
	}
	walk(v)
	return out
}

// gxAtomicOn matches a call to sync/atomic.<fn> whose first argument is the
// address of field "T.f"; fns lists the accepted function names.
func gxAtomicOn(tf string, fns ...string) func(ssa.Instruction) bool {
	return func(in ssa.Instruction) bool {
		c, ok := in.(*ssa.Call)
		if !ok {
			return false
		}
		n := core.CalleeName(c)
		if !strings.HasPrefix(n, "sync/atomic.") {
			return false
		}
		okName := false
		for _, f := range fns {
			if n == "sync/atomic."+f {
				okName = true
			}
		}
		return okName && len(c.Call.Args) > 0 && core.FieldAddrName(c.Call.Args[0]) == tf
	}
}

// gxAtomicLoadOf matches values that are atomic loads of field "T.f".
func gxAtomicLoadOf(tf string) func(ssa.Value) bool {
	m := gxAtomicOn(tf, "LoadUint64", "LoadInt64", "LoadUint32", "LoadInt32")
	return func(v ssa.Value) bool {
		c, ok := core.Strip(core.Forward(v)).(*ssa.Call)
		return ok && m(c)
	}
}

// gxFieldBase returns the object whose field is addressed by a FieldAddr
// argument (the x of &x.f), forwarded through local slots.
func gxFieldBase(addr ssa.Value) ssa.Value {
	fa, ok := addr.(*ssa.FieldAddr)
	if !ok {
		return nil
	}
	return core.Forward(fa.X)
}

// gxSame reports whether two values denote the same object: one SSA register,
// or structurally equal access paths of parameters / captured variables.
func gxSame(a, b ssa.Value) bool {
	if a == nil || b == nil {
		return false
	}
	a, b = core.Forward(a), core.Forward(b)
	if a == b {
		return true
	}
	da, db := core.Describe(a), core.Describe(b)
	if da != db {
		return false
	}
	return strings.HasPrefix(da, "param:") || strings.HasPrefix(da, "freevar:")
}

// gxCmpInt normalises an integer comparison `x > k` / `x >= k` / `k < x` … on
// a value satisfying isX to the strict form x > k; ok=false when v is not such
// a comparison.
func gxGreaterThan(v ssa.Value, isX func(ssa.Value) bool) (k int64, ok bool) {
	b, isB := v.(*ssa.BinOp)
	if !isB {
		return 0, false
	}
	op, x, y := b.Op, b.X, b.Y
	if !isX(x) {
		if !isX(y) {
			return 0, false
		}
		x, y = y, x
		switch op {
		case token.LSS:
			op = token.GTR
		case token.LEQ:
			op = token.GEQ
		case token.GTR:
			op = token.LSS
		case token.GEQ:
			op = token.LEQ
		}
	}
	c, isC := core.ConstInt(y)
	if !isC {
		return 0, false
	}
	switch op {
	case token.GTR:
		return c, true
	case token.GEQ:
		return c - 1, true
	}
	return 0, false
}

// gxClosureOf resolves a function value to the closure it denotes: a
// MakeClosure, or the result of a call to an in-module function all of whose
// returns yield a MakeClosure of one function. It returns the closure's
// function and, for every free variable, the value bound to it expressed in
// the scope of `at` (the function containing v): parameters of the maker are
// replaced by the call's arguments.
func gxClosureOf(v ssa.Value) (fn *ssa.Function, bind map[string]ssa.Value) {
	v = core.Forward(v)
	bindOf := func(mc *ssa.MakeClosure) map[string]ssa.Value {
		m := map[string]ssa.Value{}
		f := mc.Fn.(*ssa.Function)
		for i, fv := range f.FreeVars {
			b := mc.Bindings[i]
			// captured variables are bound by address: take the unique stored value
			if al, ok := b.(*ssa.Alloc); ok {
				var st *ssa.Store
				n := 0
				for _, r := range *al.Referrers() {
					if s, ok := r.(*ssa.Store); ok && s.Addr == al {
						st, n = s, n+1
					}
				}
				if n == 1 {
					b = st.Val
				}
			}
			m[fv.Name()] = b
		}
		return m
	}
	switch x := v.(type) {
	case *ssa.MakeClosure:
		return x.Fn.(*ssa.Function), bindOf(x)
	case *ssa.Call:
		callee := x.Call.StaticCallee()
		if callee == nil || callee.Blocks == nil {
			return nil, nil
		}
		var mc *ssa.MakeClosure
		for _, ret := range core.Returns(callee) {
			if len(ret.Results) != 1 {
				return nil, nil
			}
			m, ok := core.Result(ret, 0).(*ssa.MakeClosure)
			if !ok || (mc != nil && mc.Fn != m.Fn) {
				return nil, nil
			}
			mc = m
		}
		if mc == nil {
			return nil, nil
		}
		b := bindOf(mc)
		for k, val := range b {
			if pa, ok := val.(*ssa.Parameter); ok {
				for i, cp := range callee.Params {
					if cp == pa && i < len(x.Call.Args) {
						b[k] = x.Call.Args[i]
					}
				}
			}
		}
		return mc.Fn.(*ssa.Function), b
	}
	return nil, nil
}

// gxFreeVarOf returns the name of the captured variable whose content v loads ("" otherwise).
func gxFreeVarOf(v ssa.Value) string {
	v = core.Strip(v)
	if u, ok := v.(*ssa.UnOp); ok && u.Op == token.MUL {
		v = u.X
	}
	if fv, ok := v.(*ssa.FreeVar); ok {
		return fv.Name()
	}
	return ""
}

// gxReportImbalance reports functions whose returns disagree on the held
// lock-set. Functions that release through `defer x.Unlock()` are skipped: the
// engine does not model RunDefers, so a return taken before the Lock and one
// taken after Lock+defer look different although both end with the lock free.
func gxReportImbalance(o *core.O, p *core.Prog, la *core.LockAnalysis) {
	for f, m := range la.Imbalance {
		deferred := false
		for _, in := range core.Instrs(f, func(in ssa.Instruction) bool { _, ok := in.(*ssa.Defer); return ok }) {
			n := core.CalleeName(in.(*ssa.Defer))
			if strings.HasSuffix(n, ").Unlock") || strings.HasSuffix(n, ").RUnlock") {
				deferred = true
			}
		}
		if !deferred {
			o.Fail(p.Pos(f.Pos()), "%s: %s", core.FuncName(f), m)
		}
	}
}

// gxLeavesWithEdges calls fn for every non-φ value that may flow into v; for a
// value entering through a φ, edge is the CFG edge (pred → φ-block) of the
// outermost φ it enters through, nil when v is not a φ.
func gxLeavesWithEdges(v ssa.Value, fn func(leaf ssa.Value, edge *core.Edge)) {
	v = core.Forward(v)
	ph, ok := v.(*ssa.Phi)
	if !ok {
		fn(v, nil)
		return
	}
	for i, e := range ph.Edges {
		edge := core.Edge{From: ph.Block().Preds[i], To: ph.Block()}
		for _, leaf := range gxPhiLeaves(e) {
			ed := edge
			fn(leaf, &ed)
		}
	}
}

// gxAtLeast is the atom "x >= k is established" for an integer x (given by the
// predicate isX): any comparison of x with a constant c whose truth (or falsehood)
// implies x >= k: x > c (c >= k-1), x >= c (c >= k), !(x < c) (c >= k), !(x <= c)
// (c >= k-1), x == c (c >= k), and the mirrored spellings with the constant on the left.
func gxAtLeast(isX func(ssa.Value) bool, k int64) core.Atom {
	return func(v ssa.Value) (bool, bool) {
		b, ok := v.(*ssa.BinOp)
		if !ok {
			return false, false
		}
		op := b.Op
		var c int64
		switch {
		case isX(b.X):
			n, isC := core.ConstInt(b.Y)
			if !isC {
				return false, false
			}
			c = n
		case isX(b.Y):
			n, isC := core.ConstInt(b.X)
			if !isC {
				return false, false
			}
			c = n
			switch op { // c op x  ≡  x op' c
			case token.LSS:
				op = token.GTR
			case token.LEQ:
				op = token.GEQ
			case token.GTR:
				op = token.LSS
			case token.GEQ:
				op = token.LEQ
			}
		default:
			return false, false
		}
		switch op {
		case token.GTR:
			return c >= k-1, true
		case token.GEQ:
			return c >= k, true
		case token.LSS:
			return c >= k, false
		case token.LEQ:
			return c >= k-1, false
		case token.EQL:
			return c >= k, true
		}
		return false, false
	}
}

// gxOptionReadsBeforeApplied: the functional-options idiom. In fn, an option application is a call
// of a function VALUE (not a static callee) whose only argument is the address of a local struct
// (or a pointer held in a local). Returns the loads of a field of such a struct that can still be
// followed by an option application (a value derived before the options ran ignores them), and
// the number of application sites found.
func gxOptionReadsBeforeApplied(fn *ssa.Function) (early []ssa.Instruction, sites int) {
	var apps []ssa.Instruction
	cells := map[ssa.Value]bool{}
	for _, b := range fn.Blocks {
		for _, in := range b.Instrs {
			c, ok := in.(*ssa.Call)
			if !ok || c.Call.IsInvoke() || c.Call.StaticCallee() != nil || len(c.Call.Args) != 1 {
				continue
			}
			if _, isBuiltin := c.Call.Value.(*ssa.Builtin); isBuiltin {
				continue
			}
			a := c.Call.Args[0]
			pt, isPtr := a.Type().Underlying().(*types.Pointer)
			if !isPtr {
				continue
			}
			if _, isStruct := pt.Elem().Underlying().(*types.Struct); !isStruct {
				continue
			}
			apps = append(apps, in)
			cells[core.Forward(a)] = true
		}
	}
	if len(apps) == 0 {
		return nil, 0
	}
	for _, b := range fn.Blocks {
		for _, in := range b.Instrs {
			u, ok := in.(*ssa.UnOp)
			if !ok || u.Op != token.MUL {
				continue
			}
			fa, ok := u.X.(*ssa.FieldAddr)
			if !ok || !cells[core.Forward(fa.X)] {
				continue
			}
			if _, again := core.Reach(core.Q{From: []core.At{core.After(in)}, Target: core.Is(apps...)}); again {
				early = append(early, in)
			}
		}
	}
	return early, len(apps)
}
