package props

import (
	"fmt"
	"go/constant"
	"go/token"
	"go/types"
	"math/big"
	"sort"
	"strings"

	"godcheck/core"

	"golang.org/x/tools/go/ssa"
)

// c16Env hands the roles resolved by c16 to the rules of this file.
type c16Env struct {
	p           *core.Prog
	funcs       []*ssa.Function
	inPkg       map[*ssa.Function]bool
	conts       []containerImpl
	isEnter     func(ssa.Instruction) bool // a plain call that counts one execution into pe.waitGroup
	isRemoveAll func(ssa.Instruction) bool // TaskContainer.RemoveAll
	isExecute   func(ssa.Instruction) bool // TaskContainer.Execute
	async       func(ssa.CallInstruction) bool
	flusher     *ssa.Function // the function that receives from pe.commander in a select (the flusher's loop)
	flSel       *ssa.Select
}

// c16Extra: rules added for missed seeded changes (detection round 8).
func c16Extra(r *core.Run, e *c16Env) {
	defer c16Round10(r, e)
	defer c16Round9(r, e)
	p := e.p

	// ---------- D4: every size trigger is a non-strict threshold ----------
	r.Check("D4/K6/size-trigger-non-strict", "every TaskContainer handed to NewPeriodicalExecutor whose AddTask can ask for a flush (bulk, chunk, sqlx dbInserter) reports true whenever the count/size measured AFTER the task was appended has reached the configured limit – a non-strict threshold (>=, !(<), > limit-1 …) against a limit field or a declared constant of the package [with `>` the batch handed to Execute holds limit+1 tasks: `a bulk batch never exceeds the configured task count`, `the size or byte threshold being reached` flushes]", func(o *core.O) {
		if !o.Need(len(e.conts) >= 4, "TaskContainer implementations (bulk, chunk, dbInserter, metrics)") {
			return
		}
		known := map[string]bool{}
		for _, ci := range e.conts {
			known[ci.rel+"."+ci.typ] = true
		}
		// scope: the dynamic type of every container handed to NewPeriodicalExecutor is examined
		ctor := p.Func(exPkg, "", "NewPeriodicalExecutor")
		if !o.Need(ctor != nil, "executors.NewPeriodicalExecutor") {
			return
		}
		nCtor := 0
		var rels []string
		for path := range p.SSAPkgs {
			rels = append(rels, strings.TrimPrefix(strings.TrimPrefix(path, core.Mod), "/"))
		}
		sort.Strings(rels)
		for _, rel := range rels {
			for _, f := range p.PkgFuncs(rel) {
				for _, in := range core.Instrs(f, func(in ssa.Instruction) bool {
					c := core.AsCall(in)
					return c != nil && c.Common().StaticCallee() == ctor
				}) {
					nCtor++
					args := core.AsCall(in).Common().Args
					if len(args) < 2 {
						continue
					}
					name := c16DynTypeName(args[1])
					if name == "" {
						o.Unres("%s: the container handed to NewPeriodicalExecutor is %s: its type is not understood, its size trigger is not examined", p.InstrPos(in), core.Describe(args[1]))
					} else if !known[name] {
						o.Unres("%s: container type %s handed to NewPeriodicalExecutor is not among the examined TaskContainer implementations", p.InstrPos(in), name)
					}
				}
			}
		}
		if nCtor < 4 {
			o.Unres("only %d callers of NewPeriodicalExecutor found (bulk, chunk, sqlx bulk inserter, stat metrics expected)", nCtor)
		}
		triggers := 0
		for _, ci := range e.conts {
			if c16CheckTrigger(o, p, ci) {
				triggers++
			}
		}
		if triggers < 3 && o.OK() {
			o.Unres("only %d containers with a size trigger found (bulk, chunk, dbInserter expected)", triggers)
		}
	})

	// ---------- D3: executions are counted before the tasks leave the container ----------
	r.Check("D3/K3/enters-before-tasks-leave-container", "in every function of the package that takes the tasks out of the container (RemoveAll, directly or through a helper/closure that does not itself execute) and executes afterwards, the execution is counted into the wait group (enterExecution) before the removal, or at the latest before the lock hold of the removal ends [otherwise the removed tasks are for a moment neither in the container nor counted: a concurrent Wait finds nothing to flush and a zero wait group and returns before they ran: `Wait returns only after every task added before it has finished executing`, for the tick and for a foreign Flush]", func(o *core.O) {
		pf := &c16Perf{inPkg: e.inPkg, async: e.async, memo: map[string]int{}}
		isPlain := func(in ssa.Instruction) bool { _, ok := in.(*ssa.Call); return ok }
		removes := func(in ssa.Instruction) bool {
			return isPlain(in) && pf.at(in, "rem", e.isRemoveAll) && !pf.at(in, "exe", e.isExecute)
		}
		executes := func(in ssa.Instruction) bool {
			if _, isGo := in.(*ssa.Go); isGo {
				return false
			}
			return core.AsCall(in) != nil && pf.at(in, "exe", e.isExecute)
		}
		n := 0
		for _, f := range e.funcs {
			for _, rm := range core.Instrs(f, removes) {
				if _, then := core.Reach(core.Q{From: []core.At{core.After(rm)}, Target: executes}); !then {
					continue // the batch goes elsewhere (the add path hands it to the flusher, counted by inflight)
				}
				n++
				o.Site(1, core.FuncName(f))
				rm := rm
				enterElsewhere := func(in ssa.Instruction) bool { return in != rm && e.isEnter(in) }
				if core.Precedes(f, enterElsewhere, core.Is(rm)) == nil && len(core.Instrs(f, enterElsewhere)) > 0 {
					continue
				}
				// not before the removal: then within the lock hold of the removal, i.e. in the
				// function that calls RemoveAll, between that call and the release of the lock
				// (an explicit Unlock, or the function's exit when the release is deferred /
				// left to the caller)
				late := false
				for _, g := range c16RemovalBodies(pf, rm, e) {
					for _, call := range core.Instrs(g, func(in ssa.Instruction) bool { return isPlain(in) && e.isRemoveAll(in) }) {
						isUnlock := func(in ssa.Instruction) bool {
							_, plainCall := in.(*ssa.Call)
							return plainCall && core.CallTo("(*sync.Mutex).Unlock", "(*sync.RWMutex).Unlock", "(sync.Locker).Unlock")(in)
						}
						if len(core.Instrs(g, e.isEnter)) > 0 && core.Precedes(g, e.isEnter, core.Is(call)) == nil {
							continue // counted before the removal, inside the helper
						}
						if _, bad := core.Reach(core.Q{From: []core.At{core.After(call)}, Target: core.Or(core.IsExit, isUnlock), Blocked: e.isEnter}); bad {
							late = true
						}
					}
				}
				if late {
					o.Fail(p.InstrPos(rm), "%s takes the tasks out of the container before the execution is counted into the wait group: until enterExecution runs they are neither in the container nor counted, and a concurrent Wait (nothing to flush, wait group zero) returns before they were executed", core.FuncName(f))
				}
			}
		}
		if n == 0 {
			o.Unres("no function that removes the container's tasks and then executes them was found (Flush expected)")
		}
	})
}

// c16DynTypeName: "rel.T" for an interface value made from a *T / T of the module.
func c16DynTypeName(v ssa.Value) string {
	for i := 0; i < 8; i++ {
		v = core.Forward(v)
		switch x := v.(type) {
		case *ssa.MakeInterface:
			t := x.X.Type()
			if pt, ok := t.Underlying().(*types.Pointer); ok {
				t = pt.Elem()
			}
			if nt, ok := t.(*types.Named); ok && nt.Obj().Pkg() != nil {
				return strings.TrimPrefix(strings.TrimPrefix(nt.Obj().Pkg().Path(), core.Mod), "/") + "." + nt.Obj().Name()
			}
			return ""
		case *ssa.ChangeInterface:
			v = x.X
			continue
		}
		r := resolve(v)
		if r == v {
			break
		}
		v = r
	}
	return ""
}

// ---------------------------------------------------------------------------
// "executing this call performs X", through in-package callees and function values
// ---------------------------------------------------------------------------

type c16Perf struct {
	inPkg map[*ssa.Function]bool
	async func(ssa.CallInstruction) bool
	memo  map[string]int // 1 in progress, 2 no, 3 yes
}

// at: does executing the call/defer `in` perform an instruction matched by is
// (tag names is for the memo)? Function values handed to a synchronous call run
// as part of it; `go` statements and goroutine starters do not.
func (w *c16Perf) at(in ssa.Instruction, tag string, is func(ssa.Instruction) bool) bool {
	c := core.AsCall(in)
	if c == nil {
		return false
	}
	if _, isGo := in.(*ssa.Go); isGo {
		return false
	}
	if is(in) {
		return true
	}
	cc := c.Common()
	if !cc.IsInvoke() {
		if _, isB := cc.Value.(*ssa.Builtin); isB {
			return false
		}
		if fv, ok := c16ResolveFn(cc.Value); ok && w.local(fv.body) && w.fn(fv.body, tag, is) {
			return true
		}
	}
	if w.async != nil && w.async(c) {
		return false
	}
	for _, a := range cc.Args {
		if fv, ok := c16ResolveFn(a); ok && w.local(fv.body) && w.fn(fv.body, tag, is) {
			return true
		}
	}
	return false
}

func (w *c16Perf) local(f *ssa.Function) bool {
	return f != nil && (w.inPkg[f] || f.Parent() != nil || f.Synthetic != "")
}

func (w *c16Perf) fn(f *ssa.Function, tag string, is func(ssa.Instruction) bool) bool {
	if f == nil || f.Blocks == nil {
		return false
	}
	k := fmt.Sprintf("%p/%s", f, tag)
	switch w.memo[k] {
	case 1, 2:
		return false
	case 3:
		return true
	}
	w.memo[k] = 1
	r := false
	for _, b := range f.Blocks {
		for _, in := range b.Instrs {
			if !r && w.at(in, tag, is) {
				r = true
			}
		}
	}
	if r {
		w.memo[k] = 3
	} else {
		w.memo[k] = 2
	}
	return r
}

// c16RemovalBodies: the functions run by the call rm (transitively) that call RemoveAll themselves.
func c16RemovalBodies(w *c16Perf, rm ssa.Instruction, e *c16Env) []*ssa.Function {
	var out []*ssa.Function
	seen := map[*ssa.Function]bool{}
	direct := func(f *ssa.Function) bool {
		return len(core.Instrs(f, func(in ssa.Instruction) bool { _, ok := in.(*ssa.Call); return ok && e.isRemoveAll(in) })) > 0
	}
	var visitCall func(in ssa.Instruction)
	visitFn := func(f *ssa.Function) {
		if f == nil || f.Blocks == nil || seen[f] || !w.local(f) {
			return
		}
		seen[f] = true
		if direct(f) {
			out = append(out, f)
		}
		for _, b := range f.Blocks {
			for _, in := range b.Instrs {
				if _, ok := in.(*ssa.Call); ok {
					visitCall(in)
				}
			}
		}
	}
	visitCall = func(in ssa.Instruction) {
		c := core.AsCall(in)
		if c == nil {
			return
		}
		cc := c.Common()
		if !cc.IsInvoke() {
			if fv, ok := c16ResolveFn(cc.Value); ok {
				visitFn(fv.body)
			}
		}
		for _, a := range cc.Args {
			if fv, ok := c16ResolveFn(a); ok {
				visitFn(fv.body)
			}
		}
	}
	if e.isRemoveAll(rm) {
		return []*ssa.Function{rm.Parent()}
	}
	visitCall(rm)
	return out
}

// ---------------------------------------------------------------------------
// size triggers
// ---------------------------------------------------------------------------

// c16CheckTrigger examines one container's AddTask; it reports whether the
// container has a size trigger at all (AddTask can report true).
func c16CheckTrigger(o *core.O, p *core.Prog, ci containerImpl) bool {
	f := ci.add
	state := map[string]bool{}
	for _, s := range ci.state {
		state[s] = true
	}
	// no trigger: every result is the constant false
	never := true
	for _, ret := range core.Returns(f) {
		if len(ret.Results) != 1 {
			o.Unres("%s.AddTask: unexpected result shape", ci.typ)
			return false
		}
		gxLeavesWithEdges(core.Result(ret, 0), func(leaf ssa.Value, _ *core.Edge) {
			if core.Describe(leaf) != "const:false" {
				never = false
			}
		})
	}
	if never {
		o.Site(1, ci.rel+"."+ci.typ+" (no size trigger)")
		return false
	}
	helperSite := map[*ssa.Function]ssa.Instruction{}
	afterStore := func(v ssa.Value, fld string) bool {
		in, ok := v.(ssa.Instruction)
		if !ok {
			return false
		}
		if in.Parent() != f {
			// a value of a helper AddTask calls on its receiver: as of the call
			site, ok := helperSite[in.Parent()]
			if !ok {
				return false
			}
			in = site
		}
		is := core.IsStoreToField(fld)
		return len(core.Instrs(f, is)) > 0 && core.Precedes(f, is, core.Is(in)) == nil
	}
	// updated(v): v is the content of state field fld after AddTask's update of it
	updated := func(v ssa.Value) string {
		v = core.Forward(v)
		if fld := core.FieldAddrNameOfLoad(v); state[fld] && afterStore(v, fld) {
			return fld
		}
		for fld := range state {
			for _, st := range core.StoresToField(f, fld) {
				if st.Val == v {
					return fld
				}
			}
		}
		return ""
	}
	isInt := func(v ssa.Value) bool {
		b, ok := v.Type().Underlying().(*types.Basic)
		return ok && b.Info()&types.IsInteger != 0
	}
	measure := func(v ssa.Value) string {
		v = core.Strip(v)
		if c, ok := v.(*ssa.Call); ok && core.CalleeName(c) == "builtin:len" && len(c.Call.Args) == 1 {
			if fld := updated(c.Call.Args[0]); fld != "" {
				return "M·len(" + fld + ")"
			}
			return ""
		}
		if isInt(v) {
			if fld := updated(v); fld != "" {
				return "M·" + fld
			}
		}
		return ""
	}
	limit := func(v ssa.Value) string {
		v = core.Strip(v)
		fld := core.FieldAddrNameOfLoad(core.Forward(v))
		if strings.HasPrefix(fld, ci.typ+".") && !state[fld] && isInt(v) {
			return "L·" + fld
		}
		return ""
	}
	alg := &core.Alg{
		Opaque: func(v ssa.Value) bool { return measure(v) != "" || limit(v) != "" },
		Name: func(v ssa.Value) string {
			if m := measure(v); m != "" {
				return m
			}
			return limit(v)
		},
	}
	// declared integer constants of the container's package (a constant limit must be one of them)
	consts := map[int64]string{}
	if sp := p.Pkg(ci.rel); sp != nil {
		for name, m := range sp.Members {
			nc, ok := m.(*ssa.NamedConst)
			if !ok || nc.Value == nil || nc.Value.Value == nil || nc.Value.Value.Kind() != constant.Int {
				continue
			}
			if b, ok := nc.Type().(*types.Basic); !ok || b.Info()&types.IsInteger == 0 {
				continue
			}
			if n, exact := constant.Int64Val(nc.Value.Value); exact {
				if old, dup := consts[n]; !dup || name < old {
					consts[n] = name
				}
			}
		}
	}
	var constList []string
	for n, name := range consts {
		constList = append(constList, fmt.Sprintf("%s=%d", name, n))
	}
	sort.Strings(constList)

	// threshold(v): v compares a measure M with T (a limit field + c, or a constant):
	// it is true (pos) / false (!pos) exactly when M >= eff. ok=false: not such a comparison;
	// why != "": such a comparison, but with a threshold above the configured limit.
	type thr struct {
		m, eff string
		pos    bool
		why    string
	}
	threshold := func(v ssa.Value) (thr, bool) {
		b, ok := v.(*ssa.BinOp)
		if !ok {
			return thr{}, false
		}
		switch b.Op {
		case token.GTR, token.GEQ, token.LSS, token.LEQ:
		default:
			return thr{}, false
		}
		if !isInt(b.X) {
			return thr{}, false
		}
		d := alg.Norm(b.X).Sub(alg.Norm(b.Y))
		var ms, ls, other []string
		for _, a := range d.Atoms() {
			switch {
			case strings.HasPrefix(a, "M·"):
				ms = append(ms, a)
			case strings.HasPrefix(a, "L·"):
				ls = append(ls, a)
			default:
				other = append(other, a)
			}
		}
		if len(ms) != 1 || len(other) > 0 || len(ls) > 1 {
			return thr{}, false
		}
		op := b.Op
		coef, rest, lin := d.Coef(ms[0])
		if !lin {
			return thr{}, false
		}
		one := big.NewRat(1, 1)
		if c, isC := coef.IsConst(); !isC || (c.Cmp(one) != 0 && c.Cmp(new(big.Rat).Neg(one)) != 0) {
			return thr{}, false
		} else if c.Sign() < 0 {
			rest, op = rest.Neg(), c16FlipOp(op)
		}
		// M + rest op 0, i.e. M op T with T = −rest
		t := rest.Neg()
		cst := new(big.Rat)
		if len(ls) == 1 {
			lc, lrest, llin := t.Coef(ls[0])
			c, isC := lc.IsConst()
			k, isK := lrest.IsConst()
			if !llin || !isC || c.Cmp(one) != 0 || !isK {
				return thr{}, false
			}
			cst = k
		} else {
			k, isK := t.IsConst()
			if !isK {
				return thr{}, false
			}
			cst = k
		}
		if !cst.IsInt() {
			return thr{}, false
		}
		k := cst.Num().Int64()
		res := thr{m: strings.TrimPrefix(ms[0], "M·")}
		switch op {
		case token.GEQ: // M >= T
			res.pos = true
		case token.GTR: // M > T  ≡  M >= T+1
			res.pos, k = true, k+1
		case token.LSS: // M < T: false exactly when M >= T
			res.pos = false
		case token.LEQ: // M <= T: false exactly when M >= T+1
			res.pos, k = false, k+1
		}
		if len(ls) == 1 {
			l := strings.TrimPrefix(ls[0], "L·")
			res.eff = l
			if k != 0 {
				res.eff = fmt.Sprintf("%s%+d", l, k)
			}
			if k > 0 {
				res.why = fmt.Sprintf("the flush is asked for only when %s >= %s, above the configured limit %s", res.m, res.eff, l)
			}
		} else {
			res.eff = fmt.Sprint(k)
			if _, declared := consts[k]; !declared {
				res.why = fmt.Sprintf("the flush is asked for only when %s >= %d, which is no declared limit of package %s (declared: %s)", res.m, k, ci.rel, strings.Join(constList, ", "))
			}
		}
		return res, true
	}
	// the atom "M has reached the configured limit", established by acceptable comparisons only
	reached := core.Atom(func(v ssa.Value) (bool, bool) {
		t, ok := threshold(v)
		if !ok || t.why != "" {
			return false, false
		}
		return true, t.pos
	})
	_, below := core.EdgesOf(f, reached)
	for _, ret := range core.Returns(f) {
		gxLeavesWithEdges(core.Result(ret, 0), func(leaf ssa.Value, edge *core.Edge) {
			o.Site(1, core.FuncName(f))
			neg := false
			for {
				u, ok := leaf.(*ssa.UnOp)
				if !ok || u.Op != token.NOT {
					break
				}
				leaf, neg = u.X, !neg
			}
			switch core.Describe(leaf) {
			case "const:true", "const:false":
				if (core.Describe(leaf) == "const:true") != neg {
					return // reports true: an early flush never breaks the bound
				}
				// reports false: only where a comparison said the limit is not reached
				// (a path that has not updated the state cannot have reached the limit: it was
				// below it when the previous AddTask returned)
				open := false
				target := core.Is(ret)
				if edge != nil {
					target = core.Is(gxLast(edge.From))
				}
				if edge == nil || !core.CutSet(below)(*edge) {
					for _, st := range core.Instrs(f, func(in ssa.Instruction) bool {
						s, ok := in.(*ssa.Store)
						return ok && state[core.FieldAddrName(s.Addr)]
					}) {
						if _, ok := core.Reach(core.Q{From: []core.At{core.After(st)}, Target: target, Cut: core.CutSet(below)}); ok {
							open = true
						}
					}
				}
				if open {
					// name the offending comparison when there is one
					msg := "no test of the updated count/size against the limit excludes it"
					for _, b := range f.Blocks {
						if iff, ok := gxLast(b).(*ssa.If); ok {
							c := iff.Cond
							for {
								u, ok := c.(*ssa.UnOp)
								if !ok || u.Op != token.NOT {
									break
								}
								c = u.X
							}
							if t, ok := threshold(c); ok && t.why != "" {
								msg = t.why
							}
						}
					}
					o.Fail(p.InstrPos(ret), "%s.AddTask reports `no flush` on a path on which the limit may have been reached (%s): the batch handed to Execute exceeds the limit", ci.typ, msg)
				}
				return
			}
			// one level into a method of the container that computes the answer (`return in.full()`)
			if c, isCall := leaf.(*ssa.Call); isCall && len(f.Params) > 0 && len(c.Call.Args) > 0 && core.Strip(core.Forward(c.Call.Args[0])) == ssa.Value(f.Params[0]) {
				if g := c.Call.StaticCallee(); g != nil && g != f && g.Blocks != nil && g.Signature.Recv() != nil && g.Pkg == f.Pkg {
					if rets := core.Returns(g); len(rets) == 1 && len(rets[0].Results) == 1 {
						helperSite[g] = c
						leaf = core.Result(rets[0], 0)
						for {
							u, ok := leaf.(*ssa.UnOp)
							if !ok || u.Op != token.NOT {
								break
							}
							leaf, neg = u.X, !neg
						}
					}
				}
			}
			t, ok := threshold(leaf)
			switch {
			case !ok:
				o.Unres("%s: %s.AddTask reports %s: not understood as a comparison of the updated count/size with a limit", p.InstrPos(ret), ci.typ, core.Describe(leaf))
			case t.why != "":
				o.Fail(p.InstrPos(ret), "%s.AddTask: %s: the batch handed to Execute exceeds the limit (by a whole task)", ci.typ, t.why)
			case t.pos == neg:
				o.Fail(p.InstrPos(ret), "%s.AddTask reports the flush exactly when %s has NOT reached %s", ci.typ, t.m, t.eff)
			}
		})
	}
	return true
}

func c16FlipOp(op token.Token) token.Token {
	switch op {
	case token.LSS:
		return token.GTR
	case token.GTR:
		return token.LSS
	case token.LEQ:
		return token.GEQ
	case token.GEQ:
		return token.LEQ
	}
	return op
}
