package props

import (
	"go/token"
	"go/types"

	"godcheck/core"

	"golang.org/x/tools/go/ssa"
)

// Rules written for the round-7 seeded changes vm1 (a constant substituted for a number
// whose conversion failed), vm2 (a pointer field dereferenced on the strength of a
// reflect.Kind argument before it was allocated: D9/K1 in c05_panics.go, which uses
// c05KindNeverPointer below) and vm3 (config keys canonicalised only one list deep).
func c05R10(r *core.Run) {
	p := r.P
	var scope []*ssa.Function
	for _, rel := range c05Scope {
		scope = append(scope, p.PkgFuncs(rel)...)
	}
	r.Explanation += " Round 10: in a function that converts a json.Number, a constant takes the place of the document's number (as the text handed to strconv.Parse*, as the operand of SetInt/SetUint/SetFloat or as a number returned with a nil error) only after a numeric conversion of that number succeeded or its text was compared equal to a constant; the rebuilders of the decoded config document (lib/conf) put a document value into the rebuilt map/list, or return it, only as the result of a rebuilder call or after its dynamic type was shown to be neither map[string]any nor []any; a pointer field dereferenced because a reflect.Kind argument says Pointer has passed the allocation step (D9, same chase as for the reflect.Type-keyed dereferences)."
	r.NotDecided += " Round 10, not decided: that the constant substituted equals the number that was converted (only that a conversion succeeded on the path); lists spliced as a whole (append(dst, src...)) in the config rebuilders; that the rebuilt document, not the raw one, is what reaches mapping.UnmarshalJsonMap."

	r.Check("D1/K2/substituted-number-after-conversion", "in a function of the unmarshalling packages that converts a json.Number parameter, a constant stands in for the document's number - as the text parsed by strconv.ParseInt/ParseUint/ParseFloat, as the operand of reflect.Value.SetInt/SetUint/SetFloat, or as a number (or number text) returned together with a nil error - only on paths through the err == nil edge of a numeric conversion of that number (json.Number.Int64/Float64, strconv.Parse*, an in-package (number, error) helper fed with it) or through an equality test of its text with a constant (clause 'every field equals the document's value exactly … or fails with an error': on a path where no conversion succeeded nothing is known about the number's value, so whatever constant is stored is wrong for some document - '-1.5' or '-1e30' into a uint field is loaded as 0 instead of being refused)", func(o *core.O) {
		c05SubstitutedNumberRule(r, o, scope)
	})
	r.Check("D5/K8/config-keys-canonical-at-every-depth", "the functions of lib/conf that rebuild the decoded config document (by role: one parameter and one result of type any, map[string]any or []any) put a document value into the rebuilt map or list, or return it as it is, only (a) as the result of a call of such a rebuilder, (b) as a scalar of a static non-container type, or (c) on a path where its dynamic type was tested and found to be neither map[string]any nor []any; a map[string]any or []any taken out of the document is never stored as it is (clause 'config loading additionally accepts keys written in snake_case or with a different initial letter case', for every struct shape: the unmarshaler looks fields up by the canonical key only, so an object that keeps its original keys - e.g. inside a list of lists - has its snake_case / Go-cased keys ignored: defaults instead of values, 'not set' for required fields)", func(o *core.O) {
		c05CanonDepthRule(r, o, p.PkgFuncs("lib/conf"))
	})
}

// ---------------------------------------------------------------------------
// D9 helper: can the reflect.Kind handed over at call site cs of g be Pointer?

// c05KindNeverPointer: the kind argument ka of the call cs in g is provably not
// reflect.Pointer: a constant other than Pointer; the call is reachable only
// through the false edge of ka == Pointer or the true edge of ka == <another
// kind>; or ka is X.Kind() and the call is reachable only through the true edge
// of a comparison of X with "the type T" (a package-level variable whose only
// store is reflect.TypeOf(<T>), or reflect.TypeOf(<T>) itself) for a T that is
// not a pointer type. Two applications of the same pointer-stripping helper to the
// same type denote the same type (sameTypeX).
func c05KindNeverPointer(g *ssa.Function, cs ssa.CallInstruction, ka ssa.Value, consts map[*ssa.Global]types.Type, strippers map[*ssa.Function]bool) bool {
	if _, isPhi := core.Forward(ka).(*ssa.Phi); isPhi {
		// a kind chosen per branch: every alternative is judged on the edge it comes in by
		all := true
		gxLeavesWithEdges(ka, func(leaf ssa.Value, edge *core.Edge) {
			if !c05KindLeafNeverPointer(g, cs, leaf, edge, consts, strippers) {
				all = false
			}
		})
		return all
	}
	return c05KindLeafNeverPointer(g, cs, ka, nil, consts, strippers)
}

func c05KindLeafNeverPointer(g *ssa.Function, cs ssa.CallInstruction, ka ssa.Value, edge *core.Edge, consts map[*ssa.Global]types.Type, strippers map[*ssa.Function]bool) bool {
	if k, ok := core.ConstInt(ka); ok {
		return k != kindPtr
	}
	site, ok := cs.(ssa.Instruction)
	if !ok {
		return false
	}
	kaF := core.Forward(ka)
	recv, name := typeMethod(kaF)
	isKa := func(v ssa.Value) bool {
		if sameVal(v, ka) {
			return true
		}
		if name != "Kind" {
			return false
		}
		r2, n2 := typeMethod(core.Forward(v))
		return n2 == "Kind" && sameTypeX(r2, recv, strippers)
	}
	atoms := []core.Atom{core.Not(core.Cmp(token.EQL, isKa, core.IsConstInt(kindPtr)))}
	for k := int64(1); k <= 26; k++ {
		if k != kindPtr {
			atoms = append(atoms, core.Cmp(token.EQL, isKa, core.IsConstInt(k)))
		}
	}
	if name == "Kind" {
		isNonPtrType := func(v ssa.Value) bool {
			v = core.Forward(v)
			var T types.Type
			if t := typeOfCall(v); t != nil {
				T = t
			} else if u, ok := v.(*ssa.UnOp); ok && u.Op == token.MUL {
				if gl, ok := u.X.(*ssa.Global); ok {
					T = consts[gl]
				}
			}
			if T == nil {
				return false
			}
			_, isPtr := T.Underlying().(*types.Pointer)
			return !isPtr
		}
		atoms = append(atoms, core.Cmp(token.EQL, func(v ssa.Value) bool { return isReflectType(v.Type()) && sameTypeX(v, recv, strippers) }, isNonPtrType))
	}
	var holds []core.Edge
	for _, a := range atoms {
		h, _ := core.EdgesOf(g, a)
		holds = append(holds, h...)
	}
	if len(holds) == 0 {
		return false
	}
	if edge != nil {
		return !gxEdgeReachable(g, *edge, holds)
	}
	return requiresX(g, core.Is(site), atoms...) == nil
}

// ---------------------------------------------------------------------------
// D1/K2/substituted-number-after-conversion

func c05IsJSONNumber(t types.Type) bool { return isNamedType(t, "encoding/json", "Number") }

func c05IsNumeric(t types.Type) bool {
	b, ok := t.Underlying().(*types.Basic)
	return ok && b.Info()&(types.IsInteger|types.IsFloat) != 0
}

func c05IsErrorType(t types.Type) bool {
	n, ok := t.(*types.Named)
	return ok && n.Obj().Pkg() == nil && n.Obj().Name() == "error"
}

func c05SubstitutedNumberRule(r *core.Run, o *core.O, funcs []*ssa.Function) {
	p := r.P
	n := 0
	for _, f := range funcs {
		if len(f.Blocks) == 0 {
			continue
		}
		var docs []*ssa.Parameter
		for _, pa := range f.Params {
			if c05IsJSONNumber(pa.Type()) {
				docs = append(docs, pa)
			}
		}
		if len(docs) == 0 {
			continue
		}
		isDoc := func(v ssa.Value) bool {
			for _, d := range docs {
				if sameVal(v, d) {
					return true
				}
			}
			return false
		}
		dep := func(v ssa.Value) bool { return core.DependsOn(v, isDoc) }
		// err of a (number, error) conversion fed with the document's number
		convErr := func(v ssa.Value) bool {
			c, idx := core.ResultOf(core.Forward(v))
			if c == nil {
				return false
			}
			res := c.Call.Signature().Results()
			if res.Len() != 2 || idx != 1 || !c05IsNumeric(res.At(0).Type()) || !c05IsErrorType(res.At(1).Type()) {
				return false
			}
			for _, a := range core.Args(c) {
				if dep(a) {
					return true
				}
			}
			return false
		}
		isStr := func(t types.Type) bool {
			b, ok := t.Underlying().(*types.Basic)
			return ok && b.Info()&types.IsString != 0
		}
		known := []core.Atom{
			core.Cmp(token.EQL, convErr, core.IsNil),
			core.Cmp(token.EQL, func(v ssa.Value) bool { return isStr(v.Type()) && dep(v) }, func(v ssa.Value) bool { _, ok := core.ConstString(v); return ok }),
		}
		var holds []core.Edge
		for _, a := range known {
			h, _ := core.EdgesOf(f, a)
			holds = append(holds, h...)
		}
		check := func(at ssa.Instruction, what string, sv ssa.Value) {
			type leafAt struct {
				v ssa.Value
				e *core.Edge
			}
			var leaves []leafAt
			relevant := false
			gxLeavesWithEdges(sv, func(leaf ssa.Value, edge *core.Edge) {
				leaves = append(leaves, leafAt{leaf, edge})
				if _, isConst := core.Strip(leaf).(*ssa.Const); isConst || dep(leaf) {
					relevant = true
				}
			})
			if !relevant {
				return
			}
			n++
			r.Fn(core.FuncName(f))
			for _, l := range leaves {
				c, isConst := core.Strip(l.v).(*ssa.Const)
				if !isConst {
					continue
				}
				open := false
				if l.e != nil {
					if !c05SinkReachableFromEdge(f, *l.e, at) {
						continue // paired with a non-nil error on this edge: it never gets to the sink
					}
					open = gxEdgeReachable(f, *l.e, holds)
				} else {
					open = requiresX(f, core.Is(at), known...) != nil
				}
				if open {
					o.Fail(p.InstrPos(at), "%s: the constant %s takes the place of the document's number as %s on a path on which no numeric conversion of that number has succeeded (and its text was not compared with a constant): a number the conversion rejects - a fraction, an exponent form, a value outside 64 bits - is loaded as %s instead of being refused", core.FuncName(f), c.String(), what, c.String())
				}
			}
		}
		for _, c := range core.Calls(f, core.CallTo("strconv.ParseInt", "strconv.ParseUint", "strconv.ParseFloat")) {
			if in, ok := c.(ssa.Instruction); ok && len(c.Common().Args) > 0 {
				check(in, "the text parsed by "+core.Short(core.CalleeName(c)), c.Common().Args[0])
			}
		}
		for _, c := range core.Calls(f, core.CallTo("(reflect.Value).SetInt", "(reflect.Value).SetUint", "(reflect.Value).SetFloat")) {
			args := core.Args(c)
			if in, ok := c.(ssa.Instruction); ok && len(args) == 2 {
				check(in, "the operand of "+core.Short(core.CalleeName(c)), args[1])
			}
		}
		res := f.Signature.Results()
		if res.Len() >= 2 && c05IsErrorType(res.At(res.Len()-1).Type()) {
			for _, ret := range core.Returns(f) {
				if len(ret.Results) != res.Len() || !core.IsNil(core.Result(ret, res.Len()-1)) {
					continue
				}
				for i := 0; i < res.Len()-1; i++ {
					if c05IsNumeric(res.At(i).Type()) {
						check(ret, "the number returned with a nil error", core.Result(ret, i))
					} else if isStr(res.At(i).Type()) {
						check(ret, "the number's text returned with a nil error", core.Result(ret, i))
					}
				}
			}
		}
	}
	o.Site(n, "number sinks (strconv.Parse* text, SetInt/SetUint/SetFloat operand, number returned with nil error) in functions with a json.Number parameter")
	if n == 0 {
		o.Unres("no function of the unmarshalling packages with a json.Number parameter hands a number derived from it to strconv.Parse* / reflect.Value.SetInt/SetUint/SetFloat or returns one (the JSON number converter by role)")
	}
}

// c05SinkReachableFromEdge: can instruction at be reached after entering block e.To
// through e? One piece of path sensitivity: an `if errφ ==/!= nil` on an error-typed
// φ of e.To is decided by what that φ receives along e - the nil constant means
// nil, anything else is taken to be a non-nil error (this is the shape an inlined
// (text, error) helper leaves behind: the results of its returns merge into one φ
// each and the caller branches on the error; a placeholder constant returned next
// to an error never gets past that branch). Consistently, a constant returned next
// to a non-constant error is not a sink of the rule either.
func c05SinkReachableFromEdge(f *ssa.Function, e core.Edge, at ssa.Instruction) bool {
	idx := -1
	for i, pb := range e.To.Preds {
		if pb == e.From {
			idx = i
		}
	}
	if idx < 0 {
		return true
	}
	dead := map[core.Edge]bool{}
	for _, b := range f.Blocks {
		if len(b.Instrs) == 0 {
			continue
		}
		iff, ok := b.Instrs[len(b.Instrs)-1].(*ssa.If)
		if !ok {
			continue
		}
		cond, flip := iff.Cond, false
		for {
			u, ok := cond.(*ssa.UnOp)
			if !ok || u.Op != token.NOT {
				break
			}
			cond, flip = u.X, !flip
		}
		bo, ok := cond.(*ssa.BinOp)
		if !ok || (bo.Op != token.EQL && bo.Op != token.NEQ) {
			continue
		}
		var phi *ssa.Phi
		if ph, ok := bo.X.(*ssa.Phi); ok && core.IsNil(bo.Y) {
			phi = ph
		} else if ph, ok := bo.Y.(*ssa.Phi); ok && core.IsNil(bo.X) {
			phi = ph
		}
		if phi == nil || phi.Block() != e.To || !c05IsErrorType(phi.Type()) || idx >= len(phi.Edges) {
			continue
		}
		isNil := core.IsNil(phi.Edges[idx])
		truth := isNil == (bo.Op == token.EQL)
		if flip {
			truth = !truth
		}
		if truth {
			dead[core.Edge{From: b, To: b.Succs[1]}] = true
		} else {
			dead[core.Edge{From: b, To: b.Succs[0]}] = true
		}
	}
	if len(dead) == 0 {
		return true
	}
	_, reach := core.Reach(core.Q{From: []core.At{core.Head(e.To)}, Target: core.Is(at), Cut: func(x core.Edge) bool { return dead[x] }})
	return reach
}

// ---------------------------------------------------------------------------
// D5/K8/config-keys-canonical-at-every-depth

func c05IsObjType(t types.Type) bool {
	m, ok := t.Underlying().(*types.Map)
	if !ok || !types.IsInterface(m.Elem()) {
		return false
	}
	b, ok := m.Key().Underlying().(*types.Basic)
	return ok && b.Info()&types.IsString != 0
}

func c05IsListType(t types.Type) bool {
	s, ok := t.Underlying().(*types.Slice)
	return ok && types.IsInterface(s.Elem())
}

func c05IsDocType(t types.Type) bool {
	if _, isTP := t.(*types.TypeParam); isTP {
		return false
	}
	if c05IsErrorType(t) {
		return false
	}
	return types.IsInterface(t) || c05IsObjType(t) || c05IsListType(t)
}

// c05Rebuilders: by role, the functions with exactly one document-typed parameter
// (any, map[string]any, []any; a receiver is not counted) and exactly one result,
// also document-typed, that either test the dynamic type of the parameter against a
// container type or build a new container of document values.
func c05Rebuilders(funcs []*ssa.Function) map[*ssa.Function]*ssa.Parameter {
	out := map[*ssa.Function]*ssa.Parameter{}
	for _, f := range funcs {
		if len(f.Blocks) == 0 || f.Signature.Results().Len() != 1 || !c05IsDocType(f.Signature.Results().At(0).Type()) {
			continue
		}
		var doc *ssa.Parameter
		cnt := 0
		for _, pa := range f.Params {
			if c05IsDocType(pa.Type()) {
				doc = pa
				cnt++
			}
		}
		if cnt != 1 {
			continue
		}
		role := false
		for _, b := range f.Blocks {
			for _, in := range b.Instrs {
				switch x := in.(type) {
				case *ssa.TypeAssert:
					if x.CommaOk && (c05IsObjType(x.AssertedType) || c05IsListType(x.AssertedType)) {
						role = true
					}
				case *ssa.MakeMap:
					if c05IsObjType(x.Type()) {
						role = true
					}
				case *ssa.MakeSlice:
					if c05IsListType(x.Type()) {
						role = true
					}
				case *ssa.Call:
					if b, ok := x.Call.Value.(*ssa.Builtin); ok && b.Name() == "append" && c05IsListType(x.Type()) {
						role = true
					}
				}
			}
		}
		if role {
			out[f] = doc
		}
	}
	return out
}

// c05ListElemStore: st writes an element of a list that is being built: an element
// of the varargs array of an append to a []any, or an element of a made []any.
func c05ListElemStore(st *ssa.Store) bool {
	ia, ok := st.Addr.(*ssa.IndexAddr)
	if !ok || !types.IsInterface(st.Val.Type()) {
		return false
	}
	base := core.Forward(ia.X)
	switch x := base.(type) {
	case *ssa.Alloc: // new [n]any (varargs) → slice → append(dst, slice...)
		if x.Referrers() == nil {
			return false
		}
		for _, rf := range *x.Referrers() {
			sl, ok := rf.(*ssa.Slice)
			if !ok || sl.Referrers() == nil {
				continue
			}
			for _, rf2 := range *sl.Referrers() {
				if c, ok := rf2.(*ssa.Call); ok {
					if b, ok := c.Call.Value.(*ssa.Builtin); ok && b.Name() == "append" && len(c.Call.Args) == 2 && c.Call.Args[1] == ssa.Value(sl) && c05IsListType(c.Type()) {
						return true
					}
				}
			}
		}
		return false
	case *ssa.MakeSlice:
		return c05IsListType(x.Type())
	case *ssa.Slice:
		_, made := core.Forward(x.X).(*ssa.MakeSlice)
		return made && c05IsListType(x.Type())
	}
	return false
}

func c05CanonDepthRule(r *core.Run, o *core.O, funcs []*ssa.Function) {
	p := r.P
	fam := c05Rebuilders(funcs)
	if len(fam) == 0 {
		o.Unres("no function of lib/conf with one parameter and one result of type any / map[string]any / []any that tests the parameter's dynamic type or builds a container (the config document rebuilders by role)")
		return
	}
	n := 0
	for f := range fam {
		f := f
		r.Fn(core.FuncName(f))
		// excluded: instruction at (entered through edge e when e != nil) is reachable only
		// after x's dynamic type failed a test against a type satisfying isK.
		excluded := func(at ssa.Instruction, e *core.Edge, x ssa.Value, isK func(types.Type) bool) bool {
			var cut []core.Edge
			for _, in := range core.Instrs(f, func(in ssa.Instruction) bool {
				ta, ok := in.(*ssa.TypeAssert)
				return ok && ta.CommaOk && isK(ta.AssertedType) && (sameVal(ta.X, x) || sameDoc(ta.X, x))
			}) {
				ta := in.(*ssa.TypeAssert)
				okOf := core.BoolVal(func(v ssa.Value) bool {
					ex, ok := v.(*ssa.Extract)
					return ok && ex.Tuple == ssa.Value(ta) && ex.Index == 1
				})
				_, fails := core.EdgesOf(f, okOf)
				cut = append(cut, fails...)
			}
			if len(cut) == 0 {
				return false
			}
			if e != nil {
				return !gxEdgeReachable(f, *e, cut)
			}
			_, reach := core.Reach(core.Q{From: []core.At{core.Entry(f)}, Target: core.Is(at), Cut: core.CutSet(cut)})
			return !reach
		}
		var judge func(at ssa.Instruction, e *core.Edge, v ssa.Value, what string, depth int)
		judge = func(at ssa.Instruction, e *core.Edge, v ssa.Value, what string, depth int) {
			v = core.Forward(v)
			switch x := v.(type) {
			case *ssa.Const:
				return
			case *ssa.MakeInterface:
				if !c05IsDocType(x.X.Type()) {
					return // a scalar of a static non-container type
				}
				judge(at, e, x.X, what, depth)
				return
			case *ssa.ChangeInterface:
				judge(at, e, x.X, what, depth)
				return
			case *ssa.ChangeType:
				judge(at, e, x.X, what, depth)
				return
			case *ssa.Phi:
				if depth > 4 {
					break
				}
				for i, ed := range x.Edges {
					edge := core.Edge{From: x.Block().Preds[i], To: x.Block()}
					if e != nil {
						edge = *e // the outermost φ decides the path
					}
					judge(at, &edge, ed, what, depth+1)
				}
				return
			case *ssa.Call:
				if h := staticCallee(x); h != nil {
					if _, ok := fam[h]; ok {
						return // rebuilt by a rebuilder
					}
				}
				if b, ok := x.Call.Value.(*ssa.Builtin); ok && b.Name() == "append" && c05IsListType(x.Type()) {
					return // the list being built here (its element stores are judged)
				}
			case *ssa.MakeMap, *ssa.MakeSlice:
				return // the container being built here
			}
			if c05IsObjType(v.Type()) || c05IsListType(v.Type()) {
				o.Fail(p.InstrPos(at), "%s: %s is %s, a container taken out of the document and handed on without being rebuilt: the objects below it keep their original keys, so snake_case or differently cased keys in them are not found by the unmarshaler (fields silently take their default or are reported as not set)", core.FuncName(f), what, core.Describe(v))
				return
			}
			if !types.IsInterface(v.Type()) {
				return
			}
			okObj := excluded(at, e, v, c05IsObjType)
			okList := excluded(at, e, v, c05IsListType)
			if okObj && okList {
				return
			}
			missing := "map[string]any"
			if okObj {
				missing = "[]any"
			} else if !okList {
				missing = "map[string]any nor []any"
			}
			o.Fail(p.InstrPos(at), "%s: %s is the document value %s as it is, on a path where its dynamic type was not shown to be other than %s: an object inside it (e.g. in a list nested in a list) keeps its original keys, so snake_case or differently cased keys there are not found by the unmarshaler (fields silently take their default or are reported as not set)", core.FuncName(f), what, core.Describe(v), missing)
		}
		for _, b := range f.Blocks {
			for _, in := range b.Instrs {
				switch x := in.(type) {
				case *ssa.MapUpdate:
					if c05IsObjType(x.Map.Type()) {
						n++
						judge(in, nil, x.Value, "the value stored into the rebuilt map", 0)
					}
				case *ssa.Store:
					if c05ListElemStore(x) {
						n++
						judge(in, nil, x.Val, "the element put into the rebuilt list", 0)
					}
				case *ssa.Return:
					if b == f.Recover || len(x.Results) != 1 {
						continue
					}
					n++
					judge(in, nil, core.Result(x, 0), "the value returned", 0)
				}
			}
		}
	}
	o.Site(n, "map updates, list element stores and returns of the config document rebuilders of lib/conf")
}
