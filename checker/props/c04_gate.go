package props

// C04 helpers for a gate that is a handler OBJECT instead of a closure (rf7 C04-r7): the
// variables the per-route closure captured (parser, secret, options, next) became the fields
// of an unexported struct that is returned as http.Handler, the closure its ServeHTTP method.
// The struct escapes into an interface, so the loader cannot split it; the fields are
// resolved here, for the whole type: a field of an unexported struct type of the package can
// only be written by the package itself, so — when no value of the type is ever zero, converted
// from another type, and no field address is handed on — a load of T.f anywhere stands for the
// values the package stores into T.f (the composite literal(s) that build the object).

import (
	"go/token"
	"go/types"
	"strings"

	"godcheck/core"

	"golang.org/x/tools/go/ssa"
)

// c04StructOf: the named unexported struct type of the module behind t (T or *T), or nil.
func c04StructOf(t types.Type) *types.Named {
	if pt, ok := t.Underlying().(*types.Pointer); ok {
		t = pt.Elem()
	}
	n, ok := t.(*types.Named)
	if !ok || n.Obj() == nil || n.Obj().Pkg() == nil || n.Obj().Exported() {
		return nil
	}
	if !strings.HasPrefix(n.Obj().Pkg().Path(), core.Mod+"/") {
		return nil
	}
	if _, ok := n.Underlying().(*types.Struct); !ok {
		return nil
	}
	return n
}

// c04FieldRead decomposes a read of a field of a value of an unexported struct type of the
// module (x.f through a pointer or of a struct value): the type and the field index.
func c04FieldRead(v ssa.Value) (*types.Named, int, bool) {
	switch x := v.(type) {
	case *ssa.UnOp:
		if x.Op != token.MUL {
			return nil, 0, false
		}
		if fa, ok := x.X.(*ssa.FieldAddr); ok {
			if n := c04StructOf(fa.X.Type()); n != nil {
				return n, fa.Field, true
			}
		}
	case *ssa.Field:
		if n := c04StructOf(x.X.Type()); n != nil {
			return n, x.Field, true
		}
	}
	return nil, 0, false
}

// c04FieldSources lists the values the package stores into field `field` of the unexported
// struct type n. closed=false when the field may hold something else: a value of the type
// that is (partly) zero (an object created without setting the field, a zero constant), a
// conversion from another struct type, a field address that is handed on, an exported field.
func c04FieldSources(p *core.Prog, n *types.Named, field int) (srcs []ssa.Value, closed bool) {
	st, ok := n.Underlying().(*types.Struct)
	if !ok || field < 0 || field >= st.NumFields() || st.Field(field).Exported() || st.Field(field).Embedded() {
		return nil, false
	}
	rel := strings.TrimPrefix(n.Obj().Pkg().Path(), core.Mod+"/")
	isT := func(t types.Type) bool { return types.Identical(t, n) }
	isPtrT := func(t types.Type) bool {
		pt, ok := t.Underlying().(*types.Pointer)
		return ok && isT(pt.Elem())
	}
	if sp := p.Pkg(rel); sp != nil {
		for _, m := range sp.Members {
			if g, ok := m.(*ssa.Global); ok && isPtrT(g.Type()) {
				return nil, false // a package-level variable of the type starts out zero
			}
		}
	}
	closed = true
	for _, f := range b2PkgFuncs(p, rel) {
		for _, b := range f.Blocks {
			for _, in := range b.Instrs {
				for _, op := range in.Operands(nil) {
					if c, ok := (*op).(*ssa.Const); ok && c != nil && isT(c.Type()) {
						closed = false // the zero value of the type
					}
				}
				switch x := in.(type) {
				case *ssa.ChangeType:
					if isT(x.Type()) || isPtrT(x.Type()) {
						closed = false
					}
				case *ssa.Convert:
					if isT(x.Type()) || isPtrT(x.Type()) {
						closed = false
					}
				case *ssa.Alloc:
					if !isPtrT(x.Type()) || x.Referrers() == nil {
						continue
					}
					// a fresh object: the field is set there, or the whole object is copied from another one
					set := false
					for _, r := range *x.Referrers() {
						switch y := r.(type) {
						case *ssa.FieldAddr:
							if y.X == ssa.Value(x) && y.Field == field && y.Referrers() != nil {
								for _, rr := range *y.Referrers() {
									if s, ok := rr.(*ssa.Store); ok && s.Addr == ssa.Value(y) && s.Block() == x.Block() {
										set = true
									}
								}
							}
						case *ssa.Store:
							if y.Addr == ssa.Value(x) {
								set = true
							}
						}
					}
					if !set {
						closed = false
					}
				case *ssa.FieldAddr:
					if !isPtrT(x.X.Type()) || x.Field != field || x.Referrers() == nil {
						continue
					}
					for _, r := range *x.Referrers() {
						switch y := r.(type) {
						case *ssa.Store:
							if y.Addr != ssa.Value(x) {
								closed = false // &x.f stored somewhere
								continue
							}
							srcs = append(srcs, y.Val)
						case *ssa.UnOp:
							if y.Op != token.MUL {
								closed = false
							}
						case *ssa.DebugRef:
						default:
							closed = false // &x.f handed on
						}
					}
				}
			}
		}
	}
	return srcs, closed
}

// c04Origins is b2Origins that also looks through the fields of a handler object: an
// origin that is a read of a field of an unexported struct type stands for what the package
// stores into that field (when that is all the field can hold).
func c04Origins(p *core.Prog, v ssa.Value) []ssa.Value {
	var out []ssa.Value
	seen := map[ssa.Value]bool{}
	var walk func(v ssa.Value, depth int)
	walk = func(v ssa.Value, depth int) {
		for _, o := range b2Origins(p, v) {
			if seen[o] {
				continue
			}
			seen[o] = true
			if n, field, ok := c04FieldRead(o); ok && depth < 4 {
				if srcs, closed := c04FieldSources(p, n, field); closed && len(srcs) > 0 {
					for _, s := range srcs {
						walk(s, depth+1)
					}
					continue
				}
			}
			out = append(out, o)
		}
	}
	walk(v, 0)
	return out
}

func c04AllOrigins(p *core.Prog, v ssa.Value, pred func(ssa.Value) bool) bool {
	os := c04Origins(p, v)
	if len(os) == 0 {
		return false
	}
	for _, o := range os {
		if !pred(o) {
			return false
		}
	}
	return true
}

// c04WrappedHandler matches the handler a gate protects, in both shapes of a gate: a captured
// variable of type http.Handler (the gate is a closure of the middleware), or a field of the
// gate object that holds nothing but http.Handler parameters (the middleware's `next`, put
// there where the object is built).
func c04WrappedHandler(p *core.Prog) func(ssa.Value) bool {
	isHandlerT := b2TypeIs("net/http.Handler")
	isFree := b2FreeVarOfType(isHandlerT)
	return func(v ssa.Value) bool {
		if isFree(v) {
			return true
		}
		ld := core.Strip(core.Forward(core.Strip(v)))
		if !isHandlerT(ld.Type()) {
			return false
		}
		if _, _, ok := c04FieldRead(ld); !ok {
			return false
		}
		return c04AllOrigins(p, ld, func(o ssa.Value) bool {
			pa, ok := o.(*ssa.Parameter)
			return ok && isHandlerT(pa.Type())
		})
	}
}

// c04ParamOfType: the index of the one parameter of fn whose type prints as typ, or -1.
func c04ParamOfType(fn *ssa.Function, typ string) int {
	idx := -1
	for i, pa := range fn.Params {
		if b2TypeIs(typ)(pa.Type()) {
			if idx >= 0 {
				return -1
			}
			idx = i
		}
	}
	return idx
}
