package props

// Round 9 (after the defect fixed by 192a3f7): what does the unauthorized answer look like when the
// configured callback touches the writer it is handed *before* any status was written?
//
// Nothing is executed. The functions of api/handler that write 401 are interpreted on abstract values:
// their ResponseWriter parameter is "the underlying writer", structs they (or a constructor they call)
// allocate are tracked field by field, in-module callees that receive a tracked value are entered,
// everything else is unknown; branches on known constants follow their feasible side, other branches
// fork. What is recorded is the sequence of calls that reach the underlying writer. At the call that
// hands a writer to a function value (the callback), every method of the concrete writer type is then
// evaluated from the state of that moment — "the callback calls this method first" — and the first
// thing that reaches the underlying writer must establish the status: WriteHeader(401), or
// WriteHeader(the callback's own argument). Header() and Hijack() are not commits.
// The rule states its condition on those event sequences, however the wrapper spells its bookkeeping
// (a default-code field, a flag, a helper, an embedded writer with overridden methods).

import (
	"fmt"
	"go/constant"
	"go/token"
	"go/types"
	"strings"

	"godcheck/core"

	"golang.org/x/tools/go/ssa"
)

type (
	c04wVal   interface{}
	c04wUnder struct{} // the underlying response writer, or an interface value obtained from it
	c04wNil   struct{}
	c04wUnk   struct{}
	// c04wArg is "the evaluated method's own parameter i" (chosen by the callback)
	c04wArg struct{ i int }
	// c04wObj is the address of a tracked allocation; f >= 0: the address of its field f
	c04wObj struct {
		al *ssa.Alloc
		f  int
	}
	c04wStruct  struct{ fields map[int]c04wVal }
	c04wTuple   []c04wVal
	c04wClosure struct {
		fn   *ssa.Function
		bind []c04wVal
	}
)

type c04wEvent struct {
	kind   string  // "invoke" (method on the underlying writer), "pass" (writer handed to foreign code), "callback"
	name   string  // method / callee
	arg    c04wVal // WriteHeader's status; the writer handed to the callback
	at     ssa.Instruction
	before int        // callback: number of events before it
	snap   *c04wState // callback: state at the call
}

type c04wState struct {
	heap   map[*ssa.Alloc]map[int]c04wVal
	events []c04wEvent
}

func (s *c04wState) clone() *c04wState {
	n := &c04wState{heap: make(map[*ssa.Alloc]map[int]c04wVal, len(s.heap)), events: append([]c04wEvent(nil), s.events...)}
	for al, m := range s.heap {
		c := make(map[int]c04wVal, len(m))
		for k, v := range m {
			c[k] = v
		}
		n.heap[al] = c
	}
	return n
}

type c04wOutcome struct {
	st      *c04wState
	results []c04wVal
}

type c04wExec struct {
	steps      int
	paths      int
	incomplete string
}

type c04wFrame struct {
	fn     *ssa.Function
	env    map[ssa.Value]c04wVal
	defers []c04wDeferred
}

type c04wDeferred struct {
	call ssa.CallInstruction
	fnv  c04wVal
	args []c04wVal
}

func (f *c04wFrame) clone() *c04wFrame {
	n := &c04wFrame{fn: f.fn, env: make(map[ssa.Value]c04wVal, len(f.env)), defers: append([]c04wDeferred(nil), f.defers...)}
	for k, v := range f.env {
		n.env[k] = v
	}
	return n
}

func c04wTracked(v c04wVal) bool {
	switch x := v.(type) {
	case c04wUnder, c04wObj, c04wClosure:
		return true
	case c04wStruct:
		for _, e := range x.fields {
			if c04wTracked(e) {
				return true
			}
		}
	case c04wTuple:
		for _, e := range x {
			if c04wTracked(e) {
				return true
			}
		}
	}
	return false
}

func c04wZero(t types.Type) c04wVal {
	switch u := t.Underlying().(type) {
	case *types.Basic:
		switch {
		case u.Info()&types.IsBoolean != 0:
			return constant.MakeBool(false)
		case u.Info()&types.IsInteger != 0:
			return constant.MakeInt64(0)
		case u.Info()&types.IsString != 0:
			return constant.MakeString("")
		}
		return c04wUnk{}
	case *types.Struct:
		return c04wStruct{fields: map[int]c04wVal{}}
	case *types.Pointer, *types.Interface, *types.Slice, *types.Map, *types.Signature, *types.Chan:
		return c04wNil{}
	}
	return c04wUnk{}
}

func c04wElem(al *ssa.Alloc) types.Type { return al.Type().Underlying().(*types.Pointer).Elem() }

func c04wFieldType(t types.Type, f int) types.Type {
	if st, ok := t.Underlying().(*types.Struct); ok && f >= 0 && f < st.NumFields() {
		return st.Field(f).Type()
	}
	return nil
}

func (s *c04wState) load(o c04wObj) c04wVal {
	m, ok := s.heap[o.al]
	if !ok {
		return c04wUnk{}
	}
	el := c04wElem(o.al)
	if o.f >= 0 {
		if v, ok := m[o.f]; ok {
			return v
		}
		if ft := c04wFieldType(el, o.f); ft != nil {
			return c04wZero(ft)
		}
		return c04wUnk{}
	}
	if _, isStruct := el.Underlying().(*types.Struct); isStruct {
		c := c04wStruct{fields: map[int]c04wVal{}}
		for k, v := range m {
			c.fields[k] = v
		}
		return c
	}
	if v, ok := m[-1]; ok {
		return v
	}
	return c04wZero(el)
}

func (s *c04wState) store(o c04wObj, v c04wVal) {
	m, ok := s.heap[o.al]
	if !ok {
		return
	}
	if o.f >= 0 {
		m[o.f] = v
		return
	}
	if sv, ok := v.(c04wStruct); ok {
		for k := range m {
			delete(m, k)
		}
		for k, e := range sv.fields {
			m[k] = e
		}
		return
	}
	m[-1] = v
}

func (e *c04wExec) val(fr *c04wFrame, v ssa.Value) c04wVal {
	if r, ok := fr.env[v]; ok {
		return r
	}
	switch x := v.(type) {
	case *ssa.Const:
		if x.Value == nil {
			return c04wZero(x.Type())
		}
		return x.Value
	case *ssa.Function:
		return c04wClosure{fn: x}
	}
	return c04wUnk{}
}

func c04wInModule(f *ssa.Function) bool {
	return f != nil && len(f.Blocks) > 0 && f.Pkg != nil && strings.HasPrefix(f.Pkg.Pkg.Path(), core.Mod)
}

// c04wMethod resolves method name on the dynamic type of a tracked receiver.
func c04wMethod(prog *ssa.Program, recv c04wVal, name string, pkg *types.Package) *ssa.Function {
	var t types.Type
	switch r := recv.(type) {
	case c04wObj:
		if r.f >= 0 {
			return nil
		}
		t = r.al.Type()
	default:
		return nil
	}
	sel := prog.MethodSets.MethodSet(t).Lookup(pkg, name)
	if sel == nil {
		if n, ok := t.Underlying().(*types.Pointer); ok {
			if nn, ok := n.Elem().(*types.Named); ok {
				sel = prog.MethodSets.MethodSet(t).Lookup(nn.Obj().Pkg(), name)
			}
		}
	}
	if sel == nil {
		return nil
	}
	return prog.MethodValue(sel)
}

// call evaluates fn on args from state st and returns its outcomes.
func (e *c04wExec) call(fn *ssa.Function, bind, args []c04wVal, st *c04wState, depth int) []c04wOutcome {
	if e.incomplete != "" {
		return nil
	}
	if depth > 8 {
		e.incomplete = "call depth exceeded in " + core.FuncName(fn)
		return nil
	}
	fr := &c04wFrame{fn: fn, env: map[ssa.Value]c04wVal{}}
	for i, p := range fn.Params {
		if i < len(args) {
			fr.env[p] = args[i]
		}
	}
	for i, fv := range fn.FreeVars {
		if i < len(bind) {
			fr.env[fv] = bind[i]
		}
	}
	return e.walk(fr, fn.Blocks[0], nil, 0, st, depth)
}

func (e *c04wExec) walk(fr *c04wFrame, b *ssa.BasicBlock, prev *ssa.BasicBlock, idx int, st *c04wState, depth int) []c04wOutcome {
	for {
		if e.incomplete != "" {
			return nil
		}
		if idx == 0 {
			e.steps++
			if e.steps > 20000 {
				e.incomplete = "evaluation of " + core.FuncName(fr.fn) + " does not terminate within the step bound (a loop on unknown values)"
				return nil
			}
			phis := map[*ssa.Phi]c04wVal{}
			for _, in := range b.Instrs {
				ph, ok := in.(*ssa.Phi)
				if !ok {
					break
				}
				for i, pr := range b.Preds {
					if pr == prev {
						phis[ph] = e.val(fr, ph.Edges[i])
					}
				}
			}
			for ph, v := range phis {
				fr.env[ph] = v
			}
		}
		jumped := false
		for i := idx; i < len(b.Instrs); i++ {
			in := b.Instrs[i]
			switch x := in.(type) {
			case *ssa.Phi, *ssa.DebugRef:
			case *ssa.Return:
				var res []c04wVal
				for _, r := range x.Results {
					res = append(res, e.val(fr, r))
				}
				e.paths++
				if e.paths > 4096 {
					e.incomplete = "more than 4096 paths"
					return nil
				}
				return []c04wOutcome{{st, res}}
			case *ssa.Panic:
				return nil // the path ends in a panic: no answer of this function
			case *ssa.Jump:
				prev, b, idx, jumped = b, b.Succs[0], 0, true
			case *ssa.If:
				c := e.val(fr, x.Cond)
				if k, ok := c.(constant.Value); ok && k.Kind() == constant.Bool {
					if constant.BoolVal(k) {
						prev, b, idx, jumped = b, b.Succs[0], 0, true
					} else {
						prev, b, idx, jumped = b, b.Succs[1], 0, true
					}
					break
				}
				out := e.walk(fr.clone(), b.Succs[0], b, 0, st.clone(), depth)
				return append(out, e.walk(fr, b.Succs[1], b, 0, st, depth)...)
			case *ssa.RunDefers:
				ds := fr.defers
				fr.defers = nil
				sts := []*c04wState{st}
				for j := len(ds) - 1; j >= 0; j-- {
					var next []*c04wState
					for _, s := range sts {
						outs, ok := e.doCall(fr, ds[j].call, ds[j].fnv, ds[j].args, s, depth)
						if !ok {
							next = append(next, s)
							continue
						}
						for _, o := range outs {
							next = append(next, o.st)
						}
					}
					sts = next
				}
				if len(sts) == 1 {
					st = sts[0]
					break
				}
				var out []c04wOutcome
				for _, s := range sts {
					out = append(out, e.walk(fr.clone(), b, prev, i+1, s, depth)...)
				}
				return out
			case *ssa.Defer:
				fnv, args := e.callee(fr, x)
				fr.defers = append(fr.defers, c04wDeferred{x, fnv, args})
			case *ssa.Go:
				_, args := e.callee(fr, x)
				for _, a := range args {
					if c04wTracked(a) {
						e.incomplete = "the writer is handed to a goroutine in " + core.FuncName(fr.fn)
						return nil
					}
				}
			case *ssa.Call:
				fnv, args := e.callee(fr, x)
				outs, ok := e.doCall(fr, x, fnv, args, st, depth)
				if !ok {
					fr.env[x] = c04wUnk{}
					break
				}
				if len(outs) == 0 {
					return nil // every path of the callee panics (or the evaluation gave up)
				}
				setRes := func(f *c04wFrame, o c04wOutcome) {
					switch {
					case len(o.results) == 1:
						f.env[x] = o.results[0]
					case len(o.results) > 1:
						f.env[x] = c04wTuple(o.results)
					default:
						f.env[x] = c04wUnk{}
					}
				}
				if len(outs) == 1 {
					setRes(fr, outs[0])
					st = outs[0].st
					break
				}
				var out []c04wOutcome
				for _, o := range outs {
					f2 := fr.clone()
					setRes(f2, o)
					out = append(out, e.walk(f2, b, prev, i+1, o.st, depth)...)
				}
				return out
			default:
				e.instr(fr, st, in)
			}
			if jumped {
				break
			}
		}
		if !jumped {
			return nil // block without terminator we understand (e.g. unreachable)
		}
	}
}

// callee evaluates the callee value and the argument list (receiver first for invokes) of a call.
func (e *c04wExec) callee(fr *c04wFrame, c ssa.CallInstruction) (c04wVal, []c04wVal) {
	cc := c.Common()
	var args []c04wVal
	if cc.IsInvoke() {
		args = append(args, e.val(fr, cc.Value))
		for _, a := range cc.Args {
			args = append(args, e.val(fr, a))
		}
		return nil, args
	}
	for _, a := range cc.Args {
		args = append(args, e.val(fr, a))
	}
	return e.val(fr, cc.Value), args
}

// doCall performs one call; ok=false: nothing is known about the results and the state is unchanged
// (events, if any, have been appended to st).
func (e *c04wExec) doCall(fr *c04wFrame, c ssa.CallInstruction, fnv c04wVal, args []c04wVal, st *c04wState, depth int) ([]c04wOutcome, bool) {
	cc := c.Common()
	anyTracked := false
	for _, a := range args {
		if c04wTracked(a) {
			anyTracked = true
		}
	}
	if cc.IsInvoke() {
		name := cc.Method.Name()
		switch r := args[0].(type) {
		case c04wUnder:
			ev := c04wEvent{kind: "invoke", name: name, at: c}
			if name == "WriteHeader" && len(args) > 1 {
				ev.arg = args[1]
			}
			st.events = append(st.events, ev)
			return nil, false
		case c04wObj:
			if m := c04wMethod(fr.fn.Prog, r, name, cc.Method.Pkg()); m != nil && len(m.Blocks) > 0 {
				return e.call(m, nil, args, st, depth+1), true
			}
			e.incomplete = fmt.Sprintf("method %s of the writer's concrete type cannot be resolved", name)
			return nil, true
		}
		if anyTracked {
			var w c04wVal
			for _, a := range args[1:] {
				if c04wTracked(a) {
					w = a
					break
				}
			}
			st.events = append(st.events, c04wEvent{kind: "callback", name: core.Short(core.CalleeName(c)), arg: w, at: c, before: len(st.events), snap: st.clone()})
		}
		return nil, false
	}
	if _, isBuiltin := cc.Value.(*ssa.Builtin); isBuiltin {
		return nil, false
	}
	if outs, ok := e.enterIfUseful(fnv, args, anyTracked, st, depth); ok {
		return outs, true
	}
	if !anyTracked {
		return nil, false
	}
	if cl, ok := fnv.(c04wClosure); ok {
		// foreign code (no body in the module) gets the writer: whatever it does with it may commit the response
		for _, a := range args {
			if _, ok := a.(c04wUnder); ok {
				st.events = append(st.events, c04wEvent{kind: "pass", name: core.Short(cl.fn.String()), at: c})
				return nil, false
			}
		}
		return nil, false
	}
	// a function value the function was given: the callback
	var w c04wVal
	for _, a := range args {
		if c04wTracked(a) {
			w = a
			break
		}
	}
	st.events = append(st.events, c04wEvent{kind: "callback", name: core.Short(core.CalleeName(c)), arg: w, at: c, before: len(st.events), snap: st.clone()})
	return nil, false
}

func (e *c04wExec) enterIfUseful(fnv c04wVal, args []c04wVal, anyTracked bool, st *c04wState, depth int) ([]c04wOutcome, bool) {
	cl, ok := fnv.(c04wClosure)
	if !ok || !c04wInModule(cl.fn) {
		return nil, false
	}
	if !anyTracked && !c04wTracked(c04wTuple(cl.bind)) {
		return nil, false // nothing of interest flows in: results unknown
	}
	return e.call(cl.fn, cl.bind, args, st, depth+1), true
}

func (e *c04wExec) instr(fr *c04wFrame, st *c04wState, in ssa.Instruction) {
	switch x := in.(type) {
	case *ssa.Alloc:
		st.heap[x] = map[int]c04wVal{}
		fr.env[x] = c04wObj{x, -1}
	case *ssa.FieldAddr:
		if o, ok := e.val(fr, x.X).(c04wObj); ok && o.f < 0 {
			fr.env[x] = c04wObj{o.al, x.Field}
		} else {
			fr.env[x] = c04wUnk{}
		}
	case *ssa.Field:
		if s, ok := e.val(fr, x.X).(c04wStruct); ok {
			if v, ok := s.fields[x.Field]; ok {
				fr.env[x] = v
			} else if ft := c04wFieldType(x.X.Type(), x.Field); ft != nil {
				fr.env[x] = c04wZero(ft)
			} else {
				fr.env[x] = c04wUnk{}
			}
		} else {
			fr.env[x] = c04wUnk{}
		}
	case *ssa.UnOp:
		switch x.Op {
		case token.MUL:
			if o, ok := e.val(fr, x.X).(c04wObj); ok {
				fr.env[x] = st.load(o)
			} else {
				fr.env[x] = c04wUnk{}
			}
		case token.NOT:
			if c, ok := e.val(fr, x.X).(constant.Value); ok && c.Kind() == constant.Bool {
				fr.env[x] = constant.MakeBool(!constant.BoolVal(c))
			} else {
				fr.env[x] = c04wUnk{}
			}
		default:
			fr.env[x] = c04wUnk{}
		}
	case *ssa.Store:
		if o, ok := e.val(fr, x.Addr).(c04wObj); ok {
			st.store(o, e.val(fr, x.Val))
		}
	case *ssa.BinOp:
		fr.env[x] = c04wBinop(x.Op, e.val(fr, x.X), e.val(fr, x.Y))
	case *ssa.MakeInterface:
		fr.env[x] = e.val(fr, x.X)
	case *ssa.ChangeInterface:
		fr.env[x] = e.val(fr, x.X)
	case *ssa.ChangeType:
		fr.env[x] = e.val(fr, x.X)
	case *ssa.Convert:
		if c, ok := e.val(fr, x.X).(constant.Value); ok && c.Kind() == constant.Int {
			if b, ok := x.Type().Underlying().(*types.Basic); ok && b.Info()&types.IsInteger != 0 {
				fr.env[x] = c
				return
			}
		}
		fr.env[x] = c04wUnk{}
	case *ssa.TypeAssert:
		v := e.val(fr, x.X)
		if _, isIface := x.AssertedType.Underlying().(*types.Interface); !isIface {
			if _, under := v.(c04wUnder); under {
				v = c04wUnk{} // the concrete type of the underlying writer is not known
			}
		}
		if x.CommaOk {
			fr.env[x] = c04wTuple{v, c04wUnk{}}
		} else {
			fr.env[x] = v
		}
	case *ssa.Extract:
		if t, ok := e.val(fr, x.Tuple).(c04wTuple); ok && x.Index < len(t) {
			fr.env[x] = t[x.Index]
		} else {
			fr.env[x] = c04wUnk{}
		}
	case *ssa.MakeClosure:
		fn, _ := x.Fn.(*ssa.Function)
		var bind []c04wVal
		for _, b := range x.Bindings {
			bind = append(bind, e.val(fr, b))
		}
		if fn != nil {
			fr.env[x] = c04wClosure{fn, bind}
		} else {
			fr.env[x] = c04wUnk{}
		}
	case ssa.Value:
		fr.env[x] = c04wUnk{}
	}
}

func c04wBinop(op token.Token, a, b c04wVal) c04wVal {
	ca, aok := a.(constant.Value)
	cb, bok := b.(constant.Value)
	isCmp := op == token.EQL || op == token.NEQ || op == token.LSS || op == token.LEQ || op == token.GTR || op == token.GEQ
	if aok && bok {
		var res c04wVal = c04wUnk{}
		func() {
			defer func() { _ = recover() }()
			if isCmp {
				res = constant.MakeBool(constant.Compare(ca, op, cb))
			} else if op != token.QUO && op != token.REM && op != token.SHL && op != token.SHR {
				res = constant.BinaryOp(ca, op, cb)
			}
		}()
		return res
	}
	if op == token.EQL || op == token.NEQ {
		_, an := a.(c04wNil)
		_, bn := b.(c04wNil)
		nonNil := func(v c04wVal) bool {
			switch v.(type) {
			case c04wUnder, c04wObj, c04wClosure:
				return true
			}
			return false
		}
		switch {
		case an && bn:
			return constant.MakeBool(op == token.EQL)
		case an && nonNil(b), bn && nonNil(a):
			return constant.MakeBool(op == token.NEQ)
		}
	}
	return c04wUnk{}
}

// c04wFirstCommit returns the first event that reaches the underlying writer other than Header()/Hijack().
func c04wFirstCommit(evs []c04wEvent) *c04wEvent {
	for i := range evs {
		ev := &evs[i]
		if ev.kind == "callback" {
			continue
		}
		if ev.kind == "invoke" && (ev.name == "Header" || ev.name == "Hijack") {
			continue
		}
		return ev
	}
	return nil
}

func c04wIs401(ev *c04wEvent) bool {
	if ev == nil || ev.kind != "invoke" || ev.name != "WriteHeader" {
		return false
	}
	c, ok := ev.arg.(constant.Value)
	if !ok || c.Kind() != constant.Int {
		return false
	}
	n, ok := constant.Int64Val(c)
	return ok && n == 401
}

func c04r9(r *core.Run) {
	p := r.P
	r.Check("D1/K3/callback-cannot-commit-before-401", "on every path of the unauthorized answer (a function of api/handler that writes 401), a function value that is handed a response writer before the status was written gets a writer that commits 401 by default: evaluated for every method of that writer's concrete type as the first thing the callback calls, nothing reaches the underlying writer's Write/Flush/… before WriteHeader(401) (or WriteHeader of the callback's own argument) did — a body written or flushed first would commit net/http's implicit 200 and the later WriteHeader(401) is a no-op: the gate answers 200 to an unauthenticated request", func(o *core.O) {
		var fns []*ssa.Function
		for _, f := range b2PkgFuncs(p, c04HandlerPkg) {
			if len(core.Instrs(f, c04IsWriteHeader(401))) > 0 {
				fns = append(fns, f)
			}
		}
		if !o.Need(len(fns) > 0, "a function of api/handler writing 401") {
			return
		}
		isWriterT := b2TypeIs("net/http.ResponseWriter")
		sites := 0
		for _, f := range fns {
			r.Fn(core.FuncName(f))
			ex := &c04wExec{}
			var args []c04wVal
			haveW := false
			for _, prm := range f.Params {
				if isWriterT(prm.Type()) {
					args = append(args, c04wUnder{})
					haveW = true
				} else {
					args = append(args, c04wUnk{})
				}
			}
			if !haveW {
				continue // e.g. a method of a wrapper type: evaluated as part of the function that hands the wrapper out (no site here: zero sites overall is unresolved)
			}
			bind := make([]c04wVal, len(f.FreeVars)) // captured variables: unknown
			for i := range bind {
				bind[i] = c04wUnk{}
			}
			outs := ex.call(f, bind, args, &c04wState{heap: map[*ssa.Alloc]map[int]c04wVal{}}, 0)
			if ex.incomplete != "" {
				o.Unres("%s could not be evaluated: %s", core.FuncName(f), ex.incomplete)
				continue
			}
			seen := map[ssa.Instruction]bool{}
			for _, out := range outs {
				evs := out.st.events
				answers401 := false
				for i := range evs {
					if c04wIs401(&evs[i]) {
						answers401 = true
					}
				}
				if !answers401 {
					continue // not a path of the unauthorized answer (e.g. the protected handler ran)
				}
				for i := range evs {
					cb := &evs[i]
					if cb.kind != "callback" || seen[cb.at] {
						continue
					}
					if fc := c04wFirstCommit(evs[:cb.before]); fc != nil {
						if !c04wIs401(fc) {
							o.Fail(p.InstrPos(fc.at), "%s: %s reaches the response before the 401 status", core.FuncName(f), fc.name)
						}
						continue // the status is on the wire before the callback runs
					}
					seen[cb.at] = true
					sites++
					switch wv := cb.arg.(type) {
					case c04wUnder:
						o.Fail(p.InstrPos(cb.at), "%s hands the bare response writer to the callback %s before 401 was written: a callback that writes a body commits the implicit 200", core.FuncName(f), cb.name)
					case c04wObj:
						if wv.f >= 0 {
							o.Unres("%s: the writer handed to %s is the address of a field", core.FuncName(f), cb.name)
							continue
						}
						ms := f.Prog.MethodSets.MethodSet(wv.al.Type())
						if ms.Len() == 0 {
							o.Unres("%s: the writer handed to %s has no methods", core.FuncName(f), cb.name)
							continue
						}
						for mi := 0; mi < ms.Len(); mi++ {
							m := f.Prog.MethodValue(ms.At(mi))
							if m == nil || len(m.Blocks) == 0 {
								o.Unres("method %s of the callback's writer has no body to evaluate", ms.At(mi).Obj().Name())
								continue
							}
							sites++
							r.Fn(core.FuncName(m))
							margs := []c04wVal{wv}
							for pi := 1; pi < len(m.Params); pi++ {
								margs = append(margs, c04wArg{pi})
							}
							mex := &c04wExec{}
							snap := cb.snap.clone()
							snap.events = nil
							mouts := mex.call(m, nil, margs, snap, 0)
							if mex.incomplete != "" {
								o.Unres("%s could not be evaluated: %s", core.FuncName(m), mex.incomplete)
								continue
							}
							reported := false
							for _, mo := range mouts {
								if reported {
									break
								}
								for _, rv := range mo.results {
									if _, leak := rv.(c04wUnder); leak && !reported {
										reported = true
										o.Fail(p.Pos(m.Pos()), "%s hands the underlying response writer out to the callback of %s: a body written to it before the status commits the implicit 200", core.FuncName(m), core.FuncName(f))
									}
								}
								fc := c04wFirstCommit(mo.st.events)
								if fc == nil || c04wIs401(fc) {
									continue
								}
								if fc.kind == "invoke" && fc.name == "WriteHeader" {
									if _, own := fc.arg.(c04wArg); own {
										continue // the callback's own status
									}
								}
								reported = true
								what := fc.name
								if fc.kind == "pass" {
									what = "handing the underlying writer to " + fc.name
								}
								o.Fail(p.InstrPos(fc.at), "an unauthorized callback (%s in %s) that calls %s first reaches the underlying writer's %s before any status was written: net/http commits the implicit 200 and the 401 written afterwards is lost", cb.name, core.FuncName(f), ms.At(mi).Obj().Name(), what)
							}
						}
					default:
						o.Unres("%s: the writer handed to the callback %s is not a value the evaluation tracks (%T)", core.FuncName(f), cb.name, cb.arg)
					}
				}
			}
		}
		o.Site(sites, "callback sites and writer methods evaluated")
	})
}
