package props

import (
	"go/token"
	"go/types"
	"strings"

	"godcheck/core"

	"golang.org/x/tools/go/ssa"
)

func init() { register("C07", c07) }

const mrPkg = "lib/mr"

type closeSite struct {
	in  ssa.Instruction
	fn  *ssa.Function
	id  string
	ids []string // id plus, for a channel held in a struct field, the channels stored into that field
}

// mrCtx carries the role-resolved anchors of lib/mr.
type mrCtx struct {
	r     *core.Run
	p     *core.Prog
	funcs []*ssa.Function
	k     *k10

	isWGAdd, isWGDone, isWGWait, isOnceDo func(ssa.Instruction) bool
	drainFns                              map[*ssa.Function]bool
	finishFns                             map[*ssa.Function]bool
	closes                                []closeSite
}

func newMrCtx(r *core.Run) *mrCtx {
	curProg = r.P
	m := &mrCtx{r: r, p: r.P, funcs: pkgFuncsAll(r.P, mrPkg)}
	m.k = newK10(m.funcs)
	m.isWGAdd = core.CallTo("(*sync.WaitGroup).Add")
	m.isWGDone = core.CallTo("(*sync.WaitGroup).Done")
	m.isWGWait = core.CallTo("(*sync.WaitGroup).Wait")
	m.isOnceDo = core.CallTo("(*sync.Once).Do")
	// role: drain = a function that receives from its only (channel) parameter in a
	// loop and returns only once the channel is closed
	m.drainFns = map[*ssa.Function]bool{}
	for _, f := range m.funcs {
		if len(f.Params) != 1 || f.Signature.Results().Len() != 0 {
			continue
		}
		if _, ok := f.Params[0].Type().Underlying().(*types.Chan); !ok {
			continue
		}
		var rec *ssa.UnOp
		n := 0
		for _, in := range core.Instrs(f, func(in ssa.Instruction) bool {
			u, ok := in.(*ssa.UnOp)
			return ok && u.Op == token.ARROW && u.X == ssa.Value(f.Params[0])
		}) {
			rec = in.(*ssa.UnOp)
			n++
		}
		if n != 1 || !rec.CommaOk {
			continue
		}
		okv := func(v ssa.Value) bool {
			e, ok := v.(*ssa.Extract)
			return ok && e.Tuple == ssa.Value(rec) && e.Index == 1
		}
		if core.Requires(f, core.IsReturn, core.Not(core.BoolVal(okv))) == nil {
			m.drainFns[f] = true
		}
	}
	// role: finish = a function that runs sync.Once.Do on a closure that closes channels
	m.finishFns = map[*ssa.Function]bool{}
	for _, f := range m.funcs {
		for _, c := range core.Calls(f, m.isOnceDo) {
			if m.isFinishDo(c) {
				m.finishFns[f] = true
			}
		}
	}
	for _, f := range m.funcs {
		for _, in := range core.Instrs(f, func(in ssa.Instruction) bool { return isBuiltinCall(in, "close") }) {
			cs := closeSite{in: in, fn: f, id: chanID(core.AsCall(in).Common().Args[0])}
			cs.ids = []string{cs.id}
			if strings.HasPrefix(cs.id, "field:") {
				cs.ids = append(cs.ids, fieldChanSources(m.funcs, strings.TrimPrefix(cs.id, "field:"))...)
			}
			m.closes = append(m.closes, cs)
		}
	}
	return m
}

// isDrainOf matches a call of a drain function on channel id, or an inline
// receive loop on it.
func (m *mrCtx) isDrainOf(id string) func(ssa.Instruction) bool {
	return func(in ssa.Instruction) bool {
		if c, ok := in.(*ssa.Call); ok {
			if g := c.Call.StaticCallee(); g != nil && m.drainFns[g] && len(c.Call.Args) == 1 {
				return chanMatches(m, c.Call.Args[0], id)
			}
			return false
		}
		if u, ok := in.(*ssa.UnOp); ok && u.Op == token.ARROW && u.CommaOk && chanMatches(m, u.X, id) {
			// inside a cycle
			_, cyc := core.Reach(core.Q{From: []core.At{core.After(in)}, Target: core.Is(in)})
			return cyc
		}
		return false
	}
}

// chanMatches: v denotes channel id, directly or through a struct field into which id is stored.
func chanMatches(m *mrCtx, v ssa.Value, id string) bool {
	got := chanID(v)
	if got == "" {
		return false
	}
	if got == id {
		return true
	}
	if strings.HasPrefix(got, "field:") {
		for _, s := range fieldChanSources(m.funcs, strings.TrimPrefix(got, "field:")) {
			if s == id {
				return true
			}
		}
	}
	if strings.HasPrefix(id, "field:") {
		for _, s := range fieldChanSources(m.funcs, strings.TrimPrefix(id, "field:")) {
			if s == got {
				return true
			}
		}
	}
	return false
}

func (m *mrCtx) isFinishCall(in ssa.Instruction) bool {
	c, ok := in.(*ssa.Call)
	if !ok {
		return false
	}
	if m.isFinishDo(c) {
		return true // the finish function's body in place
	}
	g := calleeFn(c)
	return g != nil && m.finishFns[g]
}

// isFinishDo: sync.Once.Do on a closure that closes channels (what a finish function does).
func (m *mrCtx) isFinishDo(c ssa.CallInstruction) bool {
	if !m.isOnceDo(c) {
		return false
	}
	for _, a := range c.Common().Args {
		if g := fnOfValue(a); g != nil {
			if len(core.Instrs(g, func(in ssa.Instruction) bool { return isBuiltinCall(in, "close") })) > 0 {
				return true
			}
		}
	}
	return false
}

// goStmts lists every `go` of the package with its body.
func (m *mrCtx) goStmts() []*ssa.Go {
	var out []*ssa.Go
	for _, f := range m.funcs {
		for _, in := range core.Instrs(f, func(in ssa.Instruction) bool { _, ok := in.(*ssa.Go); return ok }) {
			out = append(out, in.(*ssa.Go))
		}
	}
	return out
}

// recoverDefers lists the defers of b whose function recovers and forwards the panic.
func (m *mrCtx) recoverDefers(b *ssa.Function) (ok []ssa.Instruction, why []string) {
	for _, in := range core.Instrs(b, func(in ssa.Instruction) bool { _, k := in.(*ssa.Defer); return k }) {
		g := deferredFn(in)
		if g == nil || !m.k.in[g] {
			continue
		}
		if w := m.k.recoverForwards(g); w == "" {
			ok = append(ok, in)
		} else {
			why = append(why, core.FuncName(g)+" "+w)
		}
	}
	return
}

// mrCores: the functions with a select that receives from the panic channel
// (field onceChan.channel); two-result ones are the MapReduce core.
func (m *mrCtx) panicSelects() (out []*ssa.Select) {
	for _, f := range m.funcs {
		for _, s := range selects(f) {
			for _, st := range s.States {
				if st.Dir == types.RecvOnly && chanID(st.Chan) == "field:onceChan.channel" {
					out = append(out, s)
				}
			}
		}
	}
	return
}

func stateOf(sel *ssa.Select, pred func(st *ssa.SelectState) bool) int {
	for i, st := range sel.States {
		if pred(st) {
			return i
		}
	}
	return -1
}

func isCtxDone(v ssa.Value) bool {
	c, ok := v.(*ssa.Call)
	return ok && c.Call.IsInvoke() && c.Call.Method.Name() == "Done" && strings.HasSuffix(c.Call.Value.Type().String(), "context.Context")
}

func c07(r *core.Run) {
	// fields of non-escaping local struct objects are followed like captured locals (c07_util.go)
	resolveObjFields = true
	defer func() { resolveObjFields = false }()
	defer c07Extra(r)
	p := r.P
	r.Explanation = "Decides on the SSA of lib/mr, for every path incl. panic paths: each goroutine that can run a caller-supplied generator/mapper/reducer defers (before the call) a recover that forwards the panic value to the once-only panic channel; WaitGroup Add(1) precedes each mapper `go` and Done is deferred exactly once; every channel that is drained, ranged or handed to a callback has exactly one close site, placed in a defer that runs on all paths or in sync.Once.Do, the collector only after wg.Wait and output only together with done; each worker token taken by `pool <- x` is released exactly once (no-item path or the spawned goroutine's defer), pool capacity is the configured worker count which every writer keeps >= 1; cancel is only reachable through a sync.Once wrapper, records the error (nil -> ErrCancelWithNil) before finishing; the reducer goroutine's deferred cleanup drains the collector and finishes, and never finishes before it has drained (c07_r9.go), the mapper dispatcher's defer drains the source; the final select maps ctx -> DeadlineExceeded, panic -> drain(output) and re-panic with the same value, output -> cancel error first, then value / ErrReduceNoOutput; a second reducer write panics; guarded writes are dropped after done/ctx."
	r.NotDecided = "exactly-once delivery of items and values, the worker bound as a runtime maximum, termination and goroutine-leak freedom over schedules; behaviour of user callbacks; sync/atomic/runtime semantics."
	m := newMrCtx(r)
	if len(m.funcs) == 0 {
		r.Check("D0/anchor", "package lib/mr is loaded", func(o *core.O) { o.Unres("package %s not found", mrPkg) })
		return
	}
	for _, f := range m.funcs {
		r.Fn(core.FuncName(f))
	}

	// ---------- D1 ----------
	r.Check("D1/K10/panic-forwarded", "every `go` whose body can call a caller-supplied function defers, before that call, a closure that recovers and hands the panic value to the panic channel on every path of its recover()!=nil arm", func(o *core.O) {
		protected := 0
		for _, g := range m.goStmts() {
			b := goBody(g)
			if b == nil {
				o.Unres("%s: go of a function value that cannot be resolved", p.InstrPos(g))
				continue
			}
			o.Site(1, core.FuncName(b))
			sites := m.k.userSites(b)
			if len(sites) == 0 {
				continue
			}
			recs, why := m.recoverDefers(b)
			good := true
			for _, s := range sites {
				if len(recs) == 0 {
					o.Fail(p.InstrPos(s), "goroutine %s calls a caller-supplied function but defers no recover that forwards the panic (%s): the panic kills the process instead of being re-raised in the caller", core.FuncName(b), strings.Join(why, "; "))
					good = false
					continue
				}
				if w := core.Precedes(b, core.Is(recs...), core.Is(s)); w != nil {
					o.Fail(p.InstrPos(w), "goroutine %s can call a caller-supplied function before its recovering defer is registered", core.FuncName(b))
					good = false
				}
			}
			if good {
				protected++
			}
		}
		if protected < 3 && o.OK() {
			o.Unres("only %d goroutines running callbacks found (generator, reducer, mapper expected)", protected)
		}
	})

	r.Check("D1/K2/panic-channel-written-once", "the panic forwarder sends only after winning a compare-and-swap from the zero value (first panic only: the unbuffered panic channel is read once)", func(o *core.O) {
		isCAS := func(v ssa.Value) bool {
			c, ok := v.(*ssa.Call)
			if !ok {
				return false
			}
			n := core.CalleeName(c)
			if !strings.Contains(n, "sync/atomic") || !strings.Contains(n, "CompareAndSwap") {
				return false
			}
			a := c.Call.Args
			if len(a) < 2 {
				return false
			}
			oldv, ok1 := core.ConstInt(a[len(a)-2])
			newv, ok2 := core.ConstInt(a[len(a)-1])
			return ok1 && ok2 && oldv == 0 && newv != 0
		}
		used := map[*ssa.Function]bool{}
		for _, f := range m.funcs {
			for _, c := range core.Calls(f, func(in ssa.Instruction) bool { _, ok := in.(*ssa.Call); return ok }) {
				if g := c.Common().StaticCallee(); g != nil {
					for _, a := range c.Common().Args {
						if rc, ok := core.Strip(a).(*ssa.Call); ok && isRecoverCall(rc) {
							used[g] = true
						}
					}
				}
			}
		}
		for f := range m.k.forwarders() {
			if !used[f] {
				continue
			}
			sends := core.Instrs(f, func(in ssa.Instruction) bool { _, ok := in.(*ssa.Send); return ok })
			o.Site(len(sends), core.FuncName(f))
			if w := core.Requires(f, core.Is(sends...), core.BoolVal(isCAS)); w != nil {
				o.Fail(p.InstrPos(w), "%s sends on the panic channel without having won CompareAndSwap(0 -> non-zero): a second panic blocks its goroutine forever (or the first is never delivered)", core.FuncName(f))
			}
		}
	})

	r.Check("D1/K10/waitgroup-pairing", "WaitGroup.Done runs exactly once on every path (incl. panic) of each counted goroutine, from a defer registered before the callback runs; Add(1) precedes each such `go`, every Add is followed by its `go`", func(o *core.O) {
		for _, f := range m.funcs {
			for _, d := range core.Instrs(f, m.isWGDone) {
				o.Site(1, core.FuncName(f))
				wg := cellOf(core.AsCall(d).Common().Args[0])
				var body *ssa.Function
				var deferIn ssa.Instruction
				if _, isDefer := d.(*ssa.Defer); isDefer {
					body, deferIn = f, d
				} else if b2, d2 := deferSiteOf(f); b2 != nil {
					body, deferIn = b2, d2
					if w := core.MustPass(core.Entry(f), core.Is(d), core.IsExit); w != nil {
						o.Fail(p.InstrPos(w), "%s can end without calling WaitGroup.Done: Wait never returns", core.FuncName(f))
					}
				}
				if body == nil {
					o.Fail(p.InstrPos(d), "WaitGroup.Done in %s is not deferred: a panicking callback leaves Wait blocked forever", core.FuncName(f))
					continue
				}
				if w := core.AtMostOnce(f, m.isWGDone); w != nil {
					o.Fail(p.InstrPos(w), "WaitGroup.Done can run twice")
				}
				if us := m.k.userSites(body); len(us) > 0 {
					if w := core.Precedes(body, core.Is(deferIn), core.Is(us...)); w != nil {
						o.Fail(p.InstrPos(w), "the callback can run before the defer that calls WaitGroup.Done is registered")
					}
				}
				spawned := 0
				for _, g := range m.goStmts() {
					if goBody(g) != body {
						continue
					}
					spawned++
					sp := g.Parent()
					isAdd := func(in ssa.Instruction) bool {
						if !m.isWGAdd(in) {
							return false
						}
						c := core.AsCall(in).Common()
						n, ok := core.ConstInt(c.Args[1])
						return cellOf(c.Args[0]) == wg && ok && n == 1
					}
					adds := core.Instrs(sp, isAdd)
					if len(adds) == 0 {
						o.Fail(p.InstrPos(g), "no WaitGroup.Add(1) on the goroutine's WaitGroup in %s", core.FuncName(sp))
						continue
					}
					if w, bad := core.Reach(core.Q{From: []core.At{core.Entry(sp), core.After(g)}, Target: core.Is(g), Blocked: isAdd}); bad {
						o.Fail(p.InstrPos(w), "`go` reachable without a preceding WaitGroup.Add(1): Wait may return (and the collector be closed) while a mapper still runs")
					}
					for _, a := range adds {
						if w, bad := core.Reach(core.Q{From: []core.At{core.After(a)}, Target: core.Or(core.IsExit, isAdd), Blocked: core.Is(g)}); bad {
							o.Fail(p.InstrPos(w), "WaitGroup.Add(1) not followed by its `go` on some path: Wait never returns")
						}
					}
				}
				if spawned == 0 {
					o.Fail(p.InstrPos(d), "%s (which calls WaitGroup.Done) is not started by a `go` statement", core.FuncName(body))
				}
			}
		}
	})

	// ---------- D2 ----------
	r.Check("D2/K10/close-ownership", "each channel has at most one close site; a close runs on every path of a defer registered before callbacks and returns, or inside sync.Once.Do; every channel that is drained/ranged or handed to a callback is closed; output is closed together with the writer's done channel", func(o *core.O) {
		perChan := map[string][]closeSite{}
		for _, cs := range m.closes {
			o.Site(1, core.FuncName(cs.fn))
			if cs.id == "" {
				o.Unres("%s: close of a channel whose origin cannot be resolved", p.InstrPos(cs.in))
				continue
			}
			for _, id := range cs.ids {
				perChan[id] = append(perChan[id], cs)
			}
			// context
			f := cs.fn
			if _, isDefer := cs.in.(*ssa.Defer); isDefer {
				continue
			}
			if len(runViaOnce(f)) > 0 {
				// the closure (possibly held in a variable) is only ever run through Once.Do
				direct := false
				for _, g := range m.funcs {
					for _, c := range core.Calls(g, func(in ssa.Instruction) bool { return core.AsCall(in) != nil }) {
						if !c.Common().IsInvoke() && calleeFn(c) == f {
							direct = true
						}
					}
				}
				if !direct {
					continue
				}
			}
			body, deferIn := deferSiteOf(f)
			if body == nil {
				o.Fail(p.InstrPos(cs.in), "close of %s in %s is neither deferred nor inside sync.Once.Do: it is skipped when a callback panics (receivers block forever) or may run twice", cs.id, core.FuncName(f))
				continue
			}
			if w := core.MustPass(core.Entry(f), core.Is(cs.in), core.IsExit); w != nil {
				o.Fail(p.InstrPos(w), "deferred %s can end without closing %s", core.FuncName(f), cs.id)
			}
			if w := core.AtMostOnce(f, core.Is(cs.in)); w != nil {
				o.Fail(p.InstrPos(w), "%s closed twice on one path", cs.id)
			}
			targets := []func(ssa.Instruction) bool{core.IsReturn}
			if us := m.k.userSites(body); len(us) > 0 {
				targets = append(targets, core.Is(us...))
			}
			if w := core.Precedes(body, core.Is(deferIn), core.Or(targets...)); w != nil {
				o.Fail(p.InstrPos(w), "%s can run a callback or return before the defer that closes %s is registered", core.FuncName(body), cs.id)
			}
		}
		for id, l := range perChan {
			if len(l) > 1 {
				o.Fail(p.InstrPos(l[1].in), "channel %s has %d close sites (close of a closed channel panics)", id, len(l))
			}
		}
		// channels that must be closed
		need := map[string]string{}
		for _, f := range m.funcs {
			for _, in := range core.Instrs(f, func(in ssa.Instruction) bool { return true }) {
				switch x := in.(type) {
				case *ssa.Call:
					if g := x.Call.StaticCallee(); g != nil && m.drainFns[g] {
						need[chanID(x.Call.Args[0])] = "drained at " + p.InstrPos(in)
					}
					if calleeFn(x) == nil && !x.Call.IsInvoke() {
						if _, isB := x.Call.Value.(*ssa.Builtin); !isB {
							for _, a := range x.Call.Args {
								if _, isCh := a.Type().Underlying().(*types.Chan); isCh {
									need[chanID(a)] = "handed to a callback at " + p.InstrPos(in)
								}
							}
						}
					}
				case *ssa.UnOp:
					if x.Op == token.ARROW && x.CommaOk {
						if _, cyc := core.Reach(core.Q{From: []core.At{core.After(in)}, Target: core.Is(in)}); cyc {
							need[chanID(x.X)] = "ranged at " + p.InstrPos(in)
						}
					}
				}
			}
		}
		for id, why := range need {
			ids := []string{id}
			if strings.HasPrefix(id, "field:") {
				ids = fieldChanSources(m.funcs, strings.TrimPrefix(id, "field:"))
			}
			for _, x := range ids {
				if !strings.HasPrefix(x, "make:") {
					continue // created by the caller
				}
				o.Site(1)
				if len(perChan[x]) == 0 {
					o.Fail(why, "channel %s is %s but never closed: the receive loop blocks forever", x, why)
				}
			}
		}
		// a channel written through a guarded writer and closed needs the writer's done channel closed with it
		for _, f := range m.funcs {
			for _, c := range core.Calls(f, func(in ssa.Instruction) bool {
				cc := core.AsCall(in)
				if cc == nil {
					return false
				}
				g := cc.Common().StaticCallee()
				return g != nil && m.k.in[g] && strings.HasSuffix(g.Signature.Results().String(), "guardedWriter)")
			}) {
				var chans []string
				for _, a := range c.Common().Args {
					if _, isCh := a.Type().Underlying().(*types.Chan); isCh {
						chans = append(chans, chanID(a))
					}
				}
				if len(chans) != 2 || !strings.HasPrefix(chans[0], "make:") {
					continue
				}
				o.Site(1, core.FuncName(f))
				for _, cs := range perChan[chans[0]] {
					found := false
					for _, ds := range perChan[chans[1]] {
						if ds.fn == cs.fn {
							found = true
						}
					}
					if !found {
						o.Fail(p.InstrPos(cs.in), "%s is closed but the done channel %s of its guarded writer is not closed with it: a later Write sends on a closed channel", chans[0], chans[1])
					}
				}
			}
		}
	})

	r.Check("D2/K3/collector-closed-after-wait", "the mappers' output channel (mapperContext.collector) is closed only after WaitGroup.Wait on the WaitGroup that counts the mapper goroutines", func(o *core.O) {
		for _, cs := range m.closes {
			if cs.id != "field:mapperContext.collector" {
				continue
			}
			o.Site(1, core.FuncName(cs.fn))
			waits := core.Instrs(cs.fn, m.isWGWait)
			if w := core.Precedes(cs.fn, m.isWGWait, core.Is(cs.in)); w != nil || len(waits) == 0 {
				o.Fail(p.InstrPos(cs.in), "collector closed without waiting for the mapper goroutines: a mapper still writing panics with send on closed channel")
				continue
			}
			// same WaitGroup as the one Add-ed in the spawning function
			wg := cellOf(core.AsCall(waits[0]).Common().Args[0])
			same := false
			for _, f := range m.funcs {
				for _, a := range core.Instrs(f, m.isWGAdd) {
					if cellOf(core.AsCall(a).Common().Args[0]) == wg {
						same = true
					}
				}
			}
			if !same {
				o.Fail(p.InstrPos(waits[0]), "Wait is on a WaitGroup no goroutine is added to")
			}
		}
	})

	// ---------- D3 ----------
	type poolInfo struct {
		fn  *ssa.Function
		sel *ssa.Select
		k   int
		id  string
	}
	var pools []poolInfo
	for _, f := range m.funcs {
		for _, s := range selects(f) {
			for i, st := range s.States {
				if st.Dir == types.SendOnly {
					pools = append(pools, poolInfo{f, s, i, chanID(st.Chan)})
				}
			}
		}
	}
	r.Check("D3/K1/worker-token-released-once", "every token taken by the select-send on the pool is given back exactly once before the next acquisition, by the spawned goroutine's defer (registered before the mapper runs, receiving on every path) or by a receive in the dispatcher; never twice, never without an acquisition", func(o *core.O) {
		if !o.Need(len(pools) > 0, "a select with a send case (worker pool) in lib/mr") {
			return
		}
		for _, pl := range pools {
			f := pl.fn
			o.Site(1, core.FuncName(f))
			if !strings.HasPrefix(pl.id, "make:") {
				o.Unres("%s: pool channel origin not resolved", p.InstrPos(pl.sel))
				continue
			}
			// goroutines releasing in a defer
			goRel := map[ssa.Instruction]bool{}
			for _, g := range core.Instrs(f, func(in ssa.Instruction) bool { _, ok := in.(*ssa.Go); return ok }) {
				b := goBody(g.(*ssa.Go))
				if b == nil {
					continue
				}
				total := 0
				for _, x := range core.WithAnon(b) {
					total += len(core.Instrs(x, isRecvOn(pl.id)))
				}
				if total == 0 {
					continue
				}
				okRel := false
				for _, d := range core.Instrs(b, func(in ssa.Instruction) bool { _, k := in.(*ssa.Defer); return k }) {
					gfn := deferredFn(d)
					if gfn == nil || len(core.Instrs(gfn, isRecvOn(pl.id))) == 0 {
						continue
					}
					if w := core.MustPass(core.Entry(gfn), isRecvOn(pl.id), core.IsExit); w != nil {
						o.Fail(p.InstrPos(w), "%s can end without giving the worker token back: the pool shrinks and the dispatcher eventually blocks forever", core.FuncName(gfn))
						continue
					}
					if us := m.k.userSites(b); len(us) > 0 {
						if w := core.Precedes(b, core.Is(d), core.Is(us...)); w != nil {
							o.Fail(p.InstrPos(w), "the mapper can run before the defer that returns the worker token is registered")
							continue
						}
					}
					okRel = true
				}
				if total != 1 {
					o.Fail(p.InstrPos(g), "goroutine %s receives from the pool at %d places: a token taken once is returned more than once (more than `workers` mappers run)", core.FuncName(b), total)
				}
				if !okRel {
					o.Fail(p.InstrPos(g), "goroutine %s returns the worker token outside a defer: a panicking mapper leaks its token", core.FuncName(b))
					continue
				}
				goRel[g] = true
			}
			release := core.Or(isRecvOn(pl.id), func(in ssa.Instruction) bool { return goRel[in] })
			arm := selectArm(f, pl.sel, pl.k)
			if len(arm) == 0 {
				o.Unres("%s: send arm of the pool select not found", p.InstrPos(pl.sel))
				continue
			}
			// only paths back to the next acquisition matter: the pool dies with the dispatcher
			if w, bad := core.Reach(core.Q{From: heads(arm), Target: core.Is(pl.sel), Blocked: release}); bad {
				o.Fail(p.InstrPos(w), "a worker token taken from the pool is not handed to a goroutine that returns it before the next acquisition (token leak: fewer mappers can run, finally the dispatcher blocks)")
			}
			if len(goRel) == 0 {
				o.Fail(p.InstrPos(pl.sel), "no spawned goroutine returns its worker token: after `workers` items the dispatcher blocks forever")
			}
			for _, rel := range core.Instrs(f, release) {
				if w, bad := core.Reach(core.Q{From: []core.At{core.After(rel)}, Target: release, Blocked: core.Is(pl.sel)}); bad {
					o.Fail(p.InstrPos(w), "a worker token is returned twice for one acquisition (more than `workers` mappers can run)")
				}
			}
			// releases only after an acquisition
			if w, bad := core.Reach(core.Q{From: []core.At{core.Entry(f)}, Target: release, Cut: core.CutSet(arm)}); bad {
				o.Fail(p.InstrPos(w), "the pool is released on a path that did not acquire a token")
			}
		}
	})

	r.Check("D3/K8/pool-capacity-is-workers", "the pool's capacity is mapperContext.workers, which every constructor copies from mapReduceOptions.workers", func(o *core.O) {
		if !o.Need(len(pools) > 0, "worker pool") {
			return
		}
		for _, pl := range pools {
			mc, ok := resolve(pl.sel.States[pl.k].Chan).(*ssa.MakeChan)
			if !ok {
				o.Unres("%s: pool is not created in the package", p.InstrPos(pl.sel))
				continue
			}
			o.Site(1, core.FuncName(pl.fn))
			if core.FieldAddrNameOfLoad(resolve(mc.Size)) != "mapperContext.workers" {
				o.Fail(p.InstrPos(mc), "pool capacity is %s, not the configured worker count", core.Describe(mc.Size))
			}
		}
		for _, f := range m.funcs {
			for _, st := range core.StoresToField(f, "mapperContext.workers") {
				o.Site(1, core.FuncName(f))
				if core.FieldAddrNameOfLoad(resolve(st.Val)) != "mapReduceOptions.workers" {
					o.Fail(p.InstrPos(st), "mapperContext.workers set to %s, not to the options' worker count", core.Describe(st.Val))
				}
			}
		}
	})

	r.Check("D3/K6/workers-at-least-one", "every write of mapReduceOptions.workers stores a constant >= 1 or a value tested to be >= 1 (capacity 0 makes the pool send block forever)", func(o *core.O) {
		for _, f := range m.funcs {
			for _, st := range core.StoresToField(f, "mapReduceOptions.workers") {
				o.Site(1, core.FuncName(f))
				if n, ok := core.ConstInt(st.Val); ok {
					if n < 1 {
						o.Fail(p.InstrPos(st), "workers set to %d", n)
					}
					continue
				}
				if c, ok := core.Strip(st.Val).(*ssa.Call); ok && isBuiltinCall(c, "max") {
					okc := false
					for _, a := range c.Call.Args {
						if n, ok := core.ConstInt(a); ok && n >= 1 {
							okc = true
						}
					}
					if okc {
						continue
					}
				}
				// every value that may be stored (φ leaves): a constant >= 1, or a caller's number on a
				// path / φ edge on which it was found to be >= 1
				gxLeavesWithEdges(st.Val, func(leaf ssa.Value, edge *core.Edge) {
					if n, ok := core.ConstInt(core.Strip(leaf)); ok {
						if n < 1 {
							o.Fail(p.InstrPos(st), "workers set to %d", n)
						}
						return
					}
					src := resolve(leaf)
					if _, isParam := src.(*ssa.Parameter); !isParam {
						o.Unres("%s: workers set to %s: shape not understood", p.InstrPos(st), core.Describe(leaf))
						return
					}
					same := func(v ssa.Value) bool { return resolve(v) == src }
					atom := gxAtLeast(same, 1)
					if edge != nil {
						holds, _ := core.EdgesOf(f, atom)
						if gxEdgeReachable(f, *edge, holds) {
							o.Fail(p.InstrPos(st), "workers set to %s without testing it to be >= 1: with 0 workers the dispatcher blocks forever on the pool", core.Describe(leaf))
						}
						return
					}
					if w := core.Requires(f, core.Is(st), atom); w != nil {
						// assign-then-clamp (`o.workers = n; if n < 1 { o.workers = 1 }`): the untested number is
						// written first, but wherever it was not found to be >= 1 afterwards another (equally
						// checked) write of the field replaces it before anything can read it
						holds, _ := core.EdgesOf(f, atom)
						if deadStore(f, st, "mapReduceOptions.workers", holds) == nil {
							return
						}
						o.Fail(p.InstrPos(st), "workers set to %s without testing it to be >= 1: with 0 workers the dispatcher blocks forever on the pool", core.Describe(leaf))
					}
				})
			}
		}
	})

	r.Check("D3/K8/finish-sized-to-fns", "Finish and FinishVoid run with len(fns) workers (all functions in parallel)", func(o *core.O) {
		for _, name := range []string{"Finish", "FinishVoid"} {
			f := p.Func(mrPkg, "", name)
			if !o.Need(f != nil, "mr."+name) {
				return
			}
			cs := core.Calls(f, core.CallTo("lib/mr.WithWorkers"))
			o.Site(len(cs), core.FuncName(f))
			if len(cs) == 0 {
				o.Fail(p.Pos(f.Pos()), "%s does not size the worker pool", name)
			}
			for _, c := range cs {
				if !core.IsLenOf(func(v ssa.Value) bool {
					pa, ok := core.Strip(core.Forward(core.Strip(v))).(*ssa.Parameter)
					return ok && pa.Parent() != nil && len(pa.Parent().Params) > 0 && pa == pa.Parent().Params[len(pa.Parent().Params)-1]
				})(c.Common().Args[0]) {
					o.Fail(p.InstrPos(c), "%s runs with %s workers instead of len(fns)", name, core.Describe(c.Common().Args[0]))
				}
			}
		}
	})

	// ---------- D4 ----------
	isSet := core.CallTo("(*lib/errorx.AtomicError).Set")
	isLoad := core.CallTo("(*lib/errorx.AtomicError).Load")
	var cancelBodies []*ssa.Function
	for _, f := range m.funcs {
		if len(core.Calls(f, isSet)) > 0 {
			cancelBodies = append(cancelBodies, f)
		}
	}
	r.Check("D4/K5/cancel-behind-once", "the cancel body (the closure recording the error) is only reachable through a wrapper that runs it inside sync.Once.Do on a Once created per wrapper call", func(o *core.O) {
		if !o.Need(len(cancelBodies) > 0, "a closure calling AtomicError.Set in lib/mr") {
			return
		}
		for _, cb := range cancelBodies {
			o.Site(1, core.FuncName(cb))
			// every place where the body's closure is created (the inlined copies of its creator share it)
			created := bodyCreationSites(cb)
			if len(created) == 0 {
				o.Fail(p.Pos(cb.Pos()), "%s records the cancel error but is not a closure", core.FuncName(cb))
				continue
			}
			onces := map[ssa.Value]bool{}
			for _, mc := range created {
				for _, ref := range *mc.Referrers() {
					if _, dbg := ref.(*ssa.DebugRef); dbg {
						continue
					}
					c, ok := ref.(*ssa.Call)
					var w *ssa.Function
					if ok {
						w = c.Call.StaticCallee()
					}
					if ok && m.isOnceDo(c) {
						// inline form: once.Do(func(){ body }) on a Once local to the enclosing call
						if al, isAl := cellOf(core.Strip(c.Call.Args[0])).(*ssa.Alloc); isAl {
							onces[al] = true
							continue
						}
						if al, isAl := resolve(c.Call.Args[0]).(*ssa.Alloc); isAl {
							onces[al] = true
							continue
						}
						o.Fail(p.InstrPos(ref), "the cancel body runs under a sync.Once that is not local to the MapReduce call")
						continue
					}
					if w == nil || !m.k.in[w] {
						o.Fail(p.InstrPos(ref), "the cancel body is used without the once wrapper: a second cancel overwrites the first error / closes twice")
						continue
					}
					idx := -1
					for i, a := range c.Call.Args {
						if a == ssa.Value(mc) {
							idx = i
						}
					}
					if idx < 0 || idx >= len(w.Params) {
						o.Unres("cancel body passed in an unexpected way at %s", p.InstrPos(ref))
						continue
					}
					param := w.Params[idx]
					calls := 0
					// the wrapper may keep the body in a field of an object it creates per call
					fields := map[string]bool{}
					for _, x := range core.WithAnon(w) {
						for _, b := range x.Blocks {
							for _, in := range b.Instrs {
								st, ok := in.(*ssa.Store)
								if !ok || resolveLocal(st.Val) != ssa.Value(param) {
									continue
								}
								if tf := core.FieldAddrName(st.Addr); tf != "" {
									if al, isAl := resolveLocal(st.Addr.(*ssa.FieldAddr).X).(*ssa.Alloc); isAl && al.Parent() == w {
										fields[tf] = true
									} else {
										o.Fail(p.InstrPos(st), "the cancel body is stored into %s of an object shared between calls", tf)
									}
								}
							}
						}
					}
					type bodyCall struct {
						in   ssa.CallInstruction
						fn   *ssa.Function
						base ssa.Value // object whose field holds the body (nil: the wrapper's parameter itself)
					}
					var bcs []bodyCall
					for _, x := range m.funcs {
						inW := false
						for y := x; y != nil; y = y.Parent() {
							if y == w {
								inW = true
							}
						}
						for _, dc := range core.Calls(x, func(in ssa.Instruction) bool {
							cc := core.AsCall(in)
							return cc != nil && !cc.Common().IsInvoke()
						}) {
							v := resolveLocal(dc.Common().Value)
							if inW && v == ssa.Value(param) {
								bcs = append(bcs, bodyCall{dc, x, nil})
								continue
							}
							if tf := core.FieldAddrNameOfLoad(v); tf != "" && fields[tf] {
								if u, ok := v.(*ssa.UnOp); ok {
									if fa, ok := u.X.(*ssa.FieldAddr); ok {
										bcs = append(bcs, bodyCall{dc, x, resolve(fa.X)})
									}
								}
							}
						}
					}
					for _, bc := range bcs {
						calls++
						okOnce := false
						direct := false
						for _, g := range m.funcs {
							for _, c2 := range core.Calls(g, func(in ssa.Instruction) bool { return core.AsCall(in) != nil }) {
								if !c2.Common().IsInvoke() && !m.isOnceDo(c2) && calleeFn(c2) == bc.fn {
									direct = true
								}
							}
						}
						dos := runViaOnce(bc.fn)
						if len(dos) > 0 && !direct {
							okOnce = true
							for _, oc := range dos {
								rcv := oc.Common().Args[0]
								if bc.base == nil {
									al, ok := resolve(rcv).(*ssa.Alloc)
									if !ok {
										al, ok = cellOf(rcv).(*ssa.Alloc)
									}
									if !ok || al.Parent() != w {
										okOnce = false
									}
								} else {
									// the Once is a field of the very object that holds the body
									fa, ok := rcv.(*ssa.FieldAddr)
									if !ok || resolve(fa.X) != bc.base || !strings.HasSuffix(fa.Type().String(), "sync.Once") {
										okOnce = false
									}
								}
							}
						}
						if !okOnce {
							o.Fail(p.InstrPos(bc.in), "%s calls the cancel body outside sync.Once.Do (or on a Once shared between calls)", core.FuncName(bc.fn))
						}
					}
					if calls == 0 {
						o.Fail(p.InstrPos(c), "%s never calls the cancel body", core.FuncName(w))
					}
				}
			}
			if len(onces) > 1 {
				o.Fail(p.Pos(cb.Pos()), "the cancel body is run under %d different sync.Once values: a second cancel (through another one) overwrites the first error", len(onces))
			}
		}
	})

	r.Check("D4/K3/cancel-records-then-finishes", "on every path the cancel body records an error (the argument only when non-nil, ErrCancelWithNil when nil) and only then finishes (closes done/output)", func(o *core.O) {
		if !o.Need(len(cancelBodies) > 0, "cancel body") {
			return
		}
		for _, cb := range cancelBodies {
			o.Site(1, core.FuncName(cb))
			// the cancel argument: the error-typed parameter of the body or of the closure around it
			isErr := cancelArgument(cb)
			if isErr == nil {
				o.Unres("%s: cancel argument not found", core.FuncName(cb))
				continue
			}
			if w := core.MustPass(core.Entry(cb), isSet, core.IsExit); w != nil {
				o.Fail(p.InstrPos(w), "cancel can finish without recording an error: the call returns the reducer's value / ErrReduceNoOutput instead of the cancel error")
			}
			if len(core.Instrs(cb, m.isFinishCall)) == 0 {
				o.Fail(p.Pos(cb.Pos()), "cancel never finishes (done/output stay open)")
			}
			if w := core.MustPass(core.Entry(cb), m.isFinishCall, core.IsExit); w != nil {
				o.Fail(p.InstrPos(w), "cancel can return without finishing: mappers and reducer are not stopped")
			}
			if w := core.Precedes(cb, isSet, m.isFinishCall); w != nil {
				o.Fail(p.InstrPos(w), "cancel closes output before the error is recorded: the caller can observe the closed output with retErr still nil and return ErrReduceNoOutput")
			}
			errNil := core.Cmp(token.EQL, isErr, core.IsNil)
			holds, _ := core.EdgesOf(cb, errNil)
			if len(holds) == 0 {
				o.Fail(p.Pos(cb.Pos()), "cancel does not test its argument for nil (cancel(nil) must yield ErrCancelWithNil)")
				continue
			}
			// the value a Set call records on the paths on which the argument was nil
			// (a φ is narrowed to the incoming edges those paths can take)
			onNil := func(in ssa.Instruction) []ssa.Value {
				return phiValuesFrom(core.AsCall(in).Common().Args[1], holds)
			}
			setNilErr := func(in ssa.Instruction) bool {
				if !isSet(in) {
					return false
				}
				vs := onNil(in)
				for _, v := range vs {
					if !core.IsGlobal(mrPkg, "ErrCancelWithNil")(v) {
						return false
					}
				}
				return len(vs) > 0
			}
			if w, bad := core.Reach(core.Q{From: heads(holds), Target: core.Or(core.IsExit, m.isFinishCall), Blocked: setNilErr}); bad {
				o.Fail(p.InstrPos(w), "cancel(nil) does not record ErrCancelWithNil before finishing")
			}
			setArg := func(in ssa.Instruction) bool {
				if !isSet(in) {
					return false
				}
				for _, v := range onNil(in) {
					if isErr(v) {
						return true
					}
				}
				return false
			}
			if w := core.ReachableFromEdges(holds, setArg, nil); w != nil {
				o.Fail(p.InstrPos(w), "cancel records its nil argument (AtomicError.Set ignores nil)")
			}
		}
	})

	r.Check("D4/K1/consumer-goroutine-drains-and-finishes", "a goroutine that hands a receive-only channel to a callback (the reducer) drains that channel and finishes in its recovering defer, on every path", func(o *core.O) {
		n := 0
		for _, g := range m.goStmts() {
			b := goBody(g)
			if b == nil {
				continue
			}
			for _, s := range m.k.userSites(b) {
				c := core.AsCall(s).Common()
				// a caller-supplied callback, or a local adapter closure around one
				if g := calleeFn(core.AsCall(s)); g != nil && g.Parent() == nil {
					continue
				}
				sig, ok := c.Value.Type().Underlying().(*types.Signature)
				if !ok {
					continue
				}
				for i, a := range c.Args {
					if i >= sig.Params().Len() {
						break
					}
					ch, ok := sig.Params().At(i).Type().Underlying().(*types.Chan)
					if !ok || ch.Dir() != types.RecvOnly {
						continue
					}
					id := chanID(a)
					n++
					o.Site(1, core.FuncName(b))
					// any deferred call registered before the callback runs on every exit, incl. the panic
					// path (the recovering one is D1's business): `defer finish()` next to the recovering
					// closure, or `defer drain(collector)`, serve as well
					var regs []ssa.Instruction
					for _, d := range core.Instrs(b, func(in ssa.Instruction) bool { _, k := in.(*ssa.Defer); return k }) {
						if core.Precedes(b, core.Is(d), core.Is(s)) == nil {
							regs = append(regs, d)
						}
					}
					okDrain, okFinish := false, false
					for _, d := range regs {
						gfn := deferredFn(d)
						if gfn == nil || len(gfn.Blocks) == 0 {
							continue
						}
						if dc := d.(*ssa.Defer); m.drainFns[gfn] && len(dc.Call.Args) == 1 && chanMatches(m, dc.Call.Args[0], id) {
							okDrain = true
							continue
						}
						if core.MustPass(core.Entry(gfn), m.isDrainOf(id), core.IsExit) == nil && len(core.Instrs(gfn, m.isDrainOf(id))) > 0 {
							okDrain = true
						}
						if core.MustPass(core.Entry(gfn), m.isFinishCall, core.IsExit) == nil && len(core.Instrs(gfn, m.isFinishCall)) > 0 {
							okFinish = true
						}
					}
					if !okDrain {
						o.Fail(p.InstrPos(s), "%s does not drain %s on every path of its defer: when the reducer stops early (or panics) mappers stay blocked writing to the collector", core.FuncName(b), id)
					}
					if !okFinish {
						o.Fail(p.InstrPos(s), "%s does not finish on every path of its defer: output is never closed and the caller blocks forever when the reducer wrote nothing", core.FuncName(b))
					}
				}
			}
		}
		if n == 0 {
			o.Unres("no goroutine handing a receive-only channel to a callback found (reducer)")
		}
	})

	r.Check("D4/K1/dispatcher-defer-drains-source", "the mapper dispatcher defers, before its loop and every return, a closure that on every path waits, closes the collector and drains the item source (the generator is never left blocked)", func(o *core.O) {
		if !o.Need(len(pools) > 0, "worker pool function") {
			return
		}
		for _, pl := range pools {
			f := pl.fn
			// the item source: the channel received from in the send arm, other than the pool
			src := ""
			for _, b := range f.Blocks {
				for _, in := range b.Instrs {
					if u, ok := in.(*ssa.UnOp); ok && u.Op == token.ARROW {
						if id := chanID(u.X); id != "" && id != pl.id {
							src = id
						}
					}
				}
			}
			if !o.Need(src != "", "item source receive in "+core.FuncName(f)) {
				continue
			}
			o.Site(1, core.FuncName(f))
			found := false
			for _, d := range core.Instrs(f, func(in ssa.Instruction) bool { _, k := in.(*ssa.Defer); return k }) {
				gfn := deferredFn(d)
				// `defer drain(source)`: the deferred call is itself the drain (it runs on every exit once registered)
				direct := false
				if dc := d.(*ssa.Defer); dc.Call.StaticCallee() != nil && m.drainFns[dc.Call.StaticCallee()] && len(dc.Call.Args) == 1 && chanMatches(m, dc.Call.Args[0], src) {
					direct = true
				}
				if !direct && (gfn == nil || len(core.Instrs(gfn, m.isDrainOf(src))) == 0) {
					continue
				}
				found = true
				if direct {
					if w := core.Precedes(f, core.Is(d), core.Or(core.IsReturn, core.Is(pl.sel))); w != nil {
						o.Fail(p.InstrPos(w), "the dispatcher can return before registering the defer that drains the source")
					}
					continue
				}
				if w := core.MustPass(core.Entry(gfn), m.isDrainOf(src), core.IsExit); w != nil {
					o.Fail(p.InstrPos(w), "%s can end without draining the source", core.FuncName(gfn))
				}
				if w := core.Precedes(f, core.Is(d), core.Or(core.IsReturn, core.Is(pl.sel))); w != nil {
					o.Fail(p.InstrPos(w), "the dispatcher can return before registering the defer that drains the source")
				}
			}
			if !found {
				o.Fail(p.Pos(f.Pos()), "%s does not drain %s when it stops early (done, ctx, mapper panic): the generator goroutine stays blocked on its send forever", core.FuncName(f), src)
			}
		}
	})

	// ---------- D5 ----------
	psels := m.panicSelects()
	r.Check("D5/K1/panic-reraised", "in every select that receives from the panic channel, that arm never returns and panics with exactly the received value, after draining the output channel (if the function guards it against double writes)", func(o *core.O) {
		if !o.Need(len(psels) >= 2, "selects on onceChan.channel (ForEach, MapReduce core)") {
			return
		}
		for _, sel := range psels {
			f := sel.Parent()
			k := stateOf(sel, func(st *ssa.SelectState) bool {
				return st.Dir == types.RecvOnly && chanID(st.Chan) == "field:onceChan.channel"
			})
			arm := selectArm(f, sel, k)
			o.Site(1, core.FuncName(f))
			if len(arm) == 0 {
				o.Unres("%s: panic arm not found", p.InstrPos(sel))
				continue
			}
			isPanic := func(in ssa.Instruction) bool { _, ok := in.(*ssa.Panic); return ok }
			if w, bad := core.Reach(core.Q{From: heads(arm), Target: core.IsReturn, Blocked: isPanic}); bad {
				o.Fail(p.InstrPos(w), "%s can return normally after receiving a forwarded panic: the panic is swallowed", core.FuncName(f))
			}
			if w, bad := core.Reach(core.Q{From: heads(arm), Target: core.Is(sel), Blocked: isPanic}); bad {
				o.Fail(p.InstrPos(w), "%s goes back to waiting after receiving a forwarded panic", core.FuncName(f))
			}
			val := selectRecvValue(sel, k)
			if w, bad := core.Reach(core.Q{From: heads(arm), Target: func(in ssa.Instruction) bool {
				pn, ok := in.(*ssa.Panic)
				return ok && !val(pn.X)
			}}); bad {
				o.Fail(p.InstrPos(w), "the re-raised panic value is not the value received from the panic channel")
			}
			// output guarded by a deferred range? then it must be drained first
			for _, d := range core.Instrs(f, func(in ssa.Instruction) bool { _, k := in.(*ssa.Defer); return k }) {
				gfn := deferredFn(d)
				if gfn == nil {
					continue
				}
				for _, rc := range core.Instrs(gfn, func(in ssa.Instruction) bool {
					u, ok := in.(*ssa.UnOp)
					return ok && u.Op == token.ARROW
				}) {
					id := chanID(rc.(*ssa.UnOp).X)
					if len(core.Instrs(gfn, isPanic)) == 0 || id == "" {
						continue
					}
					o.Site(1)
					if w, bad := core.Reach(core.Q{From: heads(arm), Target: isPanic, Blocked: m.isDrainOf(id)}); bad {
						o.Fail(p.InstrPos(w), "the panic is re-raised without draining %s first: the deferred double-write guard replaces the original panic value", id)
					}
				}
			}
		}
	})

	var coreSel *ssa.Select
	for _, s := range psels {
		if s.Parent().Signature.Results().Len() == 2 {
			coreSel = s
		}
	}
	r.Check("D5/K1/ctx-arm-cancels", "when the context is done the MapReduce core cancels before it returns: every path from the ctx.Done() arm of the final select to a return passes a call of cancel (the once-wrapped closure that records the error and closes done/output, or a function running it) - otherwise done and output stay open, the deferred `for range output` keeps the caller blocked until every mapper has returned and the generator stays blocked on the source", func(o *core.O) {
		if !o.Need(coreSel != nil && len(cancelBodies) > 0, "the MapReduce core's final select and the cancel body") {
			return
		}
		f := coreSel.Parent()
		kCtx := stateOf(coreSel, func(st *ssa.SelectState) bool { return st.Dir == types.RecvOnly && isCtxDone(st.Chan) })
		if !o.Need(kCtx >= 0, "ctx.Done() receive state of the final select") {
			return
		}
		isBody := map[*ssa.Function]bool{}
		for _, cb := range cancelBodies {
			isBody[cb] = true
		}
		runsBody := func(g *ssa.Function) bool {
			if g == nil {
				return false
			}
			if t := boundTarget(g); t != nil && isBody[t] {
				return true // the method value x.m of the method that is the body
			}
			for _, a := range core.WithAnon(g) {
				if isBody[a] {
					return true
				}
			}
			return false
		}
		closureOfBody := func(v ssa.Value) bool {
			mc, ok := resolve(v).(*ssa.MakeClosure)
			return ok && runsBody(mc.Fn.(*ssa.Function))
		}
		isCancelCall := func(in ssa.Instruction) bool {
			c := core.AsCall(in)
			if c == nil || c.Common().IsInvoke() {
				return false
			}
			// the body handed to something that runs it (sync.Once.Do after the wrapper was inlined)
			for _, a := range c.Common().Args {
				if _, isFn := a.Type().Underlying().(*types.Signature); isFn && closureOfBody(a) {
					return true
				}
			}
			if g := c.Common().StaticCallee(); g != nil && g.Parent() == nil {
				return runsBody(g) && g != f
			}
			v := resolve(c.Common().Value)
			if closureOfBody(v) {
				return true
			}
			if w, ok := v.(*ssa.Call); ok { // the result of a wrapper such as once(body)
				for _, a := range w.Call.Args {
					if closureOfBody(a) {
						return true
					}
				}
			}
			return false
		}
		arm := selectArm(f, coreSel, kCtx)
		o.Site(len(arm), core.FuncName(f))
		if w, ok := core.Reach(core.Q{From: heads(arm), Target: core.IsReturn, Blocked: isCancelCall}); ok {
			o.Fail(p.InstrPos(w), "the ctx.Done() arm returns without calling cancel: done/output are not closed, the caller stays in its deferred `for range output` until every running mapper returns (the call does not return when the context is done) and the generator is left blocked")
		}
	})

	r.Check("D5/K6/result-mapping", "in the MapReduce core's final select: ctx arm returns (nil, context.DeadlineExceeded); output arm returns the recorded cancel error when there is one, else (value, nil) only when a value was received, else - output closed empty - context.DeadlineExceeded when a poll finds the context done and ErrReduceNoOutput only when that poll found it open; no other result", func(o *core.O) {
		if !o.Need(coreSel != nil, "the two-result function selecting on the panic channel (MapReduce core)") {
			return
		}
		f := coreSel.Parent()
		kCtx := stateOf(coreSel, func(st *ssa.SelectState) bool { return st.Dir == types.RecvOnly && isCtxDone(st.Chan) })
		kOut := stateOf(coreSel, func(st *ssa.SelectState) bool {
			return st.Dir == types.RecvOnly && strings.HasPrefix(chanID(st.Chan), "make:")
		})
		if !o.Need(kCtx >= 0 && kOut >= 0, "ctx.Done() and output receive states of the final select") {
			return
		}
		reach := func(from []core.Edge) []*ssa.Return {
			var out []*ssa.Return
			for _, ret := range core.Returns(f) {
				if _, ok := core.Reach(core.Q{From: heads(from), Target: core.Is(ret)}); ok {
					out = append(out, ret)
				}
			}
			return out
		}
		isDeadline := core.IsGlobal("context", "DeadlineExceeded")
		ctxArm := selectArm(f, coreSel, kCtx)
		rets := reach(ctxArm)
		o.Site(len(rets), core.FuncName(f))
		if len(rets) == 0 {
			o.Fail(p.InstrPos(coreSel), "the ctx.Done() arm never returns")
		}
		for _, ret := range rets {
			if !isDeadline(core.Result(ret, 1)) || !core.IsNil(core.Result(ret, 0)) {
				o.Fail(p.InstrPos(ret), "done context returns (%s, %s), expected (nil, context.DeadlineExceeded)", core.Describe(core.Result(ret, 0)), core.Describe(core.Result(ret, 1)))
			}
		}
		outArm := selectArm(f, coreSel, kOut)
		isLoadRes := func(v ssa.Value) bool { c, ok := core.Forward(v).(*ssa.Call); return ok && isLoad(c) }
		loadNil := core.Cmp(token.EQL, isLoadRes, core.IsNil)
		okTrue := core.BoolVal(selectRecvOk(coreSel))
		val := selectRecvValue(coreSel, kOut)
		unreachableWithout := func(ret *ssa.Return, a core.Atom) bool {
			h, _ := core.EdgesOf(f, a)
			_, ok := core.Reach(core.Q{From: heads(outArm), Target: core.Is(ret), Cut: core.CutSet(h)})
			return !ok
		}
		// non-blocking polls of ctx.Done() in the core: edges on which the context was found done / not done
		var ctxPollReady, ctxPollDefault []core.Edge
		for _, s2 := range selects(f) {
			if s2.Blocking || len(s2.States) != 1 || s2.States[0].Dir != types.RecvOnly || !isCtxDone(s2.States[0].Chan) {
				continue
			}
			h, fl := core.EdgesOf(f, core.Cmp(token.EQL, selectIndex(s2), core.IsConstInt(0)))
			ctxPollReady = append(ctxPollReady, h...)
			ctxPollDefault = append(ctxPollDefault, fl...)
		}
		classes := map[string]int{}
		rets = reach(outArm)
		o.Site(len(rets))
		for _, ret := range rets {
			e := core.Result(ret, 1)
			switch {
			case core.IsNil(e):
				classes["value"]++
				if !unreachableWithout(ret, loadNil) {
					o.Fail(p.InstrPos(ret), "a value is returned without checking the recorded cancel error first")
				}
				if !unreachableWithout(ret, okTrue) {
					o.Fail(p.InstrPos(ret), "(value, nil) returned although output was closed without a value")
				}
				if !val(core.Result(ret, 0)) {
					o.Fail(p.InstrPos(ret), "the returned value is not the value the reducer wrote")
				}
			case core.IsGlobal(mrPkg, "ErrReduceNoOutput")(e):
				classes["nooutput"]++
				if !unreachableWithout(ret, loadNil) {
					o.Fail(p.InstrPos(ret), "ErrReduceNoOutput returned without checking the recorded cancel error first")
				}
				if !unreachableWithout(ret, core.Not(okTrue)) {
					o.Fail(p.InstrPos(ret), "ErrReduceNoOutput returned although the reducer wrote a value")
				}
				// a done context wins over "no output": the guarded writer drops the reducer's write once the
				// context is done, so an empty closed output proves nothing then (the final select picks at random
				// among ready arms) - the no-output verdict needs a context poll that found it not done
				if len(ctxPollReady) == 0 {
					o.Fail(p.InstrPos(ret), "ErrReduceNoOutput is reported without polling the context: when the context is already done the reducer's write was dropped by the guarded writer and the call must return context.DeadlineExceeded")
				} else if _, reach := core.Reach(core.Q{From: heads(outArm), Target: core.Is(ret), Cut: core.CutSet(ctxPollDefault)}); reach {
					o.Fail(p.InstrPos(ret), "ErrReduceNoOutput can be reported on a path that did not find the context still open")
				}
			case isDeadline(e):
				classes["deadline"]++
				if !core.IsNil(core.Result(ret, 0)) {
					o.Fail(p.InstrPos(ret), "a value is returned together with context.DeadlineExceeded")
				}
				if _, reach := core.Reach(core.Q{From: heads(outArm), Target: core.Is(ret), Cut: core.CutSet(ctxPollReady)}); reach || len(ctxPollReady) == 0 {
					o.Fail(p.InstrPos(ret), "the output arm returns context.DeadlineExceeded on a path that did not find the context done")
				}
				if !unreachableWithout(ret, core.Not(okTrue)) {
					o.Fail(p.InstrPos(ret), "context.DeadlineExceeded returned although the reducer's value was received")
				}
			case isLoadRes(e):
				classes["cancel"]++
				if !unreachableWithout(ret, core.Not(loadNil)) {
					o.Fail(p.InstrPos(ret), "the recorded error is returned without testing it: (nil, nil) when nothing was cancelled")
				}
				if !core.IsNil(core.Result(ret, 0)) {
					o.Fail(p.InstrPos(ret), "a value is returned together with the cancel error")
				}
			default:
				o.Fail(p.InstrPos(ret), "output arm returns error %s", core.Describe(e))
			}
		}
		for _, c := range []string{"value", "nooutput", "cancel"} {
			if classes[c] == 0 {
				o.Fail(p.InstrPos(coreSel), "output arm has no `%s` return", c)
			}
		}
	})

	r.Check("D5/K2/second-write-panics", "the MapReduce core defers, before starting any goroutine, a loop that receives from output until it is closed and panics on any value (a second reducer write panics in the caller)", func(o *core.O) {
		if !o.Need(coreSel != nil, "MapReduce core") {
			return
		}
		f := coreSel.Parent()
		kOut := stateOf(coreSel, func(st *ssa.SelectState) bool {
			return st.Dir == types.RecvOnly && strings.HasPrefix(chanID(st.Chan), "make:")
		})
		if !o.Need(kOut >= 0, "output state") {
			return
		}
		out := chanID(coreSel.States[kOut].Chan)
		found := false
		for _, d := range core.Instrs(f, func(in ssa.Instruction) bool { _, k := in.(*ssa.Defer); return k }) {
			gfn := deferredFn(d)
			if gfn == nil {
				continue
			}
			rcs := core.Instrs(gfn, isRecvOn(out))
			if len(rcs) != 1 {
				continue
			}
			rc := rcs[0].(*ssa.UnOp)
			found = true
			o.Site(1, core.FuncName(gfn))
			isPanic := func(in ssa.Instruction) bool { _, ok := in.(*ssa.Panic); return ok }
			if !rc.CommaOk {
				o.Fail(p.InstrPos(rc), "the deferred guard does not distinguish a value from a closed output")
				continue
			}
			okv := func(v ssa.Value) bool {
				e, ok := v.(*ssa.Extract)
				return ok && e.Tuple == ssa.Value(rc) && e.Index == 1
			}
			holds, fails := core.EdgesOf(gfn, core.BoolVal(okv))
			if len(holds) == 0 {
				o.Fail(p.InstrPos(rc), "the deferred guard ignores whether a value was received")
				continue
			}
			if w, bad := core.Reach(core.Q{From: heads(holds), Target: core.Or(core.IsReturn, core.Is(rc)), Blocked: isPanic}); bad {
				o.Fail(p.InstrPos(w), "a second value written by the reducer is discarded silently instead of panicking")
			}
			// after output was closed the only panic allowed is the re-raise of a value received from
			// a channel (the late panic forwarded through the panic channel)
			isOwnPanic := func(in ssa.Instruction) bool {
				pn, ok := in.(*ssa.Panic)
				if !ok {
					return false
				}
				switch x := core.Forward(pn.X).(type) {
				case *ssa.Extract:
					if _, isSel := x.Tuple.(*ssa.Select); isSel {
						return false
					}
				case *ssa.UnOp:
					if x.Op == token.ARROW {
						return false
					}
				}
				return true
			}
			if w := core.ReachableFromEdges(fails, isOwnPanic, core.Is(rc)); w != nil {
				o.Fail(p.InstrPos(w), "the deferred guard panics although output was closed without a further value")
			}
			if w := core.MustPass(core.Entry(gfn), core.Is(rc), core.IsExit); w != nil {
				o.Fail(p.InstrPos(w), "the deferred guard can be skipped")
			}
			isGo := func(in ssa.Instruction) bool { _, ok := in.(*ssa.Go); return ok }
			if w := core.Precedes(f, core.Is(d), core.Or(isGo, core.IsReturn)); w != nil {
				o.Fail(p.InstrPos(w), "a goroutine is started / the function returns before the double-write guard is deferred")
			}
		}
		if !found {
			o.Fail(p.Pos(f.Pos()), "%s has no deferred receive on output: a second reducer write blocks its goroutine forever instead of panicking in the caller", core.FuncName(f))
		}
	})

	r.Check("D5/K1/late-panic-never-blocks-and-is-reraised", "a panic that happens after the caller has taken its result (the reducer panics after writing, the generator panics later) neither blocks its goroutine nor gets lost while the caller is still inside the call: the panic channel every forwarder writes to has room for the one value it ever carries (capacity >= 1: nobody may be receiving any more), and the core's deferred guard, once output is closed, polls that channel without blocking and re-panics with the value received (otherwise the forwarder blocks before it closes output and the caller hangs in its deferred `for range output`: the call never returns)", func(o *core.O) {
		if !o.Need(coreSel != nil, "MapReduce core") {
			return
		}
		f := coreSel.Parent()
		kPanic := stateOf(coreSel, func(st *ssa.SelectState) bool {
			return st.Dir == types.RecvOnly && core.FieldAddrNameOfLoad(core.Forward(st.Chan)) == "onceChan.channel"
		})
		if !o.Need(kPanic >= 0, "the panic-channel receive state of the final select") {
			return
		}
		// (1) capacity of every channel stored into onceChan.channel
		n := 0
		for _, g := range m.funcs {
			for _, st := range core.StoresToField(g, "onceChan.channel") {
				n++
				mc, ok := core.Strip(core.Forward(st.Val)).(*ssa.MakeChan)
				if !ok {
					o.Unres("%s: the panic channel is %s, not a make(chan ...)", p.InstrPos(st), core.Describe(st.Val))
					continue
				}
				if sz, isC := core.ConstInt(mc.Size); !isC || sz < 1 {
					o.Fail(p.InstrPos(mc), "the panic channel is unbuffered: a goroutine that forwards a panic after the caller has left its select (the reducer panics after writing its value, the generator panics later) blocks for ever, output is never closed and the caller hangs in its deferred `for range output`")
				}
			}
		}
		o.Site(n, "stores to onceChan.channel")
		if n == 0 {
			o.Unres("no store to onceChan.channel found")
		}
		// (3) every other function that waits on the panic channel in a blocking select (ForEach): a return reached
		// from another arm of that select passes a non-blocking poll of the panic channel first (both arms can be
		// ready at once - the forwarder no longer waits for the receiver - and select picks at random)
		isPoll := func(in ssa.Instruction) bool {
			sel, ok := in.(*ssa.Select)
			if !ok || sel.Blocking {
				return false
			}
			for _, st := range sel.States {
				if st.Dir == types.RecvOnly && core.FieldAddrNameOfLoad(core.Forward(st.Chan)) == "onceChan.channel" {
					return true
				}
			}
			return false
		}
		// ... or the call of an in-package helper that cannot return without having made such a poll
		isPollDirect := isPoll
		isPoll = func(in ssa.Instruction) bool {
			if isPollDirect(in) {
				return true
			}
			c, ok := in.(*ssa.Call)
			if !ok {
				return false
			}
			h := c.Call.StaticCallee()
			if h == nil || h.Blocks == nil || h.Pkg == nil || h.Pkg != in.Parent().Pkg || len(core.Instrs(h, isPollDirect)) == 0 {
				return false
			}
			return core.MustPass(core.Entry(h), isPollDirect, core.IsReturn) == nil
		}
		for _, sel := range psels {
			g := sel.Parent()
			if !sel.Blocking || g == f {
				continue
			}
			kp := stateOf(sel, func(st *ssa.SelectState) bool {
				return st.Dir == types.RecvOnly && core.FieldAddrNameOfLoad(core.Forward(st.Chan)) == "onceChan.channel"
			})
			if kp < 0 {
				continue
			}
			r.Fn(core.FuncName(g))
			for k := range sel.States {
				if k == kp {
					continue
				}
				arm := selectArm(g, sel, k)
				o.Site(len(arm), core.FuncName(g))
				if w, ok := core.Reach(core.Q{From: heads(arm), Target: core.IsReturn, Blocked: core.Or(isPoll, core.Is(sel))}); ok {
					o.Fail(p.InstrPos(w), "%s returns from another arm of its select without polling the panic channel: when the forwarded panic and that arm are ready together the select may pick that arm, and the panic of a generator or mapper is swallowed", core.FuncName(g))
				}
			}
		}
		// (2) the deferred guard polls the panic channel after output is closed and re-raises
		kOut := stateOf(coreSel, func(st *ssa.SelectState) bool {
			return st.Dir == types.RecvOnly && strings.HasPrefix(chanID(st.Chan), "make:")
		})
		if kOut < 0 {
			return
		}
		out := chanID(coreSel.States[kOut].Chan)
		for _, d := range core.Instrs(f, func(in ssa.Instruction) bool { _, k := in.(*ssa.Defer); return k }) {
			gfn := deferredFn(d)
			if gfn == nil || len(core.Instrs(gfn, isRecvOn(out))) != 1 {
				continue
			}
			polls := core.Instrs(gfn, func(in ssa.Instruction) bool {
				sel, ok := in.(*ssa.Select)
				if !ok || sel.Blocking {
					return false
				}
				for _, st := range sel.States {
					if st.Dir == types.RecvOnly && core.FieldAddrNameOfLoad(core.Forward(st.Chan)) == "onceChan.channel" {
						return true
					}
				}
				return false
			})
			o.Site(len(polls), core.FuncName(gfn))
			if len(polls) == 0 {
				o.Fail(p.Pos(gfn.Pos()), "the deferred guard does not poll the panic channel after output was closed: a panic raised after the result was taken is dropped instead of being re-raised in the calling goroutine")
				continue
			}
			sel := polls[0].(*ssa.Select)
			reraise := func(in ssa.Instruction) bool {
				pn, ok := in.(*ssa.Panic)
				if !ok {
					return false
				}
				e, ok := core.Forward(pn.X).(*ssa.Extract)
				return ok && e.Tuple == ssa.Value(sel)
			}
			if len(core.Instrs(gfn, reraise)) == 0 {
				o.Fail(p.InstrPos(sel), "the value polled from the panic channel is not re-panicked")
			}
			if w := core.MustPass(core.Entry(gfn), core.Is(sel), core.Or(core.IsReturn)); w != nil {
				o.Fail(p.InstrPos(w), "the deferred guard can return normally without polling the panic channel")
			}
		}
	})

	r.Check("D5/K2/guarded-write", "Writer.Write sends only when neither ctx.Done() nor done was ready (default arm of the non-blocking select)", func(o *core.O) {
		n := 0
		for _, f := range m.funcs {
			if f.Name() != "Write" || f.Signature.Recv() == nil {
				continue
			}
			sends := core.Instrs(f, func(in ssa.Instruction) bool { _, ok := in.(*ssa.Send); return ok })
			for _, s := range sends {
				n++
				o.Site(1, core.FuncName(f))
				var sel *ssa.Select
				for _, x := range selects(f) {
					if core.Dominates(x, s) {
						sel = x
					}
				}
				if sel == nil {
					// equivalent shape: the readiness test lives in a boolean helper of the same writer
					if why := guardedByHelper(m, f, s); why != "" {
						o.Fail(p.InstrPos(s), "Write sends without a select on ctx.Done()/done (%s)", why)
					}
					continue
				}
				hasCtx, hasDone := false, false
				for i, st := range sel.States {
					if st.Dir != types.RecvOnly {
						continue
					}
					if isCtxDone(st.Chan) {
						hasCtx = true
					} else if strings.HasPrefix(chanID(st.Chan), "field:") {
						hasDone = true
					}
					if w := core.ReachableFromEdges(selectArm(f, sel, i), core.Is(s), nil); w != nil {
						o.Fail(p.InstrPos(w), "Write sends although %s was ready: after finish this is a send on a closed channel", core.Describe(st.Chan))
					}
					if len(selectArm(f, sel, i)) == 0 {
						o.Fail(p.InstrPos(sel), "select state %d is not dispatched", i)
					}
				}
				if !hasCtx || !hasDone {
					o.Fail(p.InstrPos(sel), "Write does not watch both ctx.Done() and the done channel")
				}
			}
		}
		if n == 0 {
			o.Unres("no sending Write method found")
		}
	})

	r.Check("D5/K2/foreach-returns-on-close", "ForEach returns only when the collector was closed (all mappers finished)", func(o *core.O) {
		f := p.Func(mrPkg, "", "ForEach")
		if !o.Need(f != nil, "mr.ForEach") {
			return
		}
		for _, sel := range psels {
			if sel.Parent() != f || !sel.Blocking {
				continue // a non-blocking poll of the panic channel is not the wait
			}
			o.Site(1, core.FuncName(f))
			if w := core.Requires(f, core.IsReturn, core.Not(core.BoolVal(selectRecvOk(sel)))); w != nil {
				o.Fail(p.InstrPos(w), "ForEach can return while mappers are still running")
			}
			k := stateOf(sel, func(st *ssa.SelectState) bool {
				return st.Dir == types.RecvOnly && strings.HasPrefix(chanID(st.Chan), "make:")
			})
			if k < 0 {
				o.Fail(p.InstrPos(sel), "ForEach does not wait on its collector")
				continue
			}
			if w, bad := core.Reach(core.Q{From: []core.At{core.Entry(f)}, Target: core.IsReturn, Cut: core.CutSet(selectArm(f, sel, k))}); bad {
				o.Fail(p.InstrPos(w), "ForEach returns on a path that did not observe the collector")
			}
		}
	})
}

// cancelArgument finds the error the cancel body was called with and returns a matcher
// of the values that denote it inside the body: the body's own error parameter, or the
// variable of the function around it that holds that function's error parameter and is
// written nowhere else (the closure handed to Once.Do reads the wrapper's argument). When
// the function around the body was inlined at several places, the body's closure is created
// at each of them; the variable then holds the wrapper's parameter at one site at least,
// and exactly one value at every site.
func cancelArgument(cb *ssa.Function) func(ssa.Value) bool {
	isError := func(t types.Type) bool { return t.String() == "error" }
	var errParam *ssa.Parameter
	for _, pa := range cb.Params {
		if isError(pa.Type()) {
			errParam = pa
		}
	}
	if errParam != nil {
		return func(v ssa.Value) bool { return resolve(v) == ssa.Value(errParam) }
	}
	sites := closureSites(cb)
	var argVar *ssa.FreeVar
	for i, fv := range cb.FreeVars {
		pt, ok := fv.Type().Underlying().(*types.Pointer)
		if !ok || !isError(pt.Elem()) {
			continue
		}
		fromParam, single := false, len(sites) > 0
		for _, mc := range sites {
			if i >= len(mc.Bindings) {
				single = false
				continue
			}
			sts := storesToCell(cellOf(mc.Bindings[i]))
			if len(sts) != 1 {
				single = false
				continue
			}
			if pa, ok := resolveLocal(sts[0].Val).(*ssa.Parameter); ok && isError(pa.Type()) {
				fromParam = true
			}
		}
		if fromParam && single {
			if argVar != nil {
				return nil // ambiguous
			}
			argVar = fv
		}
	}
	if argVar == nil {
		return nil
	}
	return func(v ssa.Value) bool {
		u, ok := core.Strip(v).(*ssa.UnOp)
		return ok && u.Op == token.MUL && u.X == ssa.Value(argVar)
	}
}

// guardedByHelper accepts `if w.stopped() { return }; w.channel <- v`: the send s
// of f is reachable only when a boolean helper of the same receiver, which
// answers one constant on every arm of a non-blocking select over ctx.Done()
// and the done field, answered the other constant. It returns "" when that
// holds, otherwise the reason.
func guardedByHelper(m *mrCtx, f *ssa.Function, s ssa.Instruction) string {
	why := "no dominating readiness test"
	for _, c := range core.Calls(f, func(in ssa.Instruction) bool { _, ok := in.(*ssa.Call); return ok }) {
		call := c.(*ssa.Call)
		h := call.Call.StaticCallee()
		if h == nil || !m.k.in[h] || !core.Dominates(call, s) || len(call.Call.Args) == 0 || len(f.Params) == 0 {
			continue
		}
		if b, ok := h.Signature.Results().At(0).Type().Underlying().(*types.Basic); h.Signature.Results().Len() != 1 || !ok || b.Kind() != types.Bool {
			continue
		}
		if resolveLocal(call.Call.Args[0]) != ssa.Value(f.Params[0]) {
			why = "the readiness helper is asked about another writer"
			continue
		}
		for _, sel := range selects(h) {
			if sel.Blocking {
				why = "the helper's select blocks"
				continue
			}
			hasCtx, hasDone, okArms := false, false, true
			pol := ""
			for i, st := range sel.States {
				if st.Dir != types.RecvOnly {
					okArms = false
					continue
				}
				if isCtxDone(st.Chan) {
					hasCtx = true
				} else if strings.HasPrefix(chanID(st.Chan), "field:") {
					hasDone = true
				}
				arm := selectArm(h, sel, i)
				if len(arm) == 0 {
					okArms = false
				}
				for _, ret := range core.Returns(h) {
					if _, reach := core.Reach(core.Q{From: heads(arm), Target: core.Is(ret)}); !reach {
						continue
					}
					d := core.Describe(core.Result(ret, 0))
					if d != "const:true" && d != "const:false" || (pol != "" && pol != d) {
						okArms = false
					}
					pol = d
				}
			}
			if !hasCtx || !hasDone || !okArms || pol == "" {
				why = "the helper does not answer one constant whenever ctx.Done() or done is ready"
				continue
			}
			isC := core.BoolVal(func(v ssa.Value) bool { return v == ssa.Value(call) })
			atom := isC
			if pol == "const:true" {
				atom = core.Not(isC)
			}
			if w := core.Requires(f, core.Is(s), atom); w != nil {
				why = "the send is reachable although the helper reported ctx.Done()/done ready"
				continue
			}
			return ""
		}
	}
	return why
}

// bodyCreationSites lists the places where the function value running body cb comes into being:
// the MakeClosure sites of a closure (or of a bound-method wrapper a variant has inlined the
// method into), or - cb being a method that is never called by name - the sites where it is
// bound to its receiver as a method value (x.m). Empty when cb is a function or method that can
// (also) be called directly.
func bodyCreationSites(cb *ssa.Function) []*ssa.MakeClosure {
	if cb.Parent() != nil || inlinedBoundWrapper(cb) {
		return closureSites(cb)
	}
	ix := indexOf(pkgOf(cb))
	if ix == nil || cb.Signature.Recv() == nil || len(ix.sites[cb]) > 0 {
		return nil
	}
	var out []*ssa.MakeClosure
	for g, ms := range ix.mcs {
		if boundTarget(g) == cb {
			out = append(out, ms...)
		}
	}
	// any other use of the method as a value (a method expression, a thunk) is not understood
	for _, f := range ix.funcs {
		for _, b := range f.Blocks {
			for _, in := range b.Instrs {
				if _, isMC := in.(*ssa.MakeClosure); isMC {
					continue
				}
				for _, op := range in.Operands(nil) {
					if fv, ok := (*op).(*ssa.Function); ok && (fv == cb || boundTarget(fv) == cb) {
						if c, isCall := in.(ssa.CallInstruction); isCall && c.Common().StaticCallee() == fv {
							continue
						}
						return nil
					}
				}
			}
		}
	}
	return out
}
