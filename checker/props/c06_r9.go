package props

import (
	"fmt"
	"go/token"
	"go/types"
	"strings"

	"godcheck/core"

	"golang.org/x/tools/go/ssa"
)

// Rule added with the fix of finding C06-f1 (the background retry of a failed delete
// aliased its caller's key slice).
//
// A delete-retry task lives in the cleaner's timing wheel for one second up to more
// than an hour after the call that scheduled it has returned. Whatever slice it
// retains must therefore be memory the cache package allocated for it: a slice that
// came in through an exported entry point (`keys ...string` of node.DelCtx) still
// belongs to that caller, who may rewrite it as soon as the call is over.
//
// c06Own decides, for a slice-typed SSA value, where its backing array comes from:
// an allocation made by the package on the way (make, a composite/variadic array,
// append onto nil or onto such an allocation, a helper all of whose results are such),
// or a parameter — which is followed to every static call site inside the package when
// the function can only be called from there, and is the caller's memory when the
// function has an exported name. Variables (also those captured by closures) are read
// through the stores that can reach the point of use.

type c06Origin struct {
	foreign []string // the value may be (a re-slice of) memory owned by a caller outside the package
	unknown []string // the analysis cannot tell
}

type c06Own struct {
	p         *core.Prog
	envOf     map[*ssa.Function]*c06Env               // function → the creation-site environment it belongs to
	callSites map[*ssa.Function][]ssa.CallInstruction // static call sites inside the package
	asValue   map[*ssa.Function]bool                  // referenced other than as the callee of a static call
	invoked   map[string]bool                         // method names called through an interface in the package
}

func newC06Own(p *core.Prog, rel string) *c06Own {
	w := &c06Own{p: p, envOf: map[*ssa.Function]*c06Env{}, callSites: map[*ssa.Function][]ssa.CallInstruction{}, asValue: map[*ssa.Function]bool{}, invoked: map[string]bool{}}
	for _, f := range p.PkgFuncs(rel) {
		if f.Parent() == nil {
			e := newC06Env(f)
			for _, g := range e.fns {
				if w.envOf[g] == nil {
					w.envOf[g] = e
				}
			}
		}
	}
	for _, f := range p.PkgFuncs(rel) {
		if w.envOf[f] == nil { // a closure whose creator is not a live top-level function
			w.envOf[f] = newC06Env(f)
		}
		for _, b := range f.Blocks {
			for _, in := range b.Instrs {
				var callee ssa.Value
				if c := core.AsCall(in); c != nil {
					if c.Common().IsInvoke() {
						w.invoked[c.Common().Method.Name()] = true
					} else {
						callee = c.Common().Value
						if h := c.Common().StaticCallee(); h != nil {
							w.callSites[h] = append(w.callSites[h], c)
						}
					}
				}
				mc, _ := in.(*ssa.MakeClosure)
				for _, op := range in.Operands(nil) {
					h, ok := (*op).(*ssa.Function)
					if !ok || *op == callee {
						continue
					}
					if mc != nil && mc.Fn == *op && h.Parent() != nil {
						continue // a function literal: it is what it is, not a reference to a named function
					}
					w.asValue[h] = true
					if h.Synthetic != "" {
						// a bound method value x.m / method expression T.m: the wrapper calls m
						for _, hb := range h.Blocks {
							for _, hin := range hb.Instrs {
								if hc := core.AsCall(hin); hc != nil {
									if m := hc.Common().StaticCallee(); m != nil {
										w.asValue[m] = true
									}
								}
							}
						}
					}
				}
			}
		}
	}
	return w
}

func (w *c06Own) env(f *ssa.Function) *c06Env {
	if e := w.envOf[f]; e != nil {
		return e
	}
	e := newC06Env(f)
	w.envOf[f] = e
	return e
}

// c06HoldsSlice reports whether a value of type t contains a slice header directly
// (itself, or in a struct field / array element, not behind a pointer, map or interface).
func c06HoldsSlice(t types.Type, depth int) bool {
	if depth > 6 {
		return false
	}
	switch u := t.Underlying().(type) {
	case *types.Slice:
		return true
	case *types.Struct:
		for i := 0; i < u.NumFields(); i++ {
			if c06HoldsSlice(u.Field(i).Type(), depth+1) {
				return true
			}
		}
	case *types.Array:
		return c06HoldsSlice(u.Elem(), depth+1)
	}
	return false
}

// c06CapZero: the slice provably has capacity 0, so appending to it allocates.
func c06CapZero(v ssa.Value) bool {
	v = core.Strip(v)
	switch x := v.(type) {
	case *ssa.Const:
		return x.IsNil()
	case *ssa.Slice:
		if x.Max != nil {
			if n, ok := core.ConstInt(x.Max); ok && n == 0 {
				return true
			}
		}
		if al, ok := x.X.(*ssa.Alloc); ok {
			if pt, ok := al.Type().Underlying().(*types.Pointer); ok {
				if at, ok := pt.Elem().Underlying().(*types.Array); ok && at.Len() == 0 {
					return true
				}
			}
		}
	case *ssa.MakeSlice:
		if n, ok := core.ConstInt(x.Cap); ok && n == 0 {
			return true
		}
	}
	return false
}

// c06FreshResult: functions outside the module whose slice result is newly allocated.
var c06FreshResult = map[string]bool{
	"slices.Clone": true, "golang.org/x/exp/slices.Clone": true,
	"strings.Split": true, "strings.SplitN": true, "strings.Fields": true,
}

// liveStores lists the stores into the variable al whose value the variable can hold
// at instruction `at` (and, when later is set, at any moment after it: a closure created
// at `at` reads the variable when it runs, not when it is made). ok is false when the
// variable's address escapes the load/store/capture discipline.
func (w *c06Own) liveStores(e *c06Env, al *ssa.Alloc, at ssa.Instruction, later bool) (live []*ssa.Store, ok bool) {
	stores, ok := e.cellStores(al)
	if !ok {
		return nil, false
	}
	var same []ssa.Instruction
	for _, st := range stores {
		if st.Parent() == at.Parent() {
			same = append(same, st)
		}
	}
	for _, st := range stores {
		if st.Parent() != at.Parent() {
			live = append(live, st) // written by another function (a closure sharing the variable): any time
			continue
		}
		var others []ssa.Instruction
		for _, x := range same {
			if x != ssa.Instruction(st) {
				others = append(others, x)
			}
		}
		if _, reaches := core.Reach(core.Q{From: []core.At{core.After(st)}, Target: core.Is(at), Blocked: core.Is(others...)}); reaches {
			live = append(live, st)
			continue
		}
		if later {
			if _, after := core.Reach(core.Q{From: []core.At{core.After(at)}, Target: core.Is(st)}); after {
				live = append(live, st)
			}
		}
	}
	return live, true
}

// variable adds the origins of what the variable at address addr can hold at `at`.
func (w *c06Own) variable(addr ssa.Value, at ssa.Instruction, later bool, depth int, seen map[ssa.Value]bool, res *c06Origin) {
	e := w.env(at.Parent())
	al := e.home(addr)
	if al == nil {
		res.unknown = append(res.unknown, fmt.Sprintf("%s (%s)", core.Describe(addr), w.p.InstrPos(at)))
		return
	}
	if al.Parent() != at.Parent() {
		e = w.env(al.Parent())
	}
	live, ok := w.liveStores(e, al, at, later)
	if !ok {
		res.unknown = append(res.unknown, fmt.Sprintf("variable %s, whose address is passed on (%s)", al.Comment, w.p.Pos(al.Pos())))
		return
	}
	for _, st := range live {
		w.origin(st.Val, st, depth, seen, res)
	}
}

// origin adds to res every foreign or unknown source of the backing array of slice v,
// which is used at instruction `at`.
func (w *c06Own) origin(v ssa.Value, at ssa.Instruction, depth int, seen map[ssa.Value]bool, res *c06Origin) {
	if v == nil || seen[v] {
		return // a cycle (owned = append(owned, k) in a loop) adds nothing new
	}
	seen[v] = true
	if depth > 8 {
		res.unknown = append(res.unknown, "a value more than 8 calls away")
		return
	}
	switch x := v.(type) {
	case *ssa.Const, *ssa.MakeSlice:
		return // nil, or a fresh allocation
	case *ssa.ChangeType:
		w.origin(x.X, at, depth, seen, res)
	case *ssa.Convert:
		if _, isSlice := x.X.Type().Underlying().(*types.Slice); isSlice {
			w.origin(x.X, at, depth, seen, res)
		}
		// []byte(string) / []rune(string): a fresh copy
	case *ssa.Phi:
		for _, ed := range x.Edges {
			w.origin(ed, at, depth, seen, res)
		}
	case *ssa.Slice:
		switch x.X.Type().Underlying().(type) {
		case *types.Slice:
			w.origin(x.X, at, depth, seen, res) // a re-slice shares the backing array
		case *types.Pointer:
			if _, fresh := x.X.(*ssa.Alloc); !fresh {
				res.unknown = append(res.unknown, fmt.Sprintf("a slice of the array at %s (%s)", core.Describe(x.X), w.p.InstrPos(x)))
			}
			// a composite literal / the array of a variadic call: allocated here
		}
	case *ssa.UnOp:
		if x.Op != token.MUL {
			res.unknown = append(res.unknown, core.Describe(v))
			return
		}
		w.variable(x.X, x, false, depth, seen, res)
	case *ssa.Extract:
		if c, ok := x.Tuple.(*ssa.Call); ok {
			w.callResult(c, x.Index, depth, seen, res)
			return
		}
		res.unknown = append(res.unknown, core.Describe(v))
	case *ssa.Call:
		w.callResult(x, 0, depth, seen, res)
	case *ssa.Parameter:
		h := x.Parent()
		idx := -1
		for i, q := range h.Params {
			if q == x {
				idx = i
			}
		}
		name := core.FuncName(h)
		switch {
		case h.Parent() != nil || idx < 0:
			res.unknown = append(res.unknown, fmt.Sprintf("parameter %s of the function value %s", x.Name(), name))
		case token.IsExported(h.Name()):
			res.foreign = append(res.foreign, fmt.Sprintf("parameter #%d (%s) of %s, an entry point callable from outside the package", idx, x.Type(), name))
		case w.asValue[h] || (h.Signature.Recv() != nil && w.invoked[h.Name()]):
			res.unknown = append(res.unknown, fmt.Sprintf("parameter %s of %s, which is also called through a function value or an interface", x.Name(), name))
		default:
			for _, c := range w.callSites[h] {
				args := c.Common().Args
				if idx < len(args) {
					w.origin(args[idx], c, depth+1, seen, res)
				}
			}
		}
	default:
		res.unknown = append(res.unknown, fmt.Sprintf("%s (%s)", core.Describe(v), v.Type()))
	}
}

func (w *c06Own) callResult(c *ssa.Call, idx int, depth int, seen map[ssa.Value]bool, res *c06Origin) {
	if b, ok := c.Call.Value.(*ssa.Builtin); ok {
		if b.Name() == "append" && len(c.Call.Args) > 0 {
			// the result lives in the first operand's array or in a new one; the appended
			// elements are copied (strings: immutable)
			if !c06CapZero(c.Call.Args[0]) {
				w.origin(c.Call.Args[0], c, depth, seen, res)
			}
			return
		}
		res.unknown = append(res.unknown, "the result of builtin "+b.Name())
		return
	}
	h := c.Call.StaticCallee()
	if h == nil {
		res.unknown = append(res.unknown, fmt.Sprintf("the result of the dynamic call %s (%s)", core.Short(core.CalleeName(c)), w.p.InstrPos(c)))
		return
	}
	if h.Blocks == nil || h.Pkg == nil || !strings.HasPrefix(h.Pkg.Pkg.Path(), core.Mod) {
		full := ""
		if h.Pkg != nil {
			full = h.Pkg.Pkg.Path() + "." + h.Name()
		}
		if o := h.Origin(); o != nil && o.Pkg != nil {
			full = o.Pkg.Pkg.Path() + "." + o.Name()
		}
		if !c06FreshResult[full] {
			res.unknown = append(res.unknown, fmt.Sprintf("the result of %s (%s)", core.Short(core.CalleeName(c)), w.p.InstrPos(c)))
		}
		return
	}
	for _, ret := range core.Returns(h) {
		if idx < len(ret.Results) {
			w.origin(ret.Results[idx], ret, depth+1, seen, res)
		}
	}
}

// taskClosures resolves the function value v (used at `at`) to the closures it may be,
// following parameters to the static call sites inside the package.
func (w *c06Own) taskClosures(v ssa.Value, at ssa.Instruction, depth int, seen map[ssa.Value]bool, out *[]*ssa.MakeClosure, plain *int, unknown *[]string) {
	e := w.env(at.Parent())
	v = e.value(v)
	if seen[v] {
		return
	}
	seen[v] = true
	switch x := v.(type) {
	case *ssa.MakeClosure:
		*out = append(*out, x)
	case *ssa.Function:
		*plain++ // a plain function captures nothing
	case *ssa.Const:
		// nil
	case *ssa.Phi:
		for _, ed := range x.Edges {
			w.taskClosures(ed, at, depth, seen, out, plain, unknown)
		}
	case *ssa.Parameter:
		h := x.Parent()
		idx := -1
		for i, q := range h.Params {
			if q == x {
				idx = i
			}
		}
		if h.Parent() != nil || idx < 0 || w.asValue[h] || depth > 6 {
			*unknown = append(*unknown, fmt.Sprintf("parameter %s of %s", x.Name(), core.FuncName(h)))
			return
		}
		// callers outside the package build their own tasks: only the package's own are judged here
		for _, c := range w.callSites[h] {
			if args := c.Common().Args; idx < len(args) {
				w.taskClosures(args[idx], c, depth+1, seen, out, plain, unknown)
			}
		}
	case *ssa.Call:
		// a helper of the package that builds the task: whatever it returns
		h := x.Call.StaticCallee()
		if h == nil || h.Blocks == nil || h.Pkg == nil || !strings.HasPrefix(h.Pkg.Pkg.Path(), core.Mod) || h.Signature.Results().Len() != 1 || depth > 6 {
			*unknown = append(*unknown, fmt.Sprintf("the result of %s (%s)", core.Short(core.CalleeName(x)), w.p.InstrPos(x)))
			return
		}
		for _, ret := range core.Returns(h) {
			if len(ret.Results) == 1 {
				w.taskClosures(ret.Results[0], ret, depth+1, seen, out, plain, unknown)
			}
		}
	default:
		*unknown = append(*unknown, fmt.Sprintf("%s (%s)", core.Describe(v), w.p.InstrPos(at)))
	}
}

func c06Round9(r *core.Run) {
	p := r.P
	r.Explanation += " The function value the cache package stores as a delete-retry task (delayTask.task, followed back through parameters to the package's own call sites) retains no slice that belongs to a caller outside the package: every slice variable it captures holds, at and after the creation of the closure, only arrays the package allocated on the way."
	r.NotDecided += " Not decided for the retry task's memory: mutable data reached through captured pointers, maps or interfaces; slices whose elements are themselves references (the copy is judged one level deep); the key list passed alongside the task for the give-up log line (it does not influence which key is deleted); tasks that callers outside the package hand to AddCleanTask."

	r.Check("D4/K5/retry-task-owns-its-keys", "the function value the cache package schedules as a delete-retry task (every value stored into delayTask.task, followed through parameters to the package's own call sites) retains only slices whose backing array the package allocated itself on that path — make, a literal or variadic array, append onto nil/a zero-capacity slice or onto such an allocation, a helper returning such — at the creation of the closure and at any time after it; a slice parameter of a function with an exported name is its caller's memory, a parameter of an unexported function is traced to each of its call sites in the package ['if removing a key from the cache fails, the removal is retried in the background … until it first succeeds': the task runs 1 s … 1 h after Del/Exec returned, when the caller may have rewritten the slice it passed as keys... — the retry then removes another key, succeeds, and the key whose delete failed stays cached until its TTL: reads return a value older than the last completed write]", func(o *core.O) {
		w := newC06Own(p, cachePkg)
		var tasks []*ssa.MakeClosure
		plain, nstores := 0, 0
		var unknown []string
		seenTask := map[ssa.Value]bool{}
		for _, f := range p.PkgFuncs(cachePkg) {
			for _, st := range core.StoresToField(f, "delayTask.task") {
				nstores++
				r.Fn(core.FuncName(f))
				w.taskClosures(st.Val, st, 0, seenTask, &tasks, &plain, &unknown)
			}
		}
		if nstores == 0 {
			o.Unres("no function of %s stores a delayTask.task", cachePkg)
			return
		}
		for _, u := range unknown {
			o.Unres("a delete-retry task cannot be resolved to the function literal that builds it: %s", u)
		}
		o.Site(len(tasks)+plain, cachePkg)
		for _, mc := range tasks {
			fn, _ := mc.Fn.(*ssa.Function)
			if fn == nil {
				o.Unres("task closure without a function at %s", p.InstrPos(mc))
				continue
			}
			r.Fn(core.FuncName(mc.Parent()), core.FuncName(fn))
			for i, b := range mc.Bindings {
				if i >= len(fn.FreeVars) {
					break
				}
				res := &c06Origin{}
				seen := map[ssa.Value]bool{}
				what := fn.FreeVars[i].Name()
				byRef := fn.Parent() != nil // a function literal captures the variable, a bound method its receiver's value
				switch {
				case byRef:
					pt, isPtr := b.Type().Underlying().(*types.Pointer)
					if !isPtr || !c06HoldsSlice(pt.Elem(), 0) {
						continue
					}
					if _, isSlice := pt.Elem().Underlying().(*types.Slice); !isSlice {
						o.Unres("the retry task at %s captures %s of type %s, which contains slices: not decided field by field", p.InstrPos(mc), what, pt.Elem())
						continue
					}
					w.variable(b, mc, true, 0, seen, res)
				default:
					t := b.Type()
					if pt, isPtr := t.Underlying().(*types.Pointer); isPtr {
						t = pt.Elem()
					}
					if !c06HoldsSlice(t, 0) {
						continue
					}
					if _, isSlice := b.Type().Underlying().(*types.Slice); !isSlice {
						o.Unres("the retry task at %s is bound to a receiver of type %s, which contains slices: not decided field by field", p.InstrPos(mc), b.Type())
						continue
					}
					w.origin(b, mc, 0, seen, res)
				}
				o.Site(1, core.FuncName(fn))
				for _, s := range res.foreign {
					o.Fail(p.InstrPos(mc), "the delete-retry task built in %s keeps the slice %q, which can be %s: the task runs after that call has returned, when its caller may have rewritten the slice (passing a reused slice as keys... is legal for a synchronous call) – the retry deletes whatever the slice names then, and the key whose delete failed stays cached", core.FuncName(mc.Parent()), what, s)
				}
				for _, s := range res.unknown {
					o.Unres("the delete-retry task built in %s keeps the slice %q, whose owner cannot be determined: %s", core.FuncName(mc.Parent()), what, s)
				}
			}
		}
	})
}

// c06DerivesFrom reports whether v is computed from a value satisfying isSrc, also
// through variables captured by closures (every store into them) and through
// copy(dst, src) into a slice kept in such a variable: the retry task deletes "the
// failed keys" when it deletes a private copy of them.
func c06DerivesFrom(e *c06Env, v ssa.Value, isSrc func(ssa.Value) bool) bool {
	seenCell := map[*ssa.Alloc]bool{}
	var src func(x ssa.Value) bool
	src = func(x ssa.Value) bool {
		if isSrc(x) {
			return true
		}
		u, ok := x.(*ssa.UnOp)
		if !ok || u.Op != token.MUL {
			return false
		}
		al := e.home(u.X)
		if al == nil || seenCell[al] {
			return false
		}
		seenCell[al] = true
		stores, _ := e.cellStores(al)
		for _, st := range stores {
			if core.DependsOn(st.Val, src) {
				return true
			}
		}
		for _, f := range e.fns {
			for _, c := range core.Calls(f, core.CallTo("builtin:copy")) {
				args := c.Common().Args
				if len(args) != 2 {
					continue
				}
				dst := args[0]
				if sl, isSl := dst.(*ssa.Slice); isSl {
					dst = sl.X
				}
				if ld, isLd := dst.(*ssa.UnOp); isLd && ld.Op == token.MUL && e.home(ld.X) == al && core.DependsOn(args[1], src) {
					return true
				}
			}
		}
		return false
	}
	return core.DependsOn(v, src)
}
