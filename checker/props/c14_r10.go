package props

import (
	"strings"

	"godcheck/core"

	"golang.org/x/tools/go/ssa"
)

// Round 10 (seeded change C14-vm3): the retry of the random pair only keeps an unhealthy backend
// away from choose if a candidate that was found unhealthy is DRAWN AGAIN for the next try. With N
// backends of which one is unhealthy, three independent pairs contain it with probability
// (2/N)³; a candidate whose draw is not repeated stays in all three pairs, reaches choose with
// probability ≥ 1/N and — failing fast, so with the lowest load — wins there: it keeps its full
// fair share of the picks although healthy alternatives exist.

// c14IsRandCall: a call into math/rand (method of *rand.Rand or package function, v1 or v2).
func c14IsRandCall(in ssa.Instruction) bool {
	c, ok := in.(*ssa.Call)
	if !ok {
		return false
	}
	n := core.CalleeName(c)
	return strings.Contains(n, "math/rand.") || strings.Contains(n, "math/rand/v2.")
}

// c14PkgCallees: the functions of fn's package (with bodies) a call in fn may run — its static
// callee, a closure called as a value, or the members of a never-written table of function values.
func c14PkgCallees(tb *c14Tables, fn *ssa.Function, c ssa.CallInstruction) []*ssa.Function {
	fns, ok := tb.callees(c)
	if !ok {
		return nil
	}
	var out []*ssa.Function
	for _, f := range fns {
		if f != nil && f.Blocks != nil && f.Pkg != nil && f.Pkg == fn.Pkg {
			out = append(out, f)
		}
	}
	return out
}

// c14Draws: does running f draw a random number (directly, or in a function of its package it
// calls, two levels down)?
func c14Draws(tb *c14Tables, f *ssa.Function, depth int) bool {
	if len(core.Instrs(f, c14IsRandCall)) > 0 {
		return true
	}
	if depth >= 2 {
		return false
	}
	for _, c := range core.Calls(f, func(in ssa.Instruction) bool { _, ok := in.(*ssa.Call); return ok }) {
		for _, g := range c14PkgCallees(tb, f, c) {
			if g != f && c14Draws(tb, g, depth+1) {
				return true
			}
		}
	}
	return false
}

// c14RunBy: fn, the closures it creates and the functions of its package it may call, transitively.
func c14RunBy(tb *c14Tables, root *ssa.Function) []*ssa.Function {
	seen := map[*ssa.Function]bool{root: true}
	out := []*ssa.Function{root}
	add := func(f *ssa.Function) {
		if f != nil && f.Blocks != nil && !seen[f] {
			seen[f] = true
			out = append(out, f)
		}
	}
	for i := 0; i < len(out) && i < 64; i++ {
		f := out[i]
		for _, b := range f.Blocks {
			for _, in := range b.Instrs {
				if mc, ok := in.(*ssa.MakeClosure); ok {
					if k, ok := mc.Fn.(*ssa.Function); ok {
						add(k)
					}
				}
				if c, ok := in.(ssa.CallInstruction); ok {
					for _, g := range c14PkgCallees(tb, f, c) {
						add(g)
					}
				}
			}
		}
	}
	return out
}

func c14R10(r *core.Run) {
	p := r.P
	r.Explanation += " A candidate the retry loop found unhealthy is drawn at random again before it is tested again (every try is a fresh pair)."
	r.NotDecided += " Whether the random draws are uniform over all connections; a candidate that depends on a repeated and on an unrepeated draw at once; tries that are unrolled or recursive instead of a loop (reported unresolved)."
	r.Check("D3/K8/retry-redraws-candidate", "a candidate the retry loop of Pick found unhealthy is drawn again before it is tested again: every path from a failed health test of a candidate back to that test runs a random draw the candidate depends on — each try is a fresh pair (clause \"among three or more backends with healthy alternatives an unhealthy backend is chosen markedly less often\": a candidate that is drawn once and kept through the tries stays in the final pair with probability ≥ 1/N instead of (2/N)³; a backend that fails fast has the lowest load and wins the comparison, so it keeps its full fair share of the picks)", func(o *core.O) {
		pick := p.Func(p2cPkg, "p2cPicker", "Pick")
		if !o.Need(pick != nil, "p2cPicker.Pick") {
			return
		}
		tb := newC14Tables()
		// role: healthy = the bool functions of the package that atomically load subConn.success
		healthy := map[*ssa.Function]bool{}
		for _, f := range p.PkgFuncs(p2cPkg) {
			if f.Signature.Results().Len() == 1 && f.Signature.Results().At(0).Type().String() == "bool" &&
				len(core.Calls(f, gxAtomicOn("subConn.success", "LoadUint64"))) > 0 {
				healthy[f] = true
			}
		}
		if !o.Need(len(healthy) > 0, "a bool function of the package loading subConn.success") {
			return
		}
		isHealthy := func(in ssa.Instruction) bool {
			c, ok := in.(*ssa.Call)
			return ok && c.Call.StaticCallee() != nil && healthy[c.Call.StaticCallee()]
		}
		n := 0
		for _, fn := range c14RunBy(tb, pick) {
			if healthy[fn] {
				continue
			}
			fn := fn
			hs := core.Calls(fn, isHealthy)
			if len(hs) == 0 {
				continue
			}
			// the random draws of fn: calls into math/rand, and calls of functions of the package that draw
			isDraw := func(in ssa.Instruction) bool {
				if c14IsRandCall(in) {
					return true
				}
				c, ok := in.(*ssa.Call)
				if !ok || isHealthy(in) {
					return false
				}
				for _, g := range c14PkgCallees(tb, fn, c) {
					if g != fn && c14Draws(tb, g, 0) {
						return true
					}
				}
				return false
			}
			draws := core.Instrs(fn, isDraw)
			for _, h := range hs {
				h := h
				// a health test that is tried again: it lies on a cycle
				if _, again := core.Reach(core.Q{From: []core.At{core.After(h)}, Target: core.Is(h)}); !again {
					continue
				}
				n++
				r.Fn(core.FuncName(fn))
				args := core.Args(h)
				if len(args) == 0 {
					o.Unres("%s: health test without a candidate", p.InstrPos(h))
					continue
				}
				cand := args[0]
				var mine []ssa.Instruction
				for _, d := range draws {
					dv, _ := d.(ssa.Value)
					if dv != nil && core.DependsOn(cand, func(v ssa.Value) bool { return v == dv }) {
						mine = append(mine, d)
					}
				}
				if len(mine) == 0 {
					o.Fail(p.InstrPos(h), "the candidate %s that is health-tested on every try does not depend on any random draw of %s: the tries cannot replace an unhealthy candidate", core.Describe(cand), core.FuncName(fn))
					continue
				}
				// the test came out healthy: nothing to replace (the edges on which h holds are cut)
				healthyEdges, _ := core.EdgesOf(fn, core.BoolVal(func(v ssa.Value) bool { return v == h.Value() }))
				if w, _ := core.Reach(core.Q{From: []core.At{core.After(h)}, Target: core.Is(h), Blocked: core.Is(mine...), Cut: core.CutSet(healthyEdges)}); w != nil {
					o.Fail(p.InstrPos(h), "the candidate %s can be found unhealthy and be tested again on the next try without having been drawn again (its random draw at %s is not repeated on the way back): an unhealthy backend that is drawn once stays in the pair through all tries and reaches choose with probability ≥ 1/N instead of (2/N)³ — failing fast, it has the lowest load and keeps its full fair share of the picks", core.Describe(cand), p.InstrPos(mine[0]))
				}
			}
		}
		if n == 0 {
			o.Unres("no health test of a candidate that is tried again (a retry loop) in p2cPicker.Pick or the functions it runs")
		}
		o.Site(n, core.FuncName(pick))
	})
}
