package props

import (
	"go/token"
	"go/types"
	"strings"

	"godcheck/core"

	"golang.org/x/tools/go/ssa"
)

func c11IsErrPtr(t types.Type) bool {
	pt, ok := t.(*types.Pointer)
	return ok && pt.Elem().String() == "error"
}

func c11IsErrPtrPtr(t types.Type) bool {
	pt, ok := t.(*types.Pointer)
	return ok && c11IsErrPtr(pt.Elem())
}

// c11OnlyLoaded: the free variable is only ever dereferenced for reading inside its closure
// (never stored through, never handed on).
func c11OnlyLoaded(fv *ssa.FreeVar) bool {
	if fv.Referrers() == nil {
		return false
	}
	for _, r := range *fv.Referrers() {
		u, ok := r.(*ssa.UnOp)
		if !ok || u.Op != token.MUL || u.X != ssa.Value(fv) {
			return false
		}
	}
	return true
}

// c11ErrVar reports whether addr (a *error used inside the transaction finaliser) denotes an
// error variable that the finaliser shares with the function that created it:
//
//   - a free variable of type *error (a captured named result, or a pointer bound by value when
//     the finaliser was created) – not a captured local that its creator never returns
//     (c11BoundToResult) –, or
//   - the content of a write-once cell: a load of a free variable of type **error whose binding,
//     at every creation site of the closure, is a local cell that is written exactly once – with
//     the address of a local error variable (or a *error the creator itself captured/received) –
//     and that is otherwise only read (by the creator and by the closures capturing it). That is
//     what "the captured variables moved into a small struct, the struct holds &err" looks like
//     once the loader has split the struct into its fields.
func c11ErrVar(p *core.Prog, addr ssa.Value) bool {
	switch x := addr.(type) {
	case *ssa.FreeVar:
		return c11IsErrPtr(x.Type()) && c11BoundToResult(x, 0)
	case *ssa.UnOp:
		if x.Op != token.MUL {
			return false
		}
		fv, ok := x.X.(*ssa.FreeVar)
		if !ok || !c11IsErrPtrPtr(fv.Type()) || !c11OnlyLoaded(fv) {
			return false
		}
		c := fv.Parent()
		idx := -1
		for k, y := range c.FreeVars {
			if y == fv {
				idx = k
			}
		}
		if idx < 0 {
			return false
		}
		sites := 0
		for _, f := range p.PkgFuncs(sqlx) {
			for _, b := range f.Blocks {
				for _, in := range b.Instrs {
					mc, ok := in.(*ssa.MakeClosure)
					if !ok || mc.Fn != ssa.Value(c) || idx >= len(mc.Bindings) {
						continue
					}
					sites++
					if !c11WriteOnceErrCell(mc.Bindings[idx]) {
						return false
					}
				}
			}
		}
		return sites > 0
	}
	return false
}

// c11BoundToResult: the captured *error is not a dead end. Wherever the closure is created, the
// variable bound to fv is
//   - a local variable of the creator whose value the creator returns (c11ReachesResult: a named
//     result, which is what `return` loads after the deferred calls have run) – a deferred
//     finaliser that writes any other local of its creator writes a variable nobody reads again –,
//   - or a *error the creator itself captured (same question one level up) or received as a
//     parameter, or a pointer computed otherwise (not decided here: accepted).
func c11BoundToResult(fv *ssa.FreeVar, depth int) bool {
	c := fv.Parent()
	if c == nil || c.Parent() == nil || depth > 4 {
		return true
	}
	idx := -1
	for k, y := range c.FreeVars {
		if y == fv {
			idx = k
		}
	}
	if idx < 0 {
		return true
	}
	for _, b := range c.Parent().Blocks {
		for _, in := range b.Instrs {
			mc, ok := in.(*ssa.MakeClosure)
			if !ok || mc.Fn != ssa.Value(c) || idx >= len(mc.Bindings) {
				continue
			}
			switch src := core.Strip(mc.Bindings[idx]).(type) {
			case *ssa.Alloc:
				if !c11ReachesResult(src) {
					return false
				}
			case *ssa.FreeVar:
				if !c11BoundToResult(src, depth+1) {
					return false
				}
			}
		}
	}
	return true
}

// c11ReachesResult: the local variable a of function g is returned by g: some Return of g has a
// load of a among its results, or a load of a is stored into a local variable that is (named
// results copied into one another by an inlined helper).
func c11ReachesResult(a *ssa.Alloc) bool {
	g := a.Parent()
	if g == nil {
		return false
	}
	loadOf := func(v ssa.Value) *ssa.Alloc {
		u, ok := core.Strip(v).(*ssa.UnOp)
		if !ok || u.Op != token.MUL {
			return nil
		}
		al, _ := u.X.(*ssa.Alloc)
		return al
	}
	reach := map[*ssa.Alloc]bool{}
	for _, b := range g.Blocks {
		for _, in := range b.Instrs {
			if ret, ok := in.(*ssa.Return); ok {
				for _, r := range ret.Results {
					if al := loadOf(r); al != nil {
						reach[al] = true
					}
				}
			}
		}
	}
	for changed := true; changed; {
		changed = false
		for _, b := range g.Blocks {
			for _, in := range b.Instrs {
				st, ok := in.(*ssa.Store)
				if !ok {
					continue
				}
				dst, _ := st.Addr.(*ssa.Alloc)
				if dst == nil || !reach[dst] {
					continue
				}
				if al := loadOf(st.Val); al != nil && !reach[al] {
					reach[al] = true
					changed = true
				}
			}
		}
	}
	return reach[a]
}

// c11WriteOnceErrCell: v is a local cell of type **error that is stored exactly once, with the
// address of an error variable, and is otherwise only loaded or captured by closures that only
// load it.
func c11WriteOnceErrCell(v ssa.Value) bool {
	cell, ok := v.(*ssa.Alloc)
	if !ok || !c11IsErrPtrPtr(cell.Type()) || cell.Referrers() == nil {
		return false
	}
	stores := 0
	for _, r := range *cell.Referrers() {
		switch y := r.(type) {
		case *ssa.Store:
			if y.Addr != ssa.Value(cell) {
				return false // the cell's own address is stored somewhere: it may be re-pointed elsewhere
			}
			stores++
			switch src := core.Strip(y.Val).(type) {
			case *ssa.Alloc:
				if !c11IsErrPtr(src.Type()) || !c11ReachesResult(src) {
					return false
				}
			case *ssa.FreeVar:
				if !c11IsErrPtr(src.Type()) || !c11BoundToResult(src, 0) {
					return false
				}
			case *ssa.Parameter:
				if !c11IsErrPtr(src.Type()) {
					return false
				}
			default:
				return false
			}
		case *ssa.UnOp:
			if y.Op != token.MUL {
				return false
			}
		case *ssa.MakeClosure:
			fn, ok := y.Fn.(*ssa.Function)
			if !ok {
				return false
			}
			for i, b := range y.Bindings {
				if b == ssa.Value(cell) && (i >= len(fn.FreeVars) || !c11OnlyLoaded(fn.FreeVars[i])) {
					return false
				}
			}
		case *ssa.DebugRef:
		default:
			return false
		}
	}
	return stores == 1
}

// c11ErrVarLoad matches a read of the shared error variable.
func c11ErrVarLoad(p *core.Prog) func(ssa.Value) bool {
	return func(v ssa.Value) bool {
		u, ok := v.(*ssa.UnOp)
		return ok && u.Op == token.MUL && c11IsErrPtr(u.X.Type()) && c11ErrVar(p, u.X)
	}
}

// c11ErrVarStore returns the store when in writes the shared error variable.
func c11ErrVarStore(p *core.Prog, in ssa.Instruction) (*ssa.Store, bool) {
	st, ok := in.(*ssa.Store)
	if !ok || !c11IsErrPtr(st.Addr.Type()) || !c11ErrVar(p, st.Addr) {
		return nil, false
	}
	return st, true
}

// c11IsBodyCall matches a call of the transaction body: a call of a function-typed parameter
// func(context.Context, Session) error.
func c11IsBodyCall() func(ssa.Instruction) bool {
	return core.CallOfValue(func(v ssa.Value) bool {
		pa, ok := core.Strip(core.Forward(core.Strip(v))).(*ssa.Parameter)
		if !ok {
			return false
		}
		sig, ok := pa.Type().Underlying().(*types.Signature)
		return ok && sig.Params().Len() == 2 && sig.Results().Len() == 1 && strings.HasSuffix(sig.Params().At(1).Type().String(), "sqlx.Session")
	})
}

func c11Because(why []string) string {
	if len(why) == 0 {
		return ""
	}
	return " (" + strings.Join(why, "; ") + ")"
}

// c11BodyReturned builds the atom "the transaction body returned normally" for the finaliser fin.
//
// The only thing that tells a finished body from one that panicked with nil or left through
// runtime.Goexit is a flag of the runner: a bool variable captured by the finaliser
//   - that the function creating the finaliser writes with constants only,
//   - whose "finished" value c is stored only after a call of the body has returned (no store of c is
//     reachable from the runner's entry without passing a body call), and on every path from such a
//     call to the runner's return,
//   - that holds !c before (stored before the body call, or the zero value when c is true),
//   - and that nothing else writes (closures capturing it only read it; its address goes nowhere else).
//
// A load of the flag inside the finaliser, compared with c in any spelling, is the atom. n is the
// number of flags that qualify; why says, for every captured bool that does not, what is wrong with it.
func c11BodyReturned(p *core.Prog, fin *ssa.Function) (atom core.Atom, n int, why []string) {
	var atoms []core.Atom
	for idx, fv := range fin.FreeVars {
		pt, ok := fv.Type().(*types.Pointer)
		if !ok {
			continue
		}
		if b, ok := pt.Elem().Underlying().(*types.Basic); !ok || b.Kind() != types.Bool {
			continue
		}
		if !c11OnlyLoaded(fv) {
			why = append(why, "the finaliser itself writes the captured flag "+fv.Name())
			continue
		}
		sites, good := 0, true
		finishedVal := false
		for _, g := range p.PkgFuncs(sqlx) {
			for _, b := range g.Blocks {
				for _, in := range b.Instrs {
					mc, ok := in.(*ssa.MakeClosure)
					if !ok || mc.Fn != ssa.Value(fin) || idx >= len(mc.Bindings) {
						continue
					}
					sites++
					c, reason := c11FinishedFlag(g, mc.Bindings[idx])
					if reason != "" {
						good = false
						why = append(why, "flag "+fv.Name()+": "+reason)
						continue
					}
					if sites > 1 && c != finishedVal {
						good = false
						why = append(why, "flag "+fv.Name()+" means different things at different creation sites of the finaliser")
					}
					finishedVal = c
				}
			}
		}
		if sites == 0 || !good {
			continue
		}
		fv := fv
		a := core.BoolVal(func(v ssa.Value) bool {
			u, ok := v.(*ssa.UnOp)
			return ok && u.Op == token.MUL && u.X == ssa.Value(fv)
		})
		if !finishedVal {
			a = core.Not(a)
		}
		atoms = append(atoms, a)
	}
	if len(atoms) == 0 {
		if len(why) == 0 {
			why = append(why, "it captures no bool variable of the runner; recover()!=nil is nil for panic(nil) and runtime.Goexit")
		}
		return func(ssa.Value) (bool, bool) { return false, false }, 0, why
	}
	return core.AnyOf(atoms...), len(atoms), why
}

// c11FinishedFlag checks the discipline of one flag cell in the function g that creates the
// finaliser; it returns the constant that means "the body returned" or a reason.
func c11FinishedFlag(g *ssa.Function, cell ssa.Value) (finished bool, reason string) {
	al, ok := cell.(*ssa.Alloc)
	if !ok || al.Referrers() == nil {
		return false, "its binding is not a local variable of " + core.FuncName(g)
	}
	isBody := c11IsBodyCall()
	bodies := core.Instrs(g, isBody)
	if len(bodies) == 0 {
		return false, core.FuncName(g) + " never calls the transaction body"
	}
	var pre, post []*ssa.Store
	for _, r := range *al.Referrers() {
		switch y := r.(type) {
		case *ssa.Store:
			if y.Addr != ssa.Value(al) {
				return false, "its address is stored elsewhere"
			}
			if _, isConst := y.Val.(*ssa.Const); !isConst {
				return false, "it is written with a computed value"
			}
			if _, early := core.Reach(core.Q{From: []core.At{core.Entry(g)}, Target: core.Is(y), Blocked: isBody}); early {
				pre = append(pre, y)
			} else {
				post = append(post, y)
			}
		case *ssa.UnOp:
			if y.Op != token.MUL {
				return false, "it is used in an unexpected way"
			}
		case *ssa.MakeClosure:
			fn, ok := y.Fn.(*ssa.Function)
			if !ok {
				return false, "it is captured by an unknown closure"
			}
			for i, b := range y.Bindings {
				if b == ssa.Value(al) && (i >= len(fn.FreeVars) || !c11OnlyLoaded(fn.FreeVars[i])) {
					return false, "a closure capturing it does more than read it"
				}
			}
		case *ssa.DebugRef:
		default:
			return false, "its address escapes"
		}
	}
	constBool := func(st *ssa.Store) bool {
		c := st.Val.(*ssa.Const)
		return c.Value != nil && c.Value.String() == "true"
	}
	if len(post) == 0 {
		return false, "it is never set after the body call returned (it cannot tell a finished body from an aborted one)"
	}
	finished = constBool(post[0])
	for _, st := range post {
		if constBool(st) != finished {
			return false, "it is set to both values after the body call"
		}
	}
	if len(pre) == 0 && !finished {
		return false, "it holds false before and after the body call"
	}
	for _, st := range pre {
		if constBool(st) == finished {
			return false, "it already holds its 'body returned' value before the body is called: a body that panics or exits looks finished"
		}
	}
	isPost := func(in ssa.Instruction) bool {
		for _, st := range post {
			if in == ssa.Instruction(st) {
				return true
			}
		}
		return false
	}
	for _, b := range bodies {
		if w := core.MustPass(core.After(b), isPost, core.IsReturn); w != nil {
			return false, "a path on which the body returned leaves " + core.FuncName(g) + " without setting it: a returned body is treated as a panic"
		}
	}
	return finished, ""
}
