package props

import (
	"go/token"
	"go/types"

	"godcheck/core"

	"golang.org/x/tools/go/ssa"
)

func c11IsErrPtr(t types.Type) bool {
	pt, ok := t.(*types.Pointer)
	return ok && pt.Elem().String() == "error"
}

func c11IsErrPtrPtr(t types.Type) bool {
	pt, ok := t.(*types.Pointer)
	return ok && c11IsErrPtr(pt.Elem())
}

// c11OnlyLoaded: the free variable is only ever dereferenced for reading inside its closure
// (never stored through, never handed on).
func c11OnlyLoaded(fv *ssa.FreeVar) bool {
	if fv.Referrers() == nil {
		return false
	}
	for _, r := range *fv.Referrers() {
		u, ok := r.(*ssa.UnOp)
		if !ok || u.Op != token.MUL || u.X != ssa.Value(fv) {
			return false
		}
	}
	return true
}

// c11ErrVar reports whether addr (a *error used inside the transaction finaliser) denotes an
// error variable that the finaliser shares with the function that created it:
//
//   - a free variable of type *error (a captured local / named result, or a pointer bound by
//     value when the finaliser was created), or
//   - the content of a write-once cell: a load of a free variable of type **error whose binding,
//     at every creation site of the closure, is a local cell that is written exactly once – with
//     the address of a local error variable (or a *error the creator itself captured/received) –
//     and that is otherwise only read (by the creator and by the closures capturing it). That is
//     what "the captured variables moved into a small struct, the struct holds &err" looks like
//     once the loader has split the struct into its fields.
func c11ErrVar(p *core.Prog, addr ssa.Value) bool {
	switch x := addr.(type) {
	case *ssa.FreeVar:
		return c11IsErrPtr(x.Type())
	case *ssa.UnOp:
		if x.Op != token.MUL {
			return false
		}
		fv, ok := x.X.(*ssa.FreeVar)
		if !ok || !c11IsErrPtrPtr(fv.Type()) || !c11OnlyLoaded(fv) {
			return false
		}
		c := fv.Parent()
		idx := -1
		for k, y := range c.FreeVars {
			if y == fv {
				idx = k
			}
		}
		if idx < 0 {
			return false
		}
		sites := 0
		for _, f := range p.PkgFuncs(sqlx) {
			for _, b := range f.Blocks {
				for _, in := range b.Instrs {
					mc, ok := in.(*ssa.MakeClosure)
					if !ok || mc.Fn != ssa.Value(c) || idx >= len(mc.Bindings) {
						continue
					}
					sites++
					if !c11WriteOnceErrCell(mc.Bindings[idx]) {
						return false
					}
				}
			}
		}
		return sites > 0
	}
	return false
}

// c11WriteOnceErrCell: v is a local cell of type **error that is stored exactly once, with the
// address of an error variable, and is otherwise only loaded or captured by closures that only
// load it.
func c11WriteOnceErrCell(v ssa.Value) bool {
	cell, ok := v.(*ssa.Alloc)
	if !ok || !c11IsErrPtrPtr(cell.Type()) || cell.Referrers() == nil {
		return false
	}
	stores := 0
	for _, r := range *cell.Referrers() {
		switch y := r.(type) {
		case *ssa.Store:
			if y.Addr != ssa.Value(cell) {
				return false // the cell's own address is stored somewhere: it may be re-pointed elsewhere
			}
			stores++
			switch src := core.Strip(y.Val).(type) {
			case *ssa.Alloc, *ssa.FreeVar, *ssa.Parameter:
				if !c11IsErrPtr(src.Type()) {
					return false
				}
			default:
				return false
			}
		case *ssa.UnOp:
			if y.Op != token.MUL {
				return false
			}
		case *ssa.MakeClosure:
			fn, ok := y.Fn.(*ssa.Function)
			if !ok {
				return false
			}
			for i, b := range y.Bindings {
				if b == ssa.Value(cell) && (i >= len(fn.FreeVars) || !c11OnlyLoaded(fn.FreeVars[i])) {
					return false
				}
			}
		case *ssa.DebugRef:
		default:
			return false
		}
	}
	return stores == 1
}

// c11ErrVarLoad matches a read of the shared error variable.
func c11ErrVarLoad(p *core.Prog) func(ssa.Value) bool {
	return func(v ssa.Value) bool {
		u, ok := v.(*ssa.UnOp)
		return ok && u.Op == token.MUL && c11IsErrPtr(u.X.Type()) && c11ErrVar(p, u.X)
	}
}

// c11ErrVarStore returns the store when in writes the shared error variable.
func c11ErrVarStore(p *core.Prog, in ssa.Instruction) (*ssa.Store, bool) {
	st, ok := in.(*ssa.Store)
	if !ok || !c11IsErrPtr(st.Addr.Type()) || !c11ErrVar(p, st.Addr) {
		return nil, false
	}
	return st, true
}
