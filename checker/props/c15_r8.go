package props

import (
	"go/types"
	"sort"
	"strings"

	"godcheck/core"

	"golang.org/x/tools/go/ssa"
)

// c15MutexFields: the names of the sync.Mutex / sync.RWMutex fields of the struct t (or *t) names.
func c15MutexFields(t types.Type) []string {
	if pt, ok := t.Underlying().(*types.Pointer); ok {
		t = pt.Elem()
	}
	st, ok := t.Underlying().(*types.Struct)
	if !ok {
		return nil
	}
	var out []string
	for i := 0; i < st.NumFields(); i++ {
		switch strings.TrimPrefix(st.Field(i).Type().String(), "*") {
		case "sync.Mutex", "sync.RWMutex":
			out = append(out, st.Field(i).Name())
		}
	}
	return out
}

// c15DirtyInHold: the raising of container.dirty and the change of the maps belong to one critical section.
//
// getValues rebuilds the snapshot and clears dirty in one hold of container.lock. A change of the maps is
// seen by the next Values() only if the flag is still (or again) raised once the change is applied and every
// rebuild that did not see the change has finished. Two placements of the raise guarantee that:
//
//	(A) the raise is executed with the lock held, in the same hold as the change and before it
//	    (no rebuild can run between the two), or
//	(B) a raise follows the change on every path (any rebuild that cleared the flag before that raise
//	    either ran before it - the flag ends raised - or after the change, and saw it).
//
// A raise in front of the critical section is neither: a reader that already owns the lock rebuilds from the
// old maps and clears the flag after it was raised; the change is then applied with dirty == false.
func c15DirtyInHold(r *core.Run, pkg string) {
	p := r.P
	r.Check("D3/K4/dirty-raised-in-mutating-hold", "every change of container.values/mapping is covered by a raise of container.dirty that cannot be undone by a reader that did not see the change: dirty is set to true with the container lock held, in the same hold of the lock as the change and before it (or else after the change on every path); a raise in front of the critical section can be cleared by a getValues that already owns the lock and rebuilt the snapshot from the old maps [clause: once the delivered events are processed the value list equals the values of the keys currently present - for every schedule of readers and the watch goroutine]", func(o *core.O) {
		isContMap := func(v ssa.Value) bool {
			return core.IsFieldLoad(v, "container.values") || core.IsFieldLoad(v, "container.mapping")
		}
		isDirectMut := func(in ssa.Instruction) bool {
			switch x := in.(type) {
			case *ssa.MapUpdate:
				return isContMap(x.Map)
			case *ssa.Call:
				if b, ok := x.Call.Value.(*ssa.Builtin); ok && b.Name() == "delete" {
					return isContMap(x.Call.Args[0])
				}
			}
			return false
		}
		// the receiver of an operation on container.dirty (the field holds a pointer, or the flag itself)
		dirtyRecv := func(c *ssa.Call) ssa.Value {
			a := core.Args(c)
			if len(a) < 2 {
				return nil
			}
			if core.IsFieldLoad(a[0], "container.dirty") || core.FieldAddrName(a[0]) == "container.dirty" {
				return a[0]
			}
			return nil
		}
		// a raise: an operation on container.dirty that is handed the constant true (and not the constant false)
		isRaise := func(in ssa.Instruction) bool {
			c, ok := in.(*ssa.Call)
			if !ok || dirtyRecv(c) == nil {
				return false
			}
			t, f := false, false
			for _, a := range core.Args(c)[1:] {
				switch core.Describe(core.Forward(a)) {
				case "const:true":
					t = true
				case "const:false":
					f = true
				}
			}
			return t && !f
		}
		la := core.NewLockAnalysis(p, pkg)
		var mutexes []string
		// lockHeldAt: the mutex of the container whose dirty flag `in` raises is held at in
		lockHeldAt := func(in ssa.Instruction) bool {
			c := in.(*ssa.Call)
			recv := core.Forward(dirtyRecv(c))
			path := core.LockPath(recv)
			if !strings.HasSuffix(path, ".dirty") {
				return false
			}
			base := strings.TrimSuffix(path, ".dirty")
			held := la.Held(in)
			for _, m := range mutexes {
				if _, ok := held[base+"."+m]; ok {
					return true
				}
			}
			return false
		}
		fns := p.PkgFuncs(pkg)
		nRaise := 0
		for _, f := range fns {
			for _, in := range core.Instrs(f, isRaise) {
				nRaise++
				if mutexes == nil {
					var base ssa.Value
					switch x := core.Forward(dirtyRecv(in.(*ssa.Call))).(type) {
					case *ssa.UnOp:
						if fa, ok := x.X.(*ssa.FieldAddr); ok {
							base = fa.X
						}
					case *ssa.FieldAddr:
						base = x.X
					}
					if base != nil {
						mutexes = c15MutexFields(base.Type())
					}
				}
			}
		}
		if !o.Need(nRaise > 0, "an operation that sets container.dirty to true") || !o.Need(len(mutexes) > 0, "a sync.Mutex / sync.RWMutex field of container") {
			return
		}
		isMutexField := func(v ssa.Value) bool {
			n := core.FieldAddrName(v)
			for _, m := range mutexes {
				if n == "container."+m {
					return true
				}
			}
			return false
		}
		isAcquire := func(in ssa.Instruction) bool {
			c, ok := in.(*ssa.Call)
			if !ok {
				return false
			}
			switch core.Short(core.CalleeName(c)) {
			case "(*sync.Mutex).Lock", "(*sync.RWMutex).Lock":
				a := core.Args(c)
				return len(a) > 0 && isMutexField(a[0])
			}
			return false
		}
		okRaise := func(in ssa.Instruction) bool { return isRaise(in) && lockHeldAt(in) }
		// a call of an in-package helper that raises the flag under the lock on all its paths (c.markDirty())
		helperRaises := func(pred func(ssa.Instruction) bool) func(ssa.Instruction) bool {
			return func(in ssa.Instruction) bool {
				c, ok := in.(*ssa.Call)
				if !ok {
					return false
				}
				g := c.Call.StaticCallee()
				if g == nil || g.Blocks == nil || g.Pkg == nil || g.Pkg != in.Parent().Pkg {
					return false
				}
				if len(core.Instrs(g, pred)) == 0 {
					return false
				}
				return core.MustPass(core.Entry(g), pred, core.IsExit) == nil
			}
		}
		coveredBefore := core.Or(okRaise, helperRaises(okRaise))
		anyRaise := core.Or(isRaise, helperRaises(isRaise))

		entryHolds := func(f *ssa.Function) bool {
			for k := range la.Entry(f) {
				for _, m := range mutexes {
					if strings.HasSuffix(k, "."+m) {
						return true
					}
				}
			}
			return false
		}
		callSitesOf := func(f *ssa.Function) map[*ssa.Function][]ssa.Instruction {
			out := map[*ssa.Function][]ssa.Instruction{}
			for _, g := range fns {
				cs := core.Instrs(g, func(in ssa.Instruction) bool {
					c := core.AsCall(in)
					return c != nil && c.Common().StaticCallee() == f
				})
				if len(cs) > 0 {
					out[g] = cs
				}
			}
			return out
		}
		n := 0
		judged := map[ssa.Instruction]bool{}
		var check func(f *ssa.Function, site ssa.Instruction, what string, depth int)
		check = func(f *ssa.Function, site ssa.Instruction, what string, depth int) {
			if judged[site] {
				return
			}
			judged[site] = true
			// (B) a raise follows the change on every path
			if core.MustPass(core.After(site), anyRaise, core.IsExit) == nil {
				return
			}
			// (A) inside this function: from every acquisition of the lock, the change is reached only through a raise under the lock
			var acq []core.At
			for _, l := range core.Instrs(f, isAcquire) {
				acq = append(acq, core.After(l))
			}
			if len(acq) > 0 {
				if _, bad := core.Reach(core.Q{From: acq, Target: core.Is(site), Blocked: coveredBefore}); bad {
					o.Fail(p.InstrPos(site), "%s %s in a hold of the container lock in which dirty was not raised before: a getValues that owned the lock just before this hold rebuilt the snapshot without the change and cleared a flag raised earlier - Values() keeps returning the cached list (a deleted key's value stays, an added one is missing) until the next event", core.FuncName(f), what)
					return
				}
			}
			if _, bad := core.Reach(core.Q{From: []core.At{core.Entry(f)}, Target: core.Is(site), Blocked: core.Or(coveredBefore, isAcquire)}); !bad {
				return
			}
			// the change is reached from the function's entry without a raise under the lock: a helper that is
			// only called with the lock held is judged at its call sites
			sites := callSitesOf(f)
			if depth < 3 && len(sites) > 0 && entryHolds(f) && (f.Object() == nil || !f.Object().Exported()) {
				var gs []*ssa.Function
				for g := range sites {
					gs = append(gs, g)
				}
				sort.Slice(gs, func(i, j int) bool { return core.FuncName(gs[i]) < core.FuncName(gs[j]) })
				for _, g := range gs {
					for _, cs := range sites[g] {
						check(g, cs, "changes the container through "+core.FuncName(f), depth+1)
					}
				}
				return
			}
			o.Fail(p.InstrPos(site), "%s %s, but dirty is not raised with the container lock held in the critical section of the change (nor after it): a getValues that already owns the lock rebuilds the snapshot from the old maps and clears the flag after it was raised - the change is then applied with dirty == false and Values() keeps returning the cached list (a deleted key's value stays, an added one is missing) until the next event", core.FuncName(f), what)
		}
		for _, f := range fns {
			ms := core.Instrs(f, isDirectMut)
			if len(ms) == 0 {
				continue
			}
			r.Fn(core.FuncName(f))
			for _, m := range ms {
				n++
				check(f, m, "changes container.values/mapping", 0)
			}
		}
		o.Site(n, pkg+": changes of container.values/mapping")
		if n == 0 {
			o.Unres("no change of container.values / container.mapping found in %s", pkg)
		}
	})
}
