package props

import (
	"go/token"
	"go/types"
	"sort"
	"strings"

	"godcheck/core"

	"golang.org/x/tools/go/ssa"
)

func init() { register("C13", c13) }

const hashPkg = "lib/hash"

// writesState reports instructions that mutate fields of type typ (stores, map updates, deletes on loaded fields).
func writesToType(f *ssa.Function, typ string) []ssa.Instruction {
	return core.Instrs(f, func(in ssa.Instruction) bool {
		switch x := in.(type) {
		case *ssa.Store:
			return strings.HasPrefix(core.FieldAddrName(x.Addr), typ+".") || rootFieldOf(x.Addr, typ)
		case *ssa.MapUpdate:
			return strings.HasPrefix(core.FieldAddrNameOfLoad(x.Map), typ+".")
		case *ssa.Call:
			if b, ok := x.Call.Value.(*ssa.Builtin); ok && b.Name() == "delete" {
				return strings.HasPrefix(core.FieldAddrNameOfLoad(x.Call.Args[0]), typ+".")
			}
		}
		return false
	})
}

// rootFieldOf: address derived (IndexAddr …) from a loaded field of typ.
func rootFieldOf(v ssa.Value, typ string) bool {
	for i := 0; i < 6; i++ {
		switch x := v.(type) {
		case *ssa.IndexAddr:
			v = x.X
		case *ssa.UnOp:
			if x.Op == token.MUL {
				return strings.HasPrefix(core.FieldAddrName(x.X), typ+".")
			}
			return false
		default:
			return false
		}
	}
	return false
}

func c13(r *core.Run) {
	p := r.P
	defer c13Extra(r, hashPkg)
	r.Explanation = "Decides: the ring state (keys, ring, nodes) is touched only under the hash's lock (writes under the write lock); AddWithReplicas removes the node first, caps the replica count, sorts the key slice after the last append; AddWithWeight ≡ replicas·weight/100; add and remove hash the same virtual-node expression; Remove, which tries all h.replicas replica names, deletes a position from keys exactly where the slot filter reported that it dropped the node's own ring entry (the report being nonzero only behind the repr-equality test); Get mutates nothing, calls nothing nondeterministic, reports absence only for an empty ring or an empty slot and wraps its index modulo len(keys); cache.New and kv.NewStore add nodes with the configured weight; every ring lookup in lib/store/kv and lib/store/cache (directly or through a function that returns the looked-up node, kvStore.getRedis) is made with the function's own key parameter unaltered, such a function returns exactly the looked-up node and reports absence only when the ring did, and a node is called with / keys are filed under it only for the very key it was looked up for."
	r.NotDecided = "minimal disruption and proportional balance (properties of hash values over key populations); how many keys leave per dropped ring entry and that the deleted index is the searched one (D6/K2 decides whether, not how many – positions shared by two virtual nodes are outside the property); what a callback does with a looked-up node it is handed (cluster.withNode(key, fn) style) is only decided on the inlined program variants; calls on a node with a []string that is not built on the spot."

	add := p.Func(hashPkg, "ConsistentHash", "AddWithReplicas")
	rem := p.Func(hashPkg, "ConsistentHash", "Remove")
	get := p.Func(hashPkg, "ConsistentHash", "Get")
	aww := p.Func(hashPkg, "ConsistentHash", "AddWithWeight")
	isHashCall := core.CallOfValue(core.FieldLoad("ConsistentHash.hashFunc"))

	r.Check("D1/K4/ring-guarded", "ConsistentHash.{keys,ring,nodes} are read under lock (R or W) and written only under the write lock; lock balance on every path", func(o *core.O) {
		la := core.NewLockAnalysis(p, hashPkg)
		acc := la.CheckGuards([]core.Guard{
			{Type: "ConsistentHash", Field: "keys", Lock: "lock"},
			{Type: "ConsistentHash", Field: "ring", Lock: "lock"},
			{Type: "ConsistentHash", Field: "nodes", Lock: "lock"},
		}, nil, nil)
		// the engine names objects by access path: re-evaluate what it could not justify through
		// single-assignment local aliases of the locked object (c13_util.go)
		acc = c13Recheck(la, p, hashPkg, "lock", acc)
		core.ReportAccesses(o, p, acc)
		for f, m := range la.Imbalance {
			o.Fail(p.Pos(f.Pos()), "%s: %s", core.FuncName(f), m)
		}
	})

	r.Check("D2/K3/remove-then-add-then-sort", "AddWithReplicas calls Remove(node) before mutating, and sorts keys after the last append on every path", func(o *core.O) {
		if !o.Need(add != nil, "ConsistentHash.AddWithReplicas") {
			return
		}
		r.Fn(core.FuncName(add))
		isRemove := core.CallMethod("hash.ConsistentHash", "Remove")
		isMut := func(in ssa.Instruction) bool {
			for _, w := range writesToType(add, "ConsistentHash") {
				if w == in {
					return true
				}
			}
			return core.CallMethod("hash.ConsistentHash", "addNode")(in)
		}
		muts := core.Instrs(add, isMut)
		rm := core.Calls(add, isRemove)
		o.Site(len(muts)+len(rm), core.FuncName(add))
		if len(rm) == 0 {
			o.Fail(p.Pos(add.Pos()), "AddWithReplicas does not remove the node's previous virtual nodes")
		}
		for _, c := range rm {
			if !core.ParamAt(add, 1)(core.Args(c)[1]) {
				o.Fail(p.InstrPos(c), "Remove is not called with the node being added")
			}
		}
		if w := core.Precedes(add, isRemove, isMut); w != nil {
			o.Fail(p.InstrPos(w), "ring mutated before the node's previous virtual nodes were removed")
		}
		isSort := core.CallTo("sort.Slice", "sort.Sort", "slices.Sort", "sort.SliceStable")
		keyStores := core.Instrs(add, core.IsStoreToField("ConsistentHash.keys"))
		if len(keyStores) == 0 {
			o.Fail(p.Pos(add.Pos()), "AddWithReplicas never appends to keys")
		}
		for _, st := range keyStores {
			if w := core.MustPass(core.After(st), isSort, core.IsReturn); w != nil {
				o.Fail(p.InstrPos(st), "keys appended but a return is reachable without sorting them")
			}
		}
		for _, s := range core.Calls(add, isSort) {
			if tgt := core.Strip(core.Args(s)[0]); !core.IsFieldLoad(tgt, "ConsistentHash.keys") && !core.DependsOn(core.Forward(tgt), core.FieldLoad("ConsistentHash.keys")) {
				o.Fail(p.InstrPos(s), "the sort is not over h.keys")
			}
			if w, ok := core.Reach(core.Q{From: []core.At{core.After(s)}, Target: core.IsStoreToField("ConsistentHash.keys")}); ok {
				o.Fail(p.InstrPos(w), "keys appended after the sort")
			}
		}
	})
	r.Check("D2/K7/replica-cap-and-weight", "the replica loop bound is capped by h.replicas; AddWithWeight passes replicas·weight/100", func(o *core.O) {
		if !o.Need(add != nil && aww != nil, "AddWithReplicas / AddWithWeight") {
			return
		}
		// the virtual-node loop(s) of AddWithReplicas visit the indices 0 … min(replicas, h.replicas)−1,
		// whatever the spelling or direction of the loop test and wherever the capped count lives
		loops := c13HashLoops(add, isHashCall)
		for _, lp := range loops {
			c13CheckReplicaCap(o, p, add, lp)
		}
		o.Site(len(loops), core.FuncName(add))
		if len(loops) == 0 {
			o.Fail(p.Pos(add.Pos()), "replica loop not found")
		}
		r.Fn(core.FuncName(aww))
		a := &core.Alg{Name: func(v ssa.Value) string {
			if core.IsFieldLoad(v, "ConsistentHash.replicas") {
				return "R"
			}
			return core.ParamIndexName(v)
		}}
		cs := core.Calls(aww, core.CallMethod("hash.ConsistentHash", "AddWithReplicas"))
		o.Site(len(cs), core.FuncName(aww))
		if len(cs) == 0 {
			o.Fail(p.Pos(aww.Pos()), "AddWithWeight does not call AddWithReplicas")
		}
		for _, c := range cs {
			got := a.Norm(core.Args(c)[2])
			if !got.Equal(core.ParsePoly("idiv(R*p2, 100)")) { // p2 = weight
				o.Fail(p.InstrPos(c), "AddWithWeight passes %s, expected idiv(R*weight, 100)", got)
			}
			if !core.ParamAt(aww, 1)(core.Args(c)[1]) {
				o.Fail(p.InstrPos(c), "AddWithWeight adds a different node")
			}
		}
	})
	r.Check("D3/K9/same-virtual-node-hash", "AddWithReplicas and Remove hash the same virtual-node expression", func(o *core.O) {
		if !o.Need(add != nil && rem != nil, "AddWithReplicas / Remove") {
			return
		}
		r.Fn(core.FuncName(rem))
		desc := func(f *ssa.Function) []string {
			var out []string
			for _, c := range core.Calls(f, isHashCall) {
				out = append(out, c13Canon(c.Common().Args[0], 0))
			}
			sort.Strings(out)
			return out
		}
		da, dr := desc(add), desc(rem)
		o.Site(len(da)+len(dr), core.FuncName(add), core.FuncName(rem))
		if len(da) == 0 || len(dr) == 0 {
			o.Fail(p.Pos(add.Pos()), "hash call not found in add (%d) or remove (%d)", len(da), len(dr))
			return
		}
		if strings.Join(da, "|") != strings.Join(dr, "|") {
			o.Fail(p.Pos(rem.Pos()), "virtual-node hash input differs: add hashes %v, remove hashes %v", da, dr)
		}
		// Remove iterates over all h.replicas virtual nodes: its hash loop(s) visit 0 … h.replicas−1
		rloops := c13HashLoops(rem, isHashCall)
		if len(rloops) == 0 {
			o.Fail(p.Pos(rem.Pos()), "Remove does not iterate over all h.replicas virtual nodes")
		}
		for _, lp := range rloops {
			lo, trips := c13TripCount(c13Alg(map[string]ssa.Value{}), lp)
			if !c13IsZero(lo) || !trips.Equal(core.PAtom("R")) {
				o.Fail(p.InstrPos(lp.phi), "Remove visits %v virtual nodes starting at %v: not all h.replicas virtual nodes", trips, lo)
			}
		}
	})
	r.Check("D4/K5/get-pure-and-total", "Get writes no ring state and calls nothing nondeterministic; absence only when the ring or the slot is empty; index taken modulo len(keys)", func(o *core.O) {
		if !o.Need(get != nil, "ConsistentHash.Get") {
			return
		}
		n := 0
		// Get and the methods of the hash it runs (transitively, in-package) write nothing and call nothing nondeterministic
		seen := map[*ssa.Function]bool{}
		var visit func(root *ssa.Function, depth int)
		visit = func(root *ssa.Function, depth int) {
			if seen[root] {
				return
			}
			seen[root] = true
			for _, f := range core.WithAnon(root) {
				r.Fn(core.FuncName(f))
				for _, w := range writesToType(f, "ConsistentHash") {
					o.Fail(p.InstrPos(w), "Get mutates ring state")
				}
				for _, c := range core.Calls(f, func(in ssa.Instruction) bool { return core.AsCall(in) != nil }) {
					n++
					name := core.Short(core.CalleeName(c))
					for _, bad := range []string{"time.", "math/rand.", "(*math/rand.", "os.", "crypto/rand."} {
						if strings.HasPrefix(name, bad) {
							o.Fail(p.InstrPos(c), "Get calls %s (result would not be stable)", name)
						}
					}
					if strings.Contains(name, "hash.ConsistentHash).") && !strings.HasSuffix(name, ".Get") {
						if callee := c.Common().StaticCallee(); c13InHashPkg(callee) && depth < 3 {
							if _, plain := c.(*ssa.Call); plain {
								visit(callee, depth+1)
								continue
							}
						}
						o.Fail(p.InstrPos(c), "Get calls %s", name)
					}
				}
			}
		}
		visit(get, 0)
		o.Site(n, core.FuncName(get))
		emptyRing := core.EmptyLen(core.FieldLoad("ConsistentHash.ring"))
		emptyKeys := core.EmptyLen(core.FieldLoad("ConsistentHash.keys"))
		emptySlot := core.EmptyLen(func(v ssa.Value) bool {
			_, ok := core.Forward(v).(*ssa.Lookup)
			return ok
		})
		// the presence flag is a constant wherever it is decided (one return per outcome, or the
		// outcomes merged before a single return); absence is decided only behind an emptiness test
		sites, nonConst := c13FlagSites(get, 1)
		for _, in := range nonConst {
			o.Fail(p.InstrPos(in), "Get's presence flag is not a constant")
		}
		var cut []core.Edge
		for _, a := range []core.Atom{emptyRing, emptyKeys, emptySlot} {
			h, _ := core.EdgesOf(get, a)
			cut = append(cut, h...)
		}
		for _, s := range sites {
			if !s.val && s.reachable(get, core.CutSet(cut)) {
				o.Fail(p.InstrPos(s.at), "Get reports absence although neither the ring nor the slot is empty")
			}
		}
		isSearch := c13IsSearch
		lenKeys := core.IsLenOf(core.FieldLoad("ConsistentHash.keys"))
		mod := core.Instrs(get, func(in ssa.Instruction) bool {
			b, ok := in.(*ssa.BinOp)
			if !ok {
				return false
			}
			if b.Op == token.REM {
				return isSearch(b.X) && lenKeys(b.Y)
			}
			// explicit wrap: the search result compared with len(keys)
			switch b.Op {
			case token.EQL, token.NEQ:
				return (isSearch(b.X) && lenKeys(b.Y)) || (isSearch(b.Y) && lenKeys(b.X))
			case token.GEQ, token.LSS:
				return isSearch(b.X) && lenKeys(b.Y)
			case token.LEQ, token.GTR: // len(keys) <= index, len(keys) > index
				return isSearch(b.Y) && lenKeys(b.X)
			}
			return false
		})
		if len(mod) == 0 {
			o.Fail(p.Pos(get.Pos()), "the binary-search index is neither taken modulo len(keys) nor compared with it (index == len(keys) when the hash is above every key)")
		}
	})
	r.Check("D5/K8/configured-weight", "cache.New and kv.NewStore add every node with its configured weight", func(o *core.O) {
		for _, fn := range [][2]string{{cachePkg, "New"}, {"lib/store/kv", "New"}} {
			f := p.Func(fn[0], "", fn[1])
			if !o.Need(f != nil, fn[0]+"."+fn[1]) {
				return
			}
			r.Fn(core.FuncName(f))
			cs := core.Calls(f, core.CallMethod("hash.ConsistentHash", "AddWithWeight"))
			o.Site(len(cs), core.FuncName(f))
			if len(cs) == 0 {
				o.Fail(p.Pos(f.Pos()), "%s does not add nodes with AddWithWeight", core.FuncName(f))
			}
			for _, c := range cs {
				w := core.Args(c)[2]
				if !core.DependsOn(w, func(v ssa.Value) bool {
					return strings.HasSuffix(core.FieldAddrNameOfLoad(v), ".Weight")
				}) {
					o.Fail(p.InstrPos(c), "weight argument %s is not the node's configured Weight", core.Describe(w))
				}
				// on every path: no constant may stand in for the configured weight (a weight of 0 drains a node)
				for _, leaf := range gxPhiLeaves(core.Strip(core.Forward(w))) {
					if _, isConst := core.ConstInt(core.Strip(core.Forward(leaf))); isConst {
						o.Fail(p.InstrPos(c), "on some path the node is added with the constant weight %s instead of its configured Weight: a node configured with weight 0 (drained) receives keys", core.Describe(leaf))
					}
				}
			}
		}
	})

	r.Check("D6/K6/order-agreement", "keys are sorted ascending and both binary searches look for the first key >= hash (writer and readers agree on the order)", func(o *core.O) {
		if !o.Need(add != nil && get != nil && rem != nil, "AddWithReplicas / Get / Remove") {
			return
		}
		// the key slice as seen from a comparator/predicate: the field itself, or a captured alias of it
		isKeys := func(v ssa.Value) bool {
			if core.IsFieldLoad(v, "ConsistentHash.keys") {
				return true
			}
			return core.CapturedLocal(func(st ssa.Value) bool { return core.DependsOn(st, core.FieldLoad("ConsistentHash.keys")) })(v) ||
				core.DependsOn(core.Forward(v), core.FieldLoad("ConsistentHash.keys"))
		}
		keyAt := func(idx func(ssa.Value) bool) func(ssa.Value) bool {
			return func(v ssa.Value) bool {
				u, ok := v.(*ssa.UnOp)
				if !ok || u.Op != token.MUL {
					return false
				}
				ia, ok := u.X.(*ssa.IndexAddr)
				return ok && isKeys(ia.X) && idx(ia.Index)
			}
		}
		nthParam := func(f *ssa.Function, n int) func(ssa.Value) bool {
			return func(v ssa.Value) bool {
				pa, ok := v.(*ssa.Parameter)
				return ok && len(f.Params) > n && pa == f.Params[n]
			}
		}
		isFree := func(v ssa.Value) bool {
			v = core.Strip(v)
			if u, ok := v.(*ssa.UnOp); ok && u.Op == token.MUL {
				v = u.X
			}
			_, ok := v.(*ssa.FreeVar)
			return ok
		}
		n, sorts, searches := 0, 0, 0
		pkgFuncs := p.PkgFuncs(hashPkg)
		// by role: the closures handed to sort.Slice (comparator) and sort.Search (predicate) anywhere in the package
		for _, f := range p.PkgFuncs(hashPkg) {
			for _, c := range core.Calls(f, core.CallTo("sort.Slice", "sort.SliceStable", "sort.Search")) {
				args := core.Args(c)
				mc, ok := core.Strip(args[len(args)-1]).(*ssa.MakeClosure)
				if !ok {
					continue
				}
				an := mc.Fn.(*ssa.Function)
				name := core.Short(core.CalleeName(c))
				if name == "sort.Search" {
					if len(an.Params) != 1 {
						continue
					}
					n++
					searches++
					// the predicate as written, or what it means once the values it compares are resolved
					// by role (bound method value, struct that carries keys and hash, forwarding: c13_pred.go)
					pf, ctx := c13Predicate(pkgFuncs, mc)
					geq := core.AnyOf(core.Cmp(token.GEQ, keyAt(nthParam(an, 0)), isFree), core.Cmp(token.GEQ, ctx.isKeyAt(0), ctx.isInv))
					for _, ret := range core.Returns(pf) {
						if m, pos := geq(core.Result(ret, 0)); !m || !pos {
							o.Fail(p.InstrPos(ret), "%s: search predicate is not keys[i] >= hash", core.FuncName(f))
						}
					}
					continue
				}
				if len(an.Params) != 2 {
					continue
				}
				n++
				sorts++
				pf, ctx := c13Predicate(pkgFuncs, mc)
				less := core.AnyOf(core.Cmp(token.LSS, keyAt(nthParam(an, 0)), keyAt(nthParam(an, 1))), core.Cmp(token.LSS, ctx.isKeyAt(0), ctx.isKeyAt(1)))
				for _, ret := range core.Returns(pf) {
					if m, pos := less(core.Result(ret, 0)); !m || !pos {
						o.Fail(p.InstrPos(ret), "sort comparator is not keys[i] < keys[j] (ring would not be ascending)")
					}
				}
			}
		}
		// the same through sort.Sort / sort.Stable: the key slice converted to an in-package sort.Interface
		// whose Less is recv[i] < recv[j], Len is len(recv) and Swap exchanges recv[i] and recv[j]
		for _, f := range p.PkgFuncs(hashPkg) {
			for _, c := range core.Calls(f, core.CallTo("sort.Sort", "sort.Stable")) {
				mi, ok := core.Forward(core.Args(c)[0]).(*ssa.MakeInterface)
				if !ok || !core.DependsOn(mi.X, core.FieldLoad("ConsistentHash.keys")) {
					continue
				}
				meth := map[string]*ssa.Function{}
				for _, g := range p.PkgFuncs(hashPkg) {
					if rcv := g.Signature.Recv(); rcv != nil && types.Identical(rcv.Type(), mi.X.Type()) {
						meth[g.Name()] = g
					}
				}
				less, ln, sw := meth["Less"], meth["Len"], meth["Swap"]
				if less == nil || ln == nil || sw == nil || len(less.Params) != 3 || len(sw.Params) != 3 || len(ln.Params) != 1 {
					o.Unres("%s: sort.Interface methods of %s not found in the package", p.InstrPos(c), mi.X.Type())
					continue
				}
				n++
				sorts++
				elemAt := func(g *ssa.Function, k int) func(ssa.Value) bool {
					return func(v ssa.Value) bool {
						u, ok := v.(*ssa.UnOp)
						if !ok || u.Op != token.MUL {
							return false
						}
						ia, ok := u.X.(*ssa.IndexAddr)
						return ok && ia.X == ssa.Value(g.Params[0]) && ia.Index == ssa.Value(g.Params[k])
					}
				}
				lt := core.Cmp(token.LSS, elemAt(less, 1), elemAt(less, 2))
				for _, ret := range core.Returns(less) {
					if m, pos := lt(core.Result(ret, 0)); !m || !pos {
						o.Fail(p.InstrPos(ret), "sort comparator %s is not keys[i] < keys[j] (ring would not be ascending)", core.FuncName(less))
					}
				}
				for _, ret := range core.Returns(ln) {
					lc, ok := core.Result(ret, 0).(*ssa.Call)
					if b, isB := func() (*ssa.Builtin, bool) {
						if !ok {
							return nil, false
						}
						b, isB := lc.Call.Value.(*ssa.Builtin)
						return b, isB
					}(); !isB || b.Name() != "len" || lc.Call.Args[0] != ssa.Value(ln.Params[0]) {
						o.Fail(p.InstrPos(ret), "%s does not return len of the slice being sorted", core.FuncName(ln))
					}
				}
				swapped := 0
				for _, b := range sw.Blocks {
					for _, in := range b.Instrs {
						st, ok := in.(*ssa.Store)
						if !ok {
							continue
						}
						ia, ok := st.Addr.(*ssa.IndexAddr)
						if !ok || ia.X != ssa.Value(sw.Params[0]) {
							continue
						}
						switch {
						case ia.Index == ssa.Value(sw.Params[1]) && elemAt(sw, 2)(st.Val), ia.Index == ssa.Value(sw.Params[2]) && elemAt(sw, 1)(st.Val):
							swapped++
						default:
							o.Fail(p.InstrPos(st), "%s stores %s: not an exchange of keys[i] and keys[j]", core.FuncName(sw), core.Describe(st.Val))
						}
					}
				}
				if swapped != 2 {
					o.Fail(p.Pos(sw.Pos()), "%s does not exchange keys[i] and keys[j]", core.FuncName(sw))
				}
			}
		}
		o.Site(n, core.FuncName(add), core.FuncName(get), core.FuncName(rem))
		// the writer sorts, and both readers of the order search (directly or through one in-package helper)
		if sorts == 0 || searches == 0 {
			o.Fail(p.Pos(add.Pos()), "sort comparator / search predicates not found (%d comparators, %d predicates)", sorts, searches)
		}
		for _, f := range []*ssa.Function{get, rem} {
			if !c13UsesSearch(f) {
				o.Fail(p.Pos(f.Pos()), "%s does not binary-search the sorted keys", core.FuncName(f))
			}
		}
	})
	r.Check("D6/K1/membership-bookkeeping", "AddWithReplicas records the node, Remove is a no-op only for unknown nodes, forgets the node afterwards, and drops from a shared slot only the removed node", func(o *core.O) {
		if !o.Need(add != nil && rem != nil, "AddWithReplicas / Remove") {
			return
		}
		isAddNode := func(in ssa.Instruction) bool {
			if core.CallMethod("hash.ConsistentHash", "addNode")(in) {
				return true
			}
			return core.IsMapUpdateOn("ConsistentHash.nodes")(in)
		}
		o.Site(1, core.FuncName(add))
		if w := core.MustPass(core.Entry(add), isAddNode, core.IsReturn); w != nil {
			o.Fail(p.InstrPos(w), "AddWithReplicas can return without recording the node (a later Remove/re-add would not replace its virtual nodes)")
		}
		// Remove: early return only when !containsNode
		contains := core.BoolVal(func(v ssa.Value) bool {
			if core.IsResult(v, 0, core.CallMethod("hash.ConsistentHash", "containsNode")) {
				return true
			}
			e, ok := v.(*ssa.Extract)
			if !ok || e.Index != 1 {
				return false
			}
			l, ok := e.Tuple.(*ssa.Lookup)
			return ok && core.IsFieldLoad(l.X, "ConsistentHash.nodes")
		})
		known, _ := core.EdgesOf(rem, contains)
		o.Site(len(known), core.FuncName(rem))
		if len(known) == 0 {
			o.Fail(p.Pos(rem.Pos()), "Remove does not test membership")
		}
		isForget := func(in ssa.Instruction) bool {
			if core.CallMethod("hash.ConsistentHash", "removeNode")(in) {
				return true
			}
			c, ok := in.(*ssa.Call)
			if !ok {
				return false
			}
			b, ok := c.Call.Value.(*ssa.Builtin)
			return ok && b.Name() == "delete" && core.IsFieldLoad(c.Call.Args[0], "ConsistentHash.nodes")
		}
		var from []core.At
		for _, e := range known {
			from = append(from, core.Head(e.To))
		}
		if w, ok := core.Reach(core.Q{From: from, Target: core.IsReturn, Blocked: isForget}); ok {
			o.Fail(p.InstrPos(w), "Remove of a known node can return without forgetting it")
		}
		if n := len(core.Calls(rem, core.CallMethod("hash.ConsistentHash", "removeRingNode"))); n == 0 {
			o.Fail(p.Pos(rem.Pos()), "Remove never drops the node from the ring slots")
		}
		// removeRingNode keeps exactly the entries whose repr differs from the removed node
		rr := p.Func(hashPkg, "ConsistentHash", "removeRingNode")
		if o.Need(rr != nil, "ConsistentHash.removeRingNode") {
			r.Fn(core.FuncName(rr))
			differs := core.Cmp(token.NEQ, func(v ssa.Value) bool { return core.IsResult(v, 0, core.CallTo("lib/hash.repr", "lib/lang.Repr")) }, core.ParamAt(rr, 2))
			isAppend := func(in ssa.Instruction) bool {
				c, ok := in.(*ssa.Call)
				if !ok {
					return false
				}
				b, ok := c.Call.Value.(*ssa.Builtin)
				return ok && b.Name() == "append"
			}
			o.Site(len(core.Instrs(rr, isAppend)), core.FuncName(rr))
			if core.EdgeCount(rr, differs) == 0 {
				o.Fail(p.Pos(rr.Pos()), "slot entries are not compared with the removed node's repr")
			}
			if w := core.Requires(rr, isAppend, differs); w != nil {
				o.Fail(p.InstrPos(w), "a slot entry is kept without differing from the removed node (or other nodes are dropped)")
			}
			same, _ := core.EdgesOf(rr, core.Not(differs))
			for _, e := range same {
				// on the equal edge the very next append must not be reached before the loop continues
				if w, ok := core.Reach(core.Q{From: []core.At{core.Head(e.To)}, Target: isAppend, Blocked: func(in ssa.Instruction) bool {
					_, isIf := in.(*ssa.If)
					return isIf
				}}); ok {
					o.Fail(p.InstrPos(w), "the removed node itself is kept in the slot")
				}
			}
		}
	})

	r.Check("D6/K2/remove-drops-key-exactly", "Remove tries all h.replicas replica names of the node, so it deletes a position from keys if and only if the node's own entry was dropped from the ring slot at that position: the delete of keys[index] is reachable only on the outcome 'the slot filter (removeRingNode) dropped an entry of this node' for the same hash and only when keys[index] == hash, and on that outcome it is not skipped (a replica name the node never owned can be another node's virtual node – \"node1\"+\"10\" == \"node11\"+\"0\" – whose position would leave keys while the ring still holds it: keys of other nodes move and Get can divide by len(keys) == 0; a kept key without ring entry makes Get report absence)", func(o *core.O) {
		if !o.Need(rem != nil, "ConsistentHash.Remove") {
			return
		}
		c13RemoveDropsKey(r, o, rem, isHashCall)
	})
}
