package props

import (
	"go/token"
	"go/types"

	"godcheck/core"

	"golang.org/x/tools/go/ssa"
)

// ---------------------------------------------------------------------------
// "Followers never receive a result the function did not produce."
//
// The callers sharing a flight read the call object's value and error fields
// once the creator released them (WaitGroup.Done). Both fields are written by
// the one assignment that follows the user function's return; when the
// function does not return (it panics, or calls runtime.Goexit) the deferred
// cleanup still releases the waiters, and what they read is whatever the
// fields held before: (nil, nil), a success nobody produced.
//
// Decided per call of the user function, on the cleanup that runs when it
// does not return: the release of the waiters is reachable only
//   - over an edge that establishes "the user function returned" (a test of a
//     local flag of the executor that cannot hold the tested value while the
//     user function runs: every store of that value follows the call), or
//   - after a store of a provably non-nil error into the error field of the
//     call object,
// or the error field holds a non-nil error from before the call on (it is
// overwritten by the function's own result when it returns).
// ---------------------------------------------------------------------------

// c18Abort carries what the rule needs to know about the flight's call object.
type c18Abort struct {
	p      *core.Prog
	callT  types.Type // the struct type of a flight's call object (element of flightGroup.calls)
	errIdx int        // its error-typed field
	glob   map[*ssa.Global]int
}

// c18CallType finds the call object's struct type (pointer element of the map
// field tf = "T.f") and its one field of type error.
func c18CallType(p *core.Prog, rel, typ, field string) (t types.Type, errIdx int, why string) {
	sp := p.Pkg(rel)
	if sp == nil || sp.Type(typ) == nil {
		return nil, -1, "type " + typ
	}
	st, ok := sp.Type(typ).Type().Underlying().(*types.Struct)
	if !ok {
		return nil, -1, "struct " + typ
	}
	for i := 0; i < st.NumFields(); i++ {
		if st.Field(i).Name() != field {
			continue
		}
		m, ok := st.Field(i).Type().Underlying().(*types.Map)
		if !ok {
			return nil, -1, typ + "." + field + " as a map"
		}
		pt, ok := m.Elem().Underlying().(*types.Pointer)
		if !ok {
			return nil, -1, "the call object of " + typ + "." + field + " held by pointer"
		}
		cs, ok := pt.Elem().Underlying().(*types.Struct)
		if !ok {
			return nil, -1, "the call object of " + typ + "." + field + " as a struct"
		}
		errIdx = -1
		for k := 0; k < cs.NumFields(); k++ {
			if cs.Field(k).Type().String() == "error" {
				if errIdx >= 0 {
					return nil, -1, "exactly one error-typed field in the call object"
				}
				errIdx = k
			}
		}
		if errIdx < 0 {
			return nil, -1, "an error-typed field in the call object"
		}
		return pt.Elem(), errIdx, ""
	}
	return nil, -1, "field " + typ + "." + field
}

// errStore: in stores into the error field of a call object.
func (a *c18Abort) errStore(in ssa.Instruction) *ssa.Store {
	st, ok := in.(*ssa.Store)
	if !ok {
		return nil
	}
	fa, ok := st.Addr.(*ssa.FieldAddr)
	if !ok || fa.Field != a.errIdx {
		return nil
	}
	pt, ok := fa.X.Type().Underlying().(*types.Pointer)
	if !ok || !types.Identical(pt.Elem(), a.callT) {
		return nil
	}
	return st
}

// nonNil classifies an error value: 1 provably non-nil, 0 provably nil, -1 not understood.
func (a *c18Abort) nonNil(v ssa.Value, depth int) int {
	if depth > 3 {
		return -1
	}
	v = c18Fwd(v)
	switch x := v.(type) {
	case *ssa.Const:
		if x.Value == nil {
			return 0
		}
		return -1
	case *ssa.MakeInterface:
		return 1 // an interface holding a concrete value (also a nil pointer) is not nil
	case *ssa.ChangeInterface:
		return a.nonNil(x.X, depth)
	case *ssa.ChangeType:
		return a.nonNil(x.X, depth)
	case *ssa.Phi:
		res := 1
		for _, e := range x.Edges {
			switch a.nonNil(e, depth+1) {
			case 0:
				return 0 // nil on some path
			case -1:
				res = -1
			}
		}
		return res
	case *ssa.Call:
		return a.callNonNil(x, 0, depth)
	case *ssa.Extract:
		if c, ok := x.Tuple.(*ssa.Call); ok {
			return a.callNonNil(c, x.Index, depth)
		}
	case *ssa.UnOp:
		if g, ok := x.X.(*ssa.Global); ok && x.Op == token.MUL {
			return a.globalNonNil(g, depth)
		}
	}
	return -1
}

func (a *c18Abort) callNonNil(c *ssa.Call, idx, depth int) int {
	switch core.CalleeName(c) {
	case "errors.New", "fmt.Errorf":
		return 1
	}
	h := c.Call.StaticCallee()
	if h == nil || h.Blocks == nil || h.Pkg == nil || c18Rel(h) == h.Pkg.Pkg.Path() {
		return -1 // dynamic, or outside the module
	}
	rets := core.Returns(h)
	if len(rets) == 0 {
		return -1
	}
	for _, r := range rets {
		if idx >= len(r.Results) || a.nonNil(core.Result(r, idx), depth+1) != 1 {
			return -1
		}
	}
	return 1
}

// globalNonNil: a package-level error variable is non-nil when its package only ever
// loads it and stores provably non-nil values into it (at least once: the initialiser).
func (a *c18Abort) globalNonNil(g *ssa.Global, depth int) int {
	if r, ok := a.glob[g]; ok {
		return r
	}
	a.glob[g] = -1
	if g.Pkg == nil {
		return -1
	}
	res, stores := 1, 0
	for _, f := range core.SSAPkgFuncs(g.Pkg.Prog, g.Pkg) {
		for _, b := range f.Blocks {
			for _, in := range b.Instrs {
				uses := false
				for _, op := range in.Operands(nil) {
					if *op == ssa.Value(g) {
						uses = true
					}
				}
				if !uses {
					continue
				}
				switch x := in.(type) {
				case *ssa.Store:
					if x.Addr != ssa.Value(g) {
						res = -1 // the address is stored away
						continue
					}
					stores++
					switch a.nonNil(x.Val, depth+1) {
					case 0:
						if res == 1 {
							res = 0
						}
					case -1:
						res = -1
					}
				case *ssa.UnOp:
					if x.Op != token.MUL {
						res = -1
					}
				case *ssa.DebugRef:
				default:
					res = -1 // address taken
				}
			}
		}
	}
	if stores == 0 && res == 1 {
		res = 0 // never assigned: the zero value, nil
	}
	a.glob[g] = res
	return res
}

// c18Flag is a boolean local of the executor as the cleanup sees it.
type c18Flag struct {
	ref   ssa.Value  // the free variable / pointer parameter of the cleanup denoting the cell
	al    *ssa.Alloc // the cell in the executor
	clean bool       // written only by plain stores in the executor, read-only in the cleanup, captured by nothing else
}

func c18IsBoolPtr(t types.Type) bool {
	pt, ok := t.Underlying().(*types.Pointer)
	if !ok {
		return false
	}
	b, ok := pt.Elem().Underlying().(*types.Basic)
	return ok && b.Kind() == types.Bool
}

// c18Flags lists the boolean cells of f that the body run by defer d can see.
func c18Flags(d *ssa.Defer, body *ssa.Function) []c18Flag {
	var refs, binds []ssa.Value
	if mc, ok := d.Call.Value.(*ssa.MakeClosure); ok {
		for i, fv := range body.FreeVars {
			if i < len(mc.Bindings) {
				refs, binds = append(refs, fv), append(binds, mc.Bindings[i])
			}
		}
	} else if d.Call.StaticCallee() == body {
		for i, par := range body.Params {
			if i < len(d.Call.Args) {
				refs, binds = append(refs, par), append(binds, d.Call.Args[i])
			}
		}
	}
	var out []c18Flag
	for i, ref := range refs {
		al, ok := binds[i].(*ssa.Alloc)
		if !ok || !c18IsBoolPtr(al.Type()) || al.Referrers() == nil || ref.Referrers() == nil {
			continue
		}
		fl := c18Flag{ref: ref, al: al, clean: true}
		for _, r := range *al.Referrers() {
			switch x := r.(type) {
			case *ssa.Store:
				if x.Addr != ssa.Value(al) {
					fl.clean = false
				}
			case *ssa.UnOp:
				if x.Op != token.MUL {
					fl.clean = false
				}
			case *ssa.DebugRef:
			case *ssa.MakeClosure:
				if ssa.Value(x) != d.Call.Value {
					fl.clean = false // another closure may write it
				}
			case *ssa.Defer:
				if x != d {
					fl.clean = false
				}
			default:
				fl.clean = false
			}
		}
		for _, r := range *ref.Referrers() {
			switch x := r.(type) {
			case *ssa.UnOp:
				if x.Op != token.MUL {
					fl.clean = false
				}
			case *ssa.DebugRef:
			default:
				fl.clean = false // written, or handed on, by the cleanup
			}
		}
		out = append(out, fl)
	}
	return out
}

// mayHold reports which values the cell can hold while the user function runs:
// the values of the stores (and the zero value of the allocation) that reach
// the call without an intervening store.
func (fl c18Flag) mayHold(f *ssa.Function, call ssa.Instruction) (mayTrue, mayFalse bool) {
	isStore := func(in ssa.Instruction) bool {
		st, ok := in.(*ssa.Store)
		return ok && st.Addr == ssa.Value(fl.al)
	}
	from := core.Entry(f)
	if fl.al.Block() != nil {
		from = core.After(fl.al)
	}
	if _, ok := core.Reach(core.Q{From: []core.At{from}, Target: core.Is(call), Blocked: isStore}); ok {
		mayFalse = true
	}
	for _, in := range core.Instrs(f, isStore) {
		if _, ok := core.Reach(core.Q{From: []core.At{core.After(in)}, Target: core.Is(call), Blocked: isStore}); !ok {
			continue
		}
		switch v := in.(*ssa.Store).Val; {
		case c18IsConstBool(v, true):
			mayTrue = true
		case c18IsConstBool(v, false):
			mayFalse = true
		default:
			mayTrue, mayFalse = true, true
		}
	}
	return
}

// atom is "the cell holds true" as a condition of the cleanup: the loaded
// value itself, or its comparison with a boolean constant.
func (fl c18Flag) atom() core.Atom {
	isLoad := func(v ssa.Value) bool {
		u, ok := v.(*ssa.UnOp)
		return ok && u.Op == token.MUL && u.X == fl.ref
	}
	isTrue := func(v ssa.Value) bool { return c18IsConstBool(v, true) }
	isFalse := func(v ssa.Value) bool { return c18IsConstBool(v, false) }
	return core.AnyOf(core.BoolVal(isLoad), core.Cmp(token.EQL, isLoad, isTrue), core.Cmp(token.NEQ, isLoad, isFalse))
}

// c18CondUnderstood: the condition of an `if` of the cleanup is a test of one of the
// flags, or a nil test of recover()'s result (which says nothing about Goexit).
func c18CondUnderstood(cond ssa.Value, flags []c18Flag) bool {
	for {
		u, ok := cond.(*ssa.UnOp)
		if !ok || u.Op != token.NOT {
			break
		}
		cond = u.X
	}
	for _, fl := range flags {
		if m, _ := fl.atom()(cond); m {
			return true
		}
	}
	if b, ok := cond.(*ssa.BinOp); ok && (b.Op == token.EQL || b.Op == token.NEQ) {
		isRecover := func(v ssa.Value) bool {
			c, ok := c18Fwd(v).(*ssa.Call)
			return ok && core.CalleeName(c) == "builtin:recover"
		}
		return (isRecover(b.X) && core.IsNil(b.Y)) || (isRecover(b.Y) && core.IsNil(b.X))
	}
	return false
}

// c18AbortVerdict of one cleanup body: 1 every path to the release passes an
// established return or a non-nil error store, 0 some path does not, -1 not understood.
func (a *c18Abort) bodyVerdict(f *ssa.Function, call ssa.Instruction, d *ssa.Defer, body *ssa.Function, target instrPred) (int, ssa.Instruction) {
	flags := c18Flags(d, body)
	var cut []core.Edge
	for _, fl := range flags {
		if !fl.clean {
			continue
		}
		mayTrue, mayFalse := fl.mayHold(f, call)
		holds, fails := core.EdgesOf(body, fl.atom())
		if !mayTrue {
			cut = append(cut, holds...) // the cell is true only after the user function returned
		}
		if !mayFalse {
			cut = append(cut, fails...)
		}
	}
	attempt := false // the body stores something into the error field that is not plainly nil
	unknownCond := false
	nonNilStore := func(in ssa.Instruction) bool {
		st := a.errStore(in)
		return st != nil && a.nonNil(st.Val, 0) == 1
	}
	for _, b := range body.Blocks {
		for _, in := range b.Instrs {
			if st := a.errStore(in); st != nil && a.nonNil(st.Val, 0) != 0 {
				attempt = true
			}
			if iff, ok := in.(*ssa.If); ok && !c18CondUnderstood(iff.Cond, flags) {
				unknownCond = true
			}
		}
	}
	for _, fl := range flags {
		if !fl.clean {
			unknownCond = true
		}
	}
	w, ok := core.Reach(core.Q{From: []core.At{core.Entry(body)}, Target: target, Blocked: nonNilStore, Cut: core.CutSet(cut)})
	if !ok {
		return 1, nil
	}
	// a store whose value is not understood, or a store under a condition that is not understood
	if attempt {
		unknownVal := false
		for _, b := range body.Blocks {
			for _, in := range b.Instrs {
				if st := a.errStore(in); st != nil && a.nonNil(st.Val, 0) == -1 {
					unknownVal = true
				}
			}
		}
		if unknownVal || unknownCond {
			return -1, w
		}
	}
	return 0, w
}

// c18R9 registers the rule added with fix "followers of an aborted flight".
func c18R9(r *core.Run) {
	p := r.P
	r.Explanation += " In SingleFlight the waiters of a flight are released, when the user function did not return (panic, runtime.Goexit), only after a non-nil error was stored into the shared call: they never read the zero fields as a result."
	r.NotDecided += " Which error the followers of an aborted flight receive, and that the panic keeps propagating to the executing caller; an abort marker kept elsewhere than in a boolean local of the executor (an integer state, a field of the call object) is reported as not understood or as a violation; a recover()-only cleanup is reported, because recover() does not see runtime.Goexit; whether the error store and the released WaitGroup belong to the same call object."
	r.Check("D2/K1/no-result-without-return/flightGroup", "followers never receive a result the user function did not produce: on every path on which the user function did not return normally (it panicked or called runtime.Goexit) the shared call's error field is set non-nil before the waiters are released — in the cleanup deferred around the user function, WaitGroup.Done is reachable only over an edge that establishes that the function returned (a test of a local flag whose tested value is stored only after the call) or after a store of a provably non-nil error into the call's error field; or the field holds such an error from before the call on [otherwise the waiters of a flight whose function panicked read the zero fields (nil, nil): a success the one execution never produced, which Cache.Take counts as a hit and cache-aside callers hand on as a row]", func(o *core.O) {
		callT, errIdx, why := c18CallType(p, syncxPkg, "flightGroup", "calls")
		if !o.Need(why == "", why) {
			return
		}
		a := &c18Abort{p: p, callT: callT, errIdx: errIdx, glob: map[*ssa.Global]int{}}
		inPkg := map[*ssa.Function]bool{}
		for _, f := range p.PkgFuncs(syncxPkg) {
			inPkg[f] = true
		}
		isDone := core.CallTo("(*sync.WaitGroup).Done")
		plainDone := func(in ssa.Instruction) bool { _, ok := in.(*ssa.Call); return ok && isDone(in) }
		deferredDone := func(in ssa.Instruction) bool { _, ok := in.(*ssa.Defer); return ok && isDone(in) }
		n := 0
		for _, f := range c18GroupFns(p, inPkg, "flightGroup") {
			for _, call := range core.Instrs(f, c18UserFnCall) {
				n++
				r.Fn(core.FuncName(f))
				// the defer statements around the call, in the order they were registered
				var defers []*ssa.Defer
				for _, in := range core.Instrs(f, func(in ssa.Instruction) bool { _, ok := in.(*ssa.Defer); return ok }) {
					if core.Dominates(in, call) {
						defers = append(defers, in.(*ssa.Defer))
					}
				}
				// the one that releases the waiters (the first registered: it runs last)
				var doneD *ssa.Defer
				for _, d := range defers {
					if isDone(d) {
						doneD = d
						break
					}
					if c := c18DeferredBody(d, inPkg); c != nil && len(core.Instrs(c, isDone)) > 0 {
						doneD = d
						break
					}
				}
				if doneD == nil {
					continue // no deferred release at all: D2/K1/cleanup-on-every-exit reports it
				}
				// (a) the error field is non-nil from before the call on
				preset := false
				isNonNil := func(in ssa.Instruction) bool {
					st := a.errStore(in)
					return st != nil && a.nonNil(st.Val, 0) == 1
				}
				if len(core.Instrs(f, isNonNil)) > 0 {
					preset = core.Precedes(f, isNonNil, core.Is(call)) == nil
					for _, in := range core.Instrs(f, func(in ssa.Instruction) bool { return a.errStore(in) != nil && !isNonNil(in) }) {
						if _, ok := core.Reach(core.Q{From: []core.At{core.After(in)}, Target: core.Is(call), Blocked: isNonNil}); ok {
							preset = false // overwritten again before the call
						}
					}
				}
				if preset {
					continue
				}
				// (b) the cleanup that releases the waiters, or one that runs before it (registered after it)
				best, unres := 0, false
				var witness ssa.Instruction
				for _, d := range defers {
					body := c18DeferredBody(d, inPkg)
					if body == nil || !(d == doneD || core.Dominates(doneD, d)) {
						continue
					}
					var target instrPred = core.IsExit
					if d == doneD {
						target = plainDone
						if len(core.Instrs(body, deferredDone)) > 0 {
							target = core.Or(plainDone, core.IsExit)
						}
					}
					r.Fn(core.FuncName(body))
					v, w := a.bodyVerdict(f, call, d, body, target)
					switch v {
					case 1:
						best = 1
					case -1:
						unres = true
					case 0:
						if d == doneD {
							witness = w
						}
					}
				}
				switch {
				case best == 1:
				case unres:
					o.Unres("%s: %s stores into the call's error field before releasing the waiters, but under a condition or with a value that is not understood", p.InstrPos(call), core.FuncName(f))
				default:
					where := p.InstrPos(doneD)
					if witness != nil {
						where = p.InstrPos(witness)
					}
					o.Fail(where, "%s: the waiters are released (WaitGroup.Done) on a path on which the user function called at %s need not have returned and no non-nil error was stored into the call's error field: the callers sharing a flight whose function panicked or called runtime.Goexit receive (nil, nil), a result the function never produced", core.FuncName(f), p.InstrPos(call))
				}
			}
		}
		o.Site(n)
	})
}
