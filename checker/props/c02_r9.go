package props

import (
	"go/constant"
	"go/token"
	"go/types"
	"math/big"
	"strings"

	"godcheck/core"

	"golang.org/x/tools/go/ssa"
)

// ---- round 9: rules written for three genuine defects of the pinned tree (DESIGN §5 rows 24-26) ----
//
//  * panic detection must not depend on the value recover() returns (panic(nil) under the module's
//    go directive makes recover() return nil): c02PanicTest / c02CheckCompletionFlag
//  * an informational 1xx WriteHeader is not the response's status: c02StatusRecording
//  * the MaxConns latch is one object per server: c02OneLatchPerServer, c02ChainElemName

// c02PanicTest describes how the deferred function df (deferred by d in its parent) decides whether the
// protected call panicked: by a completion flag of the deferring function (`!finished`), by the value of
// recover() (`recover() != nil`), or both.
type c02PanicTest struct {
	d       *ssa.Defer
	df      *ssa.Function
	flag    *ssa.Alloc  // the completion flag: a bool local of the deferring function, or a per-run cell of a function enclosing it (nil: none)
	flags   int         // number of distinct such bools that df tests
	flagArm []core.Edge // edges establishing !flag
	flagSet []core.Edge // edges establishing flag
	recArm  []core.Edge // edges establishing recover() != nil
	// panicked: "!flag || recover() != nil"
	panicked core.Atom
}

// c02FlagHome resolves the address a bool is loaded from inside df to the local of the deferring
// function it denotes: a captured variable, or a *bool parameter bound to &local at the defer.
func c02FlagHome(d *ssa.Defer, df *ssa.Function, addr ssa.Value) *ssa.Alloc {
	if pt, ok := addr.Type().(*types.Pointer); !ok || !types.Identical(pt.Elem().Underlying(), types.Typ[types.Bool]) {
		return nil
	}
	if pa, ok := addr.(*ssa.Parameter); ok && pa.Parent() == df {
		for i, q := range df.Params {
			if q == pa && i < len(d.Call.Args) {
				addr = d.Call.Args[i]
			}
		}
	}
	al, ok := c02Home(addr).(*ssa.Alloc)
	if !ok || (al.Parent() != d.Parent() && !c02Encloses(al.Parent(), d.Parent())) {
		return nil
	}
	return al
}

// c02Encloses reports whether closure f is created (through any number of closure levels) by outer.
func c02Encloses(outer, f *ssa.Function) bool {
	for i := 0; i < 8 && f != nil; i++ {
		mc := c02MakerOf(f)
		if mc == nil {
			return false
		}
		if f = mc.Parent(); f == outer {
			return true
		}
	}
	return false
}

// c02FlagLaunches: the completion flag lives in an enclosing function F of the deferring function f
// (`run := &state{...}; go run.serve()` with the flag a field of the per-request state, which the loader
// presents as a cell of F captured by the goroutine). It is a flag of THIS run of f only when f runs at
// most once per instance of the cell: on every level from f up to F the closure is created at one place,
// its only use is being the callee of one call/go/defer, and that instruction cannot execute again without
// the cell being allocated anew. Returns, per function above f on that chain, the instruction in it that
// runs the next level down; or why the shape is not understood.
func c02FlagLaunches(flag *ssa.Alloc, f *ssa.Function) (launch map[*ssa.Function]ssa.Instruction, why string) {
	launch = map[*ssa.Function]ssa.Instruction{}
	home := flag.Parent()
	for g, i := f, 0; g != home; i++ {
		mc := c02MakerOf(g)
		if i >= 8 || mc == nil || len(c02Makers[g]) > 1 || mc.Referrers() == nil {
			return nil, core.FuncName(g) + " is created at several places"
		}
		var l ssa.Instruction
		n := 0
		for _, ref := range *mc.Referrers() {
			if _, dbg := ref.(*ssa.DebugRef); dbg {
				continue
			}
			n++
			if c, ok := ref.(ssa.CallInstruction); ok && c.Common().Value == ssa.Value(mc) && !c.Common().IsInvoke() {
				l = ref
				for _, a := range c.Common().Args {
					if a == ssa.Value(mc) {
						l = nil
					}
				}
			}
		}
		if n != 1 || l == nil {
			return nil, core.FuncName(g) + " is not simply run where it is created"
		}
		par := mc.Parent()
		var fresh func(ssa.Instruction) bool
		if par == home {
			fresh = core.Is(flag)
		}
		if _, again := core.Reach(core.Q{From: []core.At{core.After(l)}, Target: core.Is(l), Blocked: fresh}); again {
			return nil, core.FuncName(g) + " can be started several times with the same completion flag"
		}
		launch[par] = l
		g = par
	}
	return launch, ""
}

func c02PanicTestOf(d *ssa.Defer) *c02PanicTest {
	df := c02DeferredFn(d)
	pt := &c02PanicTest{d: d, df: df}
	if df == nil || df.Blocks == nil {
		pt.panicked = core.Not(recoveredNil)
		return pt
	}
	homes := map[*ssa.Alloc]bool{}
	flagOf := func(v ssa.Value) *ssa.Alloc {
		u, ok := core.Strip(v).(*ssa.UnOp)
		if !ok || u.Op != token.MUL {
			return nil
		}
		return c02FlagHome(d, df, u.X)
	}
	// the bools df tests: locals of the deferring function; when it tests none of its own, cells of the
	// functions enclosing it (per-run state built by the function that starts it, see c02FlagLaunches)
	own, outer := map[*ssa.Alloc]bool{}, map[*ssa.Alloc]bool{}
	core.EdgesOf(df, core.BoolVal(func(v ssa.Value) bool {
		if h := flagOf(v); h != nil {
			if h.Parent() == d.Parent() {
				own[h] = true
			} else {
				outer[h] = true
			}
			return true
		}
		return false
	}))
	if len(own) == 0 {
		own = outer
	}
	finished := core.BoolVal(func(v ssa.Value) bool {
		if h := flagOf(v); h != nil && own[h] {
			homes[h] = true
			return true
		}
		return false
	})
	pt.flagSet, pt.flagArm = core.EdgesOf(df, finished)
	pt.flags = len(homes)
	if len(homes) == 1 {
		for h := range homes {
			pt.flag = h
		}
	}
	_, pt.recArm = core.EdgesOf(df, recoveredNil)
	pt.panicked = core.AnyOf(core.Not(finished), core.Not(recoveredNil))
	return pt
}

// arm: the edges on which the deferred function has established that the protected call panicked.
func (pt *c02PanicTest) arm() []core.Edge {
	return append(append([]core.Edge(nil), pt.flagArm...), pt.recArm...)
}

// missed: with a completion flag in use, the deferred function must perform action on every path on which
// the flag is false, whatever recover() returned (`if !finished { if p := recover(); p != nil { act } }`
// still loses panic(nil)). Returns the exit reached without the action, or nil.
func (pt *c02PanicTest) missed(action func(ssa.Instruction) bool) ssa.Instruction {
	if pt.flag == nil || len(pt.flagArm) == 0 {
		return nil
	}
	if w, ok := core.Reach(core.Q{From: []core.At{core.Entry(pt.df)}, Target: core.IsExit, Blocked: action, Cut: core.CutSet(pt.flagSet)}); ok {
		return w
	}
	return nil
}

// c02CheckCompletionFlag decides that the deferred function of pt recognises every panic of the
// protected calls, whatever the panic value:
//   - it tests a completion flag (a bool local of the deferring function, or a cell of an enclosing function
//     that exists once per run of the deferring function: c02FlagLaunches), not only recover()'s value;
//   - the flag is false whenever a protected call runs: it is written only by the deferring function
//     itself (an enclosing function may initialise it to false before starting the deferring function), only
//     with constants, and no store of true can be followed by a protected call;
//   - it is true whenever a protected call returned normally: every path from the call to a return
//     passes a store of true and no store of false (otherwise a normal completion is taken for a panic);
//   - on the panicked arm recover() is called on every path (the panic is stopped).
func c02CheckCompletionFlag(o *core.O, p *core.Prog, pt *c02PanicTest, protected []ssa.Instruction, what string) {
	df, d := pt.df, pt.d
	f := d.Parent()
	if pt.flags > 1 {
		o.Unres("%s tests %d different bool locals of %s (shape not understood)", core.FuncName(df), pt.flags, core.FuncName(f))
		return
	}
	if pt.flag == nil || len(pt.flagArm) == 0 {
		if len(pt.recArm) > 0 {
			o.Fail(p.Pos(df.Pos()), "%s decides whether %s panicked by recover() != nil alone: panic(nil) (e.g. panic(err) with a nil err) makes recover() return nil under this module's go directive, so the panic is stopped but not recognised", core.FuncName(df), what)
		} else {
			o.Fail(p.Pos(df.Pos()), "%s never tests whether %s completed", core.FuncName(df), what)
		}
		return
	}
	flag := pt.flag
	if len(protected) == 0 {
		o.Unres("%s: no protected call found in %s", what, core.FuncName(f))
		return
	}
	// a flag that lives in an enclosing function: f runs at most once per instance of it
	launch := map[*ssa.Function]ssa.Instruction{}
	if flag.Parent() != f {
		var why string
		if launch, why = c02FlagLaunches(flag, f); why != "" {
			o.Unres("the completion flag is a variable of %s and %s (shape not understood)", core.FuncName(flag.Parent()), why)
			return
		}
	}
	// every use of the flag
	isFlagAddr := func(a ssa.Value) bool {
		if a == ssa.Value(flag) {
			return true
		}
		if pa, ok := a.(*ssa.Parameter); ok && pa.Parent() == df {
			return c02FlagHome(d, df, a) == flag
		}
		if _, ok := a.(*ssa.FreeVar); ok {
			return c02Home(a) == ssa.Value(flag)
		}
		return false
	}
	for _, ref := range *flag.Referrers() {
		switch x := ref.(type) {
		case *ssa.DebugRef, *ssa.UnOp:
		case *ssa.Store:
			if x.Addr != ssa.Value(flag) {
				o.Fail(p.InstrPos(x), "the address of the completion flag is stored away: it can be written behind the rule's back")
			}
		case *ssa.MakeClosure:
		case *ssa.Defer:
			if x != d {
				o.Fail(p.InstrPos(x), "the completion flag is handed to another deferred call")
			}
		default:
			o.Fail(p.InstrPos(ref), "the completion flag escapes from %s", core.FuncName(f))
		}
	}
	// the scopes the protected calls live in: the deferring function itself, and closures it runs exactly
	// once on the spot (`withLock(&mu, func() { resp, err = handler(ctx, req); finished = true })`), which
	// are part of its straight-line code
	sync := c02SyncClosures(f)
	prot := map[*ssa.Function][]ssa.Instruction{}
	for _, h := range protected {
		g := h.Parent()
		if g != f && sync[g] == nil {
			o.Unres("%s is called from %s, a nested closure of %s (shape not understood)", what, core.FuncName(g), core.FuncName(f))
			return
		}
		prot[g] = append(prot[g], h)
	}
	trues, falses := map[*ssa.Function][]ssa.Instruction{}, map[*ssa.Function][]ssa.Instruction{}
	fs := c02WithClosures(flag.Parent())
	if df.Parent() == nil {
		fs = append(fs, df)
	}
	for _, g := range fs {
		// a captured flag is only loaded, stored to and captured again
		for _, fv := range g.FreeVars {
			if fv.Referrers() == nil || c02Home(fv) != ssa.Value(flag) {
				continue
			}
			for _, ref := range *fv.Referrers() {
				switch x := ref.(type) {
				case *ssa.DebugRef, *ssa.UnOp, *ssa.MakeClosure:
				case *ssa.Store:
					if x.Addr != ssa.Value(fv) {
						o.Fail(p.InstrPos(x), "the address of the completion flag is stored away: it can be written behind the rule's back")
					}
				case *ssa.Defer:
					if x != d {
						o.Fail(p.InstrPos(x), "the completion flag is handed to another deferred call")
					}
				default:
					o.Fail(p.InstrPos(ref), "the completion flag escapes from %s", core.FuncName(g))
				}
			}
		}
		for _, in := range core.Instrs(g, func(in ssa.Instruction) bool { st, ok := in.(*ssa.Store); return ok && isFlagAddr(st.Addr) }) {
			st := in.(*ssa.Store)
			c, ok := core.Strip(st.Val).(*ssa.Const)
			if !ok || c.Value == nil || c.Value.Kind() != constant.Bool {
				o.Fail(p.InstrPos(in), "the completion flag is assigned %s (not a constant)", core.Describe(st.Val))
				continue
			}
			if l := launch[g]; l != nil && !constant.BoolVal(c.Value) {
				// the enclosing function initialising the flag to false before it starts the code that runs the
				// protected call
				if _, late := core.Reach(core.Q{From: []core.At{core.After(l)}, Target: core.Is(in)}); !late {
					continue
				}
			}
			if g != f && prot[g] == nil {
				o.Fail(p.InstrPos(in), "the completion flag is written in %s, not by the code that runs %s", core.FuncName(g), what)
				continue
			}
			if constant.BoolVal(c.Value) {
				trues[g] = append(trues[g], in)
			} else {
				falses[g] = append(falses[g], in)
			}
		}
	}
	// a scope: in g, the flag is false whenever one of hs runs and true after each returned normally
	// (mustSet: a return reached without setting it is a violation)
	check := func(g *ssa.Function, hs, ts, fls []ssa.Instruction, mustSet bool) (sets bool) {
		for _, s := range ts {
			if _, ok := core.Reach(core.Q{From: []core.At{core.After(s)}, Target: core.Is(hs...)}); ok {
				o.Fail(p.InstrPos(s), "the completion flag is set before %s has returned: a panic raised afterwards is taken for a normal completion", what)
			}
		}
		sets = len(ts) > 0
		for _, h := range hs {
			if w := core.MustPass(core.After(h), core.Is(ts...), core.IsReturn); w != nil {
				sets = false
				if mustSet && len(ts) > 0 {
					o.Fail(p.InstrPos(w), "%s can return normally after %s without setting the completion flag: the normal completion is taken for a panic", core.FuncName(g), what)
				}
			}
			if w, ok := core.Reach(core.Q{From: []core.At{core.After(h)}, Target: core.Is(fls...)}); ok && len(fls) > 0 {
				o.Fail(p.InstrPos(w), "the completion flag is cleared after %s returned", what)
			}
		}
		return sets
	}
	hsF, tsF := append([]ssa.Instruction(nil), prot[f]...), append([]ssa.Instruction(nil), trues[f]...)
	for g, hs := range prot {
		if g == f {
			continue
		}
		// in f, running the closure is running the protected call; when the closure sets the flag on every
		// normal path, the run also counts as setting it
		run := ssa.Instruction(sync[g])
		hsF = append(hsF, run)
		if check(g, hs, trues[g], falses[g], false) {
			tsF = append(tsF, run)
		} else if len(trues[g]) > 0 {
			o.Fail(p.InstrPos(trues[g][0]), "%s sets the completion flag on some paths only", core.FuncName(g))
		}
	}
	if len(tsF) == 0 {
		o.Fail(p.Pos(f.Pos()), "the completion flag is never set: every normal completion of %s is taken for a panic", what)
	}
	// a run of a closure that sets the flag is the protected call and the store in one: only the other stores
	// must not be followed by it
	var pureStores []ssa.Instruction
	for _, s := range tsF {
		if _, isSt := s.(*ssa.Store); isSt {
			pureStores = append(pureStores, s)
		}
	}
	for _, s := range pureStores {
		if _, ok := core.Reach(core.Q{From: []core.At{core.After(s)}, Target: core.Is(hsF...)}); ok {
			o.Fail(p.InstrPos(s), "the completion flag is set before %s has returned: a panic raised afterwards is taken for a normal completion", what)
		}
	}
	for _, h := range hsF {
		isSetter := false
		for _, s := range tsF {
			if s == h {
				isSetter = true
			}
		}
		if !isSetter && len(tsF) > 0 {
			if w := core.MustPass(core.After(h), core.Is(tsF...), core.IsReturn); w != nil {
				o.Fail(p.InstrPos(w), "%s can return normally after %s without setting the completion flag: the normal completion is taken for a panic", core.FuncName(f), what)
			}
		}
		if w, ok := core.Reach(core.Q{From: []core.At{core.After(h)}, Target: core.Is(falses[f]...)}); ok && len(falses[f]) > 0 {
			o.Fail(p.InstrPos(w), "the completion flag is cleared after %s returned", what)
		}
		if _, ok := core.Reach(core.Q{From: []core.At{core.Entry(f)}, Target: core.Is(h), Blocked: core.Is(d)}); ok {
			o.Fail(p.InstrPos(h), "%s can run before the panic guard is deferred", what)
		}
	}
	// the panic is stopped: every path through the flag arm calls recover()
	isRec := core.Is(recoverCalls(df)...)
	for _, e := range pt.flagArm {
		last := e.From.Instrs[len(e.From.Instrs)-1]
		if _, early := core.Reach(core.Q{From: []core.At{core.Entry(df)}, Target: core.Is(last), Blocked: isRec}); !early {
			continue // recover() already ran on every path to the test
		}
		if w, ok := core.Reach(core.Q{From: []core.At{core.Head(e.To)}, Target: core.IsExit, Blocked: isRec}); ok {
			o.Fail(p.InstrPos(w), "%s can finish its panic arm without calling recover(): the panic goes on unwinding", core.FuncName(df))
		}
	}
}

// ---------------------------------------------------------------- informational status codes

// c02EvalCond evaluates a boolean/integer SSA expression in which the values of env are known
// integers; ok=false when it depends on anything else. In-package pure helpers are evaluated with
// core.Eval.
func c02EvalCond(p *core.Prog, env map[ssa.Value]int64, live func(from, to *ssa.BasicBlock) bool, v ssa.Value, depth int) (constant.Value, bool) {
	if depth > 8 {
		return nil, false
	}
	v = core.Strip(v)
	if c, ok := env[c02Var(v)]; ok {
		return constant.MakeInt64(c), true
	}
	switch x := v.(type) {
	case *ssa.Const:
		if x.Value == nil {
			return nil, false
		}
		switch x.Value.Kind() {
		case constant.Int, constant.Bool:
			return x.Value, true
		}
	case *ssa.UnOp:
		if x.Op == token.NOT {
			if c, ok := c02EvalCond(p, env, live, x.X, depth+1); ok && c.Kind() == constant.Bool {
				return constant.MakeBool(!constant.BoolVal(c)), true
			}
		}
		if x.Op == token.SUB {
			if c, ok := c02EvalCond(p, env, live, x.X, depth+1); ok && c.Kind() == constant.Int {
				return constant.UnaryOp(token.SUB, c, 0), true
			}
		}
	case *ssa.BinOp:
		a, ok1 := c02EvalCond(p, env, live, x.X, depth+1)
		b, ok2 := c02EvalCond(p, env, live, x.Y, depth+1)
		if !ok1 || !ok2 || a.Kind() != b.Kind() {
			return nil, false
		}
		switch x.Op {
		case token.EQL, token.NEQ, token.LSS, token.LEQ, token.GTR, token.GEQ:
			if a.Kind() == constant.Bool && x.Op != token.EQL && x.Op != token.NEQ {
				return nil, false
			}
			return constant.MakeBool(constant.Compare(a, x.Op, b)), true
		case token.ADD, token.SUB, token.MUL:
			if a.Kind() == constant.Int {
				return constant.BinaryOp(a, x.Op, b), true
			}
		case token.QUO, token.REM:
			if a.Kind() == constant.Int && constant.Sign(b) != 0 {
				op := x.Op
				if op == token.QUO {
					op = token.QUO_ASSIGN // integer division
				}
				return constant.BinaryOp(a, op, b), true
			}
		}
	case *ssa.Phi:
		// a boolean built by && / ||: the incoming values of the edges that can be taken for these inputs
		// are known and equal
		var res constant.Value
		for i, e := range x.Edges {
			if live != nil && !live(x.Block().Preds[i], x.Block()) {
				continue
			}
			c, ok := c02EvalCond(p, env, live, e, depth+1)
			if !ok {
				return nil, false
			}
			if res != nil && !constant.Compare(res, token.EQL, c) {
				return nil, false
			}
			res = c
		}
		return res, res != nil
	case *ssa.Call:
		cal := x.Call.StaticCallee()
		if cal == nil || cal.Blocks == nil || x.Call.IsInvoke() {
			return nil, false
		}
		var args []any
		for _, a := range x.Call.Args {
			c, ok := c02EvalCond(p, env, live, a, depth+1)
			if !ok || c.Kind() != constant.Int {
				return nil, false
			}
			n, _ := constant.Int64Val(c)
			args = append(args, core.EvalInt(n))
		}
		res, ok := p.Eval(cal, args...)
		if !ok || len(res) != 1 {
			return nil, false
		}
		if b, ok := core.AsBool(res[0]); ok {
			return constant.MakeBool(b), true
		}
		if n, ok := core.AsInt(res[0]); ok {
			return constant.MakeInt64(n), true
		}
	}
	return nil, false
}

// c02ConcreteEdges returns the predicate "edge is infeasible" for fn when the values of env are known:
// the dead successor of every `if` whose condition evaluates to a constant.
func c02ConcreteEdges(p *core.Prog, fn *ssa.Function, env map[ssa.Value]int64) func(core.Edge) bool {
	dead := map[core.Edge]bool{}
	// live: the edge can be taken on some path from the entry that avoids the edges known dead so far
	var reached map[*ssa.BasicBlock]bool
	live := func(from, to *ssa.BasicBlock) bool { return reached[from] && !dead[core.Edge{From: from, To: to}] }
	for round := 0; round < 6; round++ {
		reached = map[*ssa.BasicBlock]bool{}
		work := []*ssa.BasicBlock{fn.Blocks[0]}
		for len(work) > 0 {
			b := work[len(work)-1]
			work = work[:len(work)-1]
			if reached[b] {
				continue
			}
			reached[b] = true
			for _, s := range b.Succs {
				if !dead[core.Edge{From: b, To: s}] {
					work = append(work, s)
				}
			}
		}
		changed := false
		for _, b := range fn.Blocks {
			iff, ok := b.Instrs[len(b.Instrs)-1].(*ssa.If)
			if !ok || !reached[b] {
				continue
			}
			c, ok := c02EvalCond(p, env, live, iff.Cond, 0)
			if !ok || c.Kind() != constant.Bool {
				continue
			}
			e := core.Edge{From: b, To: b.Succs[0]}
			if constant.BoolVal(c) {
				e = core.Edge{From: b, To: b.Succs[1]}
			}
			if !dead[e] {
				dead[e] = true
				changed = true
			}
		}
		if !changed {
			break
		}
	}
	return func(e core.Edge) bool { return dead[e] }
}

// c02Records reports whether, entered with its int parameter #idx equal to code, the method f of the
// buffering writer (or an in-package function it calls with that value) can reach a store that commits
// the status: a store of the value into timeoutWriter.code, or of true into timeoutWriter.wroteHeader.
// sites counts the stores looked at.
func c02Records(p *core.Prog, f *ssa.Function, idx int, code int64, depth int, sites *int) bool {
	if f == nil || f.Blocks == nil || idx < 0 || idx >= len(f.Params) || depth > 3 {
		return false
	}
	env := map[ssa.Value]int64{f.Params[idx]: code}
	cut := c02ConcreteEdges(p, f, env)
	reach := func(in ssa.Instruction) bool {
		_, ok := core.Reach(core.Q{From: []core.At{core.Entry(f)}, Target: core.Is(in), Cut: cut})
		return ok
	}
	rec := false
	for _, in := range core.Instrs(f, core.Or(core.IsStoreToField("timeoutWriter.code"), core.IsStoreToField("timeoutWriter.wroteHeader"))) {
		st := in.(*ssa.Store)
		if core.IsStoreToField("timeoutWriter.code")(in) {
			if c02Var(st.Val) != ssa.Value(f.Params[idx]) {
				continue // a fixed status, not the caller's
			}
		} else if core.Describe(st.Val) != "const:true" {
			continue
		}
		*sites++
		if reach(in) {
			rec = true
		}
	}
	for _, in := range core.Instrs(f, func(in ssa.Instruction) bool { _, ok := in.(*ssa.Call); return ok }) {
		c := in.(*ssa.Call)
		cal := c.Call.StaticCallee()
		if cal == nil || cal.Blocks == nil || cal.Pkg != f.Pkg || c.Call.IsInvoke() {
			continue
		}
		off := 0
		for i, a := range c.Call.Args {
			if i-off >= len(cal.Params) {
				break
			}
			if c02Var(a) == ssa.Value(f.Params[idx]) && types.Identical(a.Type().Underlying(), types.Typ[types.Int]) {
				if reach(in) && c02Records(p, cal, i, code, depth+1, sites) {
					rec = true
				} else if !reach(in) {
					n := 0
					c02Records(p, cal, i, code, depth+1, &n) // count the sites behind an infeasible call too
					*sites += n
				}
			}
		}
	}
	return rec
}

// ---------------------------------------------------------------- one MaxConns latch per server

// c02EngineFieldLoad resolves v to the FieldAddr of the engine field it is loaded from: a direct load
// `ng.f`, or the result of an in-package accessor method that returns such a load of its receiver's field
// (then the base is the accessor call's receiver argument).
func c02EngineFieldLoad(v ssa.Value) (fa *ssa.FieldAddr, base ssa.Value) {
	v = core.Forward(core.Strip(v))
	if u, ok := v.(*ssa.UnOp); ok && u.Op == token.MUL {
		if a, ok := u.X.(*ssa.FieldAddr); ok && strings.HasPrefix(core.FieldAddrName(a), "engine.") {
			return a, a.X
		}
	}
	if c, ok := v.(*ssa.Call); ok && !c.Call.IsInvoke() {
		cal := c.Call.StaticCallee()
		if cal == nil || cal.Blocks == nil || len(cal.Params) == 0 || len(c.Call.Args) == 0 {
			return nil, nil
		}
		rets := core.Returns(cal)
		if len(rets) != 1 || len(rets[0].Results) != 1 {
			return nil, nil
		}
		a, b := c02EngineFieldLoad(core.Result(rets[0], 0))
		if a != nil && c02Var(b) == ssa.Value(cal.Params[0]) {
			return a, c.Call.Args[0]
		}
	}
	return nil, nil
}

// c02EngineFieldOf: "engine.<field>" when v is (an accessor's) load of a field of the engine, else "".
func c02EngineFieldOf(v ssa.Value) string {
	if fa, _ := c02EngineFieldLoad(v); fa != nil {
		return core.FieldAddrName(fa)
	}
	return ""
}

// c02EngineFieldBase: the engine object v's field is loaded from.
func c02EngineFieldBase(v ssa.Value) ssa.Value {
	_, b := c02EngineFieldLoad(v)
	return b
}

// c02FieldStores lists the stores into struct field tf ("engine.maxConns") in package rel.
func c02FieldStores(p *core.Prog, rel, tf string) []*ssa.Store {
	var out []*ssa.Store
	for _, f := range p.PkgFuncs(rel) {
		out = append(out, core.StoresToField(f, tf)...)
	}
	return out
}

// c02ChainElemName names the middleware constructor an element of the default chain comes from: the
// static callee of the call (or the function itself), or - for a middleware kept in a field of the
// engine - the constructor every store into that field takes it from.
func c02ChainElemName(p *core.Prog, e ssa.Value) string {
	if n := staticCalleeName(e); n != "" {
		return n
	}
	tf := c02EngineFieldOf(e)
	if tf == "" {
		return ""
	}
	name := ""
	for _, st := range c02FieldStores(p, "api", tf) {
		n := staticCalleeName(core.Forward(st.Val))
		if n == "" || (name != "" && n != name) {
			return ""
		}
		name = n
	}
	return name
}

// c02IsEngineConfigField: v, used by the function that stores st into a field of a fresh engine, is field
// name of the Config that the same function stores into that engine's config field (`c.MaxConns` with
// `config: c`), or of that engine's config itself (`ng.config.MaxConns`).
func c02IsEngineConfigField(st *ssa.Store, v ssa.Value, name string) bool {
	f := st.Parent()
	fa, ok := st.Addr.(*ssa.FieldAddr)
	if !ok {
		return false
	}
	v = core.Forward(core.Strip(v))
	if core.FieldAddrNameOfLoad(v) != "Config."+name {
		return false
	}
	// the Config value read from
	var src ssa.Value
	switch x := v.(type) {
	case *ssa.UnOp:
		src = x.X.(*ssa.FieldAddr).X
	case *ssa.Field:
		src = x.X
	}
	// (a) the engine's own config field
	if cf, ok := src.(*ssa.FieldAddr); ok && core.FieldAddrName(cf) == "engine.config" && cf.X == fa.X {
		return true
	}
	// (b) the variable stored into engine.config of the same engine object
	for _, cs := range core.StoresToField(f, "engine.config") {
		if cs.Addr.(*ssa.FieldAddr).X != fa.X {
			continue
		}
		if ld, ok := core.Strip(cs.Val).(*ssa.UnOp); ok && ld.Op == token.MUL && ld.X == src {
			return true
		}
		if core.Strip(cs.Val) == src {
			return true
		}
	}
	return false
}

// c02ValPos is the position of a value: of the instruction defining it when it has one.
func c02ValPos(p *core.Prog, v ssa.Value) string {
	if in, ok := core.Strip(v).(ssa.Instruction); ok {
		return p.InstrPos(in)
	}
	return p.Pos(v.Pos())
}

// c02R9: rules of round 9 that stand on their own (the others strengthen rules of c02.go / c02_util.go).
func c02R9(r *core.Run) {
	p := r.P
	r.Check("D2/K13/informational-status-not-final", "timeoutWriter.WriteHeader commits its argument as the response's status (stores it into code / sets wroteHeader) exactly when it is a final status: evaluated on sample codes, no such store is reachable for an informational 1xx code other than 101 - net/http sends those as interim headers and the handler's later WriteHeader still sets the status, so latching 103 makes the client receive 103-then-200 instead of the handler's status - and one is reachable for 101 and every sampled 2xx-5xx code", func(o *core.O) {
		wh := p.Func(c02Hdl, "timeoutWriter", "WriteHeader")
		if !o.Need(wh != nil && wh.Blocks != nil, "(*timeoutWriter).WriteHeader") {
			return
		}
		idx := -1
		for i, pa := range wh.Params {
			if types.Identical(pa.Type().Underlying(), types.Typ[types.Int]) {
				idx = i
			}
		}
		if !o.Need(idx >= 0, "the status parameter of (*timeoutWriter).WriteHeader") {
			return
		}
		r.Fn(core.FuncName(wh))
		sites := 0
		for i, c := range []int64{100, 102, 103, 150, 199} {
			n := 0
			if c02Records(p, wh, idx, c, 0, &n) {
				o.Fail(p.Pos(wh.Pos()), "WriteHeader(%d) commits the informational code as the response's status: the final status the handler sets afterwards is dropped as superfluous", c)
			}
			if i == 0 {
				sites = n
			}
		}
		for _, c := range []int64{101, 200, 201, 204, 301, 304, 400, 404, 500, 503, 599} {
			n := 0
			if !c02Records(p, wh, idx, c, 0, &n) {
				o.Fail(p.Pos(wh.Pos()), "WriteHeader(%d) does not record the handler's status: the client receives 200 instead", c)
			}
		}
		o.Site(sites, core.FuncName(wh))
	})

	r.Check("D4/K7/write-deadline-covers-handler-deadline", "the connection's write deadline does not expire before the timeout handler answers: every value package api stores into http.Server.WriteTimeout has the normal form k*C with C = config.Timeout and k >= 1000000 ns (the handler deadline of a route without a timeout of its own, D5/K8/chain-config); net/http arms it when the request header has been read, so a shorter one has always passed when the deadline arm writes its 503/499 - the client sees the connection closed instead", func(o *core.O) {
		n := 0
		for _, f := range p.PkgFuncs("api") {
			for _, st := range core.StoresToField(f, "Server.WriteTimeout") {
				n++
				r.Fn(core.FuncName(f))
				a := &core.Alg{Name: func(x ssa.Value) string {
					if core.FieldAddrNameOfLoad(core.Forward(x)) == "Config.Timeout" {
						return "C"
					}
					return ""
				}}
				// integer division by a constant is taken as exact division (it rounds down, by less than 1ns)
				val, div := core.Strip(core.Forward(st.Val)), int64(1)
				for i := 0; i < 4; i++ {
					bo, ok := val.(*ssa.BinOp)
					if !ok || bo.Op != token.QUO {
						break
					}
					c, ok := core.ConstInt(bo.Y)
					if !ok || c <= 0 {
						break
					}
					div *= c
					val = core.Strip(core.Forward(bo.X))
				}
				got := a.Norm(val).Scale(big.NewRat(1, div))
				coef, rest, linear := got.Coef("C")
				k, isConst := coef.IsConst()
				if zero, ok := rest.IsConst(); !linear || !isConst || !ok || zero.Sign() != 0 {
					o.Fail(p.InstrPos(st), "%s sets http.Server.WriteTimeout to %s, which is not a multiple of config.Timeout", core.FuncName(f), got)
					continue
				}
				if k.Cmp(big.NewRat(1000000, 1)) < 0 {
					o.Fail(p.InstrPos(st), "%s sets http.Server.WriteTimeout to %s (C = config.Timeout in ms): the write deadline expires before the handler deadline 1000000*C, so the timeout response is written into a connection whose deadline has passed", core.FuncName(f), got)
				}
			}
		}
		o.Site(n, "api")
	})
}
